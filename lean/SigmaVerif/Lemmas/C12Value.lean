import SigmaVerif.Lemmas.C12Syn
import SigmaVerif.Lemmas.C12Pieces
/-! Helper lemmas for C12: value transformations (one-to-one form, idempotence, set_value, alternatives). -/
namespace SigmaVerif.Lemmas.C12
open SigmaVerif.SStr SigmaVerif.Mods SigmaVerif.Rule SigmaVerif.Rewrite

/-! ### one-to-one value transformations -/

/-- what a one-to-one value transformation (`vt.f v = [g v]`) makes of an item -/
def valueItem1 (g : PV → PV) (sc : Scope) (kv : KV) : KV :=
  if sc kv.1 kv.2 && !(hasMod kv.1 "re" || hasMod kv.1 "fieldref") then (kv.1, kv.2.map g) else kv

def valueKw1 (g : PV → PV) (sc : Scope) (vs : List PV) : List PV := if sc [] vs then vs.map g else vs

theorem flatMap_single {α β : Type} (g : α → β) : ∀ l : List α, l.flatMap (fun a => [g a]) = l.map g
  | [] => rfl
  | a :: l => by simp [flatMap_single g l]

theorem valueItem_one (vt : VT) (g : PV → PV) (hf : ∀ v, vt.f v = [g v]) (hs : vt.stripMods = false) (sc : Scope) (kv : KV) :
    valueItem vt sc kv = .one (valueItem1 g sc kv) := by
  obtain ⟨k, vs⟩ := kv
  have hfun : vt.f = fun v => [g v] := funext hf
  have halts : (vs.map vt.f).flatten = vs.map g := by
    rw [hfun]; induction vs with
    | nil => rfl
    | cons v vs ih => simp [ih]
  have hany : (vs.map vt.f).any (fun a => decide (1 < a.length)) = false := by
    rw [hfun]; simp
  unfold valueItem valueItem1
  simp only [hs, halts, hany]
  cases sc k vs <;> cases hasMod k "re" <;> cases hasMod k "fieldref" <;> simp

theorem valueKeywords_one (vt : VT) (g : PV → PV) (hf : ∀ v, vt.f v = [g v]) (sc : Scope) (vs : List PV) :
    valueKeywords vt sc vs = .values (valueKw1 g sc vs) := by
  have hfun : vt.f = fun v => [g v] := funext hf
  unfold valueKeywords valueKw1
  rw [hfun, flatMap_single]
  split <;> rfl

theorem valueDet_one (vt : VT) (g : PV → PV) (hf : ∀ v, vt.f v = [g v]) (hs : vt.stripMods = false) (sc : Scope) (d : Det) :
    valueDet vt sc d = mapDet (fun kv => .one (valueItem1 g sc kv)) (fun vs => .values (valueKw1 g sc vs)) d :=
  mapDet_congr _ _ _ _ d (fun kv _ => valueItem_one vt g hf hs sc kv) (fun vs _ => valueKeywords_one vt g hf sc vs)

/-- the scope does not look at the values a value transformation may change -/
def ScopeStable (sc : Scope) (g : PV → PV) : Prop :=
  ∀ k vs, hasMod k "fieldref" = false → sc k (vs.map g) = sc k vs

theorem fieldScope_stable (fsc : FScope) (g : PV → PV) : ScopeStable (fieldScope fsc) g := by
  intro k vs h
  simp [fieldScope, refNames, h]

theorem valueItem1_idem (g : PV → PV) (hg : ∀ v, g (g v) = g v) (sc : Scope) (hsc : ScopeStable sc g) (kv : KV) :
    valueItem1 g sc (valueItem1 g sc kv) = valueItem1 g sc kv := by
  obtain ⟨k, vs⟩ := kv
  unfold valueItem1
  cases href : hasMod k "fieldref" with
  | true => simp [href]
  | false =>
    cases hre : hasMod k "re" with
    | true => simp [hre]
    | false =>
      cases hs : sc k vs with
      | false => simp [hs]
      | true =>
        simp only [hs, hre, href, Bool.or_self, Bool.not_false, Bool.and_self, ↓reduceIte, hsc k vs href]
        simp [hg]

theorem valueKw1_idem (g : PV → PV) (hg : ∀ v, g (g v) = g v) (sc : Scope) (hsc : ScopeStable sc g) (vs : List PV) :
    valueKw1 g sc (valueKw1 g sc vs) = valueKw1 g sc vs := by
  unfold valueKw1
  cases hs : sc [] vs with
  | false => simp [hs]
  | true =>
    have : sc [] (vs.map g) = true := by rw [hsc [] vs (by decide)]; exact hs
    simp [this, hg]

/-- an idempotent one-to-one value transformation is idempotent on detections -/
theorem valueDet_idem (vt : VT) (g : PV → PV) (hf : ∀ v, vt.f v = [g v]) (hs : vt.stripMods = false)
    (hg : ∀ v, g (g v) = g v) (sc : Scope) (hsc : ScopeStable sc g) (d : Det) :
    valueDet vt sc (valueDet vt sc d) = valueDet vt sc d := by
  rw [valueDet_one vt g hf hs sc d, valueDet_one vt g hf hs sc, mapDet_plain_comp]
  exact mapDet_congr _ _ _ _ d (fun kv _ => by rw [valueItem1_idem g hg sc hsc kv])
    (fun vs _ => by rw [valueKw1_idem g hg sc hsc vs])

theorem toLower_idem (c : Char) : c.toLower.toLower = c.toLower := by
  unfold Char.toLower
  split
  · rename_i h
    rw [dif_neg]
    intro h2
    simp only [ge_iff_le, UInt32.le_iff_toNat_le, UInt32.toNat_add] at h h2
    have h3 : 'A'.val.toNat = 65 := by decide
    have h4 : 'Z'.val.toNat = 90 := by decide
    have h5 : ('a'.val - 'A'.val).toNat = 32 := by decide
    rw [h3, h4] at h h2
    rw [h5] at h2
    omega
  · rfl

theorem toUpper_idem (c : Char) : c.toUpper.toUpper = c.toUpper := by
  unfold Char.toUpper
  split
  · rename_i h
    rw [dif_neg]
    intro h2
    simp only [UInt32.le_iff_toNat_le, UInt32.toNat_add] at h h2
    have h3 : 'a'.val.toNat = 97 := by decide
    have h4 : 'z'.val.toNat = 122 := by decide
    have h5 : ('A'.val - 'a'.val).toNat = 4294967264 := by decide
    rw [h3, h4] at h h2
    rw [h5] at h2
    omega
  · rfl

/-- `case` as a one-to-one map on values -/
def casePV (cf : Char → Char) : PV → PV
  | .str s => .str (s.map cf)
  | v => v

theorem caseString_f (cf : Char → Char) (v : PV) : (caseString cf).f v = [casePV cf v] := by
  cases v <;> rfl

theorem casePV_idem (cf : Char → Char) (h : ∀ c, cf (cf c) = cf c) (v : PV) : casePV cf (casePV cf v) = casePV cf v := by
  cases v <;> simp [casePV, h]

/-! ### set_value -/

theorem setValue_item (v0 : PV) (sc : Scope) (kv : KV) (h : sc kv.1 kv.2 = true) :
    valueItem (setValue v0) sc kv = .one (stripKey kv.1, kv.2.map (fun _ => v0)) := by
  simp [valueItem, h, setValue, flatMap_single]

/-! ### keys rebuilt from a field and modifiers -/

theorem splitOn_parts_nosep (sep : Char) : ∀ (s : Str), ∀ p ∈ splitOn sep s, sep ∉ p
  | [], p, hp => by simp [splitOn] at hp; simp [hp]
  | c :: r, p, hp => by
    rw [splitOn_cons] at hp
    cases hs : splitOn sep r with
    | nil => exact absurd hs (splitOn_ne_nil sep r)
    | cons a t =>
      have ih := splitOn_parts_nosep sep r
      rw [hs] at hp ih
      simp only [] at hp
      by_cases hc : c = sep
      · simp only [hc, beq_self_eq_true, ↓reduceIte, List.mem_cons] at hp
        rcases hp with rfl | rfl | hp
        · simp
        · exact ih _ (by simp)
        · exact ih _ (by simp [hp])
      · have hc' : (c == sep) = false := by simpa using hc
        simp only [hc', Bool.false_eq_true, ↓reduceIte, List.mem_cons] at hp
        rcases hp with rfl | hp
        · have := ih a (by simp)
          simp only [List.mem_cons, not_or]
          exact ⟨fun h => hc h.symm, this⟩
        · exact ih _ (by simp [hp])

theorem splitOn_join (f : Str) (hf : '|' ∉ f) : ∀ ms : List Str, (∀ m ∈ ms, '|' ∉ m) →
    splitOn '|' (f ++ joinMods ms) = f :: ms
  | [], _ => by
    simp only [joinMods, List.flatMap_nil, List.append_nil]
    have := splitOn_append '|' [] rfl f hf
    simpa [splitOn] using this
  | m :: ms, h => by
    have ih := splitOn_join m (h m (by simp)) ms (fun x hx => h x (by simp [hx]))
    have hrest : joinMods (m :: ms) = '|' :: (m ++ joinMods ms) := by simp [joinMods]
    rw [hrest, splitOn_append '|' ('|' :: (m ++ joinMods ms)) (by simp [List.takeWhile_cons]) f hf]
    rw [splitOn_cons, ih]
    simp

theorem keyMods_nobar (k : Str) : ∀ m ∈ keyMods k, '|' ∉ m := by
  intro m hm
  exact splitOn_parts_nosep '|' k m (List.mem_of_mem_drop hm)

/-- a key rebuilt from the field of `k` and some of the modifiers of `k` -/
theorem rebuilt_key (k : Str) (ms : List Str) (h : ∀ m ∈ ms, m ∈ keyMods k) :
    fieldOf (keyField k ++ joinMods ms) = fieldOf k ∧ keyMods (keyField k ++ joinMods ms) = ms := by
  have hs := splitOn_join (keyField k) (keyField_no_bar k) ms (fun m hm => keyMods_nobar k m (h m hm))
  have h1 := splitOn_key (keyField k ++ joinMods ms)
  rw [hs] at h1
  simp only [List.cons.injEq] at h1
  exact ⟨by simp [fieldOf, ← h1.1], h1.2.symm⟩

theorem stripKey_spec (k : Str) :
    fieldOf (stripKey k) = fieldOf k ∧ keyMods (stripKey k) = (keyMods k).filter listMods.contains :=
  rebuilt_key k _ (fun _ hm => (List.mem_filter.1 hm).1)

theorem dropAllKey_spec (k : Str) :
    fieldOf (dropAllKey k) = fieldOf k ∧ keyMods (dropAllKey k) = (keyMods k).filter (· != "all".toList) :=
  rebuilt_key k _ (fun _ hm => (List.mem_filter.1 hm).1)

end SigmaVerif.Lemmas.C12
