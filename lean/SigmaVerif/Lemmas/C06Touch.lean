import SigmaVerif.Lemmas.C06Det
/-!
# C06 helper lemmas, part 3: items changed by a transformation; the detection section
-/
namespace SigmaVerif.Ser
open SigmaVerif.SStr SigmaVerif.SStrSpec SigmaVerif.Mods
open SigmaVerif.Rule (PV splitOn pvToVal)

/-! ## an item whose conversion to plain was disabled -/

mutual
/-- the detection contains an item on which `disable_conversion_to_plain()` was called -/
def hasDisabled : Det → Bool
  | .item i => i.orig.isNone
  | .node cs _ => hasDisabledL cs
def hasDisabledL : List Det → Bool
  | [] => false
  | c :: cs => hasDisabled c || hasDisabledL cs
end

theorem toPlainItem_disabled (it : Item) (h : it.orig = none) : toPlainItem it = .error .refused := by
  unfold toPlainItem
  rw [h]

mutual
theorem toPlainDet_disabled : ∀ (d : Det), hasDisabled d = true → ∀ q, toPlainDet d ≠ .ok q
  | .item i, h, q => by
    rw [hasDisabled] at h
    rw [toPlainDet, toPlainItem_disabled i (by simpa using h)]
    intro e; cases e
  | .node cs l, h, q => by
    rw [hasDisabled] at h
    rw [toPlainDet]
    split
    · intro e; cases e
    · cases hc : toPlainDets cs with
      | error e => intro e'; cases e'
      | ok ps => exact absurd hc (toPlainDets_disabled cs h ps)
theorem toPlainDets_disabled : ∀ (cs : List Det), hasDisabledL cs = true → ∀ qs, toPlainDets cs ≠ .ok qs
  | [], h, _ => by simp [hasDisabledL] at h
  | c :: cs, h, qs => by
    rw [hasDisabledL] at h
    rw [toPlainDets]
    cases hc : toPlainDet c with
    | error e => intro e'; cases e'
    | ok p =>
      cases hcs : toPlainDets cs with
      | error e => intro e'; cases e'
      | ok ps =>
        rcases Bool.or_eq_true_iff.mp h with h1 | h2
        · exact absurd hc (toPlainDet_disabled c h1 p)
        · exact absurd hcs (toPlainDets_disabled cs h2 ps)
end

/-! ## `rename`: a one-to-one field mapping of an item bound to a field -/

theorem build_rename (env : Env) (f f' : Str) (ids : List Str) (vals : List PV) (it : Item)
    (h : build env f ids vals = .ok it) (hf : f.isEmpty = false) (hf' : f'.isEmpty = false) :
    build env f' ids vals = .ok (rename f' it) := by
  unfold build at h ⊢
  simp only [hf, hf', Bool.false_eq_true, if_false, Option.isSome_some] at h ⊢
  by_cases hk : ids.all known = true
  · simp only [hk, if_true] at h ⊢
    split at h
    · rename_i r hr
      simp only [Except.ok.injEq] at h
      subst h
      simp only [rename]
    · cases h
  · simp [hk] at h

/-- After a one-to-one field mapping the item still serialises, and what is written loads to the
transformed item — provided the new field name can be written as a key at all (non-empty, no `|`). -/
theorem rename_reload (env : Env) (k : Str) (v : PVals) (it : Item) (f' : Str)
    (h : fromMapping env k v = .ok it) (hfield : it.field.isSome = true)
    (hf1 : f'.isEmpty = false) (hf2 : '|' ∉ f') (hv : valsOk k v = true) :
    ∃ p, toPlainItem (rename f' it) = .ok p ∧ fromIPlain env p = .ok (rename f' it) := by
  have h0 := h
  rw [fromMapping_eq] at h
  obtain ⟨hfd, -, -, -⟩ := build_fields h
  have hf : ((splitOn '|' k).headD []).isEmpty = false := by
    cases hc : ((splitOn '|' k).headD []).isEmpty with
    | false => rfl
    | true =>
      rw [hfd, if_pos hc] at hfield
      cases hfield
  have hb := build_rename env _ f' _ _ it h hf hf1
  have hnb := splitOn_parts_noSep '|' k
  have hparts := parts_shape k
  have hids : ∀ m ∈ (splitOn '|' k).drop 1, '|' ∉ m := fun m hm => hnb m (by rw [hparts]; exact List.mem_cons_of_mem _ hm)
  -- the key under which the renamed item would have been loaded
  let k' := joinBar (f' :: (splitOn '|' k).drop 1)
  have hsp : splitOn '|' k' = f' :: (splitOn '|' k).drop 1 := splitOn_joinBar f' _ hf2 hids
  have hk' : fromMapping env k' v = .ok (rename f' it) := by
    rw [fromMapping_eq, hsp]
    simpa using hb
  have hraw : keyRaw k' = keyRaw k := by
    unfold keyRaw; rw [hsp]; simp
  obtain ⟨hp, hr⟩ := item_plain_reload env k' v (rename f' it) hk'
  exact ⟨_, hp, hr (by unfold valsOk at hv ⊢; rw [hraw]; exact hv)⟩

/-- the same, with the shape of what is written: a one-key map -/
theorem rename_reload_keyed (env : Env) (k : Str) (v : PVals) (it : Item) (f' : Str)
    (h : fromMapping env k v = .ok it) (hfield : it.field.isSome = true)
    (hf1 : f'.isEmpty = false) (hf2 : '|' ∉ f') (hv : valsOk k v = true) :
    ∃ kk vv, toPlainItem (rename f' it) = .ok (.keyed kk vv) ∧ fromMapping env kk vv = .ok (rename f' it) := by
  obtain ⟨p, hp, hr⟩ := rename_reload env k v it f' h hfield hf1 hf2 hv
  cases p with
  | keyed kk vv => exact ⟨kk, vv, hp, hr⟩
  | bare vv =>
    exfalso
    unfold toPlainItem at hp
    cases ho : (rename f' it).orig with
    | none => simp [ho] at hp
    | some orig =>
      simp only [ho] at hp
      have hmods : (rename f' it).mods = it.mods := rfl
      have hfld : (rename f' it).field = some f' := rfl
      rw [hmods, hfld] at hp
      cases hm : mapE (valToPlain (isRaw it.mods)) orig with
      | error e => simp [hm] at hp
      | ok pvs => simp [hm] at hp

/-! ## `resync` / `valueTouch`: a value transformation -/

/-- values whose plain form loads to the same value again -/
def plainFaithful : Val → Bool
  | .str false s => noPh s && bsOk s
  | .num _ => true
  | .bool _ => true
  | .null => true
  | _ => false

def plainOfVal : Val → PV
  | .str _ s => .str (toPlain s)
  | .num n => .num n
  | .bool b => .bool b
  | _ => .null

theorem valToPlain_faithful (v : Val) (h : plainFaithful v = true) :
    valToPlain false v = .ok (plainOfVal v) ∧ pvToVal false (plainOfVal v) = v := by
  cases v with
  | str c s =>
    cases c with
    | true => simp [plainFaithful] at h
    | false =>
      simp only [plainFaithful, Bool.and_eq_true] at h
      refine ⟨rfl, ?_⟩
      simp only [plainOfVal, pvToVal, Bool.false_eq_true, if_false]
      have := (parseAux_toPlain s h.1 h.2).1
      unfold parse
      rw [this]
  | num n => exact ⟨rfl, rfl⟩
  | bool b => exact ⟨rfl, rfl⟩
  | null => exact ⟨rfl, rfl⟩
  | re a b c d => simp [plainFaithful] at h
  | cidr t => simp [plainFaithful] at h
  | cmp a b => simp [plainFaithful] at h
  | fieldref a b c => simp [plainFaithful] at h
  | exists_ b => simp [plainFaithful] at h
  | tspart a b => simp [plainFaithful] at h
  | expansion vs => simp [plainFaithful] at h

/-- After a value transformation on an item WITHOUT modifiers (`original_value` is set to the new
values) the item serialises and what is written loads to the transformed item — provided every
new value is a plain string (no placeholder, D3 side condition), number, boolean or null. -/
theorem resync_reload (env : Env) (it : Item) (vs : List Val) (f : Str)
    (hm : it.mods = []) (hfield : it.field = if f.isEmpty then none else some f) (hf : '|' ∉ f)
    (hl : it.linkAnd = false) (hn : it.negated = false)
    (hvs : ∀ v ∈ vs, plainFaithful v = true) :
    ∃ p, toPlainItem (resync vs it) = .ok p ∧ fromIPlain env p = .ok (resync vs it) := by
  have hpl : mapE (valToPlain false) vs = .ok (vs.map plainOfVal) :=
    mapE_ok _ _ _ (fun a ha => (valToPlain_faithful a (hvs a ha)).1)
  have hback : (vs.map plainOfVal).map (pvToVal false) = vs := by
    rw [List.map_map]
    conv => rhs; rw [← List.map_id vs]
    apply List.map_congr_left
    intro a ha
    exact (valToPlain_faithful a (hvs a ha)).2
  obtain ⟨fld, mods, value, la, ng, orig⟩ := it
  simp only at hm hl hn hfield
  subst hm hl hn
  subst hfield
  have hbuild : build env f [] (vs.map plainOfVal) = .ok
      (resync vs ⟨if f.isEmpty then none else some f, [], value, false, false, orig⟩) := by
    unfold build
    simp only [List.all_nil, if_true, List.map_nil, show isRaw [] = false from rfl, hback, applyChainAux]
    rfl
  unfold toPlainItem
  simp only [resync, show isRaw [] = false from rfl, hpl, List.isEmpty_nil, Bool.and_true]
  by_cases hfe : f.isEmpty = true
  · have : f = [] := by simpa using hfe
    subst this
    simp only [List.isEmpty_nil, if_true, Option.isNone_none]
    refine ⟨_, rfl, ?_⟩
    simp only [fromIPlain, fromMapping_eq, collapse_toList]
    have : splitOn '|' ([] : Str) = [[]] := by simp [splitOn]
    rw [this]
    simpa [resync] using hbuild
  · simp only [hfe, Bool.false_eq_true, if_false, Option.isNone_some]
    refine ⟨_, rfl, ?_⟩
    simp only [fromIPlain, fromMapping_eq, collapse_toList, emitKey, Option.getD_some, joinBar,
      splitOn_noSep '|' f hf, List.headD_cons, List.drop_succ_cons, List.drop_zero]
    simpa [resync, hfe] using hbuild

theorem plainType_of_faithful (v : Val) (h : plainFaithful v = true) : plainType v = true := by
  cases v with
  | str c s => cases c <;> simp_all [plainFaithful, plainType]
  | num n => rfl
  | bool b => rfl
  | null => rfl
  | re a b c d => simp [plainFaithful] at h
  | cidr t => simp [plainFaithful] at h
  | cmp a b => simp [plainFaithful] at h
  | fieldref a b c => simp [plainFaithful] at h
  | exists_ b => simp [plainFaithful] at h
  | tspart a b => simp [plainFaithful] at h
  | expansion vs => simp [plainFaithful] at h

/-- a value transformation on an item with modifiers, or one that yields a value that is not exactly a
string / number / boolean / null, disables serialisation -/
theorem valueTouch_refuses (vs : List Val) (it : Item)
    (h : (it.mods.isEmpty && vs.all plainType) = false) :
    toPlainItem (valueTouch vs it) = .error .refused := by
  unfold valueTouch
  rw [h]
  exact toPlainItem_disabled _ rfl

theorem valueTouch_resync (vs : List Val) (it : Item) (hm : it.mods = [])
    (hvs : ∀ v ∈ vs, plainFaithful v = true) : valueTouch vs it = resync vs it := by
  unfold valueTouch
  have : vs.all plainType = true := List.all_eq_true.mpr (fun v hv => plainType_of_faithful v (hvs v hv))
  simp [hm, this]

/-! ## the detection section -/

def GoodDoc (p : PDoc) : Bool := p.dets.all (fun nd => Good nd.2)

theorem named_rt (env : Env) : ∀ (l : List (Str × PDef)) (ds : List (Str × Det)),
    l.all (fun nd => Good nd.2) = true → mapNamed (fromDef env) l = .ok ds →
    ∃ qs, mapNamed toPlainDet ds = .ok qs ∧ mapNamed (fromDef env) qs = .ok ds := by
  intro l
  induction l with
  | nil =>
    intro ds _ h
    simp only [mapNamed, Except.ok.injEq] at h
    subst h
    exact ⟨[], rfl, rfl⟩
  | cons nd r ih =>
    intro ds hg h
    obtain ⟨n, p⟩ := nd
    simp only [List.all_cons, Bool.and_eq_true] at hg
    simp only [mapNamed] at h
    cases hd : fromDef env p with
    | error e => simp [hd] at h
    | ok d =>
      cases hr : mapNamed (fromDef env) r with
      | error e => simp [hd, hr] at h
      | ok ds' =>
        simp only [hd, hr, Except.ok.injEq] at h
        subst h
        obtain ⟨q, h1, h2, -⟩ := det_rt env p d hg.1 hd
        obtain ⟨qs, h3, h4⟩ := ih ds' hg.2 hr
        exact ⟨(n, q) :: qs, by simp only [mapNamed, h1, h3], by simp only [mapNamed, h2, h4]⟩

theorem doc_rt (env : Env) (p : PDoc) (D : Detections) (hg : GoodDoc p = true)
    (h : loadDoc env p = .ok D) :
    ∃ p', serDoc D = .ok p' ∧ loadDoc env p' = .ok D := by
  unfold loadDoc at h
  cases hc : p.cond with
  | missing => simp [hc] at h
  | one c =>
    simp only [hc] at h
    cases hd : mapNamed (fromDef env) p.dets with
    | error e => simp [hd] at h
    | ok ds =>
      simp only [hd] at h
      by_cases he : ds.isEmpty = true
      · simp [he] at h
      · simp only [he, Bool.false_eq_true, if_false, List.isEmpty_cons, Except.ok.injEq] at h
        subst h
        obtain ⟨qs, h1, h2⟩ := named_rt env p.dets ds hg hd
        refine ⟨{ dets := qs, cond := .one c }, by simp only [serDoc, h1], ?_⟩
        simp only [loadDoc, h2, he, Bool.false_eq_true, if_false, List.isEmpty_cons]
  | many cs =>
    simp only [hc] at h
    cases hd : mapNamed (fromDef env) p.dets with
    | error e => simp [hd] at h
    | ok ds =>
      simp only [hd] at h
      by_cases he : ds.isEmpty = true
      · simp [he] at h
      · simp only [he, Bool.false_eq_true, if_false] at h
        by_cases hce : cs.isEmpty = true
        · simp [hce] at h
        · simp only [hce, Bool.false_eq_true, if_false, Except.ok.injEq] at h
          subst h
          obtain ⟨qs, h1, h2⟩ := named_rt env p.dets ds hg hd
          match cs, hce with
          | [c], _ =>
            refine ⟨{ dets := qs, cond := .one c }, by simp only [serDoc, h1], ?_⟩
            simp only [loadDoc, h2, he, Bool.false_eq_true, if_false, List.isEmpty_cons]
          | a :: b :: r, _ =>
            refine ⟨{ dets := qs, cond := .many (a :: b :: r) }, by simp only [serDoc, h1], ?_⟩
            simp only [loadDoc, h2, he, Bool.false_eq_true, if_false, List.isEmpty_cons]

end SigmaVerif.Ser
