import SigmaVerif.Model.Det
/-!
# C20 lemmas, part 2: `FieldMappingTracking` — the state reached is the same *set-wise* whatever
enumeration order the sets involved have (congruence of every operation for `Track.Equiv`).
-/
namespace SigmaVerif.Lemmas.C20
open SigmaVerif.Cond SigmaVerif.Det

theorem SetEq.refl (a : List α) : SetEq a a := fun _ => Iff.rfl
theorem SetEq.symm {a b : List α} (h : SetEq a b) : SetEq b a := fun x => (h x).symm
theorem SetEq.trans {a b c : List α} (h : SetEq a b) (h' : SetEq b c) : SetEq a c :=
  fun x => (h x).trans (h' x)
theorem SetEq.of_perm {a b : List α} (h : a.Perm b) : SetEq a b := fun _ => h.mem_iff

theorem SetEq.contains_eq [BEq α] [LawfulBEq α] {a b : List α} (h : SetEq a b) (x : α) :
    a.contains x = b.contains x := by
  rw [Bool.eq_iff_iff]
  simp only [List.contains_iff_mem]
  exact h x

theorem SetEq.filter {a b : List α} {p q : α → Bool} (h : SetEq a b) (hp : ∀ x, p x = q x) :
    SetEq (a.filter p) (b.filter q) := by
  intro x
  simp only [List.mem_filter, h x, hp x]

theorem SetEq.map {a b : List α} (f : α → β) (h : SetEq a b) : SetEq (a.map f) (b.map f) := by
  intro y
  simp only [List.mem_map]
  constructor <;> rintro ⟨x, hx, rfl⟩
  · exact ⟨x, (h x).mp hx, rfl⟩
  · exact ⟨x, (h x).mpr hx, rfl⟩

theorem SetEq.append {a b c d : List α} (h : SetEq a b) (h' : SetEq c d) : SetEq (a ++ c) (b ++ d) := by
  intro x
  simp only [List.mem_append, h x, h' x]

theorem SetEq.flatMap {a b : List α} {f g : α → List β} (h : SetEq a b) (hf : ∀ x, SetEq (f x) (g x)) :
    SetEq (a.flatMap f) (b.flatMap g) := by
  intro y
  simp only [List.mem_flatMap]
  constructor <;> rintro ⟨x, hx, hy⟩
  · exact ⟨x, (h x).mp hx, (hf x y).mp hy⟩
  · exact ⟨x, (h x).mpr hx, (hf x y).mpr hy⟩

theorem Track.Equiv.refl (S : Track) : S.Equiv S := ⟨rfl, SetEq.refl _, SetEq.refl _, SetEq.refl _⟩
theorem Track.Equiv.symm {S T : Track} (h : S.Equiv T) : T.Equiv S :=
  ⟨h.keys.symm, SetEq.symm h.pairs, SetEq.symm h.rkeys, SetEq.symm h.rpairs⟩
theorem Track.Equiv.trans {S T U : Track} (h : S.Equiv T) (h' : T.Equiv U) : S.Equiv U :=
  ⟨h.keys.trans h'.keys, SetEq.trans h.pairs h'.pairs, SetEq.trans h.rkeys h'.rkeys, SetEq.trans h.rpairs h'.rpairs⟩

theorem sourcesOf_congr {S T : Track} (h : S.Equiv T) (t : Key) : SetEq (S.sourcesOf t) (T.sourcesOf t) :=
  SetEq.map _ (SetEq.filter h.rpairs (fun _ => rfl))

theorem targetsOf_congr {S T : Track} (h : S.Equiv T) (s : Key) : SetEq (S.targetsOf s) (T.targetsOf s) :=
  SetEq.map _ (SetEq.filter h.pairs (fun _ => rfl))

theorem remap_congr {S T : Track} (h : S.Equiv T) (src : Key) {tgt tgt' : List Key}
    (ht : SetEq tgt tgt') : (remap S src tgt).Equiv (remap T src tgt') := by
  have hc : S.rkeys.contains src = T.rkeys.contains src := SetEq.contains_eq h.rkeys src
  have hs := sourcesOf_congr h src
  unfold remap
  cases hT : T.rkeys.contains src
  · rw [hc, hT]
    simpa using h
  · rw [hc, hT]
    simp only [if_true]
    refine ⟨h.keys, ?_, ?_, ?_⟩
    · refine SetEq.append (SetEq.filter h.pairs ?_) (SetEq.flatMap hs (fun sf => SetEq.map _ ht))
      intro p
      rw [SetEq.contains_eq hs p.1]
    · exact SetEq.append (SetEq.filter h.rkeys (fun _ => rfl)) ht
    · exact SetEq.append (SetEq.filter h.rpairs (fun _ => rfl)) (SetEq.flatMap ht (fun t => SetEq.map _ hs))

/-- `add_mapping` maps equal states (as sets) and equal targets (as sets) to equal states -/
theorem addMapping_congr {S T : Track} (h : S.Equiv T) (src : Key) {tgt tgt' : List Key}
    (ht : SetEq tgt tgt') : (addMapping S src tgt).Equiv (addMapping T src tgt') := by
  have h1 := remap_congr h src ht
  unfold addMapping
  refine ⟨?_, ?_, ?_, ?_⟩
  · simp only [h1.keys]
  · exact SetEq.append h1.pairs (SetEq.map _ ht)
  · exact SetEq.append h1.rkeys ht
  · exact SetEq.append h1.rpairs (SetEq.map _ ht)

/-- two call sequences that differ only in the enumeration order of the target collections -/
inductive OpsRel : List (Key × List Key) → List (Key × List Key) → Prop
  | nil : OpsRel [] []
  | cons {s : Key} {t t' : List Key} {r r' : List (Key × List Key)} :
      SetEq t t' → OpsRel r r' → OpsRel ((s, t) :: r) ((s, t') :: r')

theorem OpsRel.refl : ∀ ops, OpsRel ops ops
  | [] => .nil
  | (_, _) :: r => .cons (SetEq.refl _) (OpsRel.refl r)

theorem runOps_congr {ops ops' : List (Key × List Key)} (ho : OpsRel ops ops') :
    ∀ {S T : Track}, S.Equiv T → (runOps S ops).Equiv (runOps T ops') := by
  induction ho with
  | nil => intro S T h; exact h
  | cons ht _ ih =>
    intro S T h
    simp only [runOps, List.foldl_cons]
    exact ih (addMapping_congr h _ ht)

theorem items_rel {O O' : Track} (h : O.Equiv O') : OpsRel O.items O'.items := by
  unfold Track.items
  rw [h.keys]
  induction O'.keys with
  | nil => exact .nil
  | cons k ks ih => exact .cons (targetsOf_congr h k) ih

/-- `merge` maps equal states (as sets) to equal states -/
theorem merge_congr {S T O O' : Track} (h : S.Equiv T) (ho : O.Equiv O') :
    (merge S O).Equiv (merge T O') :=
  runOps_congr (items_rel ho) h

end SigmaVerif.Lemmas.C20
