import SigmaVerif.Lemmas.C12Value
import SigmaVerif.Lemmas.C12Len
/-! Helper lemmas for C12: the values of an item are linked value by value — the meaning of an item
with the values `a ++ b` is the AND/OR of the items with the values `a` and `b`. -/
namespace SigmaVerif.Lemmas.C12
open SigmaVerif.SStr SigmaVerif.Mods SigmaVerif.Rule SigmaVerif.Rewrite

theorem mapM'_append (F : Val → Except MErr (List Val)) : ∀ (A B a b : List Val),
    mapM' F A = .ok a → mapM' F B = .ok b → mapM' F (A ++ B) = .ok (a ++ b)
  | [], B, a, b, hA, hB => by simp [mapM'] at hA; subst hA; simpa using hB
  | v :: A, B, a, b, hA, hB => by
    simp only [mapM'] at hA
    cases hv : F v with
    | error e => rw [hv] at hA; cases hM : mapM' F A <;> rw [hM] at hA <;> cases hA
    | ok x =>
      cases hM : mapM' F A with
      | error e => rw [hv, hM] at hA; cases hA
      | ok y =>
        rw [hv, hM] at hA; cases hA
        simp [mapM', hv, mapM'_append F A B y b hM hB]

/-- one modifier on the values `A ++ B` -/
theorem applyModifier_append (env : Env) (first : Bool) (m : String) (hf l n : Bool) (A B : List Val) (ia ib : Item)
    (hA : applyModifier env first m { hasField := hf, vals := A, linkAnd := l, negated := n } = .ok ia)
    (hB : applyModifier env first m { hasField := hf, vals := B, linkAnd := l, negated := n } = .ok ib) :
    applyModifier env first m { hasField := hf, vals := A ++ B, linkAnd := l, negated := n } =
      .ok { hasField := hf, vals := ia.vals ++ ib.vals, linkAnd := ia.linkAnd, negated := ia.negated } ∧
    ia.hasField = hf ∧ ib.hasField = hf ∧ ib.linkAnd = ia.linkAnd ∧ ib.negated = ia.negated ∧
    ia.vals.length = A.length ∧ ib.vals.length = B.length := by
  unfold applyModifier at hA hB ⊢
  split at hA
  · rename_i hm; simp only [hm, ↓reduceIte] at hB ⊢; cases hA; cases hB; simp
  · rename_i hm
    simp only [hm, ↓reduceIte] at hB ⊢
    split at hA
    · rename_i hm2; simp only [hm2, ↓reduceIte] at hB ⊢; cases hA; cases hB; simp
    · rename_i hm2
      simp only [hm2, ↓reduceIte] at hB ⊢
      split at hA
      · rename_i hm3
        simp only [hm3, ↓reduceIte] at hB ⊢
        have hmv : m ∈ valueModifiers := by simpa using hm3
        cases hMA : mapM' (applyToVal env hf first m 8) A with
        | error e => simp only [hMA] at hA; cases hA
        | ok a =>
          cases hMB : mapM' (applyToVal env hf first m 8) B with
          | error e => simp only [hMB] at hB; cases hB
          | ok b =>
            simp only [hMA] at hA; simp only [hMB] at hB
            cases hA; cases hB
            rw [mapM'_append _ A B a b hMA hMB]
            exact ⟨rfl, rfl, rfl, rfl, rfl,
              mapM'_length _ (applyToVal_len1 env hf first m hmv 8) A a hMA,
              mapM'_length _ (applyToVal_len1 env hf first m hmv 8) B b hMB⟩
      · cases hA

theorem applyChainAux_append (env : Env) : ∀ (mods : List String) (first : Bool) (hf l n : Bool) (A B : List Val) (ia ib : Item),
    applyChainAux env first mods { hasField := hf, vals := A, linkAnd := l, negated := n } = .ok ia →
    applyChainAux env first mods { hasField := hf, vals := B, linkAnd := l, negated := n } = .ok ib →
    applyChainAux env first mods { hasField := hf, vals := A ++ B, linkAnd := l, negated := n } =
      .ok { hasField := hf, vals := ia.vals ++ ib.vals, linkAnd := ia.linkAnd, negated := ia.negated } ∧
    ib.linkAnd = ia.linkAnd ∧ ib.negated = ia.negated ∧ ia.vals.length = A.length ∧ ib.vals.length = B.length
  | [], first, hf, l, n, A, B, ia, ib, hA, hB => by
    simp only [applyChainAux, Except.ok.injEq] at hA hB ⊢
    subst hA; subst hB; simp
  | m :: ms, first, hf, l, n, A, B, ia, ib, hA, hB => by
    simp only [applyChainAux] at hA hB ⊢
    cases h1 : applyModifier env first m { hasField := hf, vals := A, linkAnd := l, negated := n } with
    | error e => rw [h1] at hA; cases hA
    | ok ia1 =>
      cases h2 : applyModifier env first m { hasField := hf, vals := B, linkAnd := l, negated := n } with
      | error e => rw [h2] at hB; cases hB
      | ok ib1 =>
        rw [h1] at hA; rw [h2] at hB
        obtain ⟨h3, hfa, hfb, hl, hn, hla, hlb⟩ := applyModifier_append env first m hf l n A B ia1 ib1 h1 h2
        rw [h3]
        obtain ⟨hfa', va, la, na⟩ := ia1
        obtain ⟨hfb', vb, lb, nb⟩ := ib1
        simp only at hfa hfb hl hn hla hlb
        rw [hfa] at hA
        rw [hfb, hl, hn] at hB
        obtain ⟨h4, h5, h6, h7, h8⟩ := applyChainAux_append env ms false hf la na va vb ia ib hA hB
        exact ⟨h4, h5, h6, by omega, by omega⟩

theorem applyModifier_flags (env : Env) (first : Bool) (m : String) (it it' : Item)
    (h : applyModifier env first m it = .ok it') :
    it'.linkAnd = (it.linkAnd || m == "all") ∧ it'.negated = (it.negated || m == "neq") := by
  unfold applyModifier at h
  split at h
  · rename_i hm
    cases h
    have : (m == "neq") = false := by
      have : m = "all" := by simpa using hm
      subst this; decide
    simp [hm, this]
  · rename_i hm
    split at h
    · rename_i hm2; cases h; simp [hm, hm2]
    · rename_i hm2
      split at h
      · cases hM : mapM' (applyToVal env it.hasField first m 8) it.vals with
        | error e => rw [hM] at h; cases h
        | ok b => rw [hM] at h; cases h; simp [hm, hm2]
      · cases h

theorem applyChainAux_flags (env : Env) : ∀ (mods : List String) (first : Bool) (it it' : Item),
    applyChainAux env first mods it = .ok it' →
    it'.linkAnd = (it.linkAnd || mods.contains "all") ∧ it'.negated = (it.negated || mods.contains "neq")
  | [], _, it, it', h => by simp [applyChainAux] at h; subst h; simp
  | m :: ms, first, it, it', h => by
    simp only [applyChainAux] at h
    cases h1 : applyModifier env first m it with
    | error e => rw [h1] at h; cases h
    | ok it1 =>
      rw [h1] at h
      obtain ⟨a1, a2⟩ := applyModifier_flags env first m it it1 h1
      obtain ⟨b1, b2⟩ := applyChainAux_flags env ms false it1 it' h
      rw [b1, b2, a1, a2]
      simp only [List.contains_cons, Bool.or_assoc]
      constructor
      · cases it.linkAnd <;> simp [Bool.or_comm, BEq.comm]
      · cases it.negated <;> simp [Bool.or_comm, BEq.comm]

theorem ofList_eq_iff (m : Str) (s : String) : String.ofList m = s ↔ m = s.toList := by
  constructor
  · intro h; rw [← h, String.toList_ofList]
  · intro h; rw [h, String.ofList_toList]

theorem contains_ofList (s : String) : ∀ ms : List Str, (ms.map String.ofList).contains s = ms.contains s.toList
  | [] => rfl
  | m :: ms => by
    simp only [List.map_cons, List.contains_cons, contains_ofList s ms]
    congr 1
    by_cases h : m = s.toList
    · simp [h]
    · have : ¬ String.ofList m = s := fun e => h ((ofList_eq_iff m s).1 e)
      have h1 : (s == String.ofList m) = false := by simpa using fun e => this e.symm
      have h2 : (s.toList == m) = false := by simpa using fun e => h e.symm
      rw [h1, h2]

/-- the chain on the values `a ++ b` -/
theorem chainOf_append (cx : Ctx) (hf : Bool) (ms : List Str) (a b : List PV) (ia ib : Item)
    (ha : chainOf cx hf ms a = .ok ia) (hb : chainOf cx hf ms b = .ok ib) :
    chainOf cx hf ms (a ++ b) = .ok { hasField := hf, vals := ia.vals ++ ib.vals, linkAnd := ia.linkAnd, negated := ia.negated } ∧
    ib.linkAnd = ia.linkAnd ∧ ib.negated = ia.negated ∧ ia.vals.length = a.length ∧ ib.vals.length = b.length := by
  unfold chainOf applyChain at ha hb ⊢
  split at ha
  · cases ha
  · rename_i hfind
    simp only [hfind] at hb ⊢
    simp only [List.map_append]
    have := applyChainAux_append cx.env (ms.map String.ofList) true hf false false _ _ ia ib ha hb
    simpa using this

theorem mapME_append2 {α β : Type} (F : α → Except SpecErr β) : ∀ (A B : List α) (x y : List β),
    mapME F A = .ok x → mapME F B = .ok y → mapME F (A ++ B) = .ok (x ++ y)
  | [], B, x, y, hA, hB => by simp [mapME] at hA; subst hA; simpa using hB
  | v :: A, B, x, y, hA, hB => by
    simp only [mapME] at hA
    cases hv : F v with
    | error e => rw [hv] at hA; cases hM : mapME F A <;> rw [hM] at hA <;> cases hA
    | ok z =>
      cases hM : mapME F A with
      | error e => rw [hv, hM] at hA; cases hA
      | ok zs =>
        rw [hv, hM] at hA; cases hA
        simp [mapME, hv, mapME_append2 F A B zs y hM hB]

theorem mapME_length {α β : Type} (F : α → Except SpecErr β) : ∀ (A : List α) (x : List β), mapME F A = .ok x → x.length = A.length
  | [], x, h => by simp [mapME] at h; simp [← h]
  | v :: A, x, h => by
    simp only [mapME] at h
    cases hv : F v with
    | error e => rw [hv] at h; cases hM : mapME F A <;> rw [hM] at h <;> cases h
    | ok z =>
      cases hM : mapME F A with
      | error e => rw [hv, hM] at h; cases h
      | ok zs => rw [hv, hM] at h; cases h; simp [mapME_length F A zs hM]

/-- the body of an item as a function of the meanings of its (non-empty) values -/
def linkBE (linkAnd negated : Bool) (es : List BE) : BE :=
  let e := match es with | [e] => e | es => if linkAnd then .and es else .or es
  if negated then .not e else e

theorem itemBody_cons (cx : Ctx) (field : Option Str) (it : Item) (hne : it.vals ≠ []) :
    itemBody cx field it = (mapME (valBE' cx field) it.vals).map (linkBE it.linkAnd it.negated) := by
  unfold itemBody
  cases hv : it.vals with
  | nil => exact absurd hv hne
  | cons v vs =>
    simp only
    cases mapME (valBE' cx field) (v :: vs) with
    | error e => rfl
    | ok es =>
      match es with
      | [] => rfl
      | [e] => rfl
      | _ :: _ :: _ => rfl

theorem eval_linkBE (l n : Bool) (es : List BE) (hne : es ≠ []) (ρ : Atom → Bool) :
    (linkBE l n es).eval ρ = (n != (if l then es.all (·.eval ρ) else es.any (·.eval ρ))) := by
  unfold linkBE
  match es with
  | [] => exact absurd rfl hne
  | [e] => cases n <;> cases l <;> simp [BE.eval]
  | e1 :: e2 :: es => cases n <;> cases l <;> simp [BE.eval, evalAll_eq_all, evalAny_eq_any]

/-- **values are linked value by value**: the item with the values `a ++ b` is, for every valuation,
the AND (below `all`, or — by De Morgan — below `neq` without `all`) or the OR (otherwise) of the
item with the values `a` and the item with the values `b` -/
theorem item_append_eval (cx : Ctx) (k : Str) (a b : List PV) (ea eb : BE) (hane : a ≠ []) (hbne : b ≠ [])
    (ha : itemBE cx (some k) a = .ok ea) (hb : itemBE cx (some k) b = .ok eb) :
    ∃ e, itemBE cx (some k) (a ++ b) = .ok e ∧
      ∀ ρ : Atom → Bool, e.eval ρ =
        if hasMod k "all" != hasMod k "neq" then (ea.eval ρ && eb.eval ρ) else (ea.eval ρ || eb.eval ρ) := by
  rw [itemBE_some] at ha hb ⊢
  unfold itemOf at ha hb ⊢
  cases hca : chainOf cx (fieldOf k).isSome (keyMods k) a with
  | error e => rw [hca] at ha; cases ha
  | ok ia =>
    cases hcb : chainOf cx (fieldOf k).isSome (keyMods k) b with
    | error e => rw [hcb] at hb; cases hb
    | ok ib =>
      rw [hca] at ha; rw [hcb] at hb
      simp only at ha hb
      obtain ⟨hab, hl, hn, hla, hlb⟩ := chainOf_append cx _ _ a b ia ib hca hcb
      rw [hab]
      simp only
      have hia : ia.vals ≠ [] := by intro h; rw [h] at hla; exact hane (List.eq_nil_of_length_eq_zero hla.symm)
      have hib : ib.vals ≠ [] := by intro h; rw [h] at hlb; exact hbne (List.eq_nil_of_length_eq_zero hlb.symm)
      rw [itemBody_cons cx _ ia hia] at ha
      rw [itemBody_cons cx _ ib hib] at hb
      cases hma : mapME (valBE' cx (fieldOf k)) ia.vals with
      | error e => rw [hma] at ha; cases ha
      | ok xa =>
        cases hmb : mapME (valBE' cx (fieldOf k)) ib.vals with
        | error e => rw [hmb] at hb; cases hb
        | ok xb =>
          rw [hma] at ha; rw [hmb] at hb
          simp only [Except.map, Except.ok.injEq] at ha hb
          have hxa : xa ≠ [] := by
            intro h; have := mapME_length _ _ _ hma; rw [h] at this; exact hia (List.eq_nil_of_length_eq_zero this.symm)
          have hxb : xb ≠ [] := by
            intro h; have := mapME_length _ _ _ hmb; rw [h] at this; exact hib (List.eq_nil_of_length_eq_zero this.symm)
          rw [itemBody_cons cx _ _ (by simp [hia])]
          simp only [mapME_append2 _ _ _ xa xb hma hmb, Except.map]
          refine ⟨_, rfl, fun ρ => ?_⟩
          -- the flags of the chain are those of the key
          have hflags : ia.linkAnd = hasMod k "all" ∧ ia.negated = hasMod k "neq" := by
            unfold chainOf applyChain at hca
            split at hca
            · cases hca
            · obtain ⟨f1, f2⟩ := applyChainAux_flags cx.env _ true _ ia hca
              simp only [Bool.false_or] at f1 f2
              refine ⟨f1.trans ?_, f2.trans ?_⟩
              · exact contains_ofList "all" (keyMods k)
              · exact contains_ofList "neq" (keyMods k)
          rw [eval_linkBE _ _ _ (by simp [hxa]) ρ, ← ha, ← hb, hl, hn,
              eval_linkBE _ _ _ hxa ρ, eval_linkBE _ _ _ hxb ρ, hflags.1, hflags.2]
          cases hasMod k "all" <;> cases hasMod k "neq" <;> simp [List.all_append, List.any_append] <;>
            cases xa.all (fun x => x.eval ρ) <;> cases xb.all (fun x => x.eval ρ) <;>
            cases xa.any (fun x => x.eval ρ) <;> cases xb.any (fun x => x.eval ρ) <;> rfl

/-- an OR-linked item (no `all`, no `neq`) is the OR of the items with one value each -/
theorem item_or_of_singles (cx : Ctx) (k : Str) (hall : hasMod k "all" = false) (hneq : hasMod k "neq" = false)
    (es : PV → BE) : ∀ l : List PV, l ≠ [] → (∀ v ∈ l, itemBE cx (some k) [v] = .ok (es v)) →
      ∃ e, itemBE cx (some k) l = .ok e ∧ ∀ ρ : Atom → Bool, e.eval ρ = l.any (fun v => (es v).eval ρ)
  | [], h, _ => absurd rfl h
  | [v], _, h => ⟨es v, h v (by simp), fun ρ => by simp⟩
  | v :: w :: l, _, h => by
    obtain ⟨e', h1, h2⟩ := item_or_of_singles cx k hall hneq es (w :: l) (by simp) (fun x hx => h x (by simp [hx]))
    obtain ⟨e, h3, h4⟩ := item_append_eval cx k [v] (w :: l) (es v) e' (by simp) (by simp) (h v (by simp)) h1
    refine ⟨e, by simpa using h3, fun ρ => ?_⟩
    rw [h4 ρ, h2 ρ]
    simp [hall, hneq]

/-- an item whose values are all the same value means what the item with that one value means -/
theorem item_replicate (cx : Ctx) (k : Str) (v0 : PV) (e0 : BE) (h0 : itemBE cx (some k) [v0] = .ok e0) :
    ∀ n : Nat, ∃ e, itemBE cx (some k) (List.replicate (n + 1) v0) = .ok e ∧ ∀ ρ : Atom → Bool, e.eval ρ = e0.eval ρ
  | 0 => ⟨e0, h0, fun _ => rfl⟩
  | n + 1 => by
    obtain ⟨e', h1, h2⟩ := item_replicate cx k v0 e0 h0 n
    obtain ⟨e, h3, h4⟩ := item_append_eval cx k [v0] (List.replicate (n + 1) v0) e0 e' (by simp) (by simp) h0 h1
    refine ⟨e, by simpa [List.replicate_succ] using h3, fun ρ => ?_⟩
    rw [h4 ρ, h2 ρ]
    split <;> simp

end SigmaVerif.Lemmas.C12
