import SigmaVerif.Lemmas.C06Sem
/-!
# C06 helper lemmas, part 6: the alias spellings `i`, `m`, `dotall` of the regular-expression flag
modifiers behave like the identifiers `to_plain` writes (`ignorecase`, `multiline`, `s`) in the
specification of the modifier chain — hence the specification's reading of `key: value` is the
meaning of the loaded object for *every* key
-/
namespace SigmaVerif.Ser
open SigmaVerif.SStr SigmaVerif.SStrSpec SigmaVerif.Mods
open SigmaVerif.Rule (PV splitOn pvToVal Ctx SpecErr BE mapME valBE')

/-- two outcomes agree up to the payload of the error -/
def sameOk {α : Type} (a b : Except MErr α) : Prop := a.toOption = b.toOption

theorem sameOk_refl {α : Type} (a : Except MErr α) : sameOk a a := rfl

theorem sameOk_ok {α : Type} {a b : Except MErr α} (h : sameOk a b) {r : α} (ha : a = .ok r) :
    b = .ok r := by
  unfold sameOk at h
  subst ha
  cases b with
  | ok x => simp [Except.toOption] at h; rw [h]
  | error e => simp [Except.toOption] at h

theorem sameOk_cases {α : Type} {a b : Except MErr α} (h : sameOk a b) :
    (∃ r, a = .ok r ∧ b = .ok r) ∨ (∃ e e', a = .error e ∧ b = .error e') := by
  unfold sameOk at h
  cases a with
  | ok x =>
    cases b with
    | ok y => simp [Except.toOption] at h; subst h; exact .inl ⟨x, rfl, rfl⟩
    | error e => simp [Except.toOption] at h
  | error e =>
    cases b with
    | ok y => simp [Except.toOption] at h
    | error e' => exact .inr ⟨e, e', rfl, rfl⟩

theorem mv_i (env : Env) (hf first : Bool) (v : Val) :
    sameOk (modifyValue env hf first "i" v) (modifyValue env hf first "ignorecase" v) := by
  cases v <;> rfl
theorem mv_m (env : Env) (hf first : Bool) (v : Val) :
    sameOk (modifyValue env hf first "m" v) (modifyValue env hf first "multiline" v) := by
  cases v <;> rfl
theorem mv_s (env : Env) (hf first : Bool) (v : Val) :
    sameOk (modifyValue env hf first "dotall" v) (modifyValue env hf first "s" v) := by
  cases v <;> rfl

theorem mapM'_sameOk (f g : Val → Except MErr (List Val)) (h : ∀ v, sameOk (f v) (g v)) :
    ∀ l, sameOk (mapM' f l) (mapM' g l) := by
  intro l
  induction l with
  | nil => rfl
  | cons v vs ih =>
    rcases sameOk_cases (h v) with ⟨a, h1, h2⟩ | ⟨e, e', h1, h2⟩
    · rcases sameOk_cases ih with ⟨b, h3, h4⟩ | ⟨x, x', h3, h4⟩
      · simp only [mapM', h1, h2, h3, h4]; rfl
      · simp only [mapM', h1, h2, h3, h4]; rfl
    · rcases sameOk_cases ih with ⟨b, h3, h4⟩ | ⟨x, x', h3, h4⟩
      · simp only [mapM', h1, h2, h3, h4]; rfl
      · simp only [mapM', h1, h2, h3, h4]; rfl

theorem applyToVal_sameOk (env : Env) (hf first : Bool) (m m' : String)
    (h : ∀ v, sameOk (modifyValue env hf first m v) (modifyValue env hf first m' v)) :
    ∀ fuel v, sameOk (applyToVal env hf first m fuel v) (applyToVal env hf first m' fuel v) := by
  intro fuel
  induction fuel with
  | zero =>
    intro v
    cases v <;> simp only [applyToVal] <;> exact h _
  | succ f ih =>
    intro v
    cases v with
    | expansion vs =>
      simp only [applyToVal]
      rcases sameOk_cases (mapM'_sameOk _ _ ih vs) with ⟨a, h1, h2⟩ | ⟨e, e', h1, h2⟩
      · rw [h1, h2]; rfl
      · rw [h1, h2]; rfl
    | str c s => simp only [applyToVal]; exact h _
    | num n => simp only [applyToVal]; exact h _
    | bool b => simp only [applyToVal]; exact h _
    | null => simp only [applyToVal]; exact h _
    | re a b c d => simp only [applyToVal]; exact h _
    | cidr t => simp only [applyToVal]; exact h _
    | cmp a b => simp only [applyToVal]; exact h _
    | fieldref a b c => simp only [applyToVal]; exact h _
    | exists_ b => simp only [applyToVal]; exact h _
    | tspart a b => simp only [applyToVal]; exact h _

/-- an alias pair: both are value modifiers, neither is `all`/`neq`, and `modifyValue` agrees -/
theorem applyModifier_sameOk (env : Env) (first : Bool) (m m' : String) (it : Mods.Item)
    (hm : (m == "all") = false ∧ (m == "neq") = false ∧ valueModifiers.contains m = true)
    (hm' : (m' == "all") = false ∧ (m' == "neq") = false ∧ valueModifiers.contains m' = true)
    (h : ∀ hf v, sameOk (modifyValue env hf first m v) (modifyValue env hf first m' v)) :
    sameOk (applyModifier env first m it) (applyModifier env first m' it) := by
  unfold applyModifier
  simp only [hm.1, hm.2.1, hm.2.2, hm'.1, hm'.2.1, hm'.2.2, Bool.false_eq_true, if_false, if_true]
  rcases sameOk_cases (mapM'_sameOk _ _ (applyToVal_sameOk env it.hasField first m m' (h it.hasField) 8) it.vals)
    with ⟨a, h1, h2⟩ | ⟨e, e', h1, h2⟩
  · rw [h1, h2]; rfl
  · rw [h1, h2]; rfl

theorem applyModifier_canon (env : Env) (first : Bool) (m : Str) (it : Mods.Item) :
    sameOk (applyModifier env first (String.ofList m) it) (applyModifier env first (String.ofList (canon m)) it) := by
  unfold canon
  by_cases h1 : m = "i".toList
  · subst h1
    exact applyModifier_sameOk env first "i" "ignorecase" it (by decide) (by decide) (fun hf v => mv_i env hf first v)
  · by_cases h2 : m = "m".toList
    · subst h2
      exact applyModifier_sameOk env first "m" "multiline" it (by decide) (by decide) (fun hf v => mv_m env hf first v)
    · by_cases h3 : m = "dotall".toList
      · subst h3
        exact applyModifier_sameOk env first "dotall" "s" it (by decide) (by decide) (fun hf v => mv_s env hf first v)
      · rw [if_neg h1, if_neg h2, if_neg h3]
        exact sameOk_refl _

theorem applyChainAux_canon (env : Env) : ∀ (ids : List Str) (first : Bool) (it : Mods.Item),
    sameOk (applyChainAux env first (ids.map String.ofList) it)
      (applyChainAux env first ((ids.map canon).map String.ofList) it) := by
  intro ids
  induction ids with
  | nil => intro first it; rfl
  | cons m ms ih =>
    intro first it
    simp only [List.map_cons, applyChainAux]
    rcases sameOk_cases (applyModifier_canon env first m it) with ⟨a, h1, h2⟩ | ⟨e, e', h1, h2⟩
    · rw [h1, h2]; exact ih false a
    · rw [h1, h2]; rfl

theorem isRaw_canon (ids : List Str) : isRaw (ids.map canon) = isRaw ids := by
  unfold isRaw
  induction ids with
  | nil => rfl
  | cons m ms ih =>
    simp only [List.map_cons, List.contains_cons, ih]
    congr 1
    unfold canon
    by_cases h1 : m = "i".toList
    · subst h1; decide
    · by_cases h2 : m = "m".toList
      · subst h2; decide
      · by_cases h3 : m = "dotall".toList
        · subst h3; decide
        · rw [if_neg h1, if_neg h2, if_neg h3]

/-- The specification's reading of `key: values` is the meaning of the object `from_mapping`
builds — for every key, alias spellings included. -/
theorem itemBE_eq_objBE_all (cx : Ctx) (k : Str) (v : PVals) (it : Item)
    (h : fromMapping cx.env k v = .ok it) :
    Rule.itemBE cx (some k) v.toList = objBE cx it := by
  rw [fromMapping_eq] at h
  have hparts := parts_shape k
  generalize hf : (splitOn '|' k).headD [] = f at *
  generalize hids : (splitOn '|' k).drop 1 = ids at *
  unfold build at h
  by_cases hk : ids.all known = true
  · rw [if_pos hk] at h
    simp only [isRaw_canon] at h
    unfold Rule.itemBE
    simp only [hparts, List.drop_succ_cons, List.drop_zero]
    unfold applyChain
    rw [find?_unknown_none ids hk]
    have hraw : (ids.map String.ofList).contains "re" = isRaw ids := rfl
    simp only [hraw]
    cases hr : applyChainAux cx.env true ((ids.map canon).map String.ofList)
        { hasField := (if f.isEmpty = true then none else some f).isSome,
          vals := v.toList.map (pvToVal (isRaw ids)) } with
    | error e =>
      simp only [hr] at h
      cases h
    | ok r =>
      simp only [hr, Except.ok.injEq] at h
      subst h
      have hsame := applyChainAux_canon cx.env ids true
        { hasField := (if f.isEmpty = true then none else some f).isSome,
          vals := v.toList.map (pvToVal (isRaw ids)) }
      have hr' : applyChainAux cx.env true (ids.map String.ofList)
          { hasField := (if f.isEmpty = true then none else some f).isSome,
            vals := v.toList.map (pvToVal (isRaw ids)) } = .ok r := by
        rcases sameOk_cases hsame with ⟨a, h1, h2⟩ | ⟨e, e', h1, h2⟩
        · rw [h2] at hr; cases hr; exact h1
        · rw [h2] at hr; cases hr
      simp only [hr']
      rfl
  · simp [hk] at h

end SigmaVerif.Ser
