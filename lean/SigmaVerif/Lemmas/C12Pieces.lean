import SigmaVerif.Lemmas.C12Det
/-! Helper lemmas for C12: pieces of a rewritten map, one-to-many renaming, dropping, added conditions. -/
namespace SigmaVerif.Lemmas.C12
open SigmaVerif.SStr SigmaVerif.Mods SigmaVerif.Rule SigmaVerif.Rewrite

/-- how `detBE` links the meanings of the parts: a single part stands for itself -/
def conj : List BE → BE
  | [e] => e
  | es => .and es
def disj : List BE → BE
  | [e] => e
  | es => .or es

theorem evalAll_eq_all (ρ : Atom → Bool) : ∀ es : List BE, BE.evalAll ρ es = es.all (·.eval ρ)
  | [] => rfl
  | e :: es => by simp [BE.evalAll, evalAll_eq_all ρ es]
theorem evalAny_eq_any (ρ : Atom → Bool) : ∀ es : List BE, BE.evalAny ρ es = es.any (·.eval ρ)
  | [] => rfl
  | e :: es => by simp [BE.evalAny, evalAny_eq_any ρ es]

theorem eval_conj (ρ : Atom → Bool) (es : List BE) : (conj es).eval ρ = es.all (·.eval ρ) := by
  match es with
  | [] => simp [conj, BE.eval, BE.evalAll]
  | [e] => simp [conj]
  | e1 :: e2 :: es => simp [conj, BE.eval, evalAll_eq_all]
theorem eval_disj (ρ : Atom → Bool) (es : List BE) : (disj es).eval ρ = es.any (·.eval ρ) := by
  match es with
  | [] => simp [disj, BE.eval, BE.evalAny]
  | [e] => simp [disj]
  | e1 :: e2 :: es => simp [disj, BE.eval, evalAny_eq_any]

theorem match_conj (x : Except SpecErr (List BE)) :
    (match x with
      | .ok [e] => Except.ok e
      | .ok es => .ok (.and es)
      | .error e => .error e : Except SpecErr BE) = x.map conj := by
  cases x with
  | error e => rfl
  | ok es => match es with
    | [] => rfl
    | [e] => rfl
    | _ :: _ :: _ => rfl
theorem match_disj (x : Except SpecErr (List BE)) :
    (match x with
      | .ok [e] => Except.ok e
      | .ok es => .ok (.or es)
      | .error e => .error e : Except SpecErr BE) = x.map disj := by
  cases x with
  | error e => rfl
  | ok es => match es with
    | [] => rfl
    | [e] => rfl
    | _ :: _ :: _ => rfl

theorem detBE_map (cx : Ctx) (n : Nat) (items : List KV) :
    detBE cx n (.map items) = (mapME (fun kv => itemBE cx (some kv.1) kv.2) items).map conj := by
  cases n <;> simp only [detBE] <;> exact match_conj _
theorem detBE_values (cx : Ctx) (n : Nat) (vs : List PV) : detBE cx n (.values vs) = itemBE cx none vs := by
  cases n <;> rfl
theorem detBE_list (cx : Ctx) (n : Nat) (ds : List Det) :
    detBE cx (n + 1) (.list ds) = (mapME (detBE cx n) ds).map disj := by
  simp only [detBE]; exact match_disj _
theorem detBE_all (cx : Ctx) (n : Nat) (ds : List Det) :
    detBE cx (n + 1) (.all ds) = (mapME (detBE cx n) ds).map conj := by
  simp only [detBE]; exact match_conj _

theorem detBE_single (cx : Ctx) (n : Nat) (kv : KV) : detBE cx n (.map [kv]) = itemBE cx (some kv.1) kv.2 := by
  rw [detBE_map]
  simp only [mapME]
  cases itemBE cx (some kv.1) kv.2 <;> rfl

/-- a rewritten map is the AND of its pieces, in the order of the items -/
theorem detBE_assemble (cx : Ctx) (n : Nat) (os : List Out) :
    detBE cx (n + 1) (assemble os) = (mapME (fun o => detBE cx n o.det) os).map conj := by
  unfold assemble
  cases hm : os.mapM Out.kv? with
  | some kvs =>
    have hos : os = kvs.map Out.one := by
      clear n
      induction os generalizing kvs with
      | nil => simp at hm; simp [← hm]
      | cons o os ih =>
        cases o with
        | sub d => simp [Out.kv?] at hm
        | one kv =>
          simp only [List.mapM_cons, Out.kv?] at hm
          cases hm' : os.mapM Out.kv? with
          | none => simp [hm'] at hm
          | some kvs' =>
            simp [hm'] at hm
            subst hm
            simp [ih kvs' hm']
    subst hos
    rw [detBE_map, mapME_map]
    simp only [Out.det, detBE_single]
  | none =>
    simp only [detBE_all, mapME_map]

/-! ### one-to-many -/

/-- an item on field `f` mapped to several fields: the OR of one copy per target field -/
theorem oneToMany_sem (cx : Ctx) (n : Nat) (k : Str) (vs : List PV) (gs : List Str)
    (hf : fieldOf k ≠ none) (hno : hasMod k "fieldref" = false) (hg : ∀ g ∈ gs, g ≠ [] ∧ '|' ∉ g) :
    detBE cx (n + 1) (.list (gs.map (fun g => .map [(g ++ keyRest k, vs)]))) =
      (mapME (fun g => (itemBE cx (some k) vs).map (mapAtoms (shiftAtom (some g) id))) gs).map disj := by
  rw [detBE_list, mapME_map]
  congr 1
  refine mapME_congr _ _ gs (fun g hgm => ?_)
  obtain ⟨hne, hbar⟩ := hg g hgm
  rw [detBE_single, itemBE_some, itemBE_some]
  simp only [fieldOf_rekey g k hbar hne, keyMods_rekey g k hbar]
  have hiso : (some g : Option Str).isSome = (fieldOf k).isSome := by
    cases hk : fieldOf k with
    | none => exact absurd hk hf
    | some _ => rfl
  refine itemOf_shift (shift_shiftAtom (fieldOf k) (some g) id) hiso cx _ ?_ vs
  intro hm
  have : hasMod k "fieldref" = true := by simpa [hasMod] using hm
  rw [hno] at this; cases this

theorem mapME_ok_map {α : Type} (F : α → BE) : ∀ l : List α, mapME (fun a => (Except.ok (F a) : Except SpecErr BE)) l = .ok (l.map F)
  | [] => rfl
  | a :: l => by simp [mapME, mapME_ok_map F l]

theorem mapME_error {α : Type} (x : SpecErr) : ∀ l : List α, l ≠ [] → mapME (fun _ => (Except.error x : Except SpecErr BE)) l = .error x
  | [], h => absurd rfl h
  | a :: l, _ => by simp [mapME]

/-! ### dropping -/

/-- the meanings of the items of a map, split along a predicate -/
theorem mapME_filter {α β : Type} (F : α → Except SpecErr β) (p : α → Bool) :
    ∀ (l : List α) (es : List β), mapME F l = .ok es →
      ∃ ek er, mapME F (l.filter p) = .ok ek ∧ mapME F (l.filter (fun a => !p a)) = .ok er ∧
        ∀ q : β → Bool, es.all q = (ek.all q && er.all q)
  | [], es, h => by
    simp [mapME] at h; subst h
    exact ⟨[], [], rfl, rfl, fun q => rfl⟩
  | a :: l, es, h => by
    simp only [mapME] at h
    cases hF : F a with
    | error e => rw [hF] at h; cases hM : mapME F l <;> rw [hM] at h <;> cases h
    | ok b =>
      cases hM : mapME F l with
      | error e => rw [hF, hM] at h; cases h
      | ok bs =>
        rw [hF, hM] at h; cases h
        obtain ⟨ek, er, h1, h2, h3⟩ := mapME_filter F p l bs hM
        by_cases hp : p a
        · refine ⟨b :: ek, er, ?_, ?_, ?_⟩
          · simp [hp, mapME, hF, h1]
          · simp [hp, h2]
          · intro q; simp [h3 q, Bool.and_assoc]
        · refine ⟨ek, b :: er, ?_, ?_, ?_⟩
          · simp [hp, h1]
          · simp [hp, mapME, hF, h2]
          · intro q; simp [h3 q]; cases q b <;> cases ek.all q <;> cases er.all q <;> rfl

theorem dropDetL_eq (sc : Scope) : ∀ ds : List Det, dropDetL sc ds = ds.filterMap (dropDet sc)
  | [] => rfl
  | d :: ds => by
    simp only [dropDetL, List.filterMap_cons, dropDetL_eq sc ds]
    cases dropDet sc d <;> rfl

end SigmaVerif.Lemmas.C12
