import SigmaVerif.Lemmas.C07Det
/-! # C07 lemmas: rules and filters — both loading modes as functions of one error list -/
namespace SigmaVerif.Load

@[simp] theorem tailRaise_true (errs : List SigmaCls) : tailRaise true errs = .ok errs := by
  cases errs <;> rfl
@[simp] theorem tailRaise_false_nil : tailRaise false [] = .ok [] := rfl
@[simp] theorem tailRaise_false_cons (e : SigmaCls) (es : List SigmaCls) : tailRaise false (e :: es) = .error (.sigma e) := rfl

/-- what strict loading does with an error list: nothing collected = success, else the first is raised -/
def strictOf (errs : List SigmaCls) : R (List SigmaCls) :=
  match errs with
  | [] => .ok []
  | e :: _ => .error (.sigma e)

theorem tailRaise_false (errs : List SigmaCls) : tailRaise false errs = strictOf errs := by
  cases errs <;> rfl

theorem commonParams_true (m : Dict) : commonParams true m = .ok (commonErrs m) := by
  simp [commonParams, commonErrsM_eq]
theorem commonParams_false (m : Dict) : commonParams false m = strictOf (commonErrs m) := by
  simp [commonParams, commonErrsM_eq, tailRaise_false]

def docErrs : Y → List SigmaCls | .map _ => [] | _ => [.typeError]
def docMap : Y → Dict | .map m => m | _ => []

/-- the shape shared by `SigmaRule.from_dict` and `SigmaFilter.from_dict` -/
def loadTwo (sec : Dict → R (List SigmaCls)) (collect : Bool) (d : Y) : R (List SigmaCls) := do
  let (m, e0) ← documentAsMap collect d
  let e1 ← commonParams collect m
  let e2 ← logsourceSection m
  let e3 ← sec m
  tailRaise collect (e0 ++ e1 ++ e2 ++ e3)

theorem ruleFromDict_eq : ruleFromDict = loadTwo detectionSection := rfl
theorem filterFromDict_eq : filterFromDict = loadTwo filterSection := rfl

/-- all errors of a rule / filter document, in the order the loader finds them -/
def twoErrs (sec : Dict → R (List SigmaCls)) (d : Y) : List SigmaCls :=
  docErrs d ++ commonErrs (docMap d) ++ okVal (logsourceSection (docMap d)) [] ++ okVal (sec (docMap d)) []

@[simp] theorem okVal_ok {α : Type} (a d : α) : okVal (Except.ok a : R α) d = a := rfl

theorem loadTwo_collect {sec : Dict → R (List SigmaCls)} (hsec : ∀ m, Total (sec m)) (d : Y) :
    loadTwo sec true d = .ok (twoErrs sec d) := by
  obtain ⟨l, hl⟩ := logsourceSection_total (docMap d)
  obtain ⟨s, hs⟩ := hsec (docMap d)
  cases d <;> simp only [docMap] at hl hs <;>
    simp [loadTwo, documentAsMap, commonParams_true, twoErrs, docErrs, docMap, hl, hs]

theorem loadTwo_strict {sec : Dict → R (List SigmaCls)} (hsec : ∀ m, Total (sec m)) (d : Y) :
    loadTwo sec false d = strictOf (twoErrs sec d) := by
  obtain ⟨l, hl⟩ := logsourceSection_total (docMap d)
  obtain ⟨s, hs⟩ := hsec (docMap d)
  cases d
  case map m =>
    simp only [docMap] at hl hs
    simp only [loadTwo, documentAsMap, pure_eq, ok_bind, commonParams_false, twoErrs, docErrs, docMap, hl, hs, okVal_ok]
    cases hc : commonErrs m with
    | nil => simp [strictOf, tailRaise_false]
    | cons e es => simp [strictOf]
  all_goals simp [loadTwo, documentAsMap, twoErrs, docErrs, strictOf]

/-- the collected error list of a rule document -/
def ruleErrs (d : Y) : List SigmaCls := twoErrs detectionSection d
/-- the collected error list of a filter document -/
def filterErrs (d : Y) : List SigmaCls := twoErrs filterSection d

theorem rule_collect_eq (d : Y) : ruleFromDict true d = .ok (ruleErrs d) := by
  rw [ruleFromDict_eq]; exact loadTwo_collect detectionSection_total d
theorem rule_strict_eq (d : Y) : ruleFromDict false d = strictOf (ruleErrs d) := by
  rw [ruleFromDict_eq]; exact loadTwo_strict detectionSection_total d
theorem filter_collect_eq (d : Y) : filterFromDict true d = .ok (filterErrs d) := by
  rw [filterFromDict_eq]; exact loadTwo_collect filterSection_total d
theorem filter_strict_eq (d : Y) : filterFromDict false d = strictOf (filterErrs d) := by
  rw [filterFromDict_eq]; exact loadTwo_strict filterSection_total d

end SigmaVerif.Load
