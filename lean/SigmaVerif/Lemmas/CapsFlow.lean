import SigmaVerif.Lemmas.Caps
/-!
# C16: the generic invariants instantiated — stored capability values, gate of every effect, base directories.
-/
namespace SigmaVerif.Caps

/-! ## stored values come from the caller -/

/-- every stored capability value is the class default or the caller's -/
structure Bits (c : Caller) (params : KV) : Prop where
  atv : stored params kAtv (.bool false) = .bool false ∨ stored params kAtv (.bool false) = .bool c.atv
  aes : stored params kAes (.bool false) = .bool false ∨ stored params kAes (.bool false) = .bool c.aes
  vap : stored params kVap .null = .null ∨ stored params kVap .null = vapVal c.vap

theorem Caller.val_atv (c : Caller) : c.val kAtv = .bool c.atv := by simp [Caller.val]
theorem Caller.val_vap (c : Caller) : c.val kVap = vapVal c.vap := by
  have : (kVap == kAtv) = false := by decide
  simp [Caller.val, this]
theorem Caller.val_aes (c : Caller) : c.val kAes = .bool c.aes := by
  have h1 : (kAes == kAtv) = false := by decide
  have h2 : (kAes == kVap) = false := by decide
  simp [Caller.val, h1, h2]

theorem Bits.nil (c : Caller) : Bits c [] := ⟨.inl rfl, .inl rfl, .inl rfl⟩

theorem Bits.via {f : Fwd} {c : Caller} {p : KV} (h : Bits (c.via f) p) : Bits c p := by
  refine ⟨?_, ?_, ?_⟩
  · rcases h.atv with h | h
    · exact .inl h
    · cases hf : f.atv <;> simp [Caller.via, hf] at h
      · exact .inl h
      · exact .inr h
  · rcases h.aes with h | h
    · exact .inl h
    · cases hf : f.aes <;> simp [Caller.via, hf] at h
      · exact .inl h
      · exact .inr h
  · rcases h.vap with h | h
    · exact .inl h
    · cases hf : f.vap <;> simp [Caller.via, hf] at h
      · exact .inl (by simpa [vapVal] using h)
      · exact .inr h

theorem bits_of_closed {s : Site} {c : Caller} {cls : Cls} {kv : KV}
    (hcl : ∀ k ∈ optInKeys, keyOpen s cls k = false) (hc : construct cls (siteParams s c cls kv) = true) :
    Bits c (siteParams s c cls kv) := by
  refine ⟨?_, ?_, ?_⟩
  · rcases closed_lookup (hcl kAtv (by simp [optInKeys])) hc with h | h
    · left; simp [stored, h]
    · right; simp [stored, h, Caller.val_atv]
  · rcases closed_lookup (hcl kAes (by simp [optInKeys])) hc with h | h
    · left; simp [stored, h]
    · right; simp [stored, h, Caller.val_aes]
  · rcases closed_lookup (hcl kVap (by simp [optInKeys])) hc with h | h
    · left; simp [stored, h]
    · right; simp [stored, h, Caller.val_vap]

theorem mem_of_lookup {reg : Reg} {t : String} {cls : Cls} (h : reg.lookup t = some cls) : (t, cls) ∈ reg := by
  induction reg with
  | nil => simp [List.lookup] at h
  | cons e es ih =>
    obtain ⟨a, b⟩ := e
    cases hk : (t == a) with
    | true =>
      rw [List.lookup, hk] at h
      have : t = a := by simpa using hk
      simp at h
      subst this; subst h
      exact List.mem_cons_self
    | false =>
      rw [List.lookup, hk] at h
      exact List.mem_cons_of_mem _ (ih h)

theorem closed_of_siteSafe {s : Site} {reg : Reg} {t : String} {cls : Cls} (hs : siteSafe s reg = true)
    (hl : reg.lookup t = some cls) : ∀ k ∈ optInKeys, keyOpen s cls k = false := by
  intro k hk
  simp only [siteSafe, List.all_eq_true] at hs
  have := hs (t, cls) (mem_of_lookup hl) k hk
  simpa using this

theorem Cfg.safe_parts {cfg : Cfg} (h : cfg.safe = true) :
    siteSafe cfg.item cfg.regT = true ∧ siteSafe cfg.item cfg.regPP = true ∧
    siteSafe cfg.finTop cfg.regF = true ∧ siteSafe cfg.finNested cfg.regF = true := by
  simp only [Cfg.safe, Bool.and_eq_true] at h
  exact ⟨h.1.1.1, h.1.1.2, h.1.2, h.2⟩

/-! ## the gate of every effect of loading -/

/-- what a `vars` execution during construction implies -/
theorem tmplInit_evs {cfg : Cfg} {w : World} {params : KV} {e : Event} (he : e ∈ (tmplInit cfg w params).evs) :
    ∃ p, e = .exec p ∧ varsAllowed cfg w params = true ∧
      (stored params kVap .null = .null ∨ ∃ bs, stored params kVap .null = .strs bs ∧ pathOk cfg w bs p = true) := by
  unfold tmplInit at he
  cases hv : List.lookup "vars" params with
  | none => simp [hv] at he
  | some v =>
    have execEv : ∀ rp, e ∈ (execVars w rp).evs → e = .exec rp := by
      intro rp h
      unfold execVars at h
      by_cases hf : w.fails rp = true
      · simp [hf] at h
      · simp [hf, Run.emit] at h; exact h
    by_cases ha : varsAllowed cfg w params = true
    · cases v with
      | null => simp [hv] at he
      | str p =>
        simp only [hv, ha, Bool.not_true, Bool.false_eq_true, if_false] at he
        cases hs : stored params kVap .null with
        | null =>
          simp only [hs] at he
          exact ⟨_, execEv _ he, ha, .inl rfl⟩
        | strs bs =>
          simp only [hs] at he
          by_cases hp : pathOk cfg w bs (w.realpath p) = true
          · simp only [hp, if_true] at he
            exact ⟨_, execEv _ he, ha, .inr ⟨bs, rfl, hp⟩⟩
          · simp [hp] at he
        | bool b => simp [hs] at he
        | str s => simp [hs] at he
        | other t => simp [hs] at he
      | bool b => simp [hv, ha] at he
      | strs l => simp [hv, ha] at he
      | other t => simp [hv, ha] at he
    · cases v <;> simp [hv, ha] at he

/-- the gate seen from the caller: the stored flag can only be the caller's -/
theorem varsAllowed_of_bits {cfg : Cfg} {w : World} {c : Caller} {params : KV} (hb : Bits c params)
    (h : varsAllowed cfg w params = true) : c.atv = true ∨ envOn cfg w.envVars = true := by
  simp only [varsAllowed, Bool.or_eq_true] at h
  rcases h with h | h
  · rcases hb.atv with hb | hb
    · rw [hb] at h; simp [Val.truthy] at h
    · rw [hb] at h; exact .inl (by simpa [Val.truthy] using h)
  · exact .inr h

theorem externalAllowed_of_bits {cfg : Cfg} {w : World} {c : Caller} {params : KV} (hb : Bits c params)
    (h : externalAllowed cfg w params = true) : c.aes = true ∨ envOn cfg w.envExt = true := by
  simp only [externalAllowed, Bool.or_eq_true] at h
  rcases h with h | h
  · rcases hb.aes with hb | hb
    · rw [hb] at h; simp [Val.truthy] at h
    · rw [hb] at h; exact .inl (by simpa [Val.truthy] using h)
  · exact .inr h

/-- the event predicate "a vars execution whose gate the caller or the environment opened" -/
def GateQ (cfg : Cfg) (w : World) (c : Caller) (e : Event) : Prop :=
  e.isExec = true ∧ (c.atv = true ∨ envOn cfg w.envVars = true)

theorem GateQ.via {cfg : Cfg} {w : World} {f : Fwd} {c : Caller} {e : Event} (h : GateQ cfg w (c.via f) e) :
    GateQ cfg w c e := by
  refine ⟨h.1, ?_⟩
  rcases h.2 with h | h
  · left; simp [Caller.via] at h; exact h.2
  · exact .inr h

theorem itemInv_gate {cfg : Cfg} (w : World) (pp : Bool) (hs : siteSafe cfg.item (itemReg cfg pp) = true) :
    ItemInv cfg w pp (fun c _ p => Bits c p) (GateQ cfg w) where
  obj := fun c t cls kv hl hc => bits_of_closed (closed_of_siteSafe hs hl) hc
  ev := by
    intro c t cls kv hl _ hc e he
    obtain ⟨p, rfl, ha, _⟩ := tmplInit_evs he
    exact ⟨rfl, varsAllowed_of_bits (bits_of_closed (closed_of_siteSafe hs hl) hc) ha⟩
  objVia := fun _ c _ p h => Bits.via h
  evVia := fun _ c e h => GateQ.via h

theorem finInv_gate {cfg : Cfg} (w : World) (hT : siteSafe cfg.finTop cfg.regF = true)
    (hN : siteSafe cfg.finNested cfg.regF = true) :
    FinInv cfg w (fun c _ p => Bits c p) (GateQ cfg w) where
  obj := by
    intro nested c t cls kv hl hc
    cases nested
    · exact bits_of_closed (closed_of_siteSafe hT hl) hc
    · exact bits_of_closed (closed_of_siteSafe hN hl) hc
  objNest := fun c _ => Bits.nil c
  ev := by
    intro nested c t cls kv hl _ hc e he
    obtain ⟨p, rfl, ha, _⟩ := tmplInit_evs he
    refine ⟨rfl, varsAllowed_of_bits ?_ ha⟩
    cases nested
    · exact bits_of_closed (closed_of_siteSafe hT hl) hc
    · exact bits_of_closed (closed_of_siteSafe hN hl) hc
  objVia := fun _ c _ p h => Bits.via h
  evVia := fun _ c e h => GateQ.via h

/-- loading, section by section -/
theorem load_sections {cfg : Cfg} {w : World} {c : Caller} {d : Doc} :
    (∀ e ∈ (load cfg w c d).evs,
        e ∈ (instItems cfg w false (c.via cfg.fwdT) d.ts).evs ∨ e ∈ (instItems cfg w true (c.via cfg.fwdPP) d.pps).evs ∨
        e ∈ (instFins cfg w false (c.via cfg.fwdFin) d.fs).evs) ∧
    (∀ p, (load cfg w c d).res = .ok p →
        (instItems cfg w false (c.via cfg.fwdT) d.ts).res = .ok p.items ∧
        (instItems cfg w true (c.via cfg.fwdPP) d.pps).res = .ok p.pps ∧
        (instFins cfg w false (c.via cfg.fwdFin) d.fs).res = .ok p.fins) := by
  unfold load
  by_cases hk : d.keys.all cfg.topAllowed.contains = true
  · simp only [hk, Bool.not_true, Bool.false_eq_true, if_false]
    constructor
    · intro e he
      rcases Run.mem_bind_evs he with he | ⟨_, _, he⟩
      · exact .inl he
      · rcases Run.mem_bind_evs he with he | ⟨_, _, he⟩
        · exact .inr (.inl he)
        · rcases Run.mem_bind_evs he with he | ⟨_, _, he⟩
          · exact .inr (.inr he)
          · simp at he
    · intro p hp
      obtain ⟨ts, h1, hp⟩ := Run.bind_res_ok hp
      obtain ⟨pps, h2, hp⟩ := Run.bind_res_ok hp
      obtain ⟨fs, h3, hp⟩ := Run.bind_res_ok hp
      simp at hp
      subst hp
      exact ⟨h1, h2, h3⟩
  · simp [hk]

/-- **stored capability values**: on every object of a loaded pipeline each of the three values is the class
default or the caller's own argument -/
theorem load_bits {cfg : Cfg} (hs : cfg.safe = true) (w : World) (c : Caller) (d : Doc) (p : PObj)
    (hp : (load cfg w c d).res = .ok p) : ∀ o ∈ p.all, Bits c o.params := by
  obtain ⟨sT, sPP, sFT, sFN⟩ := Cfg.safe_parts hs
  obtain ⟨h1, h2, h3⟩ := load_sections.2 p hp
  intro o ho
  simp only [PObj.all, List.mem_append] at ho
  rcases ho with (ho | ho) | ho
  · exact Bits.via ((instItems_inv (itemInv_gate w false sT) _ _).2 _ h1 o ho)
  · exact Bits.via ((instItems_inv (itemInv_gate w true sPP) _ _).2 _ h2 o ho)
  · exact Bits.via ((instFins_inv (finInv_gate w sFT sFN) false _ _).2 _ h3 o ho)

/-- **effects of loading**: only vars executions, and only if the caller passed `allow_template_vars` or the
environment variable enables them -/
theorem load_evs_gate {cfg : Cfg} (hs : cfg.safe = true) (w : World) (c : Caller) (d : Doc) :
    ∀ e ∈ (load cfg w c d).evs, GateQ cfg w c e := by
  obtain ⟨sT, sPP, sFT, sFN⟩ := Cfg.safe_parts hs
  intro e he
  rcases load_sections.1 e he with he | he | he
  · exact GateQ.via ((instItems_inv (itemInv_gate w false sT) _ _).1 e he)
  · exact GateQ.via ((instItems_inv (itemInv_gate w true sPP) _ _).1 e he)
  · exact GateQ.via ((instFins_inv (finInv_gate w sFT sFN) false _ _).1 e he)

/-- **effects of converting**: only external-source effects, and only if the caller passed
`allow_external_sources` or the environment variable enables them -/
theorem convert_evs_gate {cfg : Cfg} (hs : cfg.safe = true) (w : World) (c : Caller) (d : Doc) (p : PObj)
    (hp : (load cfg w c d).res = .ok p) :
    ∀ e ∈ (convert cfg w p).evs, e.isExec = false ∧ (c.aes = true ∨ envOn cfg w.envExt = true) := by
  intro e he
  obtain ⟨h1, o, ho, ha⟩ := useItems_evs cfg w p.items e he
  have hb := load_bits hs w c d p hp o (by simp [PObj.all, ho])
  exact ⟨h1, externalAllowed_of_bits hb ha⟩

theorem mem_events {cfg : Cfg} {w : World} {c : Caller} {d : Doc} {e : Event} (h : e ∈ events cfg w c d) :
    e ∈ (load cfg w c d).evs ∨ ∃ p, (load cfg w c d).res = .ok p ∧ e ∈ (convert cfg w p).evs := by
  unfold events at h
  cases hl : (load cfg w c d).res with
  | error _ => simp [hl] at h; exact .inl h
  | ok p =>
    simp [hl] at h
    rcases h with h | h
    · exact .inl h
    · exact .inr ⟨p, rfl, h⟩

/-! ## base directories -/

/-- "a vars execution of a file inside the caller's base directories (if the caller has any)" -/
def BaseQ (cfg : Cfg) (w : World) (c : Caller) (e : Event) : Prop :=
  ∃ p, e = .exec p ∧ ∀ bs, c.vap = some bs → pathOk cfg w bs p = true

theorem BaseQ.via {cfg : Cfg} {w : World} {f : Fwd} {c : Caller} {e : Event} (hf : f.vap = true)
    (h : BaseQ cfg w (c.via f) e) : BaseQ cfg w c e := by
  obtain ⟨p, rfl, h⟩ := h
  exact ⟨p, rfl, fun bs hbs => h bs (by simp [Caller.via, hf, hbs])⟩

/-- where the site writes `vars_allowed_paths` for template classes, the stored bases are exactly the caller's -/
theorem tmpl_stored_vap {s : Site} {c : Caller} {cls : Cls} {kv : KV} (ht : cls.isTemplate = true)
    (hi : kVap ∈ s.injTmpl) : stored (siteParams s c cls kv) kVap .null = vapVal c.vap := by
  have : List.lookup kVap (siteParams s c cls kv) = some (c.val kVap) := by
    rw [lookup_siteParams]
    by_cases h1 : cls.isExt = true ∧ kVap ∈ s.injExt
    · rw [if_pos h1]
    · rw [if_neg h1, if_pos ⟨ht, hi⟩]
  simp [stored, this, Caller.val_vap]

theorem baseQ_of_tmplInit {cfg : Cfg} {w : World} {s : Site} {c : Caller} {cls : Cls} {kv : KV} {e : Event}
    (ht : cls.isTemplate = true) (hi : kVap ∈ s.injTmpl)
    (he : e ∈ (tmplInit cfg w (siteParams s c cls kv)).evs) : BaseQ cfg w c e := by
  obtain ⟨p, rfl, _, hv⟩ := tmplInit_evs he
  refine ⟨p, rfl, fun bs hbs => ?_⟩
  rw [tmpl_stored_vap ht hi, hbs] at hv
  rcases hv with hv | ⟨bs', hv, hp⟩
  · simp [vapVal] at hv
  · simp only [vapVal, Val.strs.injEq] at hv
    subst hv; exact hp

theorem no_tmpl_of_any {reg : Reg} {t : String} {cls : Cls} (h : reg.any (fun e => e.2.isTemplate) = false)
    (hl : reg.lookup t = some cls) : cls.isTemplate = false := by
  have hm := mem_of_lookup hl
  cases ht : cls.isTemplate with
  | false => rfl
  | true =>
    have : reg.any (fun e => e.2.isTemplate) = true := List.any_eq_true.2 ⟨(t, cls), hm, ht⟩
    rw [h] at this; cases this

/-- a registry without template classes: loading its items has no effects at all -/
theorem instItems_no_tmpl {cfg : Cfg} (w : World) (pp : Bool)
    (h : (itemReg cfg pp).any (fun e => e.2.isTemplate) = false) (c : Caller) (ns : List Node) :
    (instItems cfg w pp c ns).evs = [] := by
  have inv : ItemInv cfg w pp (fun _ _ _ => True) (fun _ _ => False) :=
    { obj := fun _ _ _ _ _ _ => trivial
      ev := by
        intro c t cls kv hl ht
        rw [no_tmpl_of_any h hl] at ht; cases ht
      objVia := fun _ _ _ _ _ => trivial
      evVia := fun _ _ _ h => h }
  have := (instItems_inv inv c ns).1
  cases hevs : (instItems cfg w pp c ns).evs with
  | nil => rfl
  | cons e es => exact (this e (by simp [hevs])).elim

theorem instFins_no_tmpl {cfg : Cfg} (w : World) (h : cfg.regF.any (fun e => e.2.isTemplate) = false)
    (nested : Bool) (c : Caller) (ns : List Node) : (instFins cfg w nested c ns).evs = [] := by
  have inv : FinInv cfg w (fun _ _ _ => True) (fun _ _ => False) :=
    { obj := fun _ _ _ _ _ _ _ => trivial
      objNest := fun _ _ => trivial
      ev := by
        intro nested c t cls kv hl ht
        rw [no_tmpl_of_any h hl] at ht; cases ht
      objVia := fun _ _ _ _ _ => trivial
      evVia := fun _ _ _ h => h }
  have := (instFins_inv inv nested c ns).1
  cases hevs : (instFins cfg w nested c ns).evs with
  | nil => rfl
  | cons e es => exact (this e (by simp [hevs])).elim

theorem instItems_bases {cfg : Cfg} (w : World) (pp : Bool) (hi : kVap ∈ cfg.item.injTmpl)
    (hn : (pp && cfg.nestPPDirect) = true ∨ (itemNestFwd cfg pp).vap = true) (c : Caller) (ns : List Node) :
    ∀ e ∈ (instItems cfg w pp c ns).evs, BaseQ cfg w c e := by
  have inv : ItemInv cfg w pp (fun _ _ _ => True) (BaseQ cfg w) :=
    { obj := fun _ _ _ _ _ _ => trivial
      ev := fun c t cls kv _ ht _ e he => baseQ_of_tmplInit ht hi he
      objVia := fun _ _ _ _ _ => trivial
      evVia := by
        intro hd c e h
        rcases hn with hn | hn
        · rw [hd] at hn; cases hn
        · exact BaseQ.via hn h }
  exact (instItems_inv inv c ns).1

theorem instFins_bases {cfg : Cfg} (w : World) (hT : kVap ∈ cfg.finTop.injTmpl) (hN : kVap ∈ cfg.finNested.injTmpl)
    (hf1 : cfg.fwdTopNestF.vap = true) (hf2 : cfg.fwdNestF.vap = true) (nested : Bool) (c : Caller) (ns : List Node) :
    ∀ e ∈ (instFins cfg w nested c ns).evs, BaseQ cfg w c e := by
  have inv : FinInv cfg w (fun _ _ _ => True) (BaseQ cfg w) :=
    { obj := fun _ _ _ _ _ _ _ => trivial
      objNest := fun _ _ => trivial
      ev := by
        intro nested c t cls kv _ ht _ e he
        cases nested
        · exact baseQ_of_tmplInit (s := cfg.finTop) ht hT he
        · exact baseQ_of_tmplInit (s := cfg.finNested) ht hN he
      objVia := fun _ _ _ _ _ => trivial
      evVia := by
        intro nested c e h
        cases nested
        · exact BaseQ.via (f := cfg.fwdTopNestF) hf1 h
        · exact BaseQ.via (f := cfg.fwdNestF) hf2 h }
  exact (instFins_inv inv nested c ns).1

/-- **base directories**: whenever the caller has base directories, every vars file executed while loading lies
inside one of them (as decided by the containment test) -/
theorem load_evs_bases {cfg : Cfg} (hb : cfg.basesSafe = true) (w : World) (c : Caller) (d : Doc) :
    ∀ e ∈ (load cfg w c d).evs, BaseQ cfg w c e := by
  simp only [Cfg.basesSafe, Bool.and_eq_true, Bool.or_eq_true, Bool.not_eq_true'] at hb
  obtain ⟨⟨hT, hPP⟩, hF⟩ := hb
  intro e he
  rcases load_sections.1 e he with he | he | he
  · rcases hT with hT | hT
    · rw [instItems_no_tmpl w false hT] at he; cases he
    · exact BaseQ.via hT.1.2 (instItems_bases w false (by simpa using hT.1.1) (.inr hT.2) _ _ e he)
  · rcases hPP with hPP | hPP
    · rw [instItems_no_tmpl w true hPP] at he; cases he
    · refine BaseQ.via hPP.1.2 (instItems_bases w true (by simpa using hPP.1.1) ?_ _ _ e he)
      rcases hPP.2 with h | h
      · exact .inl (by simp [h])
      · exact .inr h
  · rcases hF with hF | hF
    · rw [instFins_no_tmpl w hF] at he; cases he
    · exact BaseQ.via hF.1.1.2 (instFins_bases w (by simpa using hF.1.1.1.1) (by simpa using hF.1.1.1.2) hF.1.2 hF.2 _ _ _ e he)

end SigmaVerif.Caps
