import SigmaVerif.Spec.Rewrite
/-! Helper lemmas for C12: evaluation under substituted atoms, `mapME`, keys. -/
namespace SigmaVerif.Lemmas.C12
open SigmaVerif.SStr SigmaVerif.Mods SigmaVerif.Rule SigmaVerif.Rewrite

/-! ### substitution of atoms -/

mutual
theorem eval_mapAtoms (h : Atom → Atom) (ρ : Atom → Bool) : ∀ e : BE, (mapAtoms h e).eval ρ = e.eval (fun a => ρ (h a))
  | .atom a => by simp [mapAtoms, BE.eval]
  | .not e => by simp [mapAtoms, BE.eval, eval_mapAtoms h ρ e]
  | .and es => by simp [mapAtoms, BE.eval, evalAll_mapAtoms h ρ es]
  | .or es => by simp [mapAtoms, BE.eval, evalAny_mapAtoms h ρ es]
theorem evalAll_mapAtoms (h : Atom → Atom) (ρ : Atom → Bool) :
    ∀ es : List BE, BE.evalAll ρ (mapAtomsL h es) = BE.evalAll (fun a => ρ (h a)) es
  | [] => by simp [mapAtomsL, BE.evalAll]
  | e :: es => by simp [mapAtomsL, BE.evalAll, eval_mapAtoms h ρ e, evalAll_mapAtoms h ρ es]
theorem evalAny_mapAtoms (h : Atom → Atom) (ρ : Atom → Bool) :
    ∀ es : List BE, BE.evalAny ρ (mapAtomsL h es) = BE.evalAny (fun a => ρ (h a)) es
  | [] => by simp [mapAtomsL, BE.evalAny]
  | e :: es => by simp [mapAtomsL, BE.evalAny, eval_mapAtoms h ρ e, evalAny_mapAtoms h ρ es]
end

theorem mapAtomsL_eq_map (h : Atom → Atom) : ∀ es : List BE, mapAtomsL h es = es.map (mapAtoms h)
  | [] => rfl
  | e :: es => by simp [mapAtomsL, mapAtomsL_eq_map h es]

mutual
theorem mapAtoms_congr (h h' : Atom → Atom) : ∀ e : BE, (∀ a ∈ e.atoms, h a = h' a) → mapAtoms h e = mapAtoms h' e
  | .atom a, H => by simp [mapAtoms, H a (by simp [BE.atoms])]
  | .not e, H => by simp [mapAtoms, mapAtoms_congr h h' e (by simpa [BE.atoms] using H)]
  | .and es, H => by simp [mapAtoms, mapAtomsL_congr h h' es (by simpa [BE.atoms] using H)]
  | .or es, H => by simp [mapAtoms, mapAtomsL_congr h h' es (by simpa [BE.atoms] using H)]
theorem mapAtomsL_congr (h h' : Atom → Atom) : ∀ es : List BE, (∀ a ∈ BE.atomsL es, h a = h' a) → mapAtomsL h es = mapAtomsL h' es
  | [], _ => rfl
  | e :: es, H => by
    have h1 := mapAtoms_congr h h' e (fun a ha => H a (by simp [BE.atomsL, ha]))
    have h2 := mapAtomsL_congr h h' es (fun a ha => H a (by simp [BE.atomsL, ha]))
    simp [mapAtomsL, h1, h2]
end

mutual
theorem atoms_mapAtoms (h : Atom → Atom) : ∀ e : BE, (mapAtoms h e).atoms = e.atoms.map h
  | .atom a => by simp [mapAtoms, BE.atoms]
  | .not e => by simp [mapAtoms, BE.atoms, atoms_mapAtoms h e]
  | .and es => by simp [mapAtoms, BE.atoms, atomsL_mapAtoms h es]
  | .or es => by simp [mapAtoms, BE.atoms, atomsL_mapAtoms h es]
theorem atomsL_mapAtoms (h : Atom → Atom) : ∀ es : List BE, BE.atomsL (mapAtomsL h es) = (BE.atomsL es).map h
  | [] => by simp [mapAtomsL, BE.atomsL]
  | e :: es => by simp [mapAtomsL, BE.atomsL, atoms_mapAtoms h e, atomsL_mapAtoms h es]
end

mutual
theorem mapAtoms_comp (h k : Atom → Atom) : ∀ e : BE, mapAtoms h (mapAtoms k e) = mapAtoms (fun a => h (k a)) e
  | .atom a => by simp [mapAtoms]
  | .not e => by simp [mapAtoms, mapAtoms_comp h k e]
  | .and es => by simp [mapAtoms, mapAtomsL_comp h k es]
  | .or es => by simp [mapAtoms, mapAtomsL_comp h k es]
theorem mapAtomsL_comp (h k : Atom → Atom) : ∀ es : List BE, mapAtomsL h (mapAtomsL k es) = mapAtomsL (fun a => h (k a)) es
  | [] => by simp [mapAtomsL]
  | e :: es => by simp [mapAtomsL, mapAtoms_comp h k e, mapAtomsL_comp h k es]
end

/-! ### `mapME` -/

theorem mapME_map {α β γ : Type} (g : γ → α) (f : α → Except SpecErr β) :
    ∀ l : List γ, mapME f (l.map g) = mapME (fun x => f (g x)) l
  | [] => rfl
  | a :: l => by simp [mapME, mapME_map g f l]

theorem mapME_congr {α β : Type} (f f' : α → Except SpecErr β) :
    ∀ l : List α, (∀ a ∈ l, f a = f' a) → mapME f l = mapME f' l
  | [], _ => rfl
  | a :: l, H => by
    simp [mapME, H a (by simp), mapME_congr f f' l (fun b hb => H b (by simp [hb]))]

/-- `mapME` of a function that is `Except.map k` of another -/
theorem mapME_natural {α β : Type} (k : β → β) (f f' : α → Except SpecErr β) :
    ∀ l : List α, (∀ a ∈ l, f' a = (f a).map k) → mapME f' l = (mapME f l).map (List.map k)
  | [], _ => rfl
  | a :: l, H => by
    have h1 := H a (by simp)
    have h2 := mapME_natural k f f' l (fun b hb => H b (by simp [hb]))
    simp only [mapME, h1, h2]
    cases f a <;> cases mapME f l <;> rfl

/-! ### keys -/

theorem splitOn_cons (sep c : Char) (r : Str) :
    splitOn sep (c :: r) = match splitOn sep r with
      | h :: t => if c == sep then [] :: h :: t else (c :: h) :: t
      | [] => [[c]] := rfl

theorem splitOn_ne_nil (sep : Char) : ∀ s : Str, splitOn sep s ≠ []
  | [] => by simp [splitOn]
  | c :: r => by
    rw [splitOn_cons]
    cases hs : splitOn sep r with
    | nil => exact absurd hs (splitOn_ne_nil sep r)
    | cons a t => simp only []; split <;> simp

theorem splitOn_head (sep : Char) : ∀ s : Str, (splitOn sep s).head? = some (s.takeWhile (· != sep))
  | [] => by simp [splitOn]
  | c :: r => by
    have ih := splitOn_head sep r
    rw [splitOn_cons]
    cases hs : splitOn sep r with
    | nil => exact absurd hs (splitOn_ne_nil sep r)
    | cons a t =>
      rw [hs] at ih
      simp only [List.head?_cons, Option.some.injEq] at ih
      by_cases hc : c = sep
      · simp [hc, List.takeWhile_cons]
      · simp [hc, List.takeWhile_cons, ih]

theorem splitOn_eq_cons (sep : Char) (s : Str) : splitOn sep s = s.takeWhile (· != sep) :: (splitOn sep s).tail := by
  have h := splitOn_head sep s
  cases hs : splitOn sep s with
  | nil => exact absurd hs (splitOn_ne_nil sep s)
  | cons a t => rw [hs] at h; simp at h; simp [h]

theorem splitOn_append (sep : Char) (rest : Str) (hr : rest.takeWhile (· != sep) = []) :
    ∀ g : Str, sep ∉ g → splitOn sep (g ++ rest) = g :: (splitOn sep rest).tail
  | [], _ => by
    have := splitOn_eq_cons sep rest
    rw [hr] at this
    simpa using this
  | c :: g, hg => by
    have hc : ¬ c = sep := by
      simp only [List.mem_cons, not_or] at hg
      exact fun h => hg.1 h.symm
    have ih := splitOn_append sep rest hr g (fun h => hg (List.mem_cons_of_mem _ h))
    show splitOn sep (c :: (g ++ rest)) = _
    rw [splitOn_cons, ih]
    simp [hc]

theorem not_mem_takeWhile_ne (c : Char) : ∀ k : Str, c ∉ k.takeWhile (· != c)
  | [] => by simp
  | d :: k => by
    by_cases hd : d = c
    · simp [List.takeWhile_cons, hd]
    · simp [List.takeWhile_cons, hd, not_mem_takeWhile_ne c k]
      exact fun h => hd h.symm

theorem keyRest_takeWhile (k : Str) : (keyRest k).takeWhile (· != '|') = [] := by
  unfold keyRest
  induction k with
  | nil => rfl
  | cons c k ih =>
    by_cases hc : c != '|'
    · simp [hc, ih]
    · simp [hc, List.takeWhile_cons]

theorem keyField_no_bar (k : Str) : '|' ∉ keyField k := by
  exact not_mem_takeWhile_ne '|' k

theorem key_split (k : Str) : keyField k ++ keyRest k = k := List.takeWhile_append_dropWhile

/-- the parts of a key: its field, then its modifiers -/
theorem splitOn_key (k : Str) : splitOn '|' k = keyField k :: keyMods k := by
  have := splitOn_eq_cons '|' k
  simpa [keyField, keyMods, List.drop_one] using this

/-- the parts of a key after its field was replaced -/
theorem splitOn_rekey (g k : Str) (hg : '|' ∉ g) : splitOn '|' (g ++ keyRest k) = g :: keyMods k := by
  rw [splitOn_append '|' (keyRest k) (keyRest_takeWhile k) g hg]
  have h1 := splitOn_append '|' (keyRest k) (keyRest_takeWhile k) (keyField k) (keyField_no_bar k)
  rw [key_split] at h1
  simp [keyMods, h1, List.drop_one]

theorem keyMods_rekey (g k : Str) (hg : '|' ∉ g) : keyMods (g ++ keyRest k) = keyMods k := by
  simp [keyMods, splitOn_rekey g k hg, List.drop_one]

theorem keyField_rekey (g k : Str) (hg : '|' ∉ g) : keyField (g ++ keyRest k) = g := by
  have h1 := splitOn_key (g ++ keyRest k)
  rw [splitOn_rekey g k hg] at h1
  simp at h1
  exact h1.1.symm

theorem keyRest_rekey (g k : Str) (hg : '|' ∉ g) : keyRest (g ++ keyRest k) = keyRest k := by
  have h1 := key_split (g ++ keyRest k)
  rw [keyField_rekey g k hg] at h1
  exact List.append_cancel_left h1

end SigmaVerif.Lemmas.C12
