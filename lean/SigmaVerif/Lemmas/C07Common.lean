import SigmaVerif.Lemmas.C07Base
/-! # C07 lemmas: every check of `from_dict_common_params` returns (it only appends errors) -/
namespace SigmaVerif.Load

/-- close a goal `Total …` / `SigOnly …` over an `if` tree whose leaves are results -/
macro "leaves" : tactic => `(tactic| ((repeat' split) <;> simp [Total]))

theorem chkId_total (v : Y) : Total (chkId v) := by
  cases v <;> simp [chkId, Y.isNone, pyUUID]
  leaves

theorem chkName_total (v : Y) : Total (chkName v) := by
  unfold chkName; leaves

theorem chkTaxonomy_total (o : Option Y) : Total (chkTaxonomy o) := by
  unfold chkTaxonomy; simp only []; leaves

theorem relatedItemFromDict_sig (m : Dict) (h1 : hasKey m (S "id") = true) (h2 : hasKey m (S "type") = true) :
    SigOnly (· = .relatedError) (relatedItemFromDict (.map m)) := by
  simp only [hasKey, Option.isSome_iff_exists] at h1 h2
  obtain ⟨i, hi⟩ := h1
  obtain ⟨t, ht⟩ := h2
  unfold relatedItemFromDict
  simp only [pyGetItem, hi, ht, pure_eq, ok_bind]
  cases i <;> cases t <;> simp [Y.isStr, pyUUID, pyUpper, pyLookupName]
  all_goals leaves

theorem relatedItem_sig (x : Y) : SigOnly (· = .relatedError) (relatedItem x) := by
  cases x
  case map m =>
    unfold relatedItem
    simp only [Y.isMap, pyKeys, pure_eq, ok_bind, keys_any]
    cases h1 : hasKey m (S "id") <;> cases h2 : hasKey m (S "type") <;> simp
    exact relatedItemFromDict_sig m h1 h2
  all_goals simp [relatedItem, Y.isMap]

theorem chkRelated_total (v : Y) : Total (chkRelated v) := by
  cases v <;> simp [chkRelated, Y.isNone, Y.isList]
  case list l =>
    apply SigOnly.total_catch
    refine SigOnly.bind ?_ (fun _ => by simp)
    simp only [relatedFromDict, pyIter, pure_eq, ok_bind]
    exact (forEach_sigOnly relatedItem_sig l).mono (by intro c hc; subst hc; decide)

theorem chkEnum_total (names : List Str) (cls : SigmaCls) (v : Y) : Total (chkEnum names cls v) := by
  cases v <;> simp [chkEnum, Y.isNone, Y.isStr, pyUpper, pyLookupName]
  leaves

theorem tagFromStr_sig (s : Str) : SigOnly (· = .valueError) (tagFromStr (.str s)) := by
  simp [tagFromStr, pySplit, pyUnpack2]
  leaves

theorem chkTag_total (t : Y) : Total (chkTag t) := by
  cases t <;> simp [chkTag, Y.isStr]
  case str s =>
    apply SigOnly.total_catch
    exact ((tagFromStr_sig s).mono (by intro c hc; subst hc; decide)).bind (fun _ => by simp)

theorem chkTagList_total : ∀ l : List Y, Total (chkTagList l)
  | [] => by simp [chkTagList]
  | t :: ts => by
      simp only [chkTagList]
      exact (chkTag_total t).bind (fun _ _ => (chkTagList_total ts).bind (fun _ _ => by simp))

theorem chkTags_total (o : Option Y) : Total (chkTags o) := by
  unfold chkTags
  cases h : o.getD (.list []) <;> simp [Y.isNone, Y.isList, pyIter]
  case list l => exact chkTagList_total l

theorem chkDate_total (cls : SigmaCls) (v : Y) : Total (chkDate cls v) := by
  unfold chkDate
  split
  · simp
  · split
    · simp
    · simp [pyDate, allPy]
      leaves

theorem chkIsList_total (cls : SigmaCls) (v : Y) : Total (chkIsList cls v) := by unfold chkIsList; leaves
theorem chkIsStr_total (cls : SigmaCls) (v : Y) : Total (chkIsStr cls v) := by unfold chkIsStr; leaves
theorem chkTitle_total (v : Y) : Total (chkTitle v) := by
  cases v <;> simp [chkTitle, Y.isNone, Y.isStr, pyLen]
  leaves

theorem commonErrsM_total (m : Dict) : Total (commonErrsM m) := by
  unfold commonErrsM
  refine Total.bind (chkId_total _) (fun _ _ => ?_)
  refine Total.bind (chkName_total _) (fun _ _ => ?_)
  refine Total.bind (chkTaxonomy_total _) (fun _ _ => ?_)
  refine Total.bind (chkRelated_total _) (fun _ _ => ?_)
  refine Total.bind (chkEnum_total _ _ _) (fun _ _ => ?_)
  refine Total.bind (chkEnum_total _ _ _) (fun _ _ => ?_)
  refine Total.bind (chkTags_total _) (fun _ _ => ?_)
  refine Total.bind (chkDate_total _ _) (fun _ _ => ?_)
  refine Total.bind (chkDate_total _ _) (fun _ _ => ?_)
  refine Total.bind (chkIsList_total _ _) (fun _ _ => ?_)
  refine Total.bind (chkIsList_total _ _) (fun _ _ => ?_)
  refine Total.bind (chkIsStr_total _ _) (fun _ _ => ?_)
  refine Total.bind (chkIsStr_total _ _) (fun _ _ => ?_)
  refine Total.bind (chkIsList_total _ _) (fun _ _ => ?_)
  refine Total.bind (chkTitle_total _) (fun _ _ => ?_)
  refine Total.bind (chkIsList_total _ _) (fun _ _ => ?_)
  refine Total.bind (chkIsStr_total _ _) (fun _ _ => ?_)
  simp

/-- the error list of `from_dict_common_params` as a function of the document -/
def commonErrs (m : Dict) : List SigmaCls := okVal (commonErrsM m) []

theorem commonErrsM_eq (m : Dict) : commonErrsM m = .ok (commonErrs m) := (commonErrsM_total m).eq_okVal []

end SigmaVerif.Load
