import SigmaVerif.Lemmas.C12Chain
/-! Helper lemmas for C12: a value modifier makes exactly one value of each value. -/
namespace SigmaVerif.Lemmas.C12
open SigmaVerif.SStr SigmaVerif.Mods SigmaVerif.Rule SigmaVerif.Rewrite

def outsLen1 : Except MErr (List Val) → Bool
  | .ok out => out.length == 1
  | .error _ => true

local macro "l1_one" : tactic => `(tactic| first
  | rfl
  | ((conv => lhs; arg 1; whnf); (repeat' split) <;> first
      | rfl
      | (generalize instDecidableEqBool _ _ = d; cases d <;> rfl)
      | (generalize instDecidableNot = d; cases d <;> rfl)))

/-- a value modifier makes exactly one value of a value -/
theorem modifyValue_len1 (env : Env) (hf first : Bool) (m : String) (hm : m ∈ valueModifiers) (v : Val) :
    outsLen1 (modifyValue env hf first m v) = true := by
  simp only [valueModifiers, List.mem_cons, List.not_mem_nil, or_false] at hm
  rcases hm with rfl | rfl | rfl | rfl | rfl | rfl | rfl | rfl | rfl | rfl | rfl | rfl | rfl | rfl | rfl | rfl |
    rfl | rfl | rfl | rfl | rfl | rfl | rfl | rfl | rfl | rfl | rfl | rfl | rfl | rfl | rfl
  all_goals cases v <;> l1_one

theorem applyToVal_len1 (env : Env) (hf first : Bool) (m : String) (hm : m ∈ valueModifiers) (fuel : Nat) (v : Val) :
    outsLen1 (applyToVal env hf first m fuel v) = true := by
  cases fuel with
  | zero =>
    have : applyToVal env hf first m 0 v = modifyValue env hf first m v := by cases v <;> rfl
    rw [this]; exact modifyValue_len1 env hf first m hm v
  | succ n =>
    cases v with
    | expansion vs =>
      simp only [applyToVal]
      cases mapM' (applyToVal env hf first m n) vs <;> rfl
    | _ =>
      rw [applyToVal_nonexp _ _ _ _ _ _ (by intro vs h; cases h)]
      exact modifyValue_len1 env hf first m hm _

theorem mapM'_length (F : Val → Except MErr (List Val)) (hF : ∀ v, outsLen1 (F v) = true) :
    ∀ (vs out : List Val), mapM' F vs = .ok out → out.length = vs.length
  | [], out, h => by simp [mapM'] at h; simp [← h]
  | v :: vs, out, h => by
    simp only [mapM'] at h
    have h1 := hF v
    cases hv : F v with
    | error e => rw [hv] at h; cases hM : mapM' F vs <;> rw [hM] at h <;> cases h
    | ok a =>
      cases hM : mapM' F vs with
      | error e => rw [hv, hM] at h; cases h
      | ok b =>
        rw [hv, hM] at h; cases h
        rw [hv] at h1
        simp only [outsLen1, beq_iff_eq] at h1
        simp [h1, mapM'_length F hF vs b hM]; omega

end SigmaVerif.Lemmas.C12
