import SigmaVerif.Lemmas.C06Alias
/-!
# C06 helper lemmas, part 7: the specification's reading of a detection definition (`Rule.detBE`)
is the meaning of the loaded detection object
-/
namespace SigmaVerif.Ser
open SigmaVerif.SStr SigmaVerif.SStrSpec SigmaVerif.Mods
open SigmaVerif.Rule (PV splitOn pvToVal Ctx SpecErr BE mapME valBE')

mutual
/-- a plain definition in the source form `Spec/Rule.lean` reads -/
def toRuleDet : PDef → Rule.Det
  | .val v => .values [v]
  | .map kvs => .map (kvs.map fun kv => (kv.1, kv.2.toList))
  | .list es => if es.all PDef.isVal then .values (PDef.getVals es) else .list (toRuleDets es)
def toRuleDets : List PDef → List Rule.Det
  | [] => []
  | e :: es => toRuleDet e :: toRuleDets es
end

mutual
/-- nesting depth of lists of definitions (the specification reads with a fuel) -/
def pdepth : PDef → Nat
  | .val _ => 0
  | .map _ => 0
  | .list es => if es.all PDef.isVal then 0 else pdepthL es + 1
def pdepthL : List PDef → Nat
  | [] => 0
  | e :: es => max (pdepth e) (pdepthL es)
end

mutual
def ddepth : Det → Nat
  | .item _ => 0
  | .node cs _ => if cs.all Det.isItem then 0 else ddepthL cs + 1
def ddepthL : List Det → Nat
  | [] => 0
  | c :: cs => max (ddepth c) (ddepthL cs)
end

mutual
/-- The meaning of a detection *object* (what `SigmaDetection.postprocess` builds): a single child
stands for itself, several are linked by the detection's `item_linking`. -/
def detObjBE (cx : Ctx) : Det → Except SpecErr BE
  | .item i => objBE cx i
  | .node cs linkOr =>
    match detObjBEs cx cs with
    | .ok [e] => .ok e
    | .ok es => .ok (if linkOr then .or es else .and es)
    | .error e => .error e
def detObjBEs (cx : Ctx) : List Det → Except SpecErr (List BE)
  | [] => .ok []
  | c :: cs =>
    match detObjBE cx c, detObjBEs cx cs with
    | .ok b, .ok bs => .ok (b :: bs)
    | .error e, _ => .error e
    | _, .error e => .error e
end

theorem detObjBE_single (cx : Ctx) (i : Item) (l : Bool) :
    detObjBE cx (.node [.item i] l) = objBE cx i := by
  simp only [detObjBE, detObjBEs]
  cases objBE cx i <;> rfl

theorem itemBE_none (cx : Ctx) (vs : List PV) :
    Rule.itemBE cx none vs = Rule.itemBE cx (some []) vs := rfl

theorem items_objBE (cx : Ctx) : ∀ (kvs : List (Str × PVals)) (its : List Item),
    mapE (fun kv => fromMapping cx.env kv.1 kv.2) kvs = .ok its →
    mapME (fun kv : Str × List PV => Rule.itemBE cx (some kv.1) kv.2) (kvs.map fun kv => (kv.1, kv.2.toList))
      = detObjBEs cx (its.map .item) := by
  intro kvs
  induction kvs with
  | nil =>
    intro its h
    simp only [mapE, Except.ok.injEq] at h
    subst h
    rfl
  | cons kv r ih =>
    intro its h
    simp only [mapE] at h
    cases h1 : fromMapping cx.env kv.1 kv.2 with
    | error e => simp [h1] at h
    | ok it =>
      cases h2 : mapE (fun kv => fromMapping cx.env kv.1 kv.2) r with
      | error e => simp [h1, h2] at h
      | ok its' =>
        simp only [h1, h2, Except.ok.injEq] at h
        subst h
        simp only [List.map_cons, mapME, detObjBEs, detObjBE, ih its' h2,
          itemBE_eq_objBE_all cx kv.1 kv.2 it h1]
        generalize objBE cx it = a
        generalize detObjBEs cx (List.map Det.item its') = b
        cases a <;> cases b <;> rfl

mutual
theorem detBE_eq (cx : Ctx) : ∀ (p : PDef) (d : Det) (n : Nat), fromDef cx.env p = .ok d → pdepth p ≤ n →
    Rule.detBE cx n (toRuleDet p) = detObjBE cx d
  | .val v, d, n, h, _ => by
    rw [fromDef] at h
    cases hi : fromMapping cx.env [] (.one v) with
    | error e => simp [hi] at h
    | ok i =>
      simp only [hi, Except.ok.injEq] at h
      subst h
      rw [detObjBE_single, toRuleDet]
      cases n <;>
      · simp only [Rule.detBE, itemBE_none]
        exact itemBE_eq_objBE_all cx [] (.one v) i hi
  | .map kvs, d, n, h, _ => by
    rw [fromDef] at h
    cases hi : mapE (fun kv => fromMapping cx.env kv.1 kv.2) kvs with
    | error e => simp [hi] at h
    | ok its =>
      simp only [hi] at h
      have hd : d = .node (its.map .item) false := by
        cases its with
        | nil => cases h
        | cons a t => simp only [Except.ok.injEq] at h; exact h.symm
      subst hd
      rw [toRuleDet]
      have := items_objBE cx kvs its hi
      cases n <;>
      · simp only [Rule.detBE, detObjBE, this, Bool.false_eq_true, if_false]
        generalize detObjBEs cx (List.map Det.item its) = b
        rcases b with e | l
        · rfl
        · rcases l with _ | ⟨x, _ | ⟨y, t⟩⟩ <;> rfl
  | .list es, d, n, h, hn => by
    rw [fromDef] at h
    rw [toRuleDet]
    by_cases hall : es.all PDef.isVal = true
    · simp only [hall, if_true] at h ⊢
      cases hi : fromMapping cx.env [] (.many (PDef.getVals es)) with
      | error e => simp [hi] at h
      | ok i =>
        simp only [hi, Except.ok.injEq] at h
        subst h
        rw [detObjBE_single]
        cases n <;>
        · simp only [Rule.detBE, itemBE_none]
          exact itemBE_eq_objBE_all cx [] (.many (PDef.getVals es)) i hi
    · simp only [hall, Bool.false_eq_true, if_false] at h ⊢
      cases hds : fromDefs cx.env es with
      | error e => simp [hds] at h
      | ok ds =>
        simp only [hds, Except.ok.injEq] at h
        subst h
        rw [pdepth] at hn
        simp only [hall, Bool.false_eq_true, if_false] at hn
        cases n with
        | zero => omega
        | succ n' =>
          simp only [Rule.detBE, detObjBE, detBEs_eq cx es ds n' hds (by omega), if_true]
          generalize detObjBEs cx ds = b
          rcases b with e | l
          · rfl
          · rcases l with _ | ⟨x, _ | ⟨y, t⟩⟩ <;> rfl
theorem detBEs_eq (cx : Ctx) : ∀ (es : List PDef) (ds : List Det) (n : Nat), fromDefs cx.env es = .ok ds →
    pdepthL es ≤ n → mapME (Rule.detBE cx n) (toRuleDets es) = detObjBEs cx ds
  | [], ds, n, h, _ => by
    rw [fromDefs] at h
    cases h
    rfl
  | e :: es, ds, n, h, hn => by
    rw [fromDefs] at h
    rw [pdepthL] at hn
    cases hd : fromDef cx.env e with
    | error x => simp [hd] at h
    | ok d =>
      cases hds : fromDefs cx.env es with
      | error x => simp [hd, hds] at h
      | ok ds' =>
        simp only [hd, hds, Except.ok.injEq] at h
        subst h
        simp only [toRuleDets, mapME, detObjBEs, detBE_eq cx e d n hd (by omega),
          detBEs_eq cx es ds' n hds (by omega)]
        generalize detObjBE cx d = a
        generalize detObjBEs cx ds' = b
        cases a <;> cases b <;> rfl
end

/-! ## the nesting depth of a definition is that of its object -/

theorem all_isItem_map (its : List Item) : (its.map Det.item).all Det.isItem = true := by
  induction its with
  | nil => rfl
  | cons a r ih => simp [Det.isItem, ih]

mutual
theorem depth_eq (env : Env) : ∀ (p : PDef) (d : Det), fromDef env p = .ok d → pdepth p = ddepth d
  | .val v, d, h => by
    rw [fromDef] at h
    split at h
    · cases h; rfl
    · cases h
  | .map kvs, d, h => by
    rw [fromDef] at h
    split at h
    · cases h
    · cases h
    · cases h
      rw [pdepth, ddepth, all_isItem_map]
      rfl
  | .list es, d, h => by
    rw [fromDef] at h
    rw [pdepth]
    by_cases hall : es.all PDef.isVal = true
    · simp only [hall, if_true] at h ⊢
      split at h
      · cases h; rfl
      · cases h
    · simp only [hall, Bool.false_eq_true, if_false] at h ⊢
      cases hds : fromDefs env es with
      | error e => simp [hds] at h
      | ok ds =>
        simp only [hds, Except.ok.injEq] at h
        subst h
        obtain ⟨h1, h2⟩ := depthL_eq env es ds hds
        have hne : ds ≠ [] := by
          intro e; subst e
          have := fromDefs_length env es [] hds
          have : es = [] := List.length_eq_zero_iff.mp this.symm
          subst this
          simp at hall
        have hni : ds.all Det.isItem = false := by
          cases ds with
          | nil => exact absurd rfl hne
          | cons c cs => simp [h2 c (by simp)]
        rw [ddepth, hni, h1]
        rfl
theorem depthL_eq (env : Env) : ∀ (es : List PDef) (ds : List Det), fromDefs env es = .ok ds →
    pdepthL es = ddepthL ds ∧ ∀ d ∈ ds, d.isItem = false
  | [], ds, h => by
    rw [fromDefs] at h
    cases h
    exact ⟨rfl, by simp⟩
  | e :: es, ds, h => by
    rw [fromDefs] at h
    cases hd : fromDef env e with
    | error x => simp [hd] at h
    | ok d =>
      cases hds : fromDefs env es with
      | error x => simp [hd, hds] at h
      | ok ds' =>
        simp only [hd, hds, Except.ok.injEq] at h
        subst h
        obtain ⟨h1, h2⟩ := depthL_eq env es ds' hds
        refine ⟨by rw [pdepthL, ddepthL, depth_eq env e d hd, h1], ?_⟩
        intro x hx
        rcases List.mem_cons.mp hx with rfl | hx
        · exact fromDef_isNode env e x hd
        · exact h2 x hx
end

end SigmaVerif.Ser
