import SigmaVerif.Spec.PipeConds
/-! Helper lemmas for C13: the leaf conditions of `Spec/PipeConds.lean` and the bridge from the
specification's groups to the gate model (`Model/Gate.lean`).  Lean core only. -/
namespace SigmaVerif.Lemmas.C13
open SigmaVerif.PipeConds SigmaVerif.Gate

/-- the gate-model view of a specification group -/
def gateOf {α : Type} (g : PipeConds.Group α) : Gate.Group := { n := g.conds.length, link := g.link, neg := g.neg }

/-- truth value of the `i`-th condition of a group under a leaf semantics -/
def leafAt {α : Type} (g : PipeConds.Group α) (leaf : α → Bool) : Nat → Bool :=
  fun i => match g.conds[i]? with | some c => leaf c | none => false

/-- the gate-model view of a processing item -/
def gateItem (p : PItem) : Gate.Item := { rule := gateOf p.rule, det := gateOf p.det, field := gateOf p.field }

theorem all_range_getElem? {α : Type} (l : List α) (leaf : α → Bool) :
    (List.range l.length).all (fun i => match l[i]? with | some c => leaf c | none => false) = l.all leaf := by
  rw [Bool.eq_iff_iff]
  simp only [List.all_eq_true, List.mem_range]
  constructor
  · intro h c hc
    obtain ⟨i, hi, rfl⟩ := List.getElem_of_mem hc
    have := h i hi
    simpa [List.getElem?_eq_getElem hi] using this
  · intro h i hi
    simp only [List.getElem?_eq_getElem hi]
    exact h _ (List.getElem_mem hi)

theorem any_range_getElem? {α : Type} (l : List α) (leaf : α → Bool) :
    (List.range l.length).any (fun i => match l[i]? with | some c => leaf c | none => false) = l.any leaf := by
  rw [Bool.eq_iff_iff]
  simp only [List.any_eq_true, List.mem_range]
  constructor
  · rintro ⟨i, hi, h⟩
    refine ⟨l[i], List.getElem_mem hi, ?_⟩
    simpa [List.getElem?_eq_getElem hi] using h
  · rintro ⟨c, hc, h⟩
    obtain ⟨i, hi, rfl⟩ := List.getElem_of_mem hc
    exact ⟨i, hi, by simpa [List.getElem?_eq_getElem hi] using h⟩

/-- the specification's reading of a group IS the gate model's -/
theorem holds_eq_gate {α : Type} (g : PipeConds.Group α) (leaf : α → Bool) :
    g.holds leaf = (gateOf g).eval (leafAt g leaf) := by
  unfold PipeConds.Group.holds Gate.Group.eval Gate.Group.raw gateOf leafAt
  have h0 : g.conds.isEmpty = (g.conds.length == 0) := by cases g.conds <;> simp
  rw [h0]
  cases hl : g.link with
  | all => simp only [all_range_getElem?]
  | any => simp only [any_range_getElem?]
  | expr e => rfl

theorem mark_contains (pid : Option Str) (xs : List Str) (id : Str) :
    (mark pid xs).contains id = (xs.contains id || pid == some id) := by
  unfold mark
  cases pid with
  | none => simp
  | some i =>
    rw [Bool.eq_iff_iff]
    by_cases h : xs.contains i = true
    · have hm : i ∈ xs := by simpa using h
      simp only [h, if_true]
      by_cases hi : i = id
      · subst hi; simp [hm]
      · simp [hi]
    · have hm : i ∉ xs := by simpa using h
      simp only [h]
      by_cases hi : i = id
      · subst hi; simp
      · simp [hi]
        intro h'; exact absurd h'.symm hi

theorem mem_mark (pid : Option Str) (xs : List Str) (id : Str) :
    id ∈ mark pid xs ↔ (id ∈ xs ∨ pid = some id) := by
  have := mark_contains pid xs id
  rw [Bool.eq_iff_iff] at this
  simpa using this

variable (m : Str → Str → Bool) in
theorem act_applied (p : PItem) (w : World) : (p.act m w).applied = mark p.id w.applied := by
  unfold PItem.act
  cases p.action <;> simp
  case changeLogsource l => cases w.kind <;> rfl

/-! ### `contains_wildcard` against the text of a value -/
section Wildcard
open SigmaVerif.SStr (SStr parseAux containsSpecial)

theorem containsSpecial_lit (c : Char) (s : SStr) : containsSpecial (.lit c :: s) = containsSpecial s := by
  simp [containsSpecial]
theorem containsSpecial_star (s : SStr) : containsSpecial (.star :: s) = true := by
  simp [containsSpecial]
theorem containsSpecial_qm (s : SStr) : containsSpecial (.qm :: s) = true := by
  simp [containsSpecial]

/-- reading a character that is not a backslash outside an escape -/
theorem parse_plain_char (c : Char) (s : List Char) (h1 : c ≠ '\\') :
    containsSpecial (parseAux true false (c :: s)) = (c == '*' || c == '?' || containsSpecial (parseAux true false s)) := by
  by_cases hs : c = '*'
  · subst hs; simp [parseAux, containsSpecial_star]
  · by_cases hq : c = '?'
    · subst hq; simp [parseAux, containsSpecial_qm]
    · simp [parseAux, h1, hs, hq, containsSpecial_lit]

theorem containsSpecial_parse_aux : ∀ (n : Nat) (s : List Char), s.length ≤ n →
    containsSpecial (parseAux true false s) = unescapedWildcard s := by
  intro n
  induction n with
  | zero =>
    intro s h
    have : s = [] := List.eq_nil_of_length_eq_zero (by omega)
    subst this
    simp [parseAux, unescapedWildcard, containsSpecial]
  | succ n ih =>
    intro s h
    match s, h with
    | [], _ => simp [parseAux, unescapedWildcard, containsSpecial]
    | [c], _ =>
      by_cases hb : c = '\\'
      · subst hb; simp [parseAux, unescapedWildcard, containsSpecial]
      · rw [parse_plain_char c [] hb]; simp [parseAux, unescapedWildcard, containsSpecial]
    | c :: d :: r, h =>
      have hr : r.length ≤ n := by simp at h; omega
      have hdr : (d :: r).length ≤ n := by simp at h ⊢; omega
      by_cases hb : c = '\\'
      · subst hb
        rw [unescapedWildcard]
        simp only [if_true, beq_self_eq_true]
        by_cases hd : (d == '*' || d == '?' || d == '\\') = true
        · simp only [hd, if_true]
          rw [← ih r hr]
          simp [parseAux, hd, containsSpecial_lit]
        · simp only [hd]
          rw [← ih (d :: r) hdr]
          simp only [Bool.or_eq_true, beq_iff_eq, not_or] at hd
          rw [parse_plain_char d r hd.2]
          simp [parseAux, hd, containsSpecial_lit]
      · rw [parse_plain_char c (d :: r) hb, ih (d :: r) hdr]
        conv => rhs; rw [unescapedWildcard]
        simp [hb]

end Wildcard

/-! ### field references under a field-name transformation -/

/-- the references of a value list after renaming the referenced fields -/
theorem refs_map_rename (f : Str → Str) (vs : List Val) :
    (vs.map fun v => match v with | .ref x => Val.ref (f x) | v => v).filterMap
        (fun v => match v with | .ref x => some x | _ => none) =
      (vs.filterMap fun v => match v with | .ref x => some x | _ => none).map f := by
  induction vs with
  | nil => rfl
  | cons v rest ih => cases v <;> simp [ih]

theorem num_eqv_refl (q : Num) : q.eqv q = true := by simp [Num.eqv]

theorem scalar_eqv_refl (v : Scalar) : v.eqv v = true := by
  cases v <;> simp [Scalar.eqv, Scalar.asNum?, num_eqv_refl]

theorem lookup_cons_self {α : Type} (k : Str) (v : α) (r : List (Str × α)) : lookup k ((k, v) :: r) = some v := by
  simp [lookup]

end SigmaVerif.Lemmas.C13
