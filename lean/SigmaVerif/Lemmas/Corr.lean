import SigmaVerif.Model.Corr
import SigmaVerif.Spec.Corr
import SigmaVerif.Lemmas.Conv
/-!
# Lemmas for C10

1. The extended-condition renderer is the C01 converter on the embedding of the correlation condition
   tree into condition trees (`render_eq_convert`), so C01's soundness theorem applies to it.
2. Stage-by-stage field renaming (as coded) agrees with renaming by the whole pipeline (as specified).
3. Structure of `convertCorr`: a successful run returns `build …` of the mapped rule.
-/
namespace SigmaVerif.CorrLemmas
open SigmaVerif.Corr SigmaVerif.CorrSpec SigmaVerif.ConvSpec SigmaVerif.ConvLemmas
open SigmaVerif.Conv (Op QTok CT AtomInfo convert convertArgs comparePrec joinWith group decideIn innerIdx idxOf)

/-! ## 1. Extended conditions -/

/-- induction principle for the nested inductive `Ext` -/
theorem Ext.ind {P : Ext → Prop}
    (ref : ∀ r, P (.ref r)) (not : ∀ e, P e → P (.not e))
    (and : ∀ es, (∀ e ∈ es, P e) → P (.and es))
    (or : ∀ es, (∀ e ∈ es, P e) → P (.or es)) : ∀ e, P e := by
  intro e
  exact Ext.rec (motive_1 := P) (motive_2 := fun es => ∀ e ∈ es, P e)
    ref (fun e ih => not e ih) (fun es ih => and es ih) (fun es ih => or es ih)
    (by simp) (fun e es ih1 ih2 x hx => by
      rcases List.mem_cons.1 hx with rfl | hx
      · exact ih1
      · exact ih2 x hx) e

/-- what the converter looks at in a rule reference: nothing (no field, never in-list eligible) -/
def refInfo : AtomInfo := { field := none, inOk := false, special := false, negatable := false }

mutual
/-- the correlation condition tree as a condition tree whose atoms are the rule references -/
def toCT (ix : Str → Nat) : Ext → CT
  | .ref r => .atom (ix r) refInfo
  | .not e => .not (toCT ix e)
  | .and es => .and (toCTs ix es)
  | .or es => .or (toCTs ix es)
def toCTs (ix : Str → Nat) : List Ext → List CT
  | [] => []
  | e :: es => toCT ix e :: toCTs ix es
end

/-- the C01 configuration a backend uses for extended conditions: its precedence and `parenthesize`;
the in-list and not-equals knobs do not apply to rule references -/
def kOf (prec : List Op) (par : Bool) : Conv.Cfg :=
  { prec := prec, parenthesize := par, orAsIn := false, andAsIn := false, inAllowWild := false,
    notAsNotEq := false }

mutual
/-- every `and` / `or` node has an operand (the parser builds no other: at least two) -/
def wfExt : Ext → Bool
  | .ref _ => true
  | .not e => wfExt e
  | .and es => !es.isEmpty && wfExtL es
  | .or es => !es.isEmpty && wfExtL es
def wfExtL : List Ext → Bool
  | [] => true
  | e :: es => wfExt e && wfExtL es
end

theorem wfExtL_mem {es : List Ext} (h : wfExtL es = true) : ∀ e ∈ es, wfExt e = true := by
  induction es with
  | nil => simp
  | cons c cs ih =>
    simp only [wfExtL, Bool.and_eq_true] at h
    intro x hx
    rcases List.mem_cons.1 hx with rfl | hx
    · exact h.1
    · exact ih h.2 x hx

theorem wfTree_toCT (ix : Str → Nat) : ∀ e, wfTree (toCT ix e) = true := by
  apply Ext.ind
  · intro r; simp [toCT, wfTree]
  · intro e ih; simpa [toCT, wfTree] using ih
  · intro es ih
    simp only [toCT, wfTree]
    induction es with
    | nil => simp [toCTs, wfTreeL]
    | cons c cs ih2 =>
      simp only [toCTs, wfTreeL, Bool.and_eq_true]
      exact ⟨ih c (by simp), ih2 (fun e he => ih e (by simp [he]))⟩
  · intro es ih
    simp only [toCT, wfTree]
    induction es with
    | nil => simp [toCTs, wfTreeL]
    | cons c cs ih2 =>
      simp only [toCTs, wfTreeL, Bool.and_eq_true]
      exact ⟨ih c (by simp), ih2 (fun e he => ih e (by simp [he]))⟩

theorem comparePrec_toCT (prec : List Op) (par : Bool) (ix : Str → Nat) (outer : Op) (e : Ext) :
    comparePrec (kOf prec par) outer (toCT ix e) = extCompare prec par outer e := by
  cases e with
  | ref r => simp [toCT, comparePrec, extCompare, kOf, CT.isAtomLike, Ext.isRef, innerIdx, extIdx]
  | not e =>
    simp only [toCT, comparePrec, extCompare, kOf, CT.isAtomLike, Ext.isRef, innerIdx, extIdx, idxOf]
    cases List.idxOf? Op.not prec <;> cases List.idxOf? outer prec <;> rfl
  | and es =>
    simp only [toCT, comparePrec, extCompare, kOf, CT.isAtomLike, Ext.isRef, innerIdx, extIdx, idxOf]
    cases List.idxOf? Op.and prec <;> cases List.idxOf? outer prec <;> rfl
  | or es =>
    simp only [toCT, comparePrec, extCompare, kOf, CT.isAtomLike, Ext.isRef, innerIdx, extIdx, idxOf]
    cases List.idxOf? Op.or prec <;> cases List.idxOf? outer prec <;> rfl

theorem extCompare_ref (prec : List Op) (par : Bool) (outer : Op) (e : Ext) (h : e.isRef = true) :
    extCompare prec par outer e = true := by
  cases e <;> simp_all [Ext.isRef, extCompare, extIdx]

theorem compound_toCT (k : Conv.Cfg) (ix : Str → Nat) (e : Ext) : compound k (toCT ix e) = !e.isRef := by
  cases e <;> simp [toCT, compound, Ext.isRef]

theorem decideIn_kOf (prec : List Op) (par : Bool) (isOr : Bool) (cs : List CT) :
    decideIn (kOf prec par) isOr cs = false := by
  cases isOr <;> simp [decideIn, kOf]

theorem renderArgs_length (prec : List Op) (par : Bool) (ix : Str → Nat) (o : Op) (es : List Ext) :
    (renderArgs prec par ix o es).length = es.length := by
  induction es with
  | nil => simp [renderArgs]
  | cons e es ih => simp [renderArgs, ih]

/-- operands: `convertArgs` on the embedding is `renderArgs`, given the statement for each operand -/
theorem args_eq (prec : List Op) (par : Bool) (ix : Str → Nat) (neg : Bool) (o : Op) (es : List Ext)
    (h : ∀ e ∈ es, convert (kOf prec par) neg (toCT ix e) = some (renderExt prec par ix e)) :
    convertArgs (kOf prec par) neg o (toCTs ix es) = renderArgs prec par ix o es := by
  induction es with
  | nil => simp [toCTs, convertArgs, renderArgs]
  | cons e es ih =>
    have he := h e (by simp)
    have ih' := ih (fun x hx => h x (by simp [hx]))
    simp only [toCTs, convertArgs, renderArgs, comparePrec_toCT, he, ih']
    by_cases hr : e.isRef = true
    · simp [extCompare_ref prec par o e hr, hr]
    · have hr' : e.isRef = false := by simpa using hr
      cases hc : extCompare prec par o e <;> simp [hr', group, grp]

/-- **Bridge to C01.**  On every well-formed condition tree the extended-condition renderer emits
exactly what the C01 converter emits for the embedded tree (under any `neg` context: rule references
have no negated twin). -/
theorem render_eq_convert (prec : List Op) (par : Bool) (ix : Str → Nat) :
    ∀ e, wfExt e = true → ∀ neg,
      convert (kOf prec par) neg (toCT ix e) = some (renderExt prec par ix e) := by
  apply Ext.ind
  · intro r _ neg
    simp [toCT, convert, renderExt, Conv.atomTok, kOf]
  · intro e ih hw neg
    have hw' : wfExt e = true := by simpa [wfExt] using hw
    rw [toCT, convert_not, compound_toCT, ih hw' true]
    by_cases hr : e.isRef = true
    · simp [hr, renderExt, kOf]
    · have hr' : e.isRef = false := by simpa using hr
      simp [hr', renderExt, kOf, group, grp]
  · intro es ih hw neg
    simp only [wfExt, Bool.and_eq_true] at hw
    have hargs := args_eq prec par ix neg .and es
      (fun e he => ih e he (wfExtL_mem hw.2 e he) neg)
    simp only [toCT, convert, decideIn_kOf, hargs, renderExt]
    have hl := renderArgs_length prec par ix .and es
    cases hx : renderArgs prec par ix .and es with
    | nil =>
      rw [hx] at hl
      cases es <;> simp_all
    | cons x xs => simp
  · intro es ih hw neg
    simp only [wfExt, Bool.and_eq_true] at hw
    have hargs := args_eq prec par ix neg .or es
      (fun e he => ih e he (wfExtL_mem hw.2 e he) neg)
    simp only [toCT, convert, decideIn_kOf, hargs, renderExt]
    have hl := renderArgs_length prec par ix .or es
    cases hx : renderArgs prec par ix .or es with
    | nil =>
      rw [hx] at hl
      cases es <;> simp_all
    | cons x xs => simp

/-- the meaning of the embedded tree is the meaning of the condition tree -/
theorem evalCT_toCT (ix : Str → Nat) (ρ : Nat → Bool) :
    ∀ e, wfExt e = true → evalCT ρ (toCT ix e) = some (e.sem (fun r => ρ (ix r))) := by
  have hall : ∀ es : List Ext, (∀ e ∈ es, evalCT ρ (toCT ix e) = some (e.sem (fun r => ρ (ix r)))) →
      evalList ρ (toCTs ix es) = es.map (fun e => e.sem (fun r => ρ (ix r))) := by
    intro es h
    induction es with
    | nil => simp [toCTs, evalList]
    | cons e es ih =>
      simp [toCTs, evalList, h e (by simp), ih (fun x hx => h x (by simp [hx]))]
  have hsemAll : ∀ (σ : Str → Bool) (es : List Ext), Ext.semAll σ es = (es.map (fun e => e.sem σ)).all id := by
    intro σ es; induction es with
    | nil => simp [Ext.semAll]
    | cons e es ih => simp [Ext.semAll, ih]
  have hsemAny : ∀ (σ : Str → Bool) (es : List Ext), Ext.semAny σ es = (es.map (fun e => e.sem σ)).any id := by
    intro σ es; induction es with
    | nil => simp [Ext.semAny]
    | cons e es ih => simp [Ext.semAny, ih]
  apply Ext.ind
  · intro r _; simp [toCT, evalCT, Ext.sem]
  · intro e ih hw
    have hw' : wfExt e = true := by simpa [wfExt] using hw
    simp [toCT, evalCT, Ext.sem, ih hw']
  · intro es ih hw
    simp only [wfExt, Bool.and_eq_true] at hw
    have := hall es (fun e he => ih e he (wfExtL_mem hw.2 e he))
    simp only [toCT, evalCT, this, Ext.sem, hsemAll]
    cases es with
    | nil => simp at hw
    | cons e es => simp
  · intro es ih hw
    simp only [wfExt, Bool.and_eq_true] at hw
    have := hall es (fun e he => ih e he (wfExtL_mem hw.2 e he))
    simp only [toCT, evalCT, this, Ext.sem, hsemAny]
    cases es with
    | nil => simp at hw
    | cons e es => simp

/-! ## 2. Field renaming: stage by stage = whole pipeline -/

theorem mapAll_nil (f : Str) : mapAll [] f = [f] := rfl

theorem foldl_flatMap_append (stages : List Stage) (xs ys : List Str) :
    stages.foldl (fun acc t => acc.flatMap (mapField t)) (xs ++ ys) =
      stages.foldl (fun acc t => acc.flatMap (mapField t)) xs ++
      stages.foldl (fun acc t => acc.flatMap (mapField t)) ys := by
  induction stages generalizing xs ys with
  | nil => rfl
  | cons t ts ih => simp [List.foldl, List.flatMap_append, ih]

theorem foldl_flatMap_nil (stages : List Stage) :
    stages.foldl (fun acc t => acc.flatMap (mapField t)) ([] : List Str) = [] := by
  induction stages with
  | nil => rfl
  | cons t ts ih => simpa [List.foldl] using ih

/-- renaming a list by the whole pipeline is renaming each element -/
theorem foldl_flatMap_eq (stages : List Stage) (xs : List Str) :
    stages.foldl (fun acc t => acc.flatMap (mapField t)) xs = xs.flatMap (mapAll stages) := by
  induction xs with
  | nil => simp [foldl_flatMap_nil]
  | cons x xs ih =>
    have := foldl_flatMap_append stages [x] xs
    simp only [List.singleton_append] at this
    rw [this, ih]
    simp [mapAll]

theorem mapAll_cons (t : Stage) (ts : List Stage) (f : Str) :
    mapAll (t :: ts) f = (mapField t f).flatMap (mapAll ts) := by
  simp only [mapAll, List.foldl, List.flatMap_cons, List.flatMap_nil, List.append_nil]
  exact foldl_flatMap_eq ts (mapField t f)

/-- no stage drops a name (maps it to the empty list) -/
def Stage.total (t : Stage) : Prop := ∀ f, mapField t f ≠ []

theorem mapAll_ne_nil (stages : List Stage) (h : ∀ t ∈ stages, Stage.total t) (f : Str) :
    mapAll stages f ≠ [] := by
  induction stages generalizing f with
  | nil => simp [mapAll]
  | cons t ts ih =>
    rw [mapAll_cons]
    have ht := h t (by simp) f
    cases hm : mapField t f with
    | nil => exact absurd hm ht
    | cons x xs =>
      simp only [List.flatMap_cons]
      intro hc
      have := List.append_eq_nil_iff.1 hc
      exact ih (fun t' ht' => h t' (by simp [ht'])) x this.1

/-- alias names are never images of other names (otherwise a later stage would take the image for an alias) -/
def NoCapture (stages : List Stage) (names : List Str) : Prop :=
  ∀ t ∈ stages, ∀ f, names.contains f = false → ∀ x ∈ mapField t f, names.contains x = false

theorem mapOne_ok {t : Stage} {f x : Str} (h : mapOne t f = .ok x) : mapField t f = [x] := by
  unfold mapOne at h
  split at h <;> simp_all

theorem mapAll_of_mapOne {t : Stage} {f x : Str} (h : mapOne t f = .ok x) (ts : List Stage) :
    mapAll (t :: ts) f = mapAll ts x := by
  rw [mapAll_cons, mapOne_ok h]; simp

theorem specPairs_step {t : Stage} {ps ps1 : List (Str × Str)} (h : mapPairs t ps = .ok ps1) (ts : List Stage) :
    specPairs (t :: ts) ps = specPairs ts ps1 := by
  induction ps generalizing ps1 with
  | nil => simp [mapPairs] at h; subst h; rfl
  | cons p ps ih =>
    simp only [mapPairs] at h
    split at h
    · contradiction
    · rename_i x hx
      split at h
      · contradiction
      · rename_i r hr
        injection h with h; subst h
        simp [specPairs, mapAll_of_mapOne hx, ih hr]

theorem specAliases_step {t : Stage} {as as1 : List Alias} (h : mapAliases t as = .ok as1) (ts : List Stage) :
    specAliases (t :: ts) as = specAliases ts as1 ∧ as1.map Alias.name = as.map Alias.name := by
  induction as generalizing as1 with
  | nil => simp [mapAliases] at h; subst h; exact ⟨rfl, rfl⟩
  | cons a as ih =>
    simp only [mapAliases] at h
    split at h
    · contradiction
    · rename_i mp hmp
      split at h
      · contradiction
      · rename_i r hr
        injection h with h; subst h
        obtain ⟨h1, h2⟩ := ih hr
        exact ⟨by simp [specAliases, specPairs_step hmp, h1], by simp [h2]⟩

theorem specNames_step {t : Stage} {fs fs1 : List Str} (h : mapNames t fs = .ok fs1) (ts : List Stage) :
    specNames (t :: ts) fs = specNames ts fs1 := by
  induction fs generalizing fs1 with
  | nil => simp [mapNames] at h; subst h; rfl
  | cons f fs ih =>
    simp only [mapNames] at h
    split at h
    · contradiction
    · rename_i x hx
      split at h
      · contradiction
      · rename_i r hr
        injection h with h; subst h
        simp [specNames, mapAll_of_mapOne hx, ih hr]

theorem specCond_step {t : Stage} {c c1 : Cond} (h : mapCond t c = .ok c1) (ts : List Stage) :
    specCond (t :: ts) c = specCond ts c1 := by
  cases c with
  | ext e => simp [mapCond] at h; subst h; rfl
  | basic b =>
    simp only [mapCond] at h
    split at h
    · contradiction
    · rename_i f hf
      injection h with h; subst h
      cases hb : b.field with
      | none => simp [hb, mapFieldRef] at hf; subst hf; simp [specCond, specFieldRef, hb]
      | one g =>
        simp only [hb, mapFieldRef] at hf
        split at hf
        · contradiction
        · rename_i x hx
          injection hf with hf; subst hf
          simp [specCond, specFieldRef, hb, mapAll_of_mapOne hx]
      | many gs =>
        simp only [hb, mapFieldRef] at hf
        split at hf
        · contradiction
        · rename_i xs hxs
          injection hf with hf; subst hf
          simp [specCond, specFieldRef, hb, specNames_step hxs]

theorem specPairs_nil (ps : List (Str × Str)) : specPairs [] ps = some ps := by
  induction ps with
  | nil => rfl
  | cons p ps ih => simp [specPairs, mapAll, theOne, ih]

theorem specAliases_nil (as : List Alias) : specAliases [] as = some as := by
  induction as with
  | nil => rfl
  | cons a as ih => simp [specAliases, specPairs_nil, ih]

theorem specNames_nil (fs : List Str) : specNames [] fs = some fs := by
  induction fs with
  | nil => rfl
  | cons f fs ih => simp [specNames, mapAll, theOne, ih]

theorem specCond_nil (c : Cond) : specCond [] c = some c := by
  cases c with
  | ext e => rfl
  | basic b =>
    cases hb : b.field <;> simp [specCond, specFieldRef, hb, mapAll, theOne, specNames_nil]
    all_goals (cases b; simp_all)

theorem flatMap_congr' {α β : Type} {f g : α → List β} {l : List α} (h : ∀ x ∈ l, f x = g x) :
    l.flatMap f = l.flatMap g := by
  induction l with
  | nil => rfl
  | cons a l ih =>
    simp only [List.flatMap_cons]
    rw [h a (by simp), ih (fun x hx => h x (by simp [hx]))]

theorem specGroupBy_step (t : Stage) (ts : List Stage) (names gb : List Str)
    (hc : ∀ f, names.contains f = false → ∀ x ∈ mapField t f, names.contains x = false) :
    specGroupBy ts names (mapGroupBy t names gb) = specGroupBy (t :: ts) names gb := by
  simp only [specGroupBy, mapGroupBy, List.flatMap_assoc]
  apply flatMap_congr'
  intro g _
  cases hg : names.contains g with
  | true =>
    have hm : g ∈ names := by simpa using hg
    simp [hm]
  | false =>
    simp only [Bool.false_eq_true, if_false, mapAll_cons]
    apply flatMap_congr'
    intro x hx
    have hx' : x ∉ names := by simpa using hc g hg x hx
    simp [hx']

theorem specGroupBy_nil (names gb : List Str) : specGroupBy [] names gb = gb := by
  induction gb with
  | nil => rfl
  | cons g gb ih =>
    simp only [specGroupBy, List.flatMap_cons] at ih ⊢
    rw [ih]; cases h : names.contains g <;> simp [mapAll]

/-- what one stage does to a rule (inversion of `applyStage`) -/
theorem applyStage_ok {al : Bool} {t : Stage} {r r1 : Rule} (h : applyStage al t r = .ok r1) :
    r1.fields = r.fields.flatMap (mapField t) ∧
    r1.groupBy = r.groupBy.map (mapGroupBy t (r.aliases.map Alias.name)) ∧
    mapCond t r.cond = .ok r1.cond ∧
    (al = false → r.groupBy = none → r1.aliases = r.aliases) ∧
    ((al || r.groupBy.isSome) = true → mapAliases t r.aliases = .ok r1.aliases) ∧
    r1.type = r.type ∧ r1.rules = r.rules ∧ r1.timespan = r.timespan ∧ r1.generate = r.generate := by
  unfold applyStage at h
  split at h
  · contradiction
  · rename_i as has
    split at h
    · contradiction
    · rename_i c hc
      injection h with h; subst h
      refine ⟨rfl, rfl, hc, ?_, ?_, rfl, rfl, rfl, rfl⟩
      · intro ha hn; simp [ha, hn] at has; exact has.symm
      · intro hs; simpa [hs] using has

theorem flatMap_mapAll_nil (xs : List Str) : xs.flatMap (mapAll []) = xs := by
  induction xs with
  | nil => rfl
  | cons x xs ih => simp [List.flatMap_cons, mapAll, ih]

/-- **Stage-by-stage renaming (as coded) = renaming by the whole pipeline (as specified).**  `al` =
alias targets are mapped even without a group-by list (not so in the code as it stands). -/
theorem applyStages_spec {al : Bool} {stages : List Stage} {r0 r : Rule} (h : applyStages al stages r0 = .ok r) :
    r.fields = r0.fields.flatMap (mapAll stages) ∧
    specCond stages r0.cond = some r.cond ∧
    r.type = r0.type ∧ r.rules = r0.rules ∧ r.timespan = r0.timespan ∧ r.generate = r0.generate ∧
    r.aliases.map Alias.name = r0.aliases.map Alias.name ∧
    (r0.groupBy = none → r.groupBy = none ∧ (al = false → r.aliases = r0.aliases)) ∧
    ((al || r0.groupBy.isSome) = true → specAliases stages r0.aliases = some r.aliases) ∧
    (∀ gb, r0.groupBy = some gb → NoCapture stages (r0.aliases.map Alias.name) →
        r.groupBy = some (specGroupBy stages (r0.aliases.map Alias.name) gb)) := by
  induction stages generalizing r0 with
  | nil =>
    simp only [applyStages] at h
    injection h with h; subst h
    refine ⟨(flatMap_mapAll_nil _).symm, specCond_nil _, rfl, rfl, rfl, rfl, rfl, fun hn => ⟨hn, fun _ => rfl⟩,
      fun _ => specAliases_nil _, ?_⟩
    intro gb hg _
    rw [hg, specGroupBy_nil]
  | cons t ts ih =>
    simp only [applyStages] at h
    split at h
    · contradiction
    · rename_i r1 h1
      obtain ⟨hf, hgb, hc, hnone, hsome, hty, hru, hti, hge⟩ := applyStage_ok h1
      obtain ⟨if1, if2, if3, if4, if5, if6, if7, if8, if9, if10⟩ := ih h
      have hsome1 : r1.groupBy.isSome = r0.groupBy.isSome := by rw [hgb]; cases r0.groupBy <;> rfl
      have hnames1 : r1.aliases.map Alias.name = r0.aliases.map Alias.name := by
        cases hx : (al || r0.groupBy.isSome) with
        | true => exact (specAliases_step (hsome hx) ts).2
        | false =>
          simp only [Bool.or_eq_false_iff] at hx
          rw [hnone hx.1 (by cases hg : r0.groupBy <;> simp_all)]
      refine ⟨?_, ?_, if3.trans hty, if4.trans hru, if5.trans hti, if6.trans hge, if7.trans hnames1, ?_, ?_, ?_⟩
      · rw [if1, hf, List.flatMap_assoc]
        apply flatMap_congr'
        intro x _
        rw [mapAll_cons]
      · rw [specCond_step hc ts, if2]
      · intro hn
        have h1n : r1.groupBy = none := by rw [hgb, hn]; rfl
        obtain ⟨a, b⟩ := if8 h1n
        exact ⟨a, fun ha => (b ha).trans (hnone ha hn)⟩
      · intro hx
        rw [(specAliases_step (hsome hx) ts).1]
        exact if9 (by rw [hsome1]; exact hx)
      · intro gb hg hcap
        have h1g : r1.groupBy = some (mapGroupBy t (r0.aliases.map Alias.name) gb) := by rw [hgb, hg]; rfl
        have hcap' : NoCapture ts (r1.aliases.map Alias.name) := by
          rw [hnames1]; intro t' ht'; exact hcap t' (by simp [ht'])
        rw [if10 _ h1g hcap', hnames1, specGroupBy_step t ts _ gb (hcap t (by simp))]

/-! ## 3. Structure of `convertCorr` -/

theorem bind_ok {α β : Type} (x : Except Err α) (f : α → Except Err β) (b : β) :
    (x >>= f) = .ok b ↔ ∃ a, x = .ok a ∧ f a = .ok b := by
  cases x <;> simp [bind, Except.bind]

theorem need_ok (c : Bool) (e : Err) (u : Unit) : need c e = .ok u ↔ c = true := by
  cases c <;> simp [need, pure, Except.pure, throw, throwThe, MonadExceptOf.throw]

theorem phases_ok {k : Cfg} {refs m qt tn r out} (h : phases k refs m qt tn r = .ok out) :
    ∃ ss agg cond, search k r.aliases refs = .ok ss ∧ aggregation k tn refs r = .ok agg ∧
      condition k tn r.cond = .ok cond ∧
      out =
        { qt := qt, tn := tn.pyName, method := m, single := ss.1, subs := ss.2, typing := typing k refs,
          ts := renderTs k r.timespan, gb := agg.gb, aggField := agg.field, pct := agg.pct,
          fields := agg.fields, refs := agg.refs, cond := cond } := by
  simp only [phases, bind_ok] at h
  obtain ⟨ss, h1, agg, h2, cond, h3, h4⟩ := h
  exact ⟨ss, agg, cond, h1, h2, h3, by simpa [pure, Except.pure] using h4.symm⟩

theorem fromTemplate_ok {k : Cfg} {refs m r out} (h : fromTemplate k refs m r = .ok out) :
    ∃ qt qms, queryTemplate k (dispatch r.type r.cond.isExt) = some (qt, qms) ∧ qms.contains m = true ∧
      phases k refs m qt (dispatch r.type r.cond.isExt) r = .ok out := by
  simp only [fromTemplate] at h
  split at h
  · simp [throw, throwThe, MonadExceptOf.throw] at h
  · rename_i qt qms hq
    simp only [bind_ok, need_ok] at h
    obtain ⟨_, h1, h2⟩ := h
    exact ⟨qt, qms, hq, h1, h2⟩

theorem convertCorr_ok {k : Cfg} {env stages method r0 out} (h : convertCorr k env stages method r0 = .ok out) :
    validate r0 = true ∧ k.corr = true ∧ k.methods.contains (method.getD k.defaultMethod) = true ∧
    ∃ refs r, resolveRefs env (refsOf r0) = .ok refs ∧ applyStages k.aliasAlways stages r0 = .ok r ∧
      fromTemplate k refs (method.getD k.defaultMethod) r = .ok out := by
  simp only [convertCorr, bind_ok, need_ok] at h
  obtain ⟨_, hv, refs, hr, _, hc, _, hm, r, hs, hf⟩ := h
  exact ⟨hv, hc, hm, refs, r, hr, hs, hf⟩

theorem resolveRefs_ok {env : Env} {names : List Str} {refs : List (Str × RefInfo)}
    (h : resolveRefs env names = .ok refs) :
    refs.map (·.1) = names ∧ ∀ p ∈ refs, env p.1 = some p.2 := by
  induction names generalizing refs with
  | nil => simp [resolveRefs, pure, Except.pure] at h; subst h; simp
  | cons n ns ih =>
    simp only [resolveRefs] at h
    split at h
    · rename_i i hi
      simp only [bind_ok] at h
      obtain ⟨rest, hrest, h⟩ := h
      simp only [pure, Except.pure] at h
      injection h with h; subst h
      obtain ⟨a, b⟩ := ih hrest
      refine ⟨by simp [a], ?_⟩
      intro p hp
      rcases List.mem_cons.1 hp with rfl | hp
      · exact hi
      · exact b p hp
    · simp [throw, throwThe, MonadExceptOf.throw] at h

theorem searchSubs_eq (k : Cfg) (aliases : List Alias) (refs : List (Str × RefInfo)) :
    searchSubs k aliases refs = subsOf k aliases refs := by
  unfold searchSubs
  split
  · rename_i hs
    match refs, hs with
    | [p], hs =>
      simp only [isSingle, Bool.and_eq_true, beq_iff_eq] at hs
      match hq : p.2.queries, hs.1 with
      | [q], _ => simp [singleSubs, subsOf, hq]
    | [], hs => simp [isSingle] at hs
    | _ :: _ :: _, hs => simp [isSingle] at hs
  · rfl

/-- the search phase, single- or multi-rule expression alike, lists the sub-queries of `subsOf` -/
theorem search_ok {k : Cfg} {aliases : List Alias} {refs : List (Str × RefInfo)} {ss : Bool × List SubQ}
    (h : search k aliases refs = .ok ss) : ss.2 = subsOf k aliases refs ∧ ss.1 = isSingle k refs := by
  simp only [search, bind_ok, need_ok, pure, Except.pure] at h
  obtain ⟨_, _, _, _, h⟩ := h
  injection h with h; subst h
  exact ⟨searchSubs_eq k aliases refs, rfl⟩

theorem aggregation_ok {k : Cfg} {tn refs r agg} (h : aggregation k tn refs r = .ok agg) :
    k.aggTypes.contains tn = true ∧
    groupBy k r.groupBy = .ok agg.gb ∧ agg.refs = refsExpr k refs ∧
    agg.fields = aggFields k r.fields refs r.groupBy ∧
    (match r.cond with
     | .basic c => agg.field = c.field.toList ∧ agg.pct = c.percentile ∧
                   (tn = .valuePercentile → c.percentile.isSome = true)
     | .ext _ => agg.field = [] ∧ agg.pct = none) := by
  simp only [aggregation, bind_ok, need_ok, pure, Except.pure] at h
  obtain ⟨_, h1, _, hp, gb, hgb, _, _, h⟩ := h
  injection h with h; subst h
  refine ⟨h1, hgb, rfl, rfl, ?_⟩
  cases hc : r.cond with
  | basic c =>
    refine ⟨rfl, rfl, ?_⟩
    intro htn; subst htn
    rw [hc] at hp
    cases hpc : c.percentile <;> simp_all
  | ext e => exact ⟨rfl, rfl⟩

/-- the group-by element of the record for a (mapped) group-by list -/
def gbOf (k : Cfg) : Option (List Str) → GB
  | some fs => .fields fs
  | none => if k.gbNoField then .nofield else .absent

/-- the condition element of the record for a (mapped) condition -/
def condOf (k : Cfg) : Cond → CondR
  | .basic b => .basic b.op b.count b.field.toList
  | .ext e => .ext e.refs (renderExt k.prec k.parenthesize (extIx e.refs) e)

theorem groupBy_ok {k : Cfg} {g : Option (List Str)} {gb : GB} (h : groupBy k g = .ok gb) : gb = gbOf k g := by
  cases g with
  | none => simp [groupBy, pure, Except.pure] at h; exact h.symm
  | some fs =>
    simp only [groupBy] at h
    split at h
    · simp only [pure, Except.pure] at h; injection h with h; exact h.symm
    · simp [throw, throwThe, MonadExceptOf.throw] at h

theorem condition_ok {k : Cfg} {tn c out} (h : condition k tn c = .ok out) :
    k.condTypes.contains tn = true ∧ out = condOf k c := by
  simp only [condition, bind_ok, need_ok] at h
  obtain ⟨_, h1, h⟩ := h
  refine ⟨h1, ?_⟩
  cases c with
  | basic b => simp only [pure, Except.pure] at h; injection h with h; exact h.symm
  | ext e =>
    simp only [bind_ok, need_ok, pure, Except.pure] at h
    obtain ⟨_, _, h⟩ := h
    injection h with h; exact h.symm

theorem specCond_isExt {stages : List Stage} {c c' : Cond} (h : specCond stages c = some c') :
    c'.isExt = c.isExt := by
  cases c with
  | ext e => simp [specCond] at h; subst h; rfl
  | basic b =>
    simp only [specCond, Option.map_eq_some_iff] at h
    obtain ⟨f, _, hf⟩ := h
    subst hf; rfl

/-- is the result the given error class? -/
def failsWith (x : Except Err Record) (e : Err) : Bool :=
  match x with
  | .error e' => e' == e
  | .ok _ => false

end SigmaVerif.CorrLemmas
