import SigmaVerif.Model.Filter
import SigmaVerif.Spec.Cond
/-!
# Helper lemmas for the C11 property theorems (filters)

1. applicability (`covers`, `applies`)
2. the token scan `rewriteF`: fuel, one word, one separator, keywords
3. `mapNames`, `NamesOK`, the scan on the canonical spelling `pp`
4. globs with a common literal prefix, `selects` under renaming
-/
namespace SigmaVerif.Lemmas.Filter
open SigmaVerif.Cond SigmaVerif.CondSpec SigmaVerif.Filter

/-! ## 1. Applicability -/

theorem opt_cover_iff (a b : Option Str) :
    (a.isNone || a == b) = true ↔ ∀ c, a = some c → b = some c := by
  cases a with
  | none => simp
  | some x =>
    constructor
    · intro h c hc
      simp at h hc
      subst hc; exact h.symm
    · intro h
      simp [h x rfl]

theorem covers_iff (f r : LogSource) :
    f.covers r = true ↔
      (∀ c, f.category = some c → r.category = some c) ∧
      (∀ c, f.product = some c → r.product = some c) ∧
      (∀ c, f.service = some c → r.service = some c) := by
  simp only [LogSource.covers, Bool.and_eq_true, opt_cover_iff, and_assoc]

theorem covers_refl (f : LogSource) : f.covers f = true :=
  (covers_iff f f).2 ⟨fun _ h => h, fun _ h => h, fun _ h => h⟩

theorem covers_trans (f g r : LogSource) (h1 : f.covers g = true) (h2 : g.covers r = true) :
    f.covers r = true := by
  rw [covers_iff] at h1 h2 ⊢
  exact ⟨fun c h => h2.1 c (h1.1 c h), fun c h => h2.2.1 c (h1.2.1 c h),
    fun c h => h2.2.2 c (h1.2.2 c h)⟩

theorem covers_empty (r : LogSource) : (⟨none, none, none⟩ : LogSource).covers r = true := rfl

theorem applies_iff (fl : LogSource) (fr : RuleList) (r : RuleInfo) :
    applies fl fr r = true ↔
      r.isCorrelation = false ∧ fl.covers r.logsource = true ∧
      (fr = .any ∨ ∃ ks, fr = .refs ks ∧ ∃ k ∈ ks, k ∈ r.keys) := by
  cases fr with
  | any => simp [applies]
  | refs ks => simp [applies, and_assoc]

/-! ## 2. The token scan -/

theorem spanChars_snd_length (cs : List Char) (s : Str) : (spanChars cs s).2.length ≤ s.length := by
  induction s with
  | nil => simp [spanChars]
  | cons c s ih =>
    simp only [spanChars]
    split
    · simp only [List.length_cons]; omega
    · simp

/-- a run of `cs` characters in front of a boundary is read whole -/
theorem spanChars_word (cs : List Char) (w rest : Str) (hw : w.all cs.contains = true)
    (hr : notFollowedBy cs rest = true) : spanChars cs (w ++ rest) = (w, rest) := by
  induction w with
  | nil =>
    cases rest with
    | nil => rfl
    | cons c r =>
      simp only [notFollowedBy, Bool.not_eq_true'] at hr
      simp only [List.nil_append, spanChars, hr]
      rfl
  | cons c w ih =>
    simp only [List.all_cons, Bool.and_eq_true] at hw
    simp only [List.cons_append, spanChars, hw.1, if_true, ih hw.2]

/-- any fuel not smaller than the length gives the same scan -/
theorem rewriteF_fuel (pre : Str) : ∀ (f g : Nat) (s : Str), s.length ≤ f → s.length ≤ g →
    rewriteF pre f s = rewriteF pre g s := by
  intro f
  induction f with
  | zero =>
    intro g s hf hg
    have : s = [] := List.eq_nil_of_length_eq_zero (by omega)
    subst this
    cases g <;> simp [rewriteF]
  | succ f ih =>
    intro g s hf hg
    cases s with
    | nil => cases g <;> simp [rewriteF]
    | cons c t =>
      cases g with
      | zero => simp at hg
      | succ g =>
        have hlen := spanChars_snd_length bodyChars t
        simp only [List.length_cons] at hf hg
        simp only [rewriteF]
        split
        · rw [ih g _ (by omega) (by omega)]
        · rw [ih g t (by omega) (by omega)]

theorem rewriteF_eq_rewrite (pre : Str) (f : Nat) (s : Str) (h : s.length ≤ f) :
    rewriteF pre f s = rewrite pre s :=
  rewriteF_fuel pre f (s.length + 1) s h (by omega)

theorem rewrite_nil (pre : Str) : rewrite pre [] = [] := rfl

/-- the scan, without fuel -/
theorem rewrite_cons (pre : Str) (c : Char) (s : Str) :
    rewrite pre (c :: s) =
      if startChars.contains c then
        replaceToken pre (c :: (spanChars bodyChars s).1) ++ rewrite pre (spanChars bodyChars s).2
      else c :: rewrite pre s := by
  have hlen := spanChars_snd_length bodyChars s
  simp only [rewrite, List.length_cons, rewriteF]
  split
  · rw [rewriteF_fuel pre _ ((spanChars bodyChars s).2.length + 1) _ (by omega) (by omega)]
  · rfl

/-- a character no token starts with is copied -/
theorem rewrite_sep (pre : Str) (c : Char) (s : Str) (hc : startChars.contains c = false) :
    rewrite pre (c :: s) = c :: rewrite pre s := by
  rw [rewrite_cons, hc]; rfl

/-- a word the token pattern matches whole: a start character, then body characters -/
def isTok : Str → Bool
  | [] => false
  | c :: b => startChars.contains c && b.all bodyChars.contains

/-- a token in front of a boundary is replaced as a whole -/
theorem rewrite_word (pre w rest : Str) (hw : isTok w = true)
    (hr : notFollowedBy bodyChars rest = true) :
    rewrite pre (w ++ rest) = replaceToken pre w ++ rewrite pre rest := by
  cases w with
  | nil => simp [isTok] at hw
  | cons c b =>
    simp only [isTok, Bool.and_eq_true] at hw
    rw [List.cons_append, rewrite_cons, if_pos hw.1, spanChars_word bodyChars b rest hw.2 hr]

theorem keywords_isTok : ∀ k ∈ keywords, isTok k = true := by decide

theorem replaceToken_keyword (pre k : Str) (hk : k ∈ keywords) : replaceToken pre k = k := by
  simp [replaceToken, hk]

/-- what happens to a word that is neither a keyword nor `them` -/
theorem replaceToken_name (pre n : Str) (hk : keywords.contains n = false)
    (ht : n ≠ "them".toList) : replaceToken pre n = pre ++ '_' :: n := by
  have ht' : (n == "them".toList) = false := beq_eq_false_iff_ne.2 ht
  simp only [replaceToken, hk, ht']
  simp

/-- a keyword followed by a blank is copied -/
theorem rewrite_keyword (pre k s : Str) (hk : k ∈ keywords) :
    rewrite pre (k ++ ' ' :: s) = k ++ ' ' :: rewrite pre s := by
  rw [rewrite_word pre k _ (keywords_isTok k hk) (by show (!bodyChars.contains ' ') = true; decide),
    replaceToken_keyword pre k hk,
    rewrite_sep pre ' ' s (by decide)]

end SigmaVerif.Lemmas.Filter

/-! ## 3. Renaming an expression, and the scan on the canonical spelling -/
namespace SigmaVerif.CondSpec
open SigmaVerif.Cond

/-- rename identifiers with `f`, selector patterns with `g` -/
def E.mapNames (f g : Str → Str) : E → E
  | .id n => .id (f n)
  | .sel q p => .sel q (g p)
  | .not e => .not (e.mapNames f g)
  | .and a b => .and (a.mapNames f g) (b.mapNames f g)
  | .or a b => .or (a.mapNames f g) (b.mapNames f g)

end SigmaVerif.CondSpec

namespace SigmaVerif.Lemmas.Filter
open SigmaVerif.Cond SigmaVerif.CondSpec SigmaVerif.Filter

/-- a word the scan reads whole and prefixes: one token, not a keyword -/
def okWord (w : Str) : Bool := isTok w && !keywords.contains w

/-- what `rewrite_pp` needs of the names and patterns of the filter condition -/
def NamesOK : E → Bool
  | .id n => okWord n && n != "them".toList
  | .sel _ p => okWord p
  | .not e => NamesOK e
  | .and a b => NamesOK a && NamesOK b
  | .or a b => NamesOK a && NamesOK b

def prefixName (pre : Str) : Str → Str := fun n => pre ++ '_' :: n
def prefixPat (pre : Str) : Str → Str :=
  fun p => if p = "them".toList then pre ++ "_*".toList else pre ++ '_' :: p

theorem replaceToken_pat (pre p : Str) (hk : keywords.contains p = false) :
    replaceToken pre p = prefixPat pre p := by
  simp only [replaceToken, hk, prefixPat]
  by_cases h : p = "them".toList <;> simp [h]

/-- `S` is rewritten to `S'` in front of every boundary -/
def Rewrites (pre S S' : Str) : Prop :=
  ∀ rest, notFollowedBy bodyChars rest = true → rewrite pre (S ++ rest) = S' ++ rewrite pre rest

theorem QW_text_keyword (q : QW) : q.text ∈ keywords := by cases q <;> decide

theorem nfb_space (s : Str) : notFollowedBy bodyChars (' ' :: s) = true := by
  show (!bodyChars.contains ' ') = true; decide
theorem nfb_rparen (s : Str) : notFollowedBy bodyChars (')' :: s) = true := by
  show (!bodyChars.contains ')') = true; decide

theorem rewrites_bin (pre kw A A' B B' : Str) (hk : kw ∈ keywords) (b : Bool)
    (hA : Rewrites pre A A') (hB : Rewrites pre B B') :
    Rewrites pre (paren b (A ++ ' ' :: kw ++ ' ' :: B)) (paren b (A' ++ ' ' :: kw ++ ' ' :: B')) := by
  intro rest hr
  cases b with
  | true =>
    simp only [paren, if_true, List.append_assoc, List.cons_append]
    rw [hA _ (nfb_space _), rewrite_sep pre ' ' _ (by decide), rewrite_keyword pre kw _ hk, hB _ hr]
  | false =>
    simp only [paren, List.append_assoc, List.cons_append, List.nil_append, Bool.false_eq_true,
      if_false]
    rw [rewrite_sep pre '(' _ (by decide), hA _ (nfb_space _), rewrite_sep pre ' ' _ (by decide),
      rewrite_keyword pre kw _ hk, hB _ (nfb_rparen _), rewrite_sep pre ')' _ (by decide)]

theorem rewrite_pp_aux (pre : Str) (e : E) (he : NamesOK e = true) (ctx : Nat) :
    Rewrites pre (pp ctx e) (pp ctx (e.mapNames (prefixName pre) (prefixPat pre))) := by
  induction e generalizing ctx with
  | id n =>
    intro rest hr
    simp only [NamesOK, okWord, Bool.and_eq_true, Bool.not_eq_true', bne_iff_ne, ne_eq] at he
    simp only [pp, E.mapNames]
    rw [rewrite_word pre n rest he.1.1 hr, replaceToken_name pre n he.1.2 he.2]
    rfl
  | sel q p =>
    intro rest hr
    simp only [NamesOK, okWord, Bool.and_eq_true, Bool.not_eq_true'] at he
    have h1 : pp ctx (.sel q p) ++ rest = q.text ++ ' ' :: ("of".toList ++ ' ' :: (p ++ rest)) := by
      simp [pp]
    rw [h1, rewrite_keyword pre _ _ (QW_text_keyword q), rewrite_keyword pre _ _ (by decide),
      rewrite_word pre p rest he.1 hr, replaceToken_pat pre p he.2]
    simp [pp, E.mapNames]
  | not e ih =>
    intro rest hr
    have h1 : pp ctx (.not e) ++ rest = "not".toList ++ ' ' :: (pp 0 e ++ rest) := by
      simp [pp]
    rw [h1, rewrite_keyword pre _ _ (by decide), ih he 0 rest hr]
    simp [pp, E.mapNames]
  | and a b iha ihb =>
    simp only [NamesOK, Bool.and_eq_true] at he
    have := rewrites_bin pre "and".toList _ _ _ _ (by decide) (decide (1 ≤ ctx))
      (iha he.1 1) (ihb he.2 0)
    simpa [pp, E.mapNames] using this
  | or a b iha ihb =>
    simp only [NamesOK, Bool.and_eq_true] at he
    have := rewrites_bin pre "or".toList _ _ _ _ (by decide) (decide (2 ≤ ctx))
      (iha he.1 2) (ihb he.2 1)
    simpa [pp, E.mapNames] using this

theorem rewrite_pp (pre : Str) (e : E) (he : NamesOK e = true) (ctx : Nat) :
    rewrite pre (pp ctx e) = pp ctx (e.mapNames (prefixName pre) (prefixPat pre)) := by
  have := rewrite_pp_aux pre e he ctx [] rfl
  simpa [rewrite_nil] using this

/-! ### Every conjunct of `NamesOK` is needed

Each example shows what the scan really produces where `rewrite_pp` would promise
`pp 0 (e.mapNames …)`, i.e. the name with `p_` in front. -/

/-- non-empty: the empty identifier has no token, nothing is inserted (promised: `p_`) -/
example : rewrite "p".toList (pp 0 (.id [])) = [] := by decide
/-- body characters only: `a.b` is two tokens (promised: `p_a.b`) -/
example : rewrite "p".toList (pp 0 (.id "a.b".toList)) = "p_a.p_b".toList := by decide
/-- starts with a start character: `-b` is read as `-` then the token `b` (promised: `p_-b`) -/
example : rewrite "p".toList (pp 0 (.id "-b".toList)) = "-p_b".toList := by decide
/-- the same for a pattern (promised: `1 of p_-b`) -/
example : rewrite "p".toList (pp 0 (.sel .one "-b".toList)) = "1 of -p_b".toList := by decide
/-- not a keyword: a detection called `all` is left alone (promised: `p_all`) -/
example : rewrite "p".toList (pp 0 (.id "all".toList)) = "all".toList := by decide
/-- not a keyword, patterns: (promised: `1 of p_all`) -/
example : rewrite "p".toList (pp 0 (.sel .one "all".toList)) = "1 of all".toList := by decide
/-- identifiers are not `them`: a detection called `them` becomes a glob (promised: `p_them`) -/
example : rewrite "p".toList (pp 0 (.id "them".toList)) = "p_*".toList := by decide
/-- in each case the two sides of `rewrite_pp` differ -/
example : ∀ e ∈ [E.id [], .id "a.b".toList, .id "-b".toList, .sel .one "-b".toList,
      .id "all".toList, .sel .one "all".toList, .id "them".toList],
    NamesOK e = false ∧
    rewrite "p".toList (pp 0 e) ≠
      pp 0 (e.mapNames (prefixName "p".toList) (prefixPat "p".toList)) := by decide

/-! ## 4. Globs with a common literal prefix; `selects` under renaming -/

theorem globStar_nil (n : Str) : globStar [] n = n.isEmpty := by rw [globStar]

theorem globStar_lit_nil (a : Char) (p : Str) (ha : a ≠ '*') : globStar (a :: p) [] = false := by
  rw [globStar]
  · exact fun h => ha h

theorem globStar_lit_cons (a c : Char) (p n : Str) (ha : a ≠ '*') :
    globStar (a :: p) (c :: n) = (a == c && globStar p n) := by
  rw [globStar]
  · exact fun h => ha h

theorem globStar_star (name : Str) : globStar ['*'] name = true := by
  induction name with
  | nil => simp [globStar]
  | cons c n ih => rw [globStar]; simp [ih]

/-- a literal prefix common to pattern and name can be dropped -/
theorem globStar_prefix (pre p n : Str) (hstar : '*' ∉ pre) :
    globStar (pre ++ p) (pre ++ n) = globStar p n := by
  induction pre with
  | nil => rfl
  | cons a pre ih =>
    have ha : a ≠ '*' := fun h => hstar (by simp [h])
    have hs : '*' ∉ pre := fun h => hstar (by simp [h])
    simp [globStar_lit_cons a a _ _ ha, ih hs]

/-- a pattern with a literal prefix only matches names carrying the prefix -/
theorem globStar_prefix_false (pre p : Str) (hstar : '*' ∉ pre) :
    ∀ n : Str, ¬ pre <+: n → globStar (pre ++ p) n = false := by
  induction pre with
  | nil => intro n hn; exact absurd (List.nil_prefix) hn
  | cons a pre ih =>
    have ha : a ≠ '*' := fun h => hstar (by simp [h])
    have hs : '*' ∉ pre := fun h => hstar (by simp [h])
    intro n hn
    cases n with
    | nil => exact globStar_lit_nil a _ ha
    | cons c n =>
      rw [List.cons_append, globStar_lit_cons a c _ _ ha]
      by_cases hac : a = c
      · subst hac
        have : ¬ pre <+: n := fun h => hn ((List.cons_prefix_cons).2 ⟨rfl, h⟩)
        simp [ih hs n this]
      · simp [hac]

/-- a glob that matches a name starting with `_` starts with `_` or with `*` -/
theorem globStar_head (p d : Str) (h : globStar p d = true) (hd : d.head? = some '_') :
    p.head? = some '_' ∨ p.head? = some '*' := by
  cases p with
  | nil =>
    rw [globStar_nil] at h
    cases d <;> simp_all
  | cons a p =>
    by_cases ha : a = '*'
    · simp [ha]
    · cases d with
      | nil => simp at hd
      | cons c d =>
        rw [globStar_lit_cons a c _ _ ha] at h
        simp at h hd
        simp [h.1, hd]

theorem prefixed_ne_them (pre p : Str) : pre ++ '_' :: p ≠ "them".toList := by
  intro h
  have : '_' ∈ "them".toList := by rw [← h]; simp
  exact absurd this (by decide)

theorem prefixed_head (pre s : Str) (hpre : pre.head? = some '_') :
    (pre ++ s).head? = some '_' := by
  cases pre with
  | nil => simp at hpre
  | cons a pre => simpa using hpre

/-- a rule's own selector never matches an injected filter detection -/
theorem rule_selector_never_captures (pat name : Str) (hp : pat.head? ≠ some '_') (pre : Str)
    (hpre : pre.head? = some '_') : selects pat (pre ++ '_' :: name) = false := by
  simp [selects, prefixed_head pre _ hpre, hp]

/-- a rewritten filter pattern only matches names carrying the prefix -/
theorem filter_selector_never_captures (pre p n : Str) (hn : ¬ (pre ++ ['_']) <+: n)
    (hstar : '*' ∉ pre) : selects (pre ++ '_' :: p) n = false := by
  have hne : (pre ++ '_' :: p == "them".toList) = false :=
    beq_eq_false_iff_ne.2 (prefixed_ne_them pre p)
  have hs : '*' ∉ pre ++ ['_'] := by
    intro h
    rcases List.mem_append.1 h with h | h
    · exact hstar h
    · simp at h
  have := globStar_prefix_false (pre ++ ['_']) p hs n hn
  simp only [List.append_assoc, List.cons_append, List.nil_append] at this
  simp only [selects, hne, this, Bool.or_self, Bool.false_and]

/-- the pattern can match a name that starts with `_` although it does not start with `_` -/
def openPat (p : Str) : Bool := p == "them".toList || p.head? == some '*'

/-- renamed pattern and renamed name start with the same character -/
theorem prefixed_head' (pre s : Str) : (pre ++ '_' :: s).head? = some (pre.head?.getD '_') := by
  cases pre <;> rfl

theorem head_test (x : Char) : (some x == some '_' || some x != some '_') = true := by
  by_cases h : x = '_' <;> simp [h]

/-- renaming pattern and name alike does not change whether the pattern selects the name — unless
the name starts with `_` and the pattern is `them` or starts with `*` -/
theorem selects_prefixed (pre p d : Str) (hstar : '*' ∉ pre)
    (hd : openPat p = true → d.head? ≠ some '_') :
    selects (prefixPat pre p) (pre ++ '_' :: d) = selects p d := by
  have hs : '*' ∉ pre ++ ['_'] := by
    intro h
    rcases List.mem_append.1 h with h | h
    · exact hstar h
    · simp at h
  by_cases ht : p = "them".toList
  · subst ht
    have h1 : globStar (pre ++ "_*".toList) (pre ++ '_' :: d) = true := by
      have := globStar_prefix (pre ++ ['_']) ['*'] d hs
      simp only [List.append_assoc, List.cons_append, List.nil_append] at this
      simpa [globStar_star] using this
    have h2 : d.head? ≠ some '_' := hd (by simp [openPat])
    have h3 : (pre ++ "_*".toList).head? = some (pre.head?.getD '_') := prefixed_head' pre ['*']
    simp only [prefixPat, if_true, selects, h1, h3, prefixed_head', head_test]
    simp [h2]
  · have hne : (pre ++ '_' :: p == "them".toList) = false :=
      beq_eq_false_iff_ne.2 (prefixed_ne_them pre p)
    have ht' : (p == "them".toList) = false := beq_eq_false_iff_ne.2 ht
    have h1 : globStar (pre ++ '_' :: p) (pre ++ '_' :: d) = globStar p d := by
      have := globStar_prefix (pre ++ ['_']) p d hs
      simpa only [List.append_assoc, List.cons_append, List.nil_append] using this
    simp only [prefixPat, if_neg ht, selects, hne, ht', h1, prefixed_head', head_test,
      Bool.false_or, Bool.and_true]
    cases hg : globStar p d with
    | false => rfl
    | true =>
      by_cases hdh : d.head? = some '_'
      · rcases globStar_head p d hg hdh with h | h
        · simp [h]
        · exact absurd hdh (hd (by simp [openPat, h]))
      · simp [hdh]

/-- `'*' ∉ pre` is needed: a star in the prefix would itself act as a wildcard -/
example : selects (prefixPat "*".toList "a".toList) ("*".toList ++ '_' :: "b_a".toList) = true ∧
    selects "a".toList "b_a".toList = false := by
  simp [prefixPat, selects, globStar]

theorem filter_map_any (h : Str → Str) (q q' ρ ρ' : Str → Bool) (dets : List Str)
    (hq : ∀ d ∈ dets, q' (h d) = q d) (hρ : ∀ d, ρ' (h d) = ρ d) :
    ((dets.map h).filter q').any ρ' = (dets.filter q).any ρ := by
  induction dets with
  | nil => rfl
  | cons d ds ih =>
    have ih' := ih (fun d hd => hq d (by simp [hd]))
    simp only [List.map_cons, List.filter_cons, hq d (by simp)]
    cases q d <;> simp [ih', hρ]

theorem filter_map_all (h : Str → Str) (q q' ρ ρ' : Str → Bool) (dets : List Str)
    (hq : ∀ d ∈ dets, q' (h d) = q d) (hρ : ∀ d, ρ' (h d) = ρ d) :
    ((dets.map h).filter q').all ρ' = (dets.filter q).all ρ := by
  induction dets with
  | nil => rfl
  | cons d ds ih =>
    have ih' := ih (fun d hd => hq d (by simp [hd]))
    simp only [List.map_cons, List.filter_cons, hq d (by simp)]
    cases q d <;> simp [ih', hρ]

/-- does the expression contain a selector that can reach a `_` name? -/
def hasOpen : E → Bool
  | .id _ => false
  | .sel _ p => openPat p
  | .not e => hasOpen e
  | .and a b => hasOpen a || hasOpen b
  | .or a b => hasOpen a || hasOpen b

/-- the rewritten condition over the injected detections means what the filter's condition means
over the filter's detections -/
theorem sem_prefixed (pre : Str) (hstar : '*' ∉ pre)
    (dets : List Str) (ρ ρ' : Str → Bool) (hρ : ∀ n, ρ' (pre ++ '_' :: n) = ρ n) (e : E)
    (hd : hasOpen e = true → ∀ d ∈ dets, d.head? ≠ some '_') :
    (e.mapNames (prefixName pre) (prefixPat pre)).sem (dets.map (prefixName pre)) ρ' =
      e.sem dets ρ := by
  induction e with
  | id n => simp [E.mapNames, E.sem, prefixName, hρ]
  | sel q p =>
    have hq : ∀ d ∈ dets, selects (prefixPat pre p) (prefixName pre d) = selects p d :=
      fun d hdm => selects_prefixed pre p d hstar (fun ho => hd ho d hdm)
    simp only [E.mapNames, E.sem]
    cases q.quant with
    | any => exact filter_map_any _ _ _ _ _ dets hq hρ
    | all => exact filter_map_all _ _ _ _ _ dets hq hρ
  | not e ih => simp only [E.mapNames, E.sem, ih hd]
  | and a b iha ihb =>
    simp only [hasOpen, Bool.or_eq_true] at hd
    simp only [E.mapNames, E.sem, iha (fun h => hd (.inl h)), ihb (fun h => hd (.inr h))]
  | or a b iha ihb =>
    simp only [hasOpen, Bool.or_eq_true] at hd
    simp only [E.mapNames, E.sem, iha (fun h => hd (.inl h)), ihb (fun h => hd (.inr h))]

/-- renaming keeps the boolean skeleton (`mapNames` with constant functions erases the names) -/
theorem mapNames_shape (f g : Str → Str) (e : E) :
    (e.mapNames f g).mapNames (fun _ => []) (fun _ => []) =
      e.mapNames (fun _ => []) (fun _ => []) := by
  induction e with
  | id n => rfl
  | sel q p => rfl
  | not e ih => simp only [E.mapNames, ih]
  | and a b iha ihb => simp only [E.mapNames, iha, ihb]
  | or a b iha ihb => simp only [E.mapNames, iha, ihb]

end SigmaVerif.Lemmas.Filter
