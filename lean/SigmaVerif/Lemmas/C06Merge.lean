import SigmaVerif.Lemmas.C06SemDet
/-!
# C06 helper lemmas, part 10: the key-merging loop of `SigmaDetection.to_plain` and meaning

Two items of an AND-linked detection that are written under the same key (after a many-to-one field
mapping) are fused by the merging loop: two single values under `k` become `k|all: [x, y]`, two
`…|all` items get their value lists concatenated.  Without negation the fused item means what the two
items mean; with `neq` it does not (NOT (a AND b) instead of NOT a AND NOT b).
-/
namespace SigmaVerif.Ser
open SigmaVerif.SStr SigmaVerif.SStrSpec SigmaVerif.Mods
open SigmaVerif.Rule (PV splitOn pvToVal Ctx SpecErr BE mapME valBE')

/-- **Fusing two single-valued, non-negated items into one `all` item preserves the meaning** (syntactically:
both are the AND of the two value conditions), whatever the modifiers, and errors agree. -/
theorem fuse_scalars_meaning (cx : Ctx) (f : Option Str) (ms ms' : List Str) (w1 w2 : Val)
    (o1 o2 o : Option (List Val)) :
    detObjBE cx (.node [.item ⟨f, ms, [w1], false, false, o1⟩, .item ⟨f, ms, [w2], false, false, o2⟩] false)
      = objBE cx ⟨f, ms', [w1, w2], true, false, o⟩ := by
  simp only [detObjBE, detObjBEs, objBE, mapME]
  cases valBE' cx f w1 <;> cases valBE' cx f w2 <;> rfl

theorem mapME_append {α β : Type} (f : α → Except SpecErr β) (a b : List α) (ra rb : List β)
    (ha : mapME f a = .ok ra) (hb : mapME f b = .ok rb) : mapME f (a ++ b) = .ok (ra ++ rb) := by
  induction a generalizing ra with
  | nil => simp only [mapME, Except.ok.injEq] at ha; subst ha; simpa using hb
  | cons x t ih =>
    simp only [mapME] at ha
    cases hx : f x with
    | error e => simp [hx] at ha
    | ok y =>
      cases ht : mapME f t with
      | error e => simp [hx, ht] at ha
      | ok ys =>
        simp only [hx, ht, Except.ok.injEq] at ha
        subst ha
        simp only [List.cons_append, mapME, hx, ih ys ht]

theorem evalAll_append (ρ : Rule.Atom → Bool) (a b : List BE) :
    BE.evalAll ρ (a ++ b) = (BE.evalAll ρ a && BE.evalAll ρ b) := by
  induction a with
  | nil => simp [BE.evalAll]
  | cons e t ih => simp [BE.evalAll, ih, Bool.and_assoc]

/-- the condition an AND-linked value list stands for: a single one stands for itself -/
def allBody (es : List BE) : BE := match es with | [e] => e | es => .and es

theorem allBody_eval (ρ : Rule.Atom → Bool) (es : List BE) : (allBody es).eval ρ = BE.evalAll ρ es := by
  unfold allBody
  split
  · simp [BE.evalAll]
  · simp [BE.eval]

theorem objBE_all (cx : Ctx) (f : Option Str) (ms : List Str) (ws : List Val) (o : Option (List Val))
    (neg : Bool) (es : List BE) (hne : ws ≠ []) (h : mapME (valBE' cx f) ws = .ok es) :
    objBE cx ⟨f, ms, ws, true, neg, o⟩ = .ok (if neg then .not (allBody es) else allBody es) := by
  unfold objBE
  cases ws with
  | nil => exact absurd rfl hne
  | cons w t =>
    simp only [h, if_true]
    unfold allBody
    rcases es with _ | ⟨x, _ | ⟨y, r⟩⟩ <;> rfl

/-- **Concatenating the value lists of two non-negated `all` items preserves the meaning**: the fused item
and the AND of the two items have the same truth value under every assignment of the atoms. -/
theorem fuse_all_meaning (cx : Ctx) (f : Option Str) (ms : List Str) (ws1 ws2 : List Val)
    (o1 o2 o : Option (List Val)) (es1 es2 : List BE) (h1 : ws1 ≠ []) (h2 : ws2 ≠ [])
    (he1 : mapME (valBE' cx f) ws1 = .ok es1) (he2 : mapME (valBE' cx f) ws2 = .ok es2) :
    ∃ a b, detObjBE cx (.node [.item ⟨f, ms, ws1, true, false, o1⟩, .item ⟨f, ms, ws2, true, false, o2⟩] false) = .ok a ∧
      objBE cx ⟨f, ms, ws1 ++ ws2, true, false, o⟩ = .ok b ∧ ∀ ρ, a.eval ρ = b.eval ρ := by
  have hne : ws1 ++ ws2 ≠ [] := by simp [h1]
  refine ⟨.and [allBody es1, allBody es2], allBody (es1 ++ es2), ?_, ?_, ?_⟩
  · simp only [detObjBE, detObjBEs, objBE_all cx f ms ws1 o1 false es1 h1 he1,
      objBE_all cx f ms ws2 o2 false es2 h2 he2]
    rfl
  · rw [objBE_all cx f ms (ws1 ++ ws2) o false (es1 ++ es2) hne (mapME_append _ _ _ _ _ he1 he2)]
    rfl
  · intro ρ
    simp [BE.eval, BE.evalAll, allBody_eval, evalAll_append]

end SigmaVerif.Ser
