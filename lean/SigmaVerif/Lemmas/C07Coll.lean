import SigmaVerif.Lemmas.C07Corr
/-! # C07 lemmas: collections — the dispatch loop as a sequence of "load one document, then update
the merge state", with both loading modes related document by document -/
namespace SigmaVerif.Load

/-- merging into a map never fails and yields a map -/
theorem deepUpdate_map : ∀ (src : Dict) (dest : Y), dest.isMap = true →
    ∃ r, deepUpdate dest src = .ok r ∧ r.isMap = true
  | [], dest, h => ⟨dest, rfl, h⟩
  | (k, .map vm) :: rest, dest, h => by
      cases dest <;> simp [Y.isMap] at h
      rename_i dm
      simp only [deepUpdate, pyGetKeyDefault, pure_eq, ok_bind]
      have hsub : (if ((dictGetKey dm k).getD (Y.map [])).isMap = true then (dictGetKey dm k).getD (Y.map []) else Y.map []).isMap = true := by
        split
        · assumption
        · rfl
      obtain ⟨r, hr, _⟩ := deepUpdate_map vm _ hsub
      simp only [hr, ok_bind, pySetItem, pure_eq]
      exact deepUpdate_map rest _ rfl
  | (k, .null) :: rest, dest, h | (k, .bool _) :: rest, dest, h | (k, .int _) :: rest, dest, h
  | (k, .float _) :: rest, dest, h | (k, .str _) :: rest, dest, h | (k, .list _) :: rest, dest, h => by
      cases dest <;> simp [Y.isMap] at h
      simp only [deepUpdate, pySetItem, pure_eq, ok_bind]
      exact deepUpdate_map rest _ rfl

/-- the merge state is well formed: both templates are maps, recorded names are strings or `None` -/
structure Inv (st : CollSt) : Prop where
  prev : st.prev.isMap = true
  glob : st.glob.isMap = true
  names : ∀ n ∈ st.names, n.isNone = true ∨ n.isStr = true

theorem inv_init : Inv {} := ⟨rfl, rfl, by intro n hn; cases hn⟩

theorem nameOf_ok (d : Y) : (nameOf d).isNone = true ∨ (nameOf d).isStr = true := by
  unfold nameOf
  split
  · split <;> simp [Y.isNone, Y.isStr]
  · simp [Y.isNone]

/-- a loader call as seen by the loop: no Python exception in either mode, collecting mode returns
an error list, and strict mode raises the first error of that list (or succeeds when it is empty) -/
structure GoodRes (res : Bool → R (List SigmaCls)) : Prop where
  noPy : ∀ b, NoPy (res b)
  rel : ∃ errs, res true = .ok errs ∧ res false = strictOf errs

theorem strictOf_noPy (errs : List SigmaCls) : NoPy (strictOf errs) := by
  unfold strictOf; split <;> simp

theorem good_of_eqs {res : Bool → R (List SigmaCls)} {errs : List SigmaCls}
    (h1 : res true = .ok errs) (h2 : res false = strictOf errs) : GoodRes res :=
  ⟨by intro b; cases b
      · rw [h2]; exact strictOf_noPy errs
      · rw [h1]; simp,
   ⟨errs, h1, h2⟩⟩

theorem good_rule (d : Y) : GoodRes (fun b => ruleFromDict b d) := good_of_eqs (rule_collect_eq d) (rule_strict_eq d)
theorem good_filter (d : Y) : GoodRes (fun b => filterFromDict b d) := good_of_eqs (filter_collect_eq d) (filter_strict_eq d)
/-- correlation rules too (since the repair of D8i): the constructor's validation error is part of the list -/
theorem good_corr (d : Y) : GoodRes (fun b => corrFromDict b d) := good_of_eqs (corr_collect_eq d) (corr_strict_eq d)
theorem good_tail (errs : List SigmaCls) : GoodRes (fun b => tailRaise b errs) :=
  good_of_eqs (tailRaise_true errs) (tailRaise_false errs)

/-- one loop iteration = a loader call (`res`) followed by a mode-independent state update (`upd`) -/
theorem collStep_shape (st : CollSt) (hinv : Inv st) (doc : Y) :
    ∃ (res : Bool → R (List SigmaCls)) (upd : CollSt),
      (∀ b, collStep b st doc = res b >>= fun es => pure { upd with errs := st.errs ++ es }) ∧
      Inv upd ∧ GoodRes res := by
  cases doc
  case map dm =>
    simp only [collStep, Y.isMap, pyGet, pyKeys, pure_eq, ok_bind, Bool.not_true, Bool.false_eq_true, if_false]
    by_cases ha : (dget dm (S "action")).isNone = true
    · simp only [ha, if_true]
      by_cases hc : ((dm.map (·.1)).any fun x => keyIs x (S "correlation")) = true
      · simp only [hc, if_true]
        exact ⟨fun b => corrFromDict b (.map dm), { st with names := st.names ++ [nameOf (.map dm)], objs := st.objs ++ [corrObj (.map dm)] }, fun b => rfl,
          ⟨hinv.prev, hinv.glob, by
            intro n hn; simp only [List.mem_append, List.mem_singleton] at hn
            rcases hn with hn | rfl
            · exact hinv.names n hn
            · exact nameOf_ok _⟩, good_corr _⟩
      · simp only [hc]
        by_cases hf : ((dm.map (·.1)).any fun x => keyIs x (S "filter")) = true
        · simp only [hf, if_true]
          exact ⟨fun b => filterFromDict b (.map dm), { st with nFilters := st.nFilters + 1 }, fun b => rfl,
            ⟨hinv.prev, hinv.glob, hinv.names⟩, good_filter _⟩
        · simp only [hf]
          have hg := hinv.glob
          cases hgl : st.glob <;> simp [hgl, Y.isMap] at hg
          rename_i g
          obtain ⟨merged, hm, hmm⟩ := deepUpdate_map g (.map dm) rfl
          simp only [pyItems, pure_eq, ok_bind, hm]
          exact ⟨fun b => ruleFromDict b merged,
            { st with prev := merged, prevIsGlob := false, nRules := st.nRules + 1, names := st.names ++ [nameOf merged], objs := st.objs ++ [ruleObj merged] },
            by intro b; simp [hgl],
            ⟨hmm, by simp [hgl, Y.isMap], by
              intro n hn; simp only [List.mem_append, List.mem_singleton] at hn
              rcases hn with hn | rfl
              · exact hinv.names n hn
              · exact nameOf_ok _⟩, good_rule _⟩
    · simp only [ha]
      by_cases h1 : strEq (dget dm (S "action")) (S "global") = true
      · simp only [h1, if_true, pyItems, pure_eq, ok_bind]
        exact ⟨fun b => tailRaise b [], { st with glob := .map (dictDelKey dm (S "action")), prev := .map (dictDelKey dm (S "action")), prevIsGlob := true },
          by intro b; cases b <;> simp,
          ⟨rfl, rfl, hinv.names⟩, good_tail _⟩
      · simp only [h1]
        by_cases h2 : strEq (dget dm (S "action")) (S "reset") = true
        · simp only [h2, if_true]
          exact ⟨fun b => tailRaise b [], { st with glob := .map [], prevIsGlob := false },
            by intro b; cases b <;> simp,
            ⟨hinv.prev, rfl, hinv.names⟩, good_tail _⟩
        · simp only [h2]
          by_cases h3 : strEq (dget dm (S "action")) (S "repeat") = true
          · simp only [h3, if_true, pyItems, pure_eq, ok_bind]
            obtain ⟨p, hp, hpm⟩ := deepUpdate_map dm st.prev hinv.prev
            simp only [hp, ok_bind]
            exact ⟨fun b => ruleFromDict b p,
              { st with prev := p, glob := if st.prevIsGlob then p else st.glob, nRules := st.nRules + 1, names := st.names ++ [nameOf p], objs := st.objs ++ [ruleObj p] },
              fun b => rfl,
              ⟨hpm, by simp only []; split; exact hpm; exact hinv.glob, by
                intro n hn; simp only [List.mem_append, List.mem_singleton] at hn
                rcases hn with hn | rfl
                · exact hinv.names n hn
                · exact nameOf_ok _⟩, good_rule _⟩
          · simp only [h3]
            exact ⟨fun b => tailRaise b [.collectionError], st,
              by intro b; cases b <;> simp,
              hinv, good_tail _⟩
  all_goals
    exact ⟨fun b => tailRaise b [.collectionError], st,
      by intro b; cases b <;> simp [collStep, Y.isMap],
      hinv, good_tail _⟩

end SigmaVerif.Load

namespace SigmaVerif.Load

theorem inv_withErrs {upd : CollSt} (h : Inv upd) (errs : List SigmaCls) : Inv { upd with errs := errs } :=
  ⟨h.prev, h.glob, h.names⟩

/-- the loop raises no Python exception and keeps the merge state well formed -/
theorem collLoop_noPy (b : Bool) : ∀ (ds : List Y) (st : CollSt), Inv st →
    NoPy (collLoop b st ds) ∧ ∀ st', collLoop b st ds = .ok st' → Inv st'
  | [], st, h => ⟨by simp [collLoop], by intro st' hs; simp [collLoop] at hs; subst hs; exact h⟩
  | d :: ds, st, h => by
      obtain ⟨res, upd, hstep, hupd, hgood⟩ := collStep_shape st h d
      simp only [collLoop, hstep b]
      cases hr : res b with
      | ok es =>
        simp only [ok_bind, pure_eq]
        exact collLoop_noPy b ds _ (inv_withErrs hupd _)
      | error e =>
        cases e with
        | sigma c => exact ⟨by simp, by intro st' hs; simp at hs⟩
        | py c => exact absurd (hgood.noPy b c hr) (by simp)

theorem collPostInit_ok (st : CollSt) (h : Inv st) : collPostInit st = .ok () := by
  unfold collPostInit
  apply forEach_pyHash_str
  simp only [allStr, List.all_eq_true]
  intro n hn
  obtain ⟨hn1, hn2⟩ := List.mem_filter.mp hn
  rcases h.names n hn1 with h1 | h1
  · simp [h1] at hn2
  · exact h1

theorem collFromDicts_noPy (b : Bool) (ds : List Y) : NoPy (collFromDicts b ds) := by
  unfold collFromDicts
  obtain ⟨h1, h2⟩ := collLoop_noPy b ds {} inv_init
  refine OnlyPy.bind h1 (fun st hst => ?_)
  rw [collPostInit_ok st (h2 st hst)]
  simp

/-- collecting mode runs through; the error list only grows -/
theorem collLoop_collect : ∀ (ds : List Y) (st : CollSt), Inv st →
    ∃ st', collLoop true st ds = .ok st' ∧ Inv st' ∧ ∃ more, st'.errs = st.errs ++ more
  | [], st, h => ⟨st, rfl, h, [], by simp⟩
  | d :: ds, st, h => by
      obtain ⟨res, upd, hstep, hupd, hgood⟩ := collStep_shape st h d
      obtain ⟨errs, hc, _⟩ := hgood.rel
      simp only [collLoop, hstep true, hc, ok_bind, pure_eq]
      obtain ⟨st', h1, h2, more, h3⟩ := collLoop_collect ds _ (inv_withErrs hupd (st.errs ++ errs))
      exact ⟨st', h1, h2, errs ++ more, by simp [h3]⟩

/-- strict mode against collecting mode, document by document -/
theorem collLoop_modes : ∀ (ds : List Y) (st : CollSt), Inv st →
    (∀ st', collLoop false st ds = .ok st' → collLoop true st ds = .ok st' ∧ st'.errs = st.errs) ∧
    (∀ e, collLoop false st ds = .error (.sigma e) →
      ∃ st'' rest, collLoop true st ds = .ok st'' ∧ Inv st'' ∧ st''.errs = st.errs ++ e :: rest)
  | [], st, h => ⟨by intro st' hs; simp [collLoop] at hs ⊢; subst hs; simp, by intro e he; simp [collLoop] at he⟩
  | d :: ds, st, h => by
      obtain ⟨res, upd, hstep, hupd, hgood⟩ := collStep_shape st h d
      obtain ⟨errs, hc, hs⟩ := hgood.rel
      simp only [collLoop, hstep true, hstep false, hc, hs, ok_bind, pure_eq]
      cases errs with
      | nil =>
        simp only [strictOf, ok_bind, List.append_nil]
        obtain ⟨i1, i2⟩ := collLoop_modes ds { upd with errs := st.errs } (inv_withErrs hupd _)
        exact ⟨i1, i2⟩
      | cons e rest =>
        simp only [strictOf, error_bind]
        refine ⟨fun st' hs' => (by cases hs'), ?_⟩
        intro e' he'
        cases he'
        obtain ⟨st', h1, h2, more, h3⟩ := collLoop_collect ds { upd with errs := st.errs ++ e :: rest } (inv_withErrs hupd _)
        exact ⟨st', rest ++ more, h1, h2, by simp [h3]⟩

end SigmaVerif.Load

namespace SigmaVerif.Load

/-- the cross-field validation of the constructor of `SigmaCorrelationRule` (`_validate`) rejects the
values `from_dict` builds from the document (the documents of former finding D8i); decidable -/
def postInitFails (d : Y) : Prop := corrPost d ≠ .ok ()

instance (d : Y) : Decidable (postInitFails d) := by unfold postInitFails; infer_instance

theorem map_ne_py {α β : Type} {x : R α} (f : α → β) (h : NoPy x) (c : PyCls) : x.map f ≠ .error (.py c) := by
  cases x with
  | ok a => simp [Except.map]
  | error e =>
    cases e with
    | sigma s => simp [Except.map]
    | py p => exact absurd (h p rfl) (by simp)

theorem strictOf_facts (errs : List SigmaCls) :
    ((strictOf errs).map (fun _ => ()) = .ok () ↔ errs = []) ∧
    ∀ e, (strictOf errs).map (fun _ => ()) = .error e → ∃ c rest, e = .sigma c ∧ errs = c :: rest := by
  cases errs with
  | nil => simp [strictOf, Except.map]
  | cons c rest => simp [strictOf, Except.map]


end SigmaVerif.Load

namespace SigmaVerif.Load

/-! ## reference resolution -/
theorem collGetItem_sig (objs : List Obj) (ref : Str) : SigOnly (· = .ruleNotFoundError) (collGetItem objs ref) := by
  simp only [collGetItem, pyUUID, pyKeyLookup]
  by_cases h1 : uuidOk ref = true
  · simp only [h1, if_true, pure_eq, ok_bind]
    by_cases h2 : ((objs.map (·.idKey)).any (keyEq (.str (uuidKey ref)))) = true <;> simp [h2]
  · simp only [h1]
    by_cases h2 : ((objs.map (·.name)).any (keyEq (.str ref))) = true <;> simp [h2]

/-- resolution returns or raises `SigmaRuleNotFoundError` -/
theorem collResolve_sig (objs : List Obj) : SigOnly (· = .ruleNotFoundError) (collResolve objs) := by
  unfold collResolve
  exact forEach_sigOnly (fun o => forEach_sigOnly (collGetItem_sig objs) o.refs) objs

theorem collFromDictsRef_noPy (b : Bool) (ds : List Y) : NoPy (collFromDictsRef b ds) := by
  unfold collFromDictsRef
  obtain ⟨h1, h2⟩ := collLoop_noPy b ds {} inv_init
  refine OnlyPy.bind h1 (fun st hst => ?_)
  rw [collPostInit_ok st (h2 st hst)]
  simp only [ok_bind]
  have hr := collResolve_sig st.objs
  cases b
  · exact hr.1.bind (fun _ _ => by simp)
  · simp only [if_true]
    exact OnlyPy.catchSigma (hr.1.bind (fun _ _ => by simp)) (fun c => by simp)

/-- the result of collecting mode after the loop: the collected errors, plus the resolution error -/
theorem collRef_collect_tail (st : CollSt) :
    ∃ more, catchSigma none (do collResolve st.objs; pure st.errs) (fun c => pure (st.errs ++ [c])) = .ok (st.errs ++ more) ∧
      (collResolve st.objs = .ok () → more = []) ∧
      (∀ c, collResolve st.objs = .error (.sigma c) → more = [c]) := by
  have hr := collResolve_sig st.objs
  cases h : collResolve st.objs with
  | ok u => exact ⟨[], by simp, fun _ => rfl, fun c hc => (by cases hc)⟩
  | error e =>
    cases e with
    | sigma c => exact ⟨[c], by simp, fun hc => (by cases hc), fun c' hc => (by cases hc; rfl)⟩
    | py c => exact absurd (hr.1 c h) (by simp)

end SigmaVerif.Load
