import SigmaVerif.Lemmas.C06SemDet
/-!
# C06 helper lemmas, part 8: lists of definitions that are all written as bare scalars

`[[a], [b]]`, `[{"": a}, b]`, … load as an OR-linked detection of single keyword detections, are
written as the list of the scalars, and that list loads as ONE keyword item holding all values:
another object with the same meaning; the dict form is a fixed point iff there are at least two.
-/
namespace SigmaVerif.Ser
open SigmaVerif.SStr SigmaVerif.SStrSpec SigmaVerif.Mods
open SigmaVerif.Rule (PV splitOn pvToVal Ctx SpecErr BE mapME valBE')

/-- keyword item without modifiers holding the typed values -/
def kwItem (vals : List Val) : Item := ⟨none, [], vals, false, false, some vals⟩

/-- the detection `from_definition` builds for one plain scalar -/
def kwDet (x : PV) : Det := .node [.item (kwItem [pvToVal false x])] false

theorem fromMapping_kw (env : Env) (v : PVals) :
    fromMapping env [] v = .ok (kwItem (v.toList.map (pvToVal false))) := rfl

/-- the scalar a `scalarish` definition stands for -/
def scalarOf : PDef → Option PV
  | .val v => some v
  | .list [.val v] => some v
  | .map [(k, v)] => if k.isEmpty then (match v.toList with | [x] => some x | _ => none) else none
  | _ => none

theorem scalarish_load (env : Env) (e : PDef) (h : scalarish e = true) :
    ∃ x, scalarOf e = some x ∧ fromDef env e = .ok (kwDet x) := by
  match e, h with
  | .val v, _ => exact ⟨v, rfl, rfl⟩
  | .list [.val v], _ => exact ⟨v, rfl, rfl⟩
  | .map [(k, v)], h =>
    simp only [scalarish, Bool.and_eq_true, beq_iff_eq] at h
    have hk : k = [] := by simpa using h.1
    subst hk
    match hv : v.toList, h.2 with
    | [x], _ =>
      refine ⟨x, by simp [scalarOf, hv], ?_⟩
      rw [fromDef]
      simp only [mapE, fromMapping_kw, hv]
      rfl

/-- side conditions of a scalar: D3 condition, not null -/
def scalarOk (x : PV) : Bool := pvOk false x && !(x == PV.null)

theorem good_scalar (e : PDef) (x : PV) (hs : scalarOf e = some x) (hg : Good e = true) :
    scalarOk x = true := by
  match e, hs with
  | .val v, hs =>
    simp only [scalarOf, Option.some.injEq] at hs
    subst hs
    rw [Good] at hg
    exact hg
  | .list [.val v], hs =>
    simp only [scalarOf, Option.some.injEq] at hs
    subst hs
    rw [Good] at hg
    simp only [List.all_cons, List.all_nil, PDef.isVal, Bool.and_self, if_true, PDef.getVals,
      Bool.and_true] at hg
    unfold scalarOk
    simp only [Bool.and_eq_true, Bool.not_eq_true', beq_eq_false_iff_ne, ne_eq] at hg ⊢
    refine ⟨hg.1, ?_⟩
    intro e
    exact hg.2 (by rw [e])
  | .map [(k, v)], hs =>
    simp only [scalarOf] at hs
    by_cases hk : k.isEmpty = true
    · simp only [hk, if_true] at hs
      match hv : v.toList, hs with
      | [y], hs =>
        simp only [Option.some.injEq] at hs
        subst hs
        have hk0 : k = [] := by simpa using hk
        subst hk0
        unfold Good at hg
        simp only [List.all_cons, List.all_nil, Bool.and_true, Bool.and_eq_true, List.isEmpty_nil,
          Bool.true_and, Bool.not_eq_true'] at hg
        obtain ⟨⟨hv1, hv2⟩, _⟩ := hg
        unfold scalarOk
        simp only [Bool.and_eq_true, Bool.not_eq_true', beq_eq_false_iff_ne, ne_eq]
        constructor
        · unfold valsOk at hv1
          rw [hv, keyRaw_nil] at hv1
          simpa using hv1
        · intro e
          unfold nullVals at hv2
          rw [hv, e] at hv2
          simp at hv2
    · simp [hk] at hs

theorem normPV_ne_null (x : PV) (h : x ≠ PV.null) : normPV false x ≠ PV.null := by
  cases x <;> simp_all [normPV]

theorem kwDet_plain (x : PV) (h : scalarOk x = true) :
    toPlainDet (kwDet x) = .ok (.val (normPV false x)) := by
  unfold scalarOk at h
  simp only [Bool.and_eq_true, Bool.not_eq_true', beq_eq_false_iff_ne, ne_eq] at h
  have hn := normPV_ne_null x h.2
  have hp : toPlainItem (kwItem [pvToVal false x]) = .ok (.bare (.one (normPV false x))) := by
    unfold toPlainItem kwItem
    simp only [show isRaw [] = false from rfl, mapE, valToPlain_pvToVal]
    rfl
  unfold kwDet
  rw [toPlainDet]
  simp only [List.any_cons, List.any_nil, Det.isItem, Bool.not_true, Bool.or_false, Bool.and_false,
    Bool.false_eq_true, if_false, toPlainDets, toPlainDet, hp, IPlain.toPDef]
  have : isNone (PDef.val (normPV false x)) = false := by
    cases hx : normPV false x <;> simp_all [isNone]
  simp [List.filter, this, combine]

/-- the scalars of a list of `scalarish` definitions -/
def scalarsOf : List PDef → List PV
  | [] => []
  | e :: es => (match scalarOf e with | some x => [x] | none => []) ++ scalarsOf es

theorem scalar_list_load (env : Env) : ∀ (es : List PDef), es.all scalarish = true → GoodL es = true →
    fromDefs env es = .ok ((scalarsOf es).map kwDet) ∧
    toPlainDets ((scalarsOf es).map kwDet) = .ok ((scalarsOf es).map (fun x => .val (normPV false x))) ∧
    (∀ x ∈ scalarsOf es, scalarOk x = true) ∧ (scalarsOf es).length = es.length := by
  intro es
  induction es with
  | nil => intro _ _; exact ⟨rfl, rfl, by simp [scalarsOf], rfl⟩
  | cons e r ih =>
    intro hs hg
    simp only [List.all_cons, Bool.and_eq_true] at hs
    rw [GoodL] at hg
    simp only [Bool.and_eq_true] at hg
    obtain ⟨x, hx, hl⟩ := scalarish_load env e hs.1
    obtain ⟨h1, h2, h3, h4⟩ := ih hs.2 hg.2
    have hok := good_scalar e x hx hg.1
    have hsc : scalarsOf (e :: r) = x :: scalarsOf r := by simp [scalarsOf, hx]
    rw [hsc]
    refine ⟨?_, ?_, ?_, by simp [h4]⟩
    · simp only [fromDefs, hl, h1, List.map_cons]
    · simp only [List.map_cons, toPlainDets, kwDet_plain x hok, h2]
    · intro y hy
      rcases List.mem_cons.mp hy with rfl | hy
      · exact hok
      · exact h3 y hy

theorem objBE_kw1 (cx : Ctx) (v : Val) :
    objBE cx (kwItem [v]) = valBE' cx none v := by
  unfold objBE kwItem
  simp only [mapME]
  cases valBE' cx none v <;> rfl

theorem detObjBEs_kw (cx : Ctx) (xs : List PV) :
    detObjBEs cx (xs.map kwDet) = mapME (valBE' cx none) (xs.map (pvToVal false)) := by
  induction xs with
  | nil => rfl
  | cons x r ih =>
    simp only [List.map_cons, detObjBEs, mapME, ih]
    have : detObjBE cx (kwDet x) = valBE' cx none (pvToVal false x) := by
      unfold kwDet
      rw [detObjBE_single, objBE_kw1]
    rw [this]
    generalize valBE' cx none (pvToVal false x) = a
    generalize mapME (valBE' cx none) (List.map (pvToVal false) r) = b
    cases a <;> cases b <;> rfl

/-- **Lists of scalar-written definitions.**  The list loads, is written as the list of its scalars,
that list loads as one keyword item with all values, whose meaning is that of the original object;
with two or more elements the dict form is a fixed point from the first write on. -/
theorem scalar_list_rt (cx : Ctx) (es : List PDef) (hnv : es.all PDef.isVal = false)
    (hs : es.all scalarish = true) (hg : GoodL es = true) :
    ∃ (d : Det) (vs : List PV) (j : Item),
      fromDef cx.env (.list es) = .ok d ∧
      toPlainDet d = .ok (.list (vs.map .val)) ∧
      fromDef cx.env (.list (vs.map .val)) = .ok (.node [.item j] false) ∧
      detObjBE cx (.node [.item j] false) = detObjBE cx d ∧
      (2 ≤ es.length → toPlainDet (.node [.item j] false) = .ok (.list (vs.map .val))) := by
  obtain ⟨h1, h2, h3, h4⟩ := scalar_list_load cx.env es hs hg
  have hes : es ≠ [] := by intro e; subst e; simp at hnv
  have hxs : scalarsOf es ≠ [] := by
    intro e
    rw [e] at h4
    exact hes (List.length_eq_zero_iff.mp h4.symm)
  let xs := scalarsOf es
  let vs := xs.map (normPV false)
  have hvs : xs.map (fun x => PDef.val (normPV false x)) = vs.map .val := by
    simp [vs, List.map_map, Function.comp_def]
  have hback : vs.map (pvToVal false) = xs.map (pvToVal false) := by
    simp only [vs, List.map_map]
    apply List.map_congr_left
    intro x hx
    have := h3 x hx
    unfold scalarOk at this
    simp only [Bool.and_eq_true] at this
    exact pvToVal_normPV false x this.1
  have hnn : ∀ q ∈ vs.map PDef.val, isNone q = false := by
    intro q hq
    simp only [vs, List.map_map, List.mem_map, Function.comp_apply] at hq
    obtain ⟨x, hx, rfl⟩ := hq
    have := h3 x hx
    unfold scalarOk at this
    simp only [Bool.and_eq_true, Bool.not_eq_true', beq_eq_false_iff_ne, ne_eq] at this
    have hn := normPV_ne_null x this.2
    cases hxx : normPV false x <;> simp_all [isNone]
  refine ⟨.node (xs.map kwDet) true, vs, kwItem (xs.map (pvToVal false)), ?_, ?_, ?_, ?_, ?_⟩
  · rw [fromDef]
    simp only [hnv, Bool.false_eq_true, if_false, h1, xs]
  · rw [toPlainDet]
    have hni : ∀ d ∈ xs.map kwDet, d.isItem = false := by
      intro d hd
      obtain ⟨x, _, rfl⟩ := List.mem_map.mp hd
      rfl
    have hne : xs.map kwDet ≠ [] := by simpa using hxs
    simp only [any_isItem_false _ hni, any_notItem_true _ hne hni, Bool.false_and, Bool.false_eq_true,
      if_false, h2, hvs, filter_notNone_id _ hnn, combine, if_true, xs, Bool.not_true]
  · rw [fromDef]
    simp only [all_isVal_map, if_true, getVals_map, fromMapping_kw, PVals.toList, hback]
  · rw [detObjBE_single]
    rw [detObjBE, detObjBEs_kw]
    unfold objBE kwItem
    simp only [if_true, Bool.false_eq_true, if_false]
    have hne : xs.map (pvToVal false) ≠ [] := by simpa using hxs
    generalize hvals : xs.map (pvToVal false) = vals at hne
    cases vals with
    | nil => exact absurd rfl hne
    | cons a t =>
      simp only
      generalize mapME (valBE' cx none) (a :: t) = b
      rcases b with e | l
      · rfl
      · rcases l with _ | ⟨x, _ | ⟨y, t'⟩⟩ <;> rfl
  · intro h2len
    have hlen : 2 ≤ vs.length := by simp only [vs, xs, List.length_map, h4]; exact h2len
    have hp : toPlainItem (kwItem (xs.map (pvToVal false))) = .ok (.bare (collapse (vs.map (normPV false)))) := by
      unfold toPlainItem kwItem
      simp only [show isRaw [] = false from rfl]
      rw [← hback, mapE_map, mapE_ok _ (normPV false) _ (fun a _ => valToPlain_pvToVal false a)]
      rfl
    have hidem : vs.map (normPV false) = vs := by
      simp only [vs, List.map_map]
      apply List.map_congr_left
      intro x hx
      have := h3 x hx
      unfold scalarOk at this
      simp only [Bool.and_eq_true] at this
      cases x with
      | str s =>
        simp only [Function.comp_apply, normPV, Bool.false_eq_true, if_false]
        have hb : bsOk (parse s) = true := by simpa [pvOk] using this.1
        have := (parseAux_toPlain (parse s) (parse_noPh _ _ _) hb).1
        rw [show parse (toPlain (parse s)) = parse s from this]
      | num n => rfl
      | bool b => rfl
      | null => rfl
    rw [hidem] at hp
    have hcol : collapse vs = .many vs := by
      unfold collapse
      match vs, hlen with
      | a :: b :: r, _ => rfl
    rw [hcol] at hp
    rw [toPlainDet]
    simp only [List.any_cons, List.any_nil, Det.isItem, Bool.not_true, Bool.or_false, Bool.and_false,
      Bool.false_eq_true, if_false, toPlainDets, toPlainDet, hp, IPlain.toPDef]
    simp [List.filter, isNone, combine]

end SigmaVerif.Ser
