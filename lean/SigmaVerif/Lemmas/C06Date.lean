import SigmaVerif.Model.Ser
/-!
# C06 helper lemmas, part 4: rule dates
-/
namespace SigmaVerif.Ser

theorem dval_dch : ∀ n, n < 10 → dval (dch n) = some n := by decide

theorem dIn_dch (lo hi q : Nat) (hq : q < 10) (h1 : lo ≤ q) (h2 : q ≤ hi) :
    dIn lo hi (dch q) = some q := by
  unfold dIn
  rw [dval_dch q hq]
  simp [h1, h2]

theorem year4_dch (y : Nat) (h1 : 1000 ≤ y) (h2 : y ≤ 3999) :
    year4 (dch (y / 1000)) (dch (y / 100 % 10)) (dch (y / 10 % 10)) (dch (y % 10)) = some y := by
  unfold year4
  rw [dIn_dch 1 3 (y / 1000) (by omega) (by omega) (by omega),
    dval_dch (y / 100 % 10) (by omega), dval_dch (y / 10 % 10) (by omega), dval_dch (y % 10) (by omega)]
  simp only [Option.some.injEq]
  omega

theorem two_dch (lo hi n : Nat) (hn : n < 100) (h1 : lo ≤ n / 10) (h2 : n / 10 ≤ hi) :
    two lo hi (dch (n / 10)) (dch (n % 10)) = some n := by
  unfold two
  rw [dIn_dch lo hi (n / 10) (by omega) h1 h2, dval_dch (n % 10) (by omega)]
  simp only [Option.some.injEq]
  omega

theorem valid_bounds (t : Date) (h : t.valid = true) : 1 ≤ t.m ∧ t.m ≤ 12 ∧ 1 ≤ t.d ∧ t.d ≤ 31 := by
  unfold Date.valid at h
  simp only [Bool.and_eq_true, decide_eq_true_eq] at h
  obtain ⟨⟨⟨⟨⟨_, _⟩, hm1⟩, hm2⟩, hd1⟩, hd2⟩ := h
  refine ⟨hm1, hm2, hd1, ?_⟩
  have : daysIn t.y t.m ≤ 31 := by
    unfold daysIn
    split
    · split <;> omega
    · split
      · omega
      · split <;> omega
  omega

theorem mkDate_valid (t : Date) (h : t.valid = true) : mkDate (some t.y) (some t.m) (some t.d) = some t := by
  unfold mkDate
  cases t
  simp_all

theorem dch_ne_slash (n : Nat) : dch n ≠ '/' := by
  unfold dch
  split <;> decide

theorem parse9b (a b c d f g h : Char) (hg : g ≠ '/') :
    parseDate [a, b, c, d, '/', f, '/', g, h] = mkDate (year4 a b c d) (dval f) (two 0 3 g h) := by
  unfold parseDate
  split <;> simp_all
  rename_i hx
  exact absurd rfl (hx a b c d f g h rfl rfl rfl rfl rfl rfl)

theorem parse8 (a b c d f h : Char) (hh : h ≠ '/') :
    parseDate [a, b, c, d, '/', f, '/', h] = mkDate (year4 a b c d) (dval f) (dval h) := by
  unfold parseDate
  split <;> simp_all
  rename_i hx
  exact absurd rfl (hx a b c d f h rfl rfl rfl rfl rfl)

/-- the ISO spelling reads back -/
theorem parse_printDate (t : Date) (hv : t.valid = true) (h1 : 1000 ≤ t.y) (h2 : t.y ≤ 3999) :
    parseDate (printDate t) = some t := by
  obtain ⟨hm1, hm2, hd1, hd2⟩ := valid_bounds t hv
  have e : parseDate (printDate t) = mkDate
      (year4 (dch (t.y / 1000)) (dch (t.y / 100 % 10)) (dch (t.y / 10 % 10)) (dch (t.y % 10)))
      (two 0 1 (dch (t.m / 10)) (dch (t.m % 10))) (two 0 3 (dch (t.d / 10)) (dch (t.d % 10))) := rfl
  rw [e, year4_dch t.y h1 h2, two_dch 0 1 t.m (by omega) (by omega) (by omega),
    two_dch 0 3 t.d (by omega) (by omega) (by omega)]
  exact mkDate_valid t hv

/-- every `/` spelling (month and day padded or not) reads back to the same date -/
theorem parse_printSlash (padM padD : Bool) (t : Date) (hv : t.valid = true)
    (h1 : 1000 ≤ t.y) (h2 : t.y ≤ 3999) :
    parseDate (printSlash padM padD t) = some t := by
  obtain ⟨hm1, hm2, hd1, hd2⟩ := valid_bounds t hv
  have hy := year4_dch t.y h1 h2
  have hmm := two_dch 0 1 t.m (by omega) (by omega) (by omega)
  have hdd := two_dch 0 3 t.d (by omega) (by omega) (by omega)
  have hres := mkDate_valid t hv
  by_cases hM : padM = true ∨ ¬ t.m < 10
  · have eM : (if padM = true then two2s t.m else shorts t.m) = two2s t.m := by
      rcases hM with h | h
      · simp [h]
      · simp [shorts, h]
    by_cases hD : padD = true ∨ ¬ t.d < 10
    · have eD : (if padD = true then two2s t.d else shorts t.d) = two2s t.d := by
        rcases hD with h | h
        · simp [h]
        · simp [shorts, h]
      have e : parseDate (printSlash padM padD t) = mkDate
          (year4 (dch (t.y / 1000)) (dch (t.y / 100 % 10)) (dch (t.y / 10 % 10)) (dch (t.y % 10)))
          (two 0 1 (dch (t.m / 10)) (dch (t.m % 10))) (two 0 3 (dch (t.d / 10)) (dch (t.d % 10))) := by
        unfold printSlash; rw [eM, eD]; rfl
      rw [e, hy, hmm, hdd]; exact hres
    · have hD' : padD = false ∧ t.d < 10 := by
        constructor
        · cases padD <;> simp_all
        · omega
      have eD : (if padD = true then two2s t.d else shorts t.d) = [dch t.d] := by
        simp [hD'.1, shorts, hD'.2]
      have e : parseDate (printSlash padM padD t) = mkDate
          (year4 (dch (t.y / 1000)) (dch (t.y / 100 % 10)) (dch (t.y / 10 % 10)) (dch (t.y % 10)))
          (two 0 1 (dch (t.m / 10)) (dch (t.m % 10))) (dval (dch t.d)) := by
        unfold printSlash; rw [eM, eD]; rfl
      rw [e, hy, hmm, dval_dch t.d (by omega)]; exact hres
  · have hM' : padM = false ∧ t.m < 10 := by
      constructor
      · cases padM <;> simp_all
      · omega
    have eM : (if padM = true then two2s t.m else shorts t.m) = [dch t.m] := by
      simp [hM'.1, shorts, hM'.2]
    by_cases hD : padD = true ∨ ¬ t.d < 10
    · have eD : (if padD = true then two2s t.d else shorts t.d) = two2s t.d := by
        rcases hD with h | h
        · simp [h]
        · simp [shorts, h]
      have e : parseDate (printSlash padM padD t) = mkDate
          (year4 (dch (t.y / 1000)) (dch (t.y / 100 % 10)) (dch (t.y / 10 % 10)) (dch (t.y % 10)))
          (dval (dch t.m)) (two 0 3 (dch (t.d / 10)) (dch (t.d % 10))) := by
        unfold printSlash; rw [eM, eD]
        exact parse9b _ _ _ _ _ _ _ (dch_ne_slash _)
      rw [e, hy, hdd, dval_dch t.m (by omega)]; exact hres
    · have hD' : padD = false ∧ t.d < 10 := by
        constructor
        · cases padD <;> simp_all
        · omega
      have eD : (if padD = true then two2s t.d else shorts t.d) = [dch t.d] := by
        simp [hD'.1, shorts, hD'.2]
      have e : parseDate (printSlash padM padD t) = mkDate
          (year4 (dch (t.y / 1000)) (dch (t.y / 100 % 10)) (dch (t.y / 10 % 10)) (dch (t.y % 10)))
          (dval (dch t.m)) (dval (dch t.d)) := by
        unfold printSlash; rw [eM, eD]
        exact parse8 _ _ _ _ _ _ (dch_ne_slash _)
      rw [e, hy, dval_dch t.m (by omega), dval_dch t.d (by omega)]; exact hres

/-- what `printDate` writes has the ISO shape `dddd-dd-dd` -/
theorem printDate_iso (t : Date) :
    ∃ a b c d e f g h, printDate t = [dch a, dch b, dch c, dch d, '-', dch e, dch f, '-', dch g, dch h] :=
  ⟨_, _, _, _, _, _, _, _, rfl⟩

end SigmaVerif.Ser
