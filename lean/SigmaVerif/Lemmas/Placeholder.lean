import SigmaVerif.Spec.Rule
/-!
# Helper lemmas and auxiliary definitions for C17 (placeholder expansion)

Auxiliary definitions: `altCount`, `Choice`, `subst`, `firstPh`.
-/
namespace SigmaVerif.Placeholder
open SigmaVerif.SStr SigmaVerif.Mods

/-! ## Auxiliary definitions -/

/-- number of alternatives of a placeholder: the configured ones, or 1 when it is left in place -/
def altCount (repl : Str → Option (List SStr)) (n : Str) : Nat :=
  match repl n with | some a => a.length | none => 1

/-- `Choice repl s t`: `t` is `s` with every handled placeholder replaced by one of its
alternatives; unhandled placeholders and all other parts are untouched -/
inductive Choice (repl : Str → Option (List SStr)) : SStr → SStr → Prop
  | nil : Choice repl [] []
  | part (p : Part) (r t : SStr) (hp : ∀ n, p ≠ .ph n) :
      Choice repl r t → Choice repl (p :: r) (p :: t)
  | handled (n : Str) (alts : List SStr) (a : SStr) (r t : SStr) (h : repl n = some alts)
      (ha : a ∈ alts) : Choice repl r t → Choice repl (.ph n :: r) (a ++ t)
  | unhandled (n : Str) (r t : SStr) (h : repl n = none) :
      Choice repl r t → Choice repl (.ph n :: r) (.ph n :: t)

/-- the value with every placeholder the item handles replaced by the multi-character wildcard -/
def subst (it : PhItem) : SStr → SStr
  | [] => []
  | .ph n :: r => if handled it n then .star :: subst it r else .ph n :: subst it r
  | p :: r => p :: subst it r

/-! ## Unfolding lemmas -/

theorem replaceAll_nil (repl) : replaceAll repl [] = [[]] := rfl
theorem replaceAll_lit (repl c r) :
    replaceAll repl (.lit c :: r) = (replaceAll repl r).map (.lit c :: ·) := rfl
theorem replaceAll_star (repl r) :
    replaceAll repl (.star :: r) = (replaceAll repl r).map (.star :: ·) := rfl
theorem replaceAll_qm (repl r) :
    replaceAll repl (.qm :: r) = (replaceAll repl r).map (.qm :: ·) := rfl
theorem replaceAll_ph (repl n r) :
    replaceAll repl (.ph n :: r) =
      match repl n with
      | some alts => alts.flatMap (fun a => (replaceAll repl r).map (a ++ ·))
      | none => (replaceAll repl r).map (.ph n :: ·) := rfl

theorem replaceAll_ph_some {repl : Str → Option (List SStr)} {n alts} (h : repl n = some alts) (r) :
    replaceAll repl (.ph n :: r) = alts.flatMap (fun a => (replaceAll repl r).map (a ++ ·)) := by
  rw [replaceAll_ph, h]

theorem replaceAll_ph_none {repl : Str → Option (List SStr)} {n} (h : repl n = none) (r) :
    replaceAll repl (.ph n :: r) = (replaceAll repl r).map (.ph n :: ·) := by
  rw [replaceAll_ph, h]

theorem replaceAll_part {repl} {p : Part} (hp : ∀ n, p ≠ .ph n) (r) :
    replaceAll repl (p :: r) = (replaceAll repl r).map (p :: ·) := by
  cases p with
  | ph n => exact absurd rfl (hp n)
  | _ => rfl

theorem phNames_nil : phNames [] = [] := rfl
theorem phNames_ph (n r) : phNames (.ph n :: r) = n :: phNames r := rfl
theorem phNames_part {p : Part} (hp : ∀ n, p ≠ .ph n) (r) : phNames (p :: r) = phNames r := by
  cases p with
  | ph n => exact absurd rfl (hp n)
  | _ => rfl

theorem phNames_append (a b : SStr) : phNames (a ++ b) = phNames a ++ phNames b := by
  induction a with
  | nil => rfl
  | cons p r ih =>
    cases p with
    | ph n => simp [phNames_ph, ih]
    | _ => simpa [phNames] using ih

theorem noPh_iff (s : SStr) : noPh s = true ↔ phNames s = [] := by
  simp [noPh]

theorem noPh_append (a b : SStr) : noPh (a ++ b) = (noPh a && noPh b) := by
  simp only [noPh, phNames_append]
  cases phNames a <;> simp

/-! ## 1. Cross product -/

theorem length_flatMap_map {α β γ} (l : List α) (m : List β) (g : α → β → γ) :
    (l.flatMap (fun a => m.map (g a))).length = l.length * m.length := by
  induction l with
  | nil => simp
  | cons a l ih => simp [List.flatMap_cons, ih, Nat.succ_mul, Nat.add_comm]

theorem replaceAll_count_aux (repl) (s : SStr) :
    (replaceAll repl s).length = ((phNames s).map (altCount repl)).prod := by
  induction s with
  | nil => rfl
  | cons p r ih =>
    cases p with
    | ph n =>
      rw [replaceAll_ph, phNames_ph, List.map_cons, List.prod_cons, ← ih]
      unfold altCount
      cases repl n with
      | none => simp
      | some alts => exact length_flatMap_map alts _ (fun a x => a ++ x)
    | _ => simpa [replaceAll, phNames] using ih

theorem replaceAll_mem_aux (repl) (s t : SStr) : t ∈ replaceAll repl s ↔ Choice repl s t := by
  induction s generalizing t with
  | nil =>
    constructor
    · intro h
      have : t = [] := by simpa [replaceAll_nil] using h
      subst this; exact .nil
    · intro h; cases h; simp [replaceAll_nil]
  | cons p r ih =>
    by_cases hp : ∀ n, p ≠ .ph n
    · rw [replaceAll_part hp]
      constructor
      · intro h
        obtain ⟨t', ht', rfl⟩ := List.mem_map.1 h
        exact .part p r t' hp ((ih t').1 ht')
      · intro h
        cases h with
        | part _ _ t' _ h' => exact List.mem_map.2 ⟨t', (ih t').2 h', rfl⟩
        | handled n => exact absurd rfl (hp n)
        | unhandled n => exact absurd rfl (hp n)
    · have : ∃ n, p = .ph n := by
        cases p with
        | ph n => exact ⟨n, rfl⟩
        | _ => exact absurd (fun n => by simp) hp
      obtain ⟨n, rfl⟩ := this
      cases hr : repl n with
      | some alts =>
        rw [replaceAll_ph_some hr]
        constructor
        · intro h
          obtain ⟨a, ha, h'⟩ := List.mem_flatMap.1 h
          obtain ⟨t', ht', rfl⟩ := List.mem_map.1 h'
          exact .handled n alts a r t' hr ha ((ih t').1 ht')
        · intro h
          cases h with
          | part _ _ _ hp' => exact absurd rfl (hp' n)
          | handled _ alts' a _ t' h1 ha h' =>
            rw [hr] at h1; cases h1
            exact List.mem_flatMap.2 ⟨a, ha, List.mem_map.2 ⟨t', (ih t').2 h', rfl⟩⟩
          | unhandled _ _ _ h1 => rw [hr] at h1; cases h1
      | none =>
        rw [replaceAll_ph_none hr]
        constructor
        · intro h
          obtain ⟨t', ht', rfl⟩ := List.mem_map.1 h
          exact .unhandled n r t' hr ((ih t').1 ht')
        · intro h
          cases h with
          | part _ _ _ hp' => exact absurd rfl (hp' n)
          | handled _ _ _ _ _ h1 => rw [hr] at h1; cases h1
          | unhandled _ _ t' _ h' => exact List.mem_map.2 ⟨t', (ih t').2 h', rfl⟩

/-- a value without placeholders is its own single expansion -/
theorem replaceAll_of_noPh (repl) (s : SStr) (h : noPh s = true) : replaceAll repl s = [s] := by
  induction s with
  | nil => rfl
  | cons p r ih =>
    cases p with
    | ph n => simp [noPh, phNames] at h
    | _ =>
      have h' : noPh r = true := by simpa [noPh, phNames] using h
      simp [replaceAll, ih h']

/-- expansion of `pre ++ rest` when `pre` has no placeholder -/
theorem replaceAll_append_noPh (repl) (pre rest : SStr) (h : noPh pre = true) :
    replaceAll repl (pre ++ rest) = (replaceAll repl rest).map (pre ++ ·) := by
  induction pre with
  | nil => simp
  | cons p r ih =>
    cases p with
    | ph n => simp [noPh, phNames] at h
    | _ =>
      have h' : noPh r = true := by simpa [noPh, phNames] using h
      simp [replaceAll, ih h', List.map_map, Function.comp_def]

theorem flatMap_singleton_fn {α β} (l : List α) (f : α → β) :
    l.flatMap (fun a => [f a]) = l.map f := by
  induction l with
  | nil => rfl
  | cons a l ih => simp [List.flatMap_cons, ih]

theorem replaceAll_single_aux (repl : Str → Option (List SStr)) (pre post : SStr) (n : Str)
    (alts : List SStr) (hr : repl n = some alts) (h1 : noPh pre = true) (h2 : noPh post = true) :
    replaceAll repl (pre ++ [.ph n] ++ post) = alts.map (fun a => pre ++ a ++ post) := by
  rw [List.append_assoc, replaceAll_append_noPh _ _ _ h1, List.singleton_append,
    replaceAll_ph_some hr, replaceAll_of_noPh _ _ h2]
  simp [flatMap_singleton_fn, List.map_map, Function.comp_def, List.append_assoc]

/-! ## 2. Complete expansion or failure -/

theorem Choice.noPh {repl : Str → Option (List SStr)} {s t : SStr} (hc : Choice repl s t)
    (hall : ∀ n ∈ phNames s, ∃ alts, repl n = some alts ∧ ∀ a ∈ alts, noPh a = true) :
    noPh t = true := by
  induction hc with
  | nil => rfl
  | part p r t hp _ ih =>
    rw [phNames_part hp] at hall
    have := ih hall
    rw [noPh_iff] at this ⊢
    rw [phNames_part hp, this]
  | handled n alts a r t h ha _ ih =>
    rw [phNames_ph] at hall
    obtain ⟨alts', h', hno⟩ := hall n (List.mem_cons_self ..)
    rw [h] at h'; cases h'
    rw [noPh_append, hno a ha, ih (fun m hm => hall m (List.mem_cons_of_mem _ hm))]; rfl
  | unhandled n r t h _ _ =>
    obtain ⟨alts', h', _⟩ := hall n (by rw [phNames_ph]; exact List.mem_cons_self ..)
    rw [h] at h'; cases h'

theorem Choice.keeps {repl : Str → Option (List SStr)} {s t : SStr} (hc : Choice repl s t)
    (n : Str) (hn : n ∈ phNames s) (h : repl n = none) : n ∈ phNames t := by
  induction hc with
  | nil => exact hn
  | part p r t hp _ ih =>
    rw [phNames_part hp] at hn ⊢; exact ih hn
  | handled m alts a r t hm ha _ ih =>
    rw [phNames_ph] at hn
    rw [phNames_append]
    rcases List.mem_cons.1 hn with rfl | hn'
    · rw [h] at hm; cases hm
    · exact List.mem_append_right _ (ih hn')
  | unhandled m r t hm _ ih =>
    rw [phNames_ph] at hn ⊢
    rcases List.mem_cons.1 hn with rfl | hn'
    · exact List.mem_cons_self ..
    · exact List.mem_cons_of_mem _ (ih hn')

theorem convert_ok_noPh_aux (k : Conv) (s : SStr) (t : Str) (h : convert k s = .ok t) :
    noPh s = true := by
  induction s generalizing t with
  | nil => rfl
  | cons p r ih =>
    cases p with
    | ph n => simp [convert] at h
    | lit c =>
      cases hc : convert k r with
      | error e => simp [convert, hc] at h
      | ok t' => simpa [noPh, phNames] using ih t' hc
    | star =>
      cases hc : convert k r with
      | error e => cases hm : k.multi <;> simp [convert, hc, hm] at h
      | ok t' => simpa [noPh, phNames] using ih t' hc
    | qm =>
      cases hc : convert k r with
      | error e => cases hm : k.single <;> simp [convert, hc, hm] at h
      | ok t' => simpa [noPh, phNames] using ih t' hc

/-- the error is the *first* obstacle: a placeholder preceded only by parts the configuration can
render fails with exactly that placeholder's name -/
theorem convert_ph_first_aux (k : Conv) (pre post : SStr) (n : Str) (hpre : noPh pre = true)
    (hm : k.multi = none → Part.star ∉ pre) (hs : k.single = none → Part.qm ∉ pre) :
    convert k (pre ++ .ph n :: post) = .error (.placeholder n) := by
  induction pre with
  | nil => rfl
  | cons p r ih =>
    have hm' : k.multi = none → Part.star ∉ r := fun h hin => hm h (List.mem_cons_of_mem _ hin)
    have hs' : k.single = none → Part.qm ∉ r := fun h hin => hs h (List.mem_cons_of_mem _ hin)
    cases p with
    | ph m => simp [noPh, phNames] at hpre
    | lit c =>
      have := ih (by simpa [noPh, phNames] using hpre) hm' hs'
      simp [convert, this]
    | star =>
      have := ih (by simpa [noPh, phNames] using hpre) hm' hs'
      cases hk : k.multi with
      | none => exact absurd (List.mem_cons_self ..) (hm hk)
      | some m => simp [convert, this, hk]
    | qm =>
      have := ih (by simpa [noPh, phNames] using hpre) hm' hs'
      cases hk : k.single with
      | none => exact absurd (List.mem_cons_self ..) (hs hk)
      | some m => simp [convert, this, hk]

/-- a value with a placeholder splits at its first placeholder -/
theorem split_first_ph (s : SStr) (m : Str) (ms : List Str) (h : phNames s = m :: ms) :
    ∃ pre post, s = pre ++ .ph m :: post ∧ noPh pre = true := by
  induction s with
  | nil => simp [phNames] at h
  | cons p r ih =>
    cases p with
    | ph n =>
      rw [phNames_ph] at h
      cases h
      exact ⟨[], r, rfl, rfl⟩
    | lit c =>
      obtain ⟨pre, post, rfl, hp⟩ := ih (by simpa [phNames] using h)
      exact ⟨.lit c :: pre, post, rfl, by simpa [noPh, phNames] using hp⟩
    | star =>
      obtain ⟨pre, post, rfl, hp⟩ := ih (by simpa [phNames] using h)
      exact ⟨.star :: pre, post, rfl, by simpa [noPh, phNames] using hp⟩
    | qm =>
      obtain ⟨pre, post, rfl, hp⟩ := ih (by simpa [phNames] using h)
      exact ⟨.qm :: pre, post, rfl, by simpa [noPh, phNames] using hp⟩

/-! ### `Rule.strBE` -/
open SigmaVerif.Rule in
theorem atomsL_map_str (field : Option Str) (c : Bool) (vs : List SStr) :
    BE.atomsL (vs.map (fun v => BE.atom (.str field c v))) = vs.map (fun v => Atom.str field c v) := by
  induction vs with
  | nil => simp [BE.atomsL]
  | cons v vs ih => simp [BE.atomsL, BE.atoms, ih]

open SigmaVerif.Rule in
theorem strBE_unresolved_aux (cx : Ctx) (field : Option Str) (c : Bool) (s : SStr) (vs : List SStr)
    (hs : noPh s = false) (hrun : phRun cx cx.phItems (.alts [s]) = .ok (.alts vs))
    (hex : ∃ v ∈ vs, noPh v = false) :
    ∃ v n, v ∈ vs ∧ n ∈ phNames v ∧ strBE cx field c s = .error (.unresolved n) := by
  unfold strBE
  simp only [hs, hrun]
  cases hf : vs.find? (fun v => !noPh v) with
  | none =>
    obtain ⟨v, hv, hno⟩ := hex
    have := List.find?_eq_none.1 hf v hv
    simp [hno] at this
  | some v =>
    have hv := List.mem_of_find?_eq_some hf
    have hno := List.find?_some hf
    refine ⟨v, (phNames v).headD [], hv, ?_, by simp⟩
    cases hp : phNames v with
    | nil => simp [noPh, hp] at hno
    | cons m ms => simp

open SigmaVerif.Rule in
theorem strBE_ok_atoms_aux (cx : Ctx) (field : Option Str) (c : Bool) (s : SStr) (e : BE)
    (h : strBE cx field c s = .ok e) :
    ∀ a ∈ e.atoms, (∃ p, a = .str field c p ∧ noPh p = true) ∨ (∃ ex i, a = .qx field ex i) := by
  unfold strBE at h
  by_cases hs : noPh s = true
  · rw [if_pos hs] at h
    cases h
    intro a ha
    simp only [BE.atoms, List.mem_singleton] at ha
    exact .inl ⟨s, ha, hs⟩
  · rw [if_neg hs] at h
    cases hrun : phRun cx cx.phItems (.alts [s]) with
    | error x => simp only [hrun] at h; cases h
    | ok st =>
      cases st with
      | qexpr ex i =>
        simp only [hrun] at h
        by_cases hf : field.isNone = true
        · rw [if_pos hf] at h; cases h
        · rw [if_neg hf] at h
          cases h
          intro a ha
          simp only [BE.atoms, List.mem_singleton] at ha
          exact .inr ⟨ex, i, ha⟩
      | alts vs =>
        simp only [hrun] at h
        cases hf : vs.find? (fun v => !noPh v) with
        | some v => simp only [hf] at h; cases h
        | none =>
          simp only [hf] at h
          have hall : ∀ v ∈ vs, noPh v = true := by
            intro v hv
            have := List.find?_eq_none.1 hf v hv
            simpa using this
          have key : ∀ a ∈ vs.map (fun v => Atom.str field c v),
              (∃ p, a = .str field c p ∧ noPh p = true) ∨ (∃ ex i, a = .qx field ex i) := by
            intro a ha
            obtain ⟨v, hv, rfl⟩ := List.mem_map.1 ha
            exact .inl ⟨v, rfl, hall v hv⟩
          match vs, h, key with
          | [], h, key => cases h; intro a ha; simp [BE.atoms, BE.atomsL] at ha
          | [v], h, key =>
            cases h; intro a ha
            simp only [BE.atoms, List.mem_singleton] at ha
            exact key a (by simp [ha])
          | v :: w :: r, h, key =>
            cases h; intro a ha
            rw [BE.atoms, atomsL_map_str] at ha
            exact key a ha

/-! ## 3. Item semantics -/

theorem any_handled_false (it : PhItem) (names : List Str)
    (h : ∀ n ∈ names, handled it n = false) : names.any (handled it) = false :=
  List.any_eq_false.2 (fun n hn => by simp [h n hn])

theorem any_handled_true (it : PhItem) (names : List Str)
    (h : ∃ n ∈ names, handled it n = true) : names.any (handled it) = true :=
  List.any_eq_true.2 h

theorem replaceAll_wild (it : PhItem) (s : SStr) :
    replaceAll (fun n => if handled it n then some [[.star]] else none) s = [subst it s] := by
  induction s with
  | nil => rfl
  | cons p r ih =>
    cases p with
    | ph n =>
      rw [replaceAll_ph]
      by_cases h : handled it n = true
      · simp [h, subst, ih]
      · simp [h, subst, ih]
    | _ => simp [replaceAll, subst, ih]

theorem firstVarErr_some (vars : List (Str × List VarVal)) (it : PhItem) (ns : List Str) (n : Str)
    (hn : n ∈ ns) (hh : handled it n = true) (e : PhErr) (he : lookupVar vars n = .error e) :
    ∃ e', firstVarErr vars it ns = some e' := by
  induction ns with
  | nil => cases hn
  | cons m ms ih =>
    rcases List.mem_cons.1 hn with rfl | hn'
    · exact ⟨e, by simp [firstVarErr, hh, he]⟩
    · obtain ⟨e', he'⟩ := ih hn'
      unfold firstVarErr
      by_cases hm : handled it m = true
      · rw [if_pos hm]
        cases hl : lookupVar vars m with
        | error x => exact ⟨x, rfl⟩
        | ok _ => exact ⟨e', he'⟩
      · rw [if_neg hm]; exact ⟨e', he'⟩

/-! ## A placeholder no item handles makes the value fail -/

theorem replaceAll_ne_nil (repl : Str → Option (List SStr)) (s : SStr)
    (h : ∀ n ∈ phNames s, ∀ alts, repl n = some alts → alts ≠ []) : replaceAll repl s ≠ [] := by
  induction s with
  | nil => simp [replaceAll_nil]
  | cons p r ih =>
    cases p with
    | ph n =>
      rw [phNames_ph] at h
      have ih' := ih (fun m hm => h m (List.mem_cons_of_mem _ hm))
      rw [replaceAll_ph]
      cases hr : repl n with
      | none => simpa using ih'
      | some alts =>
        have hne := h n (List.mem_cons_self ..) alts hr
        obtain ⟨a, alts', rfl⟩ := List.exists_cons_of_ne_nil hne
        obtain ⟨x, xs, hx⟩ := List.exists_cons_of_ne_nil ih'
        simp [List.flatMap_cons, hx]
    | _ => simpa [replaceAll, phNames] using ih (by simpa [phNames] using h)

theorem lookupVar_ok_ne_nil (vars : List (Str × List VarVal)) (n : Str) (l : List SStr)
    (h : lookupVar vars n = .ok l) : l ≠ [] := by
  unfold lookupVar at h
  cases hf : vars.find? (fun kv => kv.1 == n) with
  | none => simp [hf] at h
  | some kv =>
    simp only [hf] at h
    split at h
    · cases h
    · rename_i hc
      cases h
      cases hv : kv.2 with
      | nil => simp [hv] at hc
      | cons v vs =>
        cases v with
        | bad => simp [hv] at hc
        | text t => simp

theorem firstVarErr_none (vars : List (Str × List VarVal)) (it : PhItem) (ns : List Str)
    (h : firstVarErr vars it ns = none) :
    ∀ n ∈ ns, handled it n = true → ∃ l, lookupVar vars n = .ok l := by
  induction ns with
  | nil => intro n hn; cases hn
  | cons m ms ih =>
    intro n hn hh
    unfold firstVarErr at h
    by_cases hm : handled it m = true
    · rw [if_pos hm] at h
      cases hl : lookupVar vars m with
      | error x => simp [hl] at h
      | ok l =>
        simp only [hl] at h
        rcases List.mem_cons.1 hn with rfl | hn'
        · exact ⟨l, hl⟩
        · exact ih h n hn' hh
    · rw [if_neg hm] at h
      rcases List.mem_cons.1 hn with rfl | hn'
      · exact absurd hh hm
      · exact ih h n hn' hh

/-- what an item's alternatives are: a cross product in which the placeholders the item does not
handle are left in place and every handled placeholder has at least one alternative -/
theorem applyItem_alts (vars : List (Str × List VarVal)) (it : PhItem) (s : SStr) (xs : List SStr)
    (h : applyItem vars it s = .alts xs) :
    ∃ repl : Str → Option (List SStr), xs = replaceAll repl s ∧
      (∀ m, handled it m = false → repl m = none) ∧
      (∀ m ∈ phNames s, ∀ a, repl m = some a → a ≠ []) := by
  unfold applyItem at h
  cases hk : it.kind with
  | value =>
    simp only [hk] at h
    split at h
    · cases h
    · cases hf : firstVarErr vars it (phNames s) with
      | some e => simp [hf] at h
      | none =>
        simp only [hf] at h
        cases h
        refine ⟨_, rfl, fun m hm => by simp [hm], ?_⟩
        intro m hm a ha
        by_cases hh : handled it m = true
        · obtain ⟨l, hl⟩ := firstVarErr_none vars it _ hf m hm hh
          simp [hh, hl, Except.toOption] at ha
          subst ha
          exact lookupVar_ok_ne_nil vars m l hl
        · simp [hh] at ha
  | wildcard =>
    simp only [hk] at h
    split at h
    · cases h
    · cases h
      refine ⟨_, rfl, fun m hm => by simp [hm], ?_⟩
      intro m hm a ha
      by_cases hh : handled it m = true
      · simp [hh] at ha; subst ha; simp
      · simp [hh] at ha
  | query expr mapping =>
    simp only [hk] at h
    split at h
    · cases h
    · split at h
      · split at h <;> cases h
      · cases h

theorem applyItem_qexpr (vars : List (Str × List VarVal)) (it : PhItem) (s : SStr) (e i : Str)
    (h : applyItem vars it s = .qexpr e i) : ∃ m, s = [.ph m] ∧ handled it m = true := by
  unfold applyItem at h
  cases hk : it.kind with
  | value =>
    simp only [hk] at h
    split at h
    · cases h
    · cases hf : firstVarErr vars it (phNames s) <;> simp [hf] at h
  | wildcard =>
    simp only [hk] at h
    split at h <;> cases h
  | query expr mapping =>
    simp only [hk] at h
    split at h
    · cases h
    · split at h
      · rename_i m _
        by_cases hh : handled it m = true
        · exact ⟨m, rfl, hh⟩
        · rw [if_neg hh] at h; cases h
      · cases h

open SigmaVerif.Rule in
theorem phStep_keeps (cx : Ctx) (it : PhItem) (n : Str) (hh : handled it n = false)
    (vs : List SStr) (hall : ∀ v ∈ vs, n ∈ phNames v) (st : PhState)
    (h : phStep cx it vs = .ok st) :
    ∃ ws, st = .alts ws ∧ (∀ w ∈ ws, n ∈ phNames w) ∧ (vs ≠ [] → ws ≠ []) := by
  induction vs generalizing st with
  | nil =>
    rw [phStep] at h; cases h
    exact ⟨[], rfl, fun w hw => (by cases hw), fun h => absurd rfl h⟩
  | cons s rest ih =>
    have hs : n ∈ phNames s := hall s (List.mem_cons_self ..)
    have hrest : ∀ v ∈ rest, n ∈ phNames v := fun v hv => hall v (List.mem_cons_of_mem _ hv)
    cases ha : applyItem cx.vars it s with
    | err e =>
      cases hr : phStep cx it rest <;> (rw [phStep, ha, hr] at h; cases h)
    | qexpr e i =>
      obtain ⟨m, rfl, hm⟩ := applyItem_qexpr _ _ _ _ _ ha
      rw [phNames_ph, phNames_nil, List.mem_singleton] at hs
      subst hs
      rw [hh] at hm; cases hm
    | same =>
      cases hr : phStep cx it rest with
      | error x => rw [phStep, ha, hr] at h; cases h
      | ok st' =>
        obtain ⟨ws, rfl, hws, _⟩ := ih hrest st' hr
        rw [phStep, ha, hr] at h
        cases h
        refine ⟨s :: ws, rfl, ?_, fun _ => by simp⟩
        intro w hw
        rcases List.mem_cons.1 hw with rfl | hw'
        · exact hs
        · exact hws w hw'
    | alts xs =>
      obtain ⟨repl, rfl, hnone, hne⟩ := applyItem_alts _ _ _ _ ha
      cases hr : phStep cx it rest with
      | error x => rw [phStep, ha, hr] at h; cases h
      | ok st' =>
        obtain ⟨ws, rfl, hws, _⟩ := ih hrest st' hr
        rw [phStep, ha, hr] at h
        cases h
        refine ⟨replaceAll repl s ++ ws, rfl, ?_, fun _ => ?_⟩
        · intro w hw
          rcases List.mem_append.1 hw with hw' | hw'
          · exact ((replaceAll_mem_aux repl s w).1 hw').keeps n hs (hnone n hh)
          · exact hws w hw'
        · intro hnil
          exact replaceAll_ne_nil repl s hne (List.append_eq_nil_iff.1 hnil).1

open SigmaVerif.Rule in
theorem phRun_keeps (cx : Ctx) (n : Str) (its : List PhItem)
    (hh : ∀ it ∈ its, handled it n = false) (vs : List SStr) (hall : ∀ v ∈ vs, n ∈ phNames v)
    (hne : vs ≠ []) (st : PhState) (h : phRun cx its (.alts vs) = .ok st) :
    ∃ ws, st = .alts ws ∧ ws ≠ [] ∧ ∀ w ∈ ws, n ∈ phNames w := by
  induction its generalizing vs with
  | nil => rw [phRun] at h; cases h; exact ⟨vs, rfl, hne, hall⟩
  | cons it its ih =>
    rw [phRun] at h
    cases hs : phStep cx it vs with
    | error x => simp [hs] at h
    | ok st' =>
      simp only [hs] at h
      obtain ⟨ws, rfl, hws, hne'⟩ := phStep_keeps cx it n (hh it (List.mem_cons_self ..)) vs hall st' hs
      exact ih (fun it' hi => hh it' (List.mem_cons_of_mem _ hi)) ws hws (hne' hne) h

open SigmaVerif.Rule in
theorem strBE_unhandled_aux (cx : Ctx) (field : Option Str) (c : Bool) (s : SStr) (n : Str)
    (hn : n ∈ phNames s) (hh : ∀ it ∈ cx.phItems, handled it n = false) :
    ∃ e, strBE cx field c s = .error e := by
  have hs : noPh s = false := by
    cases hp : phNames s with
    | nil => rw [hp] at hn; cases hn
    | cons m ms => simp [noPh, hp]
  cases hrun : phRun cx cx.phItems (.alts [s]) with
  | error x => exact ⟨x, by unfold strBE; simp only [hs, hrun]; rfl⟩
  | ok st =>
    obtain ⟨ws, rfl, hne, hws⟩ := phRun_keeps cx n cx.phItems hh [s]
      (fun v hv => by rw [List.mem_singleton.1 hv]; exact hn) (by simp) st hrun
    obtain ⟨w, ws', rfl⟩ := List.exists_cons_of_ne_nil hne
    have hw : noPh w = false := by
      have := hws w (List.mem_cons_self ..)
      cases hp : phNames w with
      | nil => rw [hp] at this; cases this
      | cons m ms => simp [noPh, hp]
    obtain ⟨v, m, _, _, he⟩ := strBE_unresolved_aux cx field c s _ hs hrun ⟨w, List.mem_cons_self .., hw⟩
    exact ⟨_, he⟩

/-! ## Example configurations (for the non-vacuity examples of `Props/C17`) -/

/-- `%a%` ↦ `1 | 2`, `%b%` ↦ `x | y | z`, anything else unhandled -/
def exRepl : Str → Option (List SStr) := fun n =>
  if n = ['a'] then some [[.lit '1'], [.lit '2']]
  else if n = ['b'] then some [[.lit 'x'], [.lit 'y'], [.lit 'z']]
  else none

/-- `p%a%-%b%%c%` -/
def exVal : SStr := [.lit 'p', .ph ['a'], .lit '-', .ph ['b'], .ph ['c']]

/-- `p%a%-%b%` -/
def exVal2 : SStr := [.lit 'p', .ph ['a'], .lit '-', .ph ['b']]

def exVars : List (Str × List VarVal) :=
  [(['a'], [.text ['1'], .text ['2', '*']]), (['b'], [.text ['x']]), (['e'], []), (['f'], [.bad])]

def exCtx (items : List PhItem) : Rule.Ctx :=
  { env := { w := fun _ => false }, nativeCidr := true, phItems := items, vars := exVars }

def exConv : Conv :=
  { esc := some ['\\'], multi := some ['*'], single := some ['?'], addEscaped := [], filter := [] }

end SigmaVerif.Placeholder
