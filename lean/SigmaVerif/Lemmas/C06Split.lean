import SigmaVerif.Lemmas.C06SemDet
/-!
# C06 helper lemmas, part 9: one-to-many field mapping (`split`)

The copies keep the source item's `original_value`: the OR-linked detection of the copies is written
(one map, or a list of maps), what is written loads, and the reload means what the transformed
detection means.  (The reload is another object: each map of the list becomes a detection of its own.)
-/
namespace SigmaVerif.Ser
open SigmaVerif.SStr SigmaVerif.SStrSpec SigmaVerif.Mods
open SigmaVerif.Rule (PV splitOn pvToVal Ctx SpecErr BE mapME valBE')

theorem splitCopy_eq_rename (it : Item) (f : Str) (h : it.field.isSome = true) :
    splitCopy false it.value it f = rename f it := by
  cases it with
  | mk field mods value la ng orig =>
    cases field with
    | none => simp at h
    | some g => rfl

/-- acceptable target field names: non-empty, no `|` -/
def fieldOk (f : Str) : Bool := !f.isEmpty && !f.contains '|'

theorem fieldOk_spec (f : Str) (h : fieldOk f = true) : f.isEmpty = false ∧ '|' ∉ f := by
  unfold fieldOk at h
  simp only [Bool.and_eq_true, Bool.not_eq_true'] at h
  refine ⟨h.1, ?_⟩
  intro hm
  have : f.contains '|' = true := List.contains_iff_mem.mpr hm
  rw [h.2] at this
  cases this

theorem split_items (env : Env) (k : Str) (v : PVals) (it : Item)
    (h : fromMapping env k v = .ok it) (hfield : it.field.isSome = true) (hv : valsOk k v = true) :
    ∀ (fs : List Str), fs.all fieldOk = true →
    ∃ kvs : Dict,
      toPlainDets (fs.map fun f => .item (rename f it)) = .ok (kvs.map fun kv => PDef.map [kv]) ∧
      mapE (fun kv => fromMapping env kv.1 kv.2) kvs = .ok (fs.map fun f => rename f it) ∧
      fromDefs env (kvs.map fun kv => PDef.map [kv]) = .ok (fs.map fun f => .node [.item (rename f it)] false) ∧
      kvs.length = fs.length := by
  intro fs
  induction fs with
  | nil => intro _; exact ⟨[], rfl, rfl, rfl, rfl⟩
  | cons f r ih =>
    intro hok
    simp only [List.all_cons, Bool.and_eq_true] at hok
    obtain ⟨hf1, hf2⟩ := fieldOk_spec f hok.1
    obtain ⟨kk, vv, hp, hr⟩ := rename_reload_keyed env k v it f h hfield hf1 hf2 hv
    obtain ⟨kvs, h1, h2, h3, h4⟩ := ih hok.2
    refine ⟨(kk, vv) :: kvs, ?_, ?_, ?_, by simp [h4]⟩
    · simp only [List.map_cons, toPlainDets, toPlainDet, hp, h1, IPlain.toPDef]
    · simp only [mapE, hr, h2, List.map_cons]
    · simp only [List.map_cons, fromDefs, fromDef, mapE, hr, h3, List.map_nil]

theorem detObjBEs_wrap (cx : Ctx) (cs : List Item) :
    detObjBEs cx (cs.map fun c => .node [.item c] false) = detObjBEs cx (cs.map .item) := by
  induction cs with
  | nil => rfl
  | cons c r ih =>
    simp only [List.map_cons]
    rw [detObjBEs, detObjBEs, detObjBE_single, ih, detObjBE]

/-- **One-to-many field mapping is faithful.**  For a loaded item bound to a field (values satisfying
the D3 side condition) and target names that can be keys: the detection of the copies is written, what is
written loads, and the reload has the meaning of the transformed detection. -/
theorem split_reload (cx : Ctx) (k : Str) (v : PVals) (it : Item) (fs : List Str)
    (h : fromMapping cx.env k v = .ok it) (hfield : it.field.isSome = true) (hv : valsOk k v = true)
    (hne : fs ≠ []) (hok : fs.all fieldOk = true) :
    ∃ q d', toPlainDet (split fs false it.value it) = .ok q ∧ fromDef cx.env q = .ok d' ∧
      detObjBE cx d' = detObjBE cx (split fs false it.value it) := by
  obtain ⟨kvs, h1, h2, h3, h4⟩ := split_items cx.env k v it h hfield hv fs hok
  have hsplit : split fs false it.value it = .node (fs.map fun f => .item (rename f it)) true := by
    unfold split
    congr 1
    apply List.map_congr_left
    intro f _
    rw [splitCopy_eq_rename it f hfield]
  rw [hsplit]
  have hany : (fs.map fun f => Det.item (rename f it)).any Det.isItem = true := by
    cases fs with
    | nil => exact absurd rfl hne
    | cons a t => simp [Det.isItem]
  have hany2 : (fs.map fun f => Det.item (rename f it)).any (fun c => !c.isItem) = false := by
    simp [List.any_eq_false, Det.isItem]
  have hplain : ∀ q, combine false true (kvs.map fun kv => PDef.map [kv]) = .ok q →
      toPlainDet (.node (fs.map fun f => .item (rename f it)) true) = .ok q := by
    intro q hq
    rw [toPlainDet]
    simp only [hany, hany2, Bool.and_false, Bool.false_eq_true, if_false, h1, filter_notNone_singles, hq]
  match kvs, fs, h4, hne with
  | [], [], _, hne => exact absurd rfl hne
  | [], _ :: _, h4, _ => simp at h4
  | _ :: _, [], h4, _ => simp at h4
  | [_], _ :: _ :: _, h4, _ => simp at h4
  | _ :: _ :: _, [_], h4, _ => simp at h4
  | [kv], [f], _, _ =>
    refine ⟨.map [kv], .node [.item (rename f it)] false, hplain _ (by simp [combine]), ?_, ?_⟩
    · rw [fromDef]
      simp only [h2, List.map_cons, List.map_nil]
    · simp only [List.map_cons, List.map_nil, detObjBE_single]
  | a :: b :: r, f :: g :: t, _, _ =>
    have hall := all_isMap_singles (a :: b :: r)
    refine ⟨.list ((a :: b :: r).map fun kv => PDef.map [kv]),
      .node ((f :: g :: t).map fun f => .node [.item (rename f it)] false) true, hplain _ ?_, ?_, ?_⟩
    · unfold combine
      rw [List.map_cons, List.map_cons] at hall ⊢
      simp only [Bool.false_eq_true, if_false, Bool.true_and, hall, if_true]
    · rw [fromDef]
      have : ((a :: b :: r).map fun kv => PDef.map [kv]).all PDef.isVal = false := by simp [PDef.isVal]
      simp only [this, Bool.false_eq_true, if_false, h3]
    · have := detObjBEs_wrap cx ((f :: g :: t).map fun f => rename f it)
      simp only [List.map_map, Function.comp_def] at this
      simp only [detObjBE, this]

/-- when the value list was replaced (mapped field references) or the source was a keyword item, all
copies are disabled: the detection of the copies refuses -/
theorem split_replaced_refuses (fs : List Str) (replaced : Bool) (vs : List Val) (it : Item)
    (hne : fs ≠ []) (h : (replaced || it.field.isNone) = true) :
    ∀ q, toPlainDet (split fs replaced vs it) ≠ .ok q := by
  apply toPlainDet_disabled
  unfold split
  rw [hasDisabled]
  cases fs with
  | nil => exact absurd rfl hne
  | cons f r =>
    simp only [List.map_cons, hasDisabledL, hasDisabled, splitCopy, h, if_true, Option.isNone_none,
      Bool.true_or]

end SigmaVerif.Ser
