import SigmaVerif.Lemmas.C12Chain
/-! Helper lemmas for C12: one-to-one renaming on items, detections, rules. -/
namespace SigmaVerif.Lemmas.C12
open SigmaVerif.SStr SigmaVerif.Mods SigmaVerif.Rule SigmaVerif.Rewrite

/-! ### traversals -/

theorem mapDetL_eq_map (fi : KV → Out) (fk : List PV → Det) : ∀ ds : List Det, mapDetL fi fk ds = ds.map (mapDet fi fk)
  | [] => by simp [mapDetL]
  | d :: ds => by simp [mapDetL, mapDetL_eq_map fi fk ds]

theorem detItemsL_mem (kv : KV) : ∀ ds : List Det, kv ∈ detItemsL ds ↔ ∃ d ∈ ds, kv ∈ detItems d
  | [] => by simp [detItemsL]
  | d :: ds => by simp [detItemsL, detItemsL_mem kv ds]

theorem mapM_some {α β : Type} (g : α → β) : ∀ l : List α, (l.map (fun a => some (g a))).mapM id = some (l.map g)
  | [] => rfl
  | a :: l => by simp [mapM_some g l]

theorem assemble_ones (g : KV → KV) (items : List KV) : assemble (items.map (fun kv => Out.one (g kv))) = .map (items.map g) := by
  unfold assemble
  have : (items.map (fun kv => Out.one (g kv))).mapM Out.kv? = some (items.map g) := by
    induction items with
    | nil => rfl
    | cons a l ih => simp [Out.kv?, ih]
  rw [this]

/-! ### one-to-one renaming, syntactically -/

/-- the key after a one-to-one renaming -/
def rename1Key (r : Str → Str) (k : Str) : Str :=
  match fieldOf k with
  | none => k
  | some f => r f ++ keyRest k

def rename1KV (r : Str → Str) (kv : KV) : KV :=
  (rename1Key r kv.1, if hasMod kv.1 "fieldref" then kv.2.map (renPV r) else kv.2)

theorem renameValues_one (r : Str → Str) (k : Str) (vs : List PV) :
    renameValues (fun f => [r f]) k vs = if hasMod k "fieldref" then vs.map (renPV r) else vs := by
  unfold renameValues
  split
  · induction vs with
    | nil => rfl
    | cons v vs ih => cases v <;> simp [renameValue, renPV, ih]
  · rfl

theorem renameItem_one (r : Str → Str) (kv : KV) : renameItem (fun f => [r f]) kv = .one (rename1KV r kv) := by
  unfold renameItem rename1KV rename1Key
  rw [renameValues_one]
  cases fieldOf kv.1 <;> rfl

theorem renameDet_one_map (r : Str → Str) (items : List KV) :
    renameDet (fun f => [r f]) (.map items) = .map (items.map (rename1KV r)) := by
  unfold renameDet
  simp only [mapDet]
  rw [show items.map (renameItem fun f => [r f]) = items.map (fun kv => Out.one (rename1KV r kv)) from
    List.map_congr_left (fun kv _ => renameItem_one r kv)]
  exact assemble_ones _ _

theorem renameDet_list (m : Str → List Str) (ds : List Det) : renameDet m (.list ds) = .list (ds.map (renameDet m)) := by
  simp [renameDet, mapDet, mapDetL_eq_map]
theorem renameDet_all (m : Str → List Str) (ds : List Det) : renameDet m (.all ds) = .all (ds.map (renameDet m)) := by
  simp [renameDet, mapDet, mapDetL_eq_map]
theorem renameDet_values (m : Str → List Str) (vs : List PV) : renameDet m (.values vs) = .values vs := rfl

/-! ### one-to-one renaming: the meaning of an item -/

/-- the new names are names: not empty, no `|` -/
def GoodMap (r : Str → Str) : Prop := ∀ f : Str, f ≠ [] → '|' ∉ f → r f ≠ [] ∧ '|' ∉ r f

/-- a `fieldref` item has `fieldref` as its first modifier and references plain field names, also after renaming -/
def RefOK (r : Str → Str) (kv : KV) : Prop :=
  hasMod kv.1 "fieldref" = true →
    (∃ rest, keyMods kv.1 = "fieldref".toList :: rest) ∧ ∀ v ∈ kv.2, ∀ s, v = .str s → PlainName s ∧ PlainName (r s)

theorem fieldOf_some {k f : Str} (h : fieldOf k = some f) : f = keyField k ∧ f ≠ [] := by
  unfold fieldOf at h
  split at h
  · cases h
  · rename_i hne
    cases h
    exact ⟨rfl, by intro he; simp [he] at hne⟩

theorem fieldOf_rekey (g k : Str) (hg : '|' ∉ g) (hne : g ≠ []) : fieldOf (g ++ keyRest k) = some g := by
  unfold fieldOf
  rw [keyField_rekey g k hg]
  cases g with
  | nil => exact absurd rfl hne
  | cons c g => rfl

theorem rename1_item {r : Str → Str} (hr : GoodMap r) (cx : Ctx) (kv : KV) (hk : RefOK r kv) :
    itemBE cx (some (rename1KV r kv).1) (rename1KV r kv).2 =
      (itemBE cx (some kv.1) kv.2).map (mapAtoms (renameAtom r)) := by
  obtain ⟨k, vs⟩ := kv
  rw [itemBE_some, itemBE_some]
  simp only [rename1KV]
  -- the field and the modifiers of the new key
  have hkey : fieldOf (rename1Key r k) = (fieldOf k).map r ∧ keyMods (rename1Key r k) = keyMods k := by
    unfold rename1Key
    cases hf : fieldOf k with
    | none => simp [hf]
    | some f0 =>
      obtain ⟨hfk, hne⟩ := fieldOf_some hf
      obtain ⟨h1, h2⟩ := hr f0 hne (hfk ▸ keyField_no_bar k)
      simp [fieldOf_rekey (r f0) k h2 h1, keyMods_rekey (r f0) k h2]
  rw [hkey.1, hkey.2]
  have hiso : ((fieldOf k).map r).isSome = (fieldOf k).isSome := by cases fieldOf k <;> rfl
  cases href : hasMod k "fieldref" with
  | false =>
    simp only [Bool.false_eq_true, ↓reduceIte]
    refine itemOf_shift (shift_renameAtom _ r) hiso cx _ ?_ vs
    intro hm
    have : hasMod k "fieldref" = true := by simpa [hasMod] using hm
    rw [href] at this; cases this
  | true =>
    obtain ⟨⟨rest, hrest⟩, hp⟩ := hk href
    simp only [↓reduceIte, hrest]
    exact itemOf_shift_ref (shift_renameAtom _ r) hiso cx rest vs hp

/-! ### detections and rules -/

def RefOKDet (r : Str → Str) (d : Det) : Prop := ∀ kv ∈ detItems d, RefOK r kv

theorem exceptMap_conj (k : BE → BE) (mk : List BE → BE) (hk : ∀ es, k (mk es) = mk (es.map k))
    (x : Except SpecErr (List BE)) :
    (match x.map (List.map k) with
      | .ok [e] => Except.ok e
      | .ok es => .ok (mk es)
      | .error e => .error e) =
    (match x with
      | .ok [e] => Except.ok e
      | .ok es => .ok (mk es)
      | .error e => .error e : Except SpecErr BE).map k := by
  cases x with
  | error e => rfl
  | ok es =>
    match es with
    | [] => simp [Except.map, hk]
    | [e] => simp [Except.map]
    | e1 :: e2 :: es => simp [Except.map, hk]

theorem rename1_det {r : Str → Str} (hr : GoodMap r) (cx : Ctx) :
    ∀ (n : Nat) (d : Det), RefOKDet r d →
      detBE cx n (renameDet (fun f => [r f]) d) = (detBE cx n d).map (mapAtoms (renameAtom r)) := by
  intro n
  induction n with
  | zero =>
    intro d hd
    cases d with
    | map items =>
      rw [renameDet_one_map]
      simp only [detBE, mapME_map]
      rw [mapME_natural (mapAtoms (renameAtom r)) (fun kv => itemBE cx (some kv.1) kv.2) _ items
        (fun kv hkv => rename1_item hr cx kv (hd kv (by simpa [detItems] using hkv)))]
      exact exceptMap_conj _ BE.and (fun es => by simp [mapAtoms, mapAtomsL_eq_map]) _
    | values vs =>
      have := rename1_item hr cx ([], vs) (hd _ (by simp [detItems]))
      simpa [renameDet, mapDet, detBE, itemBE_none, rename1KV, rename1Key, fieldOf, keyField, hasMod, keyMods, splitOn] using this
    | list ds => simp [renameDet, mapDet, detBE, Except.map]
    | all ds => simp [renameDet, mapDet, detBE, Except.map]
  | succ n ih =>
    intro d hd
    cases d with
    | map items =>
      rw [renameDet_one_map]
      simp only [detBE, mapME_map]
      rw [mapME_natural (mapAtoms (renameAtom r)) (fun kv => itemBE cx (some kv.1) kv.2) _ items
        (fun kv hkv => rename1_item hr cx kv (hd kv (by simpa [detItems] using hkv)))]
      exact exceptMap_conj _ BE.and (fun es => by simp [mapAtoms, mapAtomsL_eq_map]) _
    | values vs =>
      have := rename1_item hr cx ([], vs) (hd _ (by simp [detItems]))
      simpa [renameDet, mapDet, detBE, itemBE_none, rename1KV, rename1Key, fieldOf, keyField, hasMod, keyMods, splitOn] using this
    | list ds =>
      have hsub : ∀ d ∈ ds, detBE cx n (renameDet (fun f => [r f]) d) = (detBE cx n d).map (mapAtoms (renameAtom r)) :=
        fun d hdm => ih d (fun kv hkv => hd kv (by simp only [detItems]; exact (detItemsL_mem kv ds).2 ⟨d, hdm, hkv⟩))
      simp only [renameDet_list, detBE, mapME_map]
      rw [mapME_natural (mapAtoms (renameAtom r)) (detBE cx n) _ ds hsub]
      exact exceptMap_conj _ BE.or (fun es => by simp [mapAtoms, mapAtomsL_eq_map]) _
    | all ds =>
      have hsub : ∀ d ∈ ds, detBE cx n (renameDet (fun f => [r f]) d) = (detBE cx n d).map (mapAtoms (renameAtom r)) :=
        fun d hdm => ih d (fun kv hkv => hd kv (by simp only [detItems]; exact (detItemsL_mem kv ds).2 ⟨d, hdm, hkv⟩))
      simp only [renameDet_all, detBE, mapME_map]
      rw [mapME_natural (mapAtoms (renameAtom r)) (detBE cx n) _ ds hsub]
      exact exceptMap_conj _ BE.and (fun es => by simp [mapAtoms, mapAtomsL_eq_map]) _

/-- the condition is read over the meanings of the detections: substituting atoms in the detections
substitutes them in the rule -/
theorem condBE_mapAtoms (h : Atom → Atom) (ds : List (Str × BE)) :
    ∀ e : CondSpec.E, condBE (ds.map (fun d => (d.1, mapAtoms h d.2))) e = (condBE ds e).map (mapAtoms h)
  | .id n => by
    simp only [condBE, List.find?_map]
    have : ((fun d : Str × BE => d.1 == n) ∘ fun d => (d.1, mapAtoms h d.2)) = (fun d : Str × BE => d.1 == n) := rfl
    rw [this]
    cases ds.find? (fun d => d.1 == n) <;> rfl
  | .sel q pat => by
    simp only [condBE, List.filter_map, List.map_map, List.isEmpty_map]
    have : (List.filter ((fun d => CondSpec.selects pat d.1) ∘ fun d => (d.1, mapAtoms h d.2)) ds) =
        List.filter (fun d => CondSpec.selects pat d.1) ds := rfl
    rw [this]
    split
    · rfl
    · cases q.quant <;> simp [Except.map, mapAtoms, mapAtomsL_eq_map, Function.comp_def]
  | .not e => by
    simp only [condBE, condBE_mapAtoms h ds e]
    cases condBE ds e <;> simp [Except.map, mapAtoms]
  | .and a b => by
    simp only [condBE, condBE_mapAtoms h ds a, condBE_mapAtoms h ds b]
    cases condBE ds a <;> cases condBE ds b <;> simp [Except.map, mapAtoms, mapAtomsL]
  | .or a b => by
    simp only [condBE, condBE_mapAtoms h ds a, condBE_mapAtoms h ds b]
    cases condBE ds a <;> cases condBE ds b <;> simp [Except.map, mapAtoms, mapAtomsL]

theorem rename1_rule {r : Str → Str} (hr : GoodMap r) (cx : Ctx) (dets : List (Str × Det)) (cond : Str)
    (hok : ∀ d ∈ dets, RefOKDet r d.2) :
    ruleBE cx (mapDets (renameDet (fun f => [r f])) dets) cond =
      (ruleBE cx dets cond).map (mapAtoms (renameAtom r)) := by
  unfold ruleBE mapDets
  rw [mapME_map]
  have hnat := mapME_natural (fun (p : Str × BE) => (p.1, mapAtoms (renameAtom r) p.2))
    (fun d : Str × Det => match detBE cx 8 d.2 with | .ok b => Except.ok (d.1, b) | .error e => .error e)
    (fun d : Str × Det => match detBE cx 8 (renameDet (fun f => [r f]) d.2) with | .ok b => Except.ok (d.1, b) | .error e => .error e)
    dets (by
      intro d hd
      simp only [rename1_det hr cx 8 d.2 (hok d hd)]
      cases detBE cx 8 d.2 <;> rfl)
  dsimp only
  erw [hnat]
  cases mapME (fun d : Str × Det => match detBE cx 8 d.2 with | .ok b => Except.ok (d.1, b) | .error e => .error e) dets with
  | error e => rfl
  | ok ds =>
    simp only [Except.map]
    cases CondSpec.read cond with
    | none => rfl
    | some e => exact condBE_mapAtoms _ ds e

end SigmaVerif.Lemmas.C12
