import SigmaVerif.Model.Cidr

/-!
# Helper lemmas for C18 (CIDR expansion)
-/
namespace SigmaVerif.Cidr

/-! ## `glob` -/

theorem glob_nil (s : Str) : glob [] s = s.isEmpty := by rw [glob]

theorem glob_cons_cons_of_ne {c : Char} (hc : c ≠ '*') (p : Str) (d : Char) (s : Str) :
    glob (c :: p) (d :: s) = (c == d && glob p s) := glob.eq_5 c p d s (fun h => hc h)

theorem glob_cons_nil_of_ne {c : Char} (hc : c ≠ '*') (p : Str) :
    glob (c :: p) [] = false := glob.eq_4 c p (fun h => hc h)

/-- a lone `*` matches everything -/
theorem glob_star (s : Str) : glob ['*'] s = true := by
  induction s with
  | nil => rw [glob.eq_2, glob_nil]; rfl
  | cons d s ih => rw [glob.eq_3, ih, Bool.or_true]

/-- a pattern without `*` matches exactly itself -/
theorem glob_of_no_star (pat : Str) (h : '*' ∉ pat) (s : Str) : glob pat s = true ↔ pat = s := by
  induction pat generalizing s with
  | nil => rw [glob_nil]; cases s <;> simp
  | cons c p ih =>
    have hc : c ≠ '*' := fun e => h (by simp [e])
    have hp : '*' ∉ p := fun e => h (by simp [e])
    cases s with
    | nil => rw [glob_cons_nil_of_ne hc]; simp
    | cons d s => rw [glob_cons_cons_of_ne hc]; simp [ih hp s]

/-- `pre*` with `*`-free `pre` matches exactly the strings that start with `pre` -/
theorem glob_prefix_star (pre : Str) (h : '*' ∉ pre) (s : Str) :
    glob (pre ++ ['*']) s = true ↔ pre <+: s := by
  induction pre generalizing s with
  | nil => simp [glob_star]
  | cons c p ih =>
    have hc : c ≠ '*' := fun e => h (by simp [e])
    have hp : '*' ∉ p := fun e => h (by simp [e])
    cases s with
    | nil => rw [List.cons_append, glob_cons_nil_of_ne hc]; simp
    | cons d s => rw [List.cons_append, glob_cons_cons_of_ne hc]; simp [ih hp s, List.cons_prefix_cons]

/-! ## decimal octets -/

theorem dec_no_dot_star : ∀ n, n < 256 → '.' ∉ dec n ∧ '*' ∉ dec n := by decide +kernel

/-- inverse of `dec` on octets -/
def undec (s : Str) : Nat := s.foldl (fun acc c => 10 * acc + (c.toNat - 48)) 0

theorem undec_dec : ∀ n, n < 256 → undec (dec n) = n := by decide +kernel

theorem dec_inj {m n : Nat} (hm : m < 256) (hn : n < 256) (h : dec m = dec n) : m = n := by
  rw [← undec_dec m hm, ← undec_dec n hn, h]

/-! ## dot-separated fields -/

/-- two dot-free fields followed by a dot: prefix comparison splits field-wise -/
theorem field_prefix (x y r1 r2 : Str) (hx : '.' ∉ x) (hy : '.' ∉ y) :
    (x ++ '.' :: r1) <+: (y ++ '.' :: r2) ↔ x = y ∧ r1 <+: r2 := by
  induction x generalizing y with
  | nil =>
    cases y with
    | nil => simp [List.cons_prefix_cons]
    | cons d y =>
      have : d ≠ '.' := fun e => hy (by simp [e])
      simp [List.cons_prefix_cons, Ne.symm this]
  | cons c x ih =>
    have hc : c ≠ '.' := fun e => hx (by simp [e])
    have hx' : '.' ∉ x := fun e => hx (by simp [e])
    cases y with
    | nil => simp [List.cons_prefix_cons, hc]
    | cons d y =>
      have hy' : '.' ∉ y := fun e => hy (by simp [e])
      simp only [List.cons_append, List.cons_prefix_cons, ih y hx' hy', List.cons.injEq]
      rw [and_assoc]

/-- same for equality -/
theorem field_eq (x y r1 r2 : Str) (hx : '.' ∉ x) (hy : '.' ∉ y) :
    (x ++ '.' :: r1) = (y ++ '.' :: r2) ↔ x = y ∧ r1 = r2 := by
  induction x generalizing y with
  | nil =>
    cases y with
    | nil => simp
    | cons d y =>
      have : d ≠ '.' := fun e => hy (by simp [e])
      simp [Ne.symm this]
  | cons c x ih =>
    have hc : c ≠ '.' := fun e => hx (by simp [e])
    have hx' : '.' ∉ x := fun e => hx (by simp [e])
    cases y with
    | nil => simp [hc]
    | cons d y =>
      have hy' : '.' ∉ y := fun e => hy (by simp [e])
      simp only [List.cons_append, List.cons.injEq, ih y hx' hy']
      rw [and_assoc]


/-! ## one IPv4 pattern -/

/-- the pattern `expand4` produces for group count `g` and subnet address `sub` -/
def pat4 (g sub : Nat) : Str :=
  if g == 0 then ['*']
  else if g < 4 then joinDot (((octets sub).take g).map dec) ++ ['.', '*']
  else render4 sub

theorem expand4_eq (base p : Nat) :
    expand4 base p = (List.range (2 ^ ((8 - p % 8) % 8))).map fun k =>
      pat4 ((p + (8 - p % 8) % 8) / 8) (base + k * 2 ^ (32 - (p + (8 - p % 8) % 8))) := rfl

section quad
variable {s0 s1 s2 s3 a0 a1 a2 a3 : Nat}
  (hs0 : s0 < 256) (hs1 : s1 < 256) (hs2 : s2 < 256) (hs3 : s3 < 256)
  (ha0 : a0 < 256) (ha1 : a1 < 256) (ha2 : a2 < 256) (ha3 : a3 < 256)
include hs0 ha0

theorem glob_quad1 :
    glob (dec s0 ++ ['.', '*']) (dec a0 ++ '.' :: (dec a1 ++ '.' :: (dec a2 ++ '.' :: dec a3))) = true
      ↔ s0 = a0 := by
  have h0 := dec_no_dot_star s0 hs0
  have k0 := dec_no_dot_star a0 ha0
  have e : dec s0 ++ ['.', '*'] = (dec s0 ++ '.' :: []) ++ ['*'] := by simp
  rw [e, glob_prefix_star _ (by simp [h0.2]), field_prefix _ _ _ _ h0.1 k0.1]
  simp only [List.nil_prefix, and_true]
  exact ⟨dec_inj hs0 ha0, fun h => h ▸ rfl⟩

include hs1 ha1 in
theorem glob_quad2 :
    glob (dec s0 ++ '.' :: dec s1 ++ ['.', '*'])
      (dec a0 ++ '.' :: (dec a1 ++ '.' :: (dec a2 ++ '.' :: dec a3))) = true
      ↔ s0 = a0 ∧ s1 = a1 := by
  have h0 := dec_no_dot_star s0 hs0
  have k0 := dec_no_dot_star a0 ha0
  have h1 := dec_no_dot_star s1 hs1
  have k1 := dec_no_dot_star a1 ha1
  have e : dec s0 ++ '.' :: dec s1 ++ ['.', '*'] = (dec s0 ++ '.' :: (dec s1 ++ '.' :: [])) ++ ['*'] := by
    simp
  rw [e, glob_prefix_star _ (by simp [h0.2, h1.2]), field_prefix _ _ _ _ h0.1 k0.1,
    field_prefix _ _ _ _ h1.1 k1.1]
  simp only [List.nil_prefix, and_true]
  exact ⟨fun ⟨a, b⟩ => ⟨dec_inj hs0 ha0 a, dec_inj hs1 ha1 b⟩, fun ⟨a, b⟩ => a ▸ b ▸ ⟨rfl, rfl⟩⟩

include hs1 hs2 ha1 ha2 in
theorem glob_quad3 :
    glob (dec s0 ++ '.' :: (dec s1 ++ '.' :: dec s2) ++ ['.', '*'])
      (dec a0 ++ '.' :: (dec a1 ++ '.' :: (dec a2 ++ '.' :: dec a3))) = true
      ↔ s0 = a0 ∧ s1 = a1 ∧ s2 = a2 := by
  have h0 := dec_no_dot_star s0 hs0
  have k0 := dec_no_dot_star a0 ha0
  have h1 := dec_no_dot_star s1 hs1
  have k1 := dec_no_dot_star a1 ha1
  have h2 := dec_no_dot_star s2 hs2
  have k2 := dec_no_dot_star a2 ha2
  have e : dec s0 ++ '.' :: (dec s1 ++ '.' :: dec s2) ++ ['.', '*']
      = (dec s0 ++ '.' :: (dec s1 ++ '.' :: (dec s2 ++ '.' :: []))) ++ ['*'] := by
    simp
  rw [e, glob_prefix_star _ (by simp [h0.2, h1.2, h2.2]), field_prefix _ _ _ _ h0.1 k0.1,
    field_prefix _ _ _ _ h1.1 k1.1, field_prefix _ _ _ _ h2.1 k2.1]
  simp only [List.nil_prefix, and_true]
  exact ⟨fun ⟨a, b, c⟩ => ⟨dec_inj hs0 ha0 a, dec_inj hs1 ha1 b, dec_inj hs2 ha2 c⟩,
    fun ⟨a, b, c⟩ => a ▸ b ▸ c ▸ ⟨rfl, rfl, rfl⟩⟩

include hs1 hs2 hs3 ha1 ha2 ha3 in
theorem glob_quad4 :
    glob (dec s0 ++ '.' :: (dec s1 ++ '.' :: (dec s2 ++ '.' :: dec s3)))
      (dec a0 ++ '.' :: (dec a1 ++ '.' :: (dec a2 ++ '.' :: dec a3))) = true
      ↔ s0 = a0 ∧ s1 = a1 ∧ s2 = a2 ∧ s3 = a3 := by
  have h0 := dec_no_dot_star s0 hs0
  have k0 := dec_no_dot_star a0 ha0
  have h1 := dec_no_dot_star s1 hs1
  have k1 := dec_no_dot_star a1 ha1
  have h2 := dec_no_dot_star s2 hs2
  have k2 := dec_no_dot_star a2 ha2
  have h3 := dec_no_dot_star s3 hs3
  rw [glob_of_no_star _ (by simp [h0.2, h1.2, h2.2, h3.2]), field_eq _ _ _ _ h0.1 k0.1,
    field_eq _ _ _ _ h1.1 k1.1, field_eq _ _ _ _ h2.1 k2.1]
  exact ⟨fun ⟨a, b, c, d⟩ => ⟨dec_inj hs0 ha0 a, dec_inj hs1 ha1 b, dec_inj hs2 ha2 c, dec_inj hs3 ha3 d⟩,
    fun ⟨a, b, c, d⟩ => a ▸ b ▸ c ▸ d ▸ ⟨rfl, rfl, rfl, rfl⟩⟩

end quad

/-- one pattern matches the text of `a` iff `a` and `sub` agree on their top `8 g` bits -/
theorem glob_pat4 (g sub a : Nat) (hg : g ≤ 4) (hs : sub < 2 ^ 32) (ha : a < 2 ^ 32) :
    glob (pat4 g sub) (render4 a) = true ↔ a / 2 ^ (32 - 8 * g) = sub / 2 ^ (32 - 8 * g) := by
  have m {x : Nat} (k : Nat) : x / k % 256 < 256 := Nat.mod_lt _ (by decide)
  have m' {x : Nat} : x % 256 < 256 := Nat.mod_lt _ (by decide)
  have hr : render4 a = dec (a / 2 ^ 24 % 256) ++ '.' :: (dec (a / 2 ^ 16 % 256) ++ '.' ::
      (dec (a / 2 ^ 8 % 256) ++ '.' :: dec (a % 256))) := rfl
  rcases (by omega : g = 0 ∨ g = 1 ∨ g = 2 ∨ g = 3 ∨ g = 4) with rfl | rfl | rfl | rfl | rfl
  · have : pat4 0 sub = ['*'] := rfl
    rw [this, glob_star]
    simp only [Nat.mul_zero, Nat.sub_zero, true_iff]
    rw [Nat.div_eq_of_lt ha, Nat.div_eq_of_lt hs]
  · have : pat4 1 sub = dec (sub / 2 ^ 24 % 256) ++ ['.', '*'] := rfl
    rw [this, hr, glob_quad1 (m _) (m _)]
    omega
  · have : pat4 2 sub = dec (sub / 2 ^ 24 % 256) ++ '.' :: dec (sub / 2 ^ 16 % 256) ++ ['.', '*'] := rfl
    rw [this, hr, glob_quad2 (m _) (m _) (m _) (m _)]
    omega
  · have : pat4 3 sub = dec (sub / 2 ^ 24 % 256) ++ '.' :: (dec (sub / 2 ^ 16 % 256) ++ '.' ::
        dec (sub / 2 ^ 8 % 256)) ++ ['.', '*'] := rfl
    rw [this, hr, glob_quad3 (m _) (m _) (m _) (m _) (m _) (m _)]
    omega
  · have : pat4 4 sub = dec (sub / 2 ^ 24 % 256) ++ '.' :: (dec (sub / 2 ^ 16 % 256) ++ '.' ::
        (dec (sub / 2 ^ 8 % 256) ++ '.' :: dec (sub % 256))) := rfl
    rw [this, hr, glob_quad4 (m _) (m _) (m _) m' (m _) (m _) (m _) m']
    omega


/-! ## arithmetic of sub-networks -/

theorem sub_lt {m d P base k : Nat} (hal : base % (m * d) = 0) (hb : base < m * d * P)
    (hk : k < d) : base + k * m < m * d * P := by
  obtain ⟨B, rfl⟩ := Nat.dvd_of_mod_eq_zero hal
  have hm : 0 < m := by
    rcases Nat.eq_zero_or_pos m with h | h
    · subst h; simp at hb
    · exact h
  have hBP : B < P := Nat.lt_of_mul_lt_mul_left hb
  have h1 : k * m < m * d := by rw [Nat.mul_comm m d]; exact Nat.mul_lt_mul_of_pos_right hk hm
  have h2 : m * d * (B + 1) ≤ m * d * P := Nat.mul_le_mul_left _ hBP
  rw [Nat.mul_succ] at h2
  omega

theorem net_arith {m d base a : Nat} (hm : 0 < m) (hd : 0 < d) (hal : base % (m * d) = 0) :
    (∃ k, k < d ∧ a / m = base / m + k) ↔ a / (m * d) = base / (m * d) := by
  obtain ⟨B, rfl⟩ := Nat.dvd_of_mod_eq_zero hal
  have e1 : m * d * B / m = d * B := by rw [Nat.mul_assoc]; exact Nat.mul_div_cancel_left _ hm
  have e2 : m * d * B / (m * d) = B := Nat.mul_div_cancel_left _ (Nat.mul_pos hm hd)
  rw [e1, e2, ← Nat.div_div_eq_div_mul]
  generalize a / m = q
  constructor
  · rintro ⟨k, hk, rfl⟩
    rw [Nat.mul_add_div hd, Nat.div_eq_of_lt hk, Nat.add_zero]
  · rintro rfl
    exact ⟨q % d, Nat.mod_lt _ hd, (Nat.div_add_mod q d).symm⟩

/-- facts about the rounding of the prefix length to a multiple of 8 -/
theorem round8 {p : Nat} (hp : p ≤ 32) :
    p + (8 - p % 8) % 8 = 8 * ((p + (8 - p % 8) % 8) / 8) ∧ (p + (8 - p % 8) % 8) / 8 ≤ 4 ∧
    32 - p = (32 - (p + (8 - p % 8) % 8)) + (8 - p % 8) % 8 ∧
    32 = (32 - (p + (8 - p % 8) % 8)) + (8 - p % 8) % 8 + p := by omega

theorem length_expand4 (base p : Nat) : (expand4 base p).length = 2 ^ ((8 - p % 8) % 8) := by
  simp [expand4_eq]

/-- **Key lemma.** The `k`-th produced pattern matches the text of `a` exactly when `a`, shifted
right by the number of wildcarded bits, is the `k`-th successor of the shifted network address. -/
theorem glob_expand4_getElem (base p a : Nat) (hp : p ≤ 32) (hb : base < 2 ^ 32)
    (hal : base % 2 ^ (32 - p) = 0) (ha : a < 2 ^ 32) (k : Nat) (hk : k < (expand4 base p).length) :
    glob (expand4 base p)[k] (render4 a) = true ↔
      a / 2 ^ (32 - (p + (8 - p % 8) % 8)) = base / 2 ^ (32 - (p + (8 - p % 8) % 8)) + k := by
  obtain ⟨h1, h2, h3, h4⟩ := round8 hp
  have hk' : k < 2 ^ ((8 - p % 8) % 8) := by rwa [length_expand4] at hk
  simp only [expand4_eq, List.getElem_map, List.getElem_range]
  generalize (8 - p % 8) % 8 = diff at *
  generalize hg : (p + diff) / 8 = g at *
  have hm : 0 < 2 ^ (32 - (p + diff)) := Nat.pow_pos (by decide)
  rw [h3, Nat.pow_add] at hal
  have hb' : base < 2 ^ (32 - (p + diff)) * 2 ^ diff * 2 ^ p := by
    rw [← Nat.pow_add, ← Nat.pow_add, ← h4]; exact hb
  have hs : base + k * 2 ^ (32 - (p + diff)) < 2 ^ 32 := by
    have := sub_lt hal hb' hk'
    rwa [← Nat.pow_add, ← Nat.pow_add, ← h4] at this
  rw [glob_pat4 g _ a h2 hs ha, ← h1, Nat.add_mul_div_right _ _ hm]

theorem inNet_iff (w base p a : Nat) : inNet w base p a = true ↔ a / 2 ^ (w - p) = base / 2 ^ (w - p) := by
  simp [inNet]

theorem matches4_iff (base p a : Nat) :
    matches4 base p a = true ↔
      ∃ k, ∃ h : k < (expand4 base p).length, glob (expand4 base p)[k] (render4 a) = true := by
  simp only [matches4, List.any_eq_true, List.mem_iff_getElem]
  constructor
  · rintro ⟨_, ⟨k, h, rfl⟩, hg⟩; exact ⟨k, h, hg⟩
  · rintro ⟨k, h, hg⟩; exact ⟨_, ⟨k, h, rfl⟩, hg⟩

theorem matches4_eq_inNet (base p a : Nat) (hp : p ≤ 32) (hb : base < 2 ^ 32)
    (hal : base % 2 ^ (32 - p) = 0) (ha : a < 2 ^ 32) : matches4 base p a = inNet 32 base p a := by
  rw [Bool.eq_iff_iff, matches4_iff, inNet_iff]
  have key := glob_expand4_getElem base p a hp hb hal ha
  obtain ⟨-, -, h3, -⟩ := round8 hp
  have hl := length_expand4 base p
  rw [h3, Nat.pow_add] at hal ⊢
  rw [← net_arith (Nat.pow_pos (by decide)) (Nat.pow_pos (by decide)) hal]
  constructor
  · rintro ⟨k, h, hg⟩; exact ⟨k, hl ▸ h, (key k h).1 hg⟩
  · rintro ⟨k, h, hg⟩; exact ⟨k, hl ▸ h, (key k (hl ▸ h)).2 hg⟩


theorem sub4_lt (base p k : Nat) (hp : p ≤ 32) (hb : base < 2 ^ 32)
    (hal : base % 2 ^ (32 - p) = 0) (hk : k < 2 ^ ((8 - p % 8) % 8)) :
    base + k * 2 ^ (32 - (p + (8 - p % 8) % 8)) < 2 ^ 32 := by
  obtain ⟨-, -, h3, h4⟩ := round8 hp
  generalize (8 - p % 8) % 8 = diff at *
  rw [h3, Nat.pow_add] at hal
  have hb' : base < 2 ^ (32 - (p + diff)) * 2 ^ diff * 2 ^ p := by
    rw [← Nat.pow_add, ← Nat.pow_add, ← h4]; exact hb
  have := sub_lt hal hb' hk
  rwa [← Nat.pow_add, ← Nat.pow_add, ← h4] at this

theorem expand4_disjoint (base p : Nat) (hp : p ≤ 32) (hb : base < 2 ^ 32)
    (hal : base % 2 ^ (32 - p) = 0) (i j : Nat) (hij : i < j) (hj : j < (expand4 base p).length)
    (a : Nat) (ha : a < 2 ^ 32) :
    ¬ (glob (expand4 base p)[i] (render4 a) = true ∧ glob (expand4 base p)[j] (render4 a) = true) := by
  rintro ⟨h1, h2⟩
  rw [glob_expand4_getElem base p a hp hb hal ha] at h1 h2
  omega

theorem expand4_nodup (base p : Nat) (hp : p ≤ 32) (hb : base < 2 ^ 32)
    (hal : base % 2 ^ (32 - p) = 0) : (expand4 base p).Nodup := by
  rw [List.Nodup, List.pairwise_iff_getElem]
  intro i j hi hj hij heq
  have hi' : i < 2 ^ ((8 - p % 8) % 8) := by rwa [length_expand4] at hi
  have ha := sub4_lt base p i hp hb hal hi'
  have hm : 0 < 2 ^ (32 - (p + (8 - p % 8) % 8)) := Nat.pow_pos (by decide)
  have h1 := (glob_expand4_getElem base p _ hp hb hal ha i hi).2 (Nat.add_mul_div_right _ _ hm)
  rw [heq] at h1
  exact expand4_disjoint base p hp hb hal i j hij hj _ ha
    ⟨(glob_expand4_getElem base p _ hp hb hal ha i hi).2 (Nat.add_mul_div_right _ _ hm), h1⟩


/-! ## a structurally recursive `glob` (reducible by the kernel, for concrete witnesses) -/

/-- `f` holds of some suffix -/
def anyTail (f : Str → Bool) : Str → Bool
  | [] => f []
  | d :: n => f (d :: n) || anyTail f n

/-- `glob` by structural recursion on the pattern -/
def globS : Str → Str → Bool
  | [], n => n.isEmpty
  | c :: p, n =>
    if c = '*' then anyTail (globS p) n
    else match n with
      | [] => false
      | d :: n' => c == d && globS p n'

theorem glob_eq_globS (pat s : Str) : glob pat s = globS pat s := by
  induction pat generalizing s with
  | nil => rw [glob_nil, globS]
  | cons c p ih =>
    by_cases hc : c = '*'
    · subst hc
      rw [globS.eq_def]; simp only [if_pos]
      induction s with
      | nil => rw [glob.eq_2, ih, Bool.or_false]; rfl
      | cons d s ihs => rw [glob.eq_3, ih, ihs]; rfl
    · rw [globS.eq_def]; simp only [if_neg hc]
      cases s with
      | nil => rw [glob_cons_nil_of_ne hc]
      | cons d s => rw [glob_cons_cons_of_ne hc, ih]

/-- `matches6` through `globS` -/
def matches6S (base p a : Nat) : Bool := (expand6 base p).any (fun pat => globS pat (render6 a))

theorem matches6_eq_matches6S (base p a : Nat) : matches6 base p a = matches6S base p a := by
  simp only [matches6, matches6S, glob_eq_globS]


/-! ## IPv6 -/

/-- `render6` as a function of the hextet list -/
def renderH (hs : List Nat) : Str :=
  let strs := hs.map hex
  match bestRun hs 0 none 0 none 0 with
  | (some s, l) =>
    if l > 1 then
      let e := s + l
      let tail := strs.drop e
      let tail := if e == 8 then tail ++ [[]] else tail
      let mid := strs.take s ++ [[]] ++ tail
      let mid := if s == 0 then [] :: mid else mid
      joinColon mid
    else joinColon strs
  | _ => joinColon strs

theorem render6_eq (a : Nat) : render6 a = renderH (hextets a) := rfl

/-- the pattern built from the texts of the first and the last address of a sub-network -/
def pat6 (first last : Str) : Str :=
  match firstDiff first last 0 with
  | some i => first.take i ++ ['*']
  | none => first

theorem expand6_eq (base p : Nat) :
    expand6 base p = (List.range (2 ^ ((4 - p % 4) % 4))).map fun k =>
      pat6 (render6 (base + k * 2 ^ (128 - (p + (4 - p % 4) % 4))))
        (render6 (base + k * 2 ^ (128 - (p + (4 - p % 4) % 4)) + 2 ^ (128 - (p + (4 - p % 4) % 4)) - 1)) := rfl

theorem bestRun_skip (fx rest : List Nat) (hnz : ∀ x ∈ fx, x ≠ 0) (idx : Nat) (bs : Option Nat)
    (bl : Nat) :
    bestRun (fx ++ rest) idx none 0 bs bl = bestRun rest (idx + fx.length) none 0 bs bl := by
  induction fx generalizing idx with
  | nil => simp
  | cons h t ih =>
    have hh : h ≠ 0 := hnz h (by simp)
    have ht : ∀ x ∈ t, x ≠ 0 := fun x hx => hnz x (by simp [hx])
    simp only [List.cons_append, bestRun, beq_iff_eq, hh, if_false, ih ht, List.length_cons]
    congr 1; omega

theorem bestRun_start (hs : List Nat) (idx : Nat) (cs : Option Nat) (cl : Nat) (bs : Option Nat)
    (bl s l : Nat) (h : bestRun hs idx cs cl bs bl = (some s, l)) :
    bs = some s ∨ cs = some s ∨ idx ≤ s := by
  induction hs generalizing idx cs cl bs bl with
  | nil => simp only [bestRun, Prod.mk.injEq] at h; exact Or.inl h.1
  | cons x t ih =>
    simp only [bestRun] at h
    split at h
    · split at h
      · rcases ih _ _ _ _ _ h with h | h | h
        · cases cs <;> simp_all
        · cases cs <;> simp_all
        · omega
      · rcases ih _ _ _ _ _ h with h | h | h
        · exact Or.inl h
        · cases cs <;> simp_all
        · omega
    · rcases ih _ _ _ _ _ h with h | h | h
      · exact Or.inl h
      · simp at h
      · omega

theorem bestRun_zeros_aux (k idx s cl : Nat) :
    bestRun (List.replicate k 0) idx (some s) cl (some s) cl = (some s, cl + k) := by
  induction k generalizing idx cl with
  | zero => simp [bestRun]
  | succ k ih =>
    simp only [List.replicate_succ, bestRun, beq_self_eq_true, if_true, Nat.lt_add_one, ih]
    congr 1; omega

theorem bestRun_zeros (k idx : Nat) :
    bestRun (List.replicate (k + 1) 0) idx none 0 none 0 = (some idx, k + 1) := by
  simp only [List.replicate_succ, bestRun, beq_self_eq_true, if_true, Nat.zero_add, Nat.lt_add_one,
    bestRun_zeros_aux]
  congr 1; omega


theorem joinColon_cons_cons (x y : Str) (t : List Str) :
    joinColon (x :: y :: t) = x ++ ':' :: joinColon (y :: t) := rfl

theorem joinColon_append (X Y : List Str) (hX : X ≠ []) (hY : Y ≠ []) :
    joinColon (X ++ Y) = joinColon X ++ ':' :: joinColon Y := by
  induction X with
  | nil => exact absurd rfl hX
  | cons x t ih =>
    cases t with
    | nil =>
      cases Y with
      | nil => exact absurd rfl hY
      | cons y ys => rfl
    | cons t1 t' =>
      rw [List.cons_append, List.cons_append, joinColon_cons_cons, ← List.cons_append,
        ih (by simp), joinColon_cons_cons, List.append_assoc]
      rfl

/-- if the leading hextets `fx` are all non-zero, the text starts with them, colon-separated,
followed by a colon -/
theorem renderH_prefix (fx host : List Nat) (hfx : fx ≠ []) (hnz : ∀ x ∈ fx, x ≠ 0)
    (hhost : host ≠ []) : ∃ R, renderH (fx ++ host) = joinColon (fx.map hex) ++ ':' :: R := by
  have hlen : 0 < fx.length := List.length_pos_iff.mpr hfx
  have hmfx : fx.map hex ≠ [] := by simpa using hfx
  have hmhost : host.map hex ≠ [] := by simpa using hhost
  unfold renderH
  rw [bestRun_skip fx host hnz]
  generalize hr : bestRun host (0 + fx.length) none 0 none 0 = r
  obtain ⟨bs, l⟩ := r
  cases bs with
  | none =>
    exact ⟨_, by simp only [List.map_append]; exact joinColon_append _ _ hmfx hmhost⟩
  | some s =>
    have hs : fx.length ≤ s := by
      rcases bestRun_start _ _ _ _ _ _ _ _ hr with h | h | h
      · simp at h
      · simp at h
      · omega
    by_cases hl : l > 1
    · have hs0 : (s == 0) = false := by simp; omega
      simp only [hl, if_true, hs0, List.map_append, Bool.false_eq_true, if_false]
      rw [List.take_append, List.take_of_length_le (by simpa using hs), List.append_assoc,
        List.append_assoc]
      exact ⟨_, joinColon_append _ _ hmfx (by simp)⟩
    · simp only [hl, if_false, List.map_append]
      exact ⟨_, joinColon_append _ _ hmfx hmhost⟩


/-- text of the first address of a /16n network with non-zero fixed hextets -/
theorem renderH_zero_host (fx : List Nat) (k : Nat) (hfx : fx ≠ []) (hnz : ∀ x ∈ fx, x ≠ 0)
    (hlen : fx.length + (k + 1) = 8) :
    ∃ c R, c ≠ 'f' ∧ renderH (fx ++ List.replicate (k + 1) 0) = joinColon (fx.map hex) ++ ':' :: c :: R := by
  have hpos : 0 < fx.length := List.length_pos_iff.mpr hfx
  have hmfx : fx.map hex ≠ [] := by simpa using hfx
  unfold renderH
  rw [bestRun_skip fx _ hnz, bestRun_zeros]
  by_cases hk : k + 1 > 1
  · have hs0 : (0 + fx.length == 0) = false := by simp; omega
    have he : (0 + fx.length + (k + 1) == 8) = true := by simp; omega
    simp only [hk, if_true, hs0, he, List.map_append, Bool.false_eq_true, if_false]
    rw [List.take_append, List.take_of_length_le (by simp), List.append_assoc, List.append_assoc,
      joinColon_append _ _ hmfx (by simp)]
    refine ⟨':', [], by decide, ?_⟩
    have h1 : 0 + fx.length - (List.map hex fx).length = 0 := by simp
    have h2 : List.drop (0 + fx.length + (k + 1))
        (List.map hex fx ++ List.map hex (List.replicate (k + 1) 0)) = [] := by
      apply List.drop_of_length_le; simp
    rw [h1, h2]
    rfl
  · have hk0 : k = 0 := by omega
    subst hk0
    simp only [hk, if_false, List.map_append]
    rw [joinColon_append _ _ hmfx (by simp)]
    exact ⟨'0', [], by decide, rfl⟩

/-- text of the last address of a /16n network with non-zero fixed hextets -/
theorem renderH_ffff_host (fx : List Nat) (k : Nat) (hfx : fx ≠ []) (hnz : ∀ x ∈ fx, x ≠ 0) :
    ∃ R, renderH (fx ++ List.replicate (k + 1) 65535) = joinColon (fx.map hex) ++ ':' :: 'f' :: R := by
  have hmfx : fx.map hex ≠ [] := by simpa using hfx
  have hall : ∀ x ∈ fx ++ List.replicate (k + 1) 65535, x ≠ 0 := by
    intro x hx
    rcases List.mem_append.mp hx with h | h
    · exact hnz x h
    · rw [List.eq_of_mem_replicate h]; decide
  unfold renderH
  have := bestRun_skip (fx ++ List.replicate (k + 1) 65535) [] hall 0 none 0
  rw [List.append_nil] at this
  rw [this]
  simp only [bestRun, List.map_append]
  rw [joinColon_append _ _ hmfx (by simp)]
  cases k with
  | zero => exact ⟨_, rfl⟩
  | succ k => exact ⟨_, rfl⟩

theorem firstDiff_common (X r1 r2 : Str) (c1 c2 : Char) (h : c1 ≠ c2) (i : Nat) :
    firstDiff (X ++ c1 :: r1) (X ++ c2 :: r2) i = some (i + X.length) := by
  induction X generalizing i with
  | nil => simp [firstDiff, h]
  | cons x t ih => simp [firstDiff, ih]; omega

/-- the single pattern produced for a /16n network with non-zero fixed hextets -/
theorem pat6_core (fx : List Nat) (k : Nat) (hfx : fx ≠ []) (hnz : ∀ x ∈ fx, x ≠ 0)
    (hlen : fx.length + (k + 1) = 8) :
    pat6 (renderH (fx ++ List.replicate (k + 1) 0)) (renderH (fx ++ List.replicate (k + 1) 65535))
      = joinColon (fx.map hex) ++ [':', '*'] := by
  obtain ⟨c, R1, hc, h1⟩ := renderH_zero_host fx k hfx hnz hlen
  obtain ⟨R2, h2⟩ := renderH_ffff_host fx k hfx hnz
  have e1 : joinColon (fx.map hex) ++ ':' :: c :: R1 = (joinColon (fx.map hex) ++ [':']) ++ c :: R1 := by
    simp
  have e2 : joinColon (fx.map hex) ++ ':' :: 'f' :: R2 = (joinColon (fx.map hex) ++ [':']) ++ 'f' :: R2 := by
    simp
  rw [h1, h2, e1, e2, pat6, firstDiff_common _ _ _ _ _ hc]
  simp only [Nat.zero_add, List.take_left]
  simp


/-! ### characters of the text -/

theorem hexChar_ne : ∀ k, k < 16 → hexChar k ≠ '*' ∧ hexChar k ≠ ':' := by decide

theorem hex_chars {n : Nat} (hn : n < 65536) : ∀ c ∈ hex n, c ≠ '*' ∧ c ≠ ':' := by
  intro c hc
  have key : ∃ k, k < 16 ∧ c = hexChar k := by
    unfold hex at hc
    split at hc
    · simp at hc; exact ⟨_, by omega, hc⟩
    · split at hc
      · simp at hc; rcases hc with h | h <;> exact ⟨_, by omega, h⟩
      · split at hc
        · simp at hc; rcases hc with h | h | h <;> exact ⟨_, by omega, h⟩
        · simp at hc; rcases hc with h | h | h | h <;> exact ⟨_, by omega, h⟩
  obtain ⟨k, hk, rfl⟩ := key
  exact hexChar_ne k hk

theorem not_mem_joinColon (c : Char) (hc : c ≠ ':') (L : List Str) (h : ∀ x ∈ L, c ∉ x) :
    c ∉ joinColon L := by
  induction L with
  | nil => simp [joinColon]
  | cons x t ih =>
    cases t with
    | nil => simpa [joinColon] using h
    | cons y t' =>
      rw [joinColon_cons_cons]
      have hx : c ∉ x := h x (by simp)
      have ht : c ∉ joinColon (y :: t') := ih (fun z hz => h z (by simp [hz]))
      simp [hx, hc, ht]

theorem glob_star_cons (p s : Str) (h : glob p s = true) : glob ('*' :: p) s = true := by
  cases s with
  | nil => rw [glob.eq_2, h]; rfl
  | cons d s => rw [glob.eq_3, h]; rfl

theorem glob_self (s : Str) : glob s s = true := by
  induction s with
  | nil => rw [glob_nil]; rfl
  | cons c s ih =>
    by_cases hc : c = '*'
    · subst hc; rw [glob.eq_3, glob_star_cons s s ih, Bool.or_true]
    · rw [glob_cons_cons_of_ne hc, ih]; simp

/-! ### arithmetic of hextets -/

theorem hextets_eq (a : Nat) : hextets a = [a / 2 ^ 112 % 65536, a / 2 ^ 96 % 65536,
    a / 2 ^ 80 % 65536, a / 2 ^ 64 % 65536, a / 2 ^ 48 % 65536, a / 2 ^ 32 % 65536,
    a / 2 ^ 16 % 65536, a / 2 ^ 0 % 65536] := rfl

theorem hextets_lt (a : Nat) : ∀ x ∈ hextets a, x < 65536 := by
  intro x hx
  simp only [hextets, List.mem_map] at hx
  obtain ⟨i, _, rfl⟩ := hx
  exact Nat.mod_lt _ (by decide)

theorem length_hextets (a : Nat) : (hextets a).length = 8 := by simp [hextets]

theorem getElem_hextets (a i : Nat) (hi : i < (hextets a).length) :
    (hextets a)[i] = a / 2 ^ (16 * (7 - i)) % 65536 := by
  simp [hextets]

/-- a hextet above the host part only depends on `x / 2^(16k)` -/
theorem hextet_hi (x k j : Nat) (hkj : k ≤ j) :
    x / 2 ^ (16 * j) = x / 2 ^ (16 * k) / 2 ^ (16 * (j - k)) := by
  rw [Nat.div_div_eq_div_mul, ← Nat.pow_add]
  congr 2; omega

/-- a hextet inside the host part only depends on `x % 2^(16k)` -/
theorem hextet_lo (x k j : Nat) (hjk : j < k) :
    x / 2 ^ (16 * j) % 65536 = x % 2 ^ (16 * k) / 2 ^ (16 * j) % 65536 := by
  have e : 2 ^ (16 * k) = 2 ^ (16 * j) * (65536 * 2 ^ (16 * (k - j - 1))) := by
    rw [show (65536 : Nat) = 2 ^ 16 by rfl, ← Nat.pow_add, ← Nat.pow_add]
    congr 1; omega
  rw [e, Nat.mod_mul_right_div_self, Nat.mod_mul_right_mod]

theorem hextets_inNet (n : Nat) (hn : n ≤ 8) (base a : Nat)
    (hin : a / 2 ^ (128 - 16 * n) = base / 2 ^ (128 - 16 * n)) :
    (hextets a).take n = (hextets base).take n := by
  apply List.ext_getElem
  · simp [length_hextets]
  · intro i h1 h2
    have hi : i < n := by simp [length_hextets] at h1; omega
    rw [List.getElem_take, List.getElem_take, getElem_hextets, getElem_hextets]
    have e : 128 - 16 * n = 16 * (8 - n) := by omega
    rw [e] at hin
    rw [hextet_hi a (8 - n) (7 - i) (by omega), hextet_hi base (8 - n) (7 - i) (by omega), hin]

theorem hextets_first (n : Nat) (hn : n ≤ 8) (base : Nat) (hal : base % 2 ^ (128 - 16 * n) = 0) :
    hextets base = (hextets base).take n ++ List.replicate (8 - n) 0 := by
  have e : 128 - 16 * n = 16 * (8 - n) := by omega
  rw [e] at hal
  have : (hextets base).drop n = List.replicate (8 - n) 0 := by
    apply List.ext_getElem
    · simp [length_hextets]
    · intro i h1 h2
      have hi : i < 8 - n := by simpa using h2
      rw [List.getElem_drop, getElem_hextets, List.getElem_replicate,
        hextet_lo base (8 - n) (7 - (n + i)) (by omega), hal]
      simp
  rw [← this, List.take_append_drop]

theorem hextets_last (n : Nat) (hn : n ≤ 8) (base : Nat) (hal : base % 2 ^ (128 - 16 * n) = 0) :
    hextets (base + 2 ^ (128 - 16 * n) - 1) = (hextets base).take n ++ List.replicate (8 - n) 65535 := by
  have e : 128 - 16 * n = 16 * (8 - n) := by omega
  have hpos : 0 < 2 ^ (16 * (8 - n)) := Nat.pow_pos (by decide)
  obtain ⟨B, hB⟩ := Nat.dvd_of_mod_eq_zero hal
  rw [e] at hB ⊢
  have hx : base + 2 ^ (16 * (8 - n)) - 1 = 2 ^ (16 * (8 - n)) * B + (2 ^ (16 * (8 - n)) - 1) := by omega
  have hdiv : (base + 2 ^ (16 * (8 - n)) - 1) / 2 ^ (16 * (8 - n)) = base / 2 ^ (16 * (8 - n)) := by
    rw [hx, hB, Nat.mul_add_div hpos, Nat.mul_div_cancel_left _ hpos, Nat.div_eq_of_lt (by omega)]
    rfl
  have hmod : (base + 2 ^ (16 * (8 - n)) - 1) % 2 ^ (16 * (8 - n)) = 2 ^ (16 * (8 - n)) - 1 := by
    rw [hx, Nat.mul_add_mod, Nat.mod_eq_of_lt (by omega)]
  have h1 : (hextets (base + 2 ^ (16 * (8 - n)) - 1)).take n = (hextets base).take n :=
    hextets_inNet n hn _ _ (by rw [e]; exact hdiv)
  have h2 : (hextets (base + 2 ^ (16 * (8 - n)) - 1)).drop n = List.replicate (8 - n) 65535 := by
    apply List.ext_getElem
    · simp [length_hextets]
    · intro i h1 h2
      have hi : i < 8 - n := by simpa using h2
      rw [List.getElem_drop, getElem_hextets, List.getElem_replicate,
        hextet_lo _ (8 - n) (7 - (n + i)) (by omega), hmod]
      have e2 : 2 ^ (16 * (8 - n)) = 2 ^ (16 * (7 - (n + i))) * (65536 * 2 ^ (16 * (8 - n - (7 - (n + i)) - 1))) := by
        rw [show (65536 : Nat) = 2 ^ 16 by rfl, ← Nat.pow_add, ← Nat.pow_add]
        congr 1; omega
      have hc : 0 < 2 ^ (16 * (8 - n - (7 - (n + i)) - 1)) := Nat.pow_pos (by decide)
      rw [e2, Nat.mul_sub_div 0 _ _ (Nat.mul_pos (Nat.pow_pos (by decide)) (by omega))]
      simp only [Nat.zero_div, Nat.zero_add]
      generalize 2 ^ (16 * (8 - n - (7 - (n + i)) - 1)) = c at hc
      omega
  rw [← h1, ← h2, List.take_append_drop]

/-- **IPv6, partial completeness.**  If the prefix length is a multiple of 16 (at least 16) and all
fixed hextets of the network address are non-zero, every address of the network is matched. -/
theorem matches6_of_inNet (base p a : Nat) (hp16 : p % 16 = 0) (hp1 : 16 ≤ p) (hp2 : p ≤ 128)
    (hal : base % 2 ^ (128 - p) = 0) (hnz : ∀ h ∈ (hextets base).take (p / 16), h ≠ 0)
    (hin : inNet 128 base p a = true) : matches6 base p a = true := by
  obtain ⟨n, rfl⟩ : ∃ n, p = 16 * n := ⟨p / 16, by omega⟩
  rw [Nat.mul_div_cancel_left _ (by decide : 0 < 16)] at hnz
  rw [inNet_iff] at hin
  have hd : (4 - 16 * n % 4) % 4 = 0 := by omega
  have hn1 : 1 ≤ n := by omega
  have hn8 : n ≤ 8 := by omega
  simp only [matches6, expand6_eq, hd, Nat.pow_zero, List.range_one, List.map_cons, List.map_nil,
    List.any_cons, List.any_nil, Bool.or_false, Nat.zero_mul, Nat.add_zero]
  by_cases h8 : n = 8
  · subst h8
    have ha : a = base := by simpa using hin
    subst ha
    have : firstDiff (render6 a) (render6 a) 0 = none := by
      generalize render6 a = r
      generalize 0 = i
      induction r generalizing i with
      | nil => rfl
      | cons c r ih => simp [firstDiff, ih]
    simp only [Nat.reduceMul, Nat.sub_self, Nat.pow_zero, Nat.add_sub_cancel, pat6, this]
    exact glob_self _
  · have hn7 : n ≤ 7 := by omega
    have hfxlen : ((hextets base).take n).length = n := by
      rw [List.length_take]; simp [hextets]; omega
    have hfx : (hextets base).take n ≠ [] := by
      intro h; rw [h] at hfxlen; simp at hfxlen; omega
    obtain ⟨k, hk⟩ : ∃ k, 8 - n = k + 1 := ⟨7 - n, by omega⟩
    rw [render6_eq, render6_eq, render6_eq, hextets_first n hn8 base hal, hextets_last n hn8 base hal,
      hk, pat6_core _ k hfx hnz (by omega)]
    have hsplit : hextets a = (hextets base).take n ++ (hextets a).drop n := by
      rw [← hextets_inNet n hn8 base a hin, List.take_append_drop]
    have hdrop : (hextets a).drop n ≠ [] := by
      intro h
      have := congrArg List.length h
      simp [hextets] at this; omega
    obtain ⟨R, hR⟩ := renderH_prefix _ _ hfx hnz hdrop
    rw [hsplit, hR]
    have e : joinColon (List.map hex (List.take n (hextets base))) ++ [':', '*']
        = (joinColon (List.map hex (List.take n (hextets base))) ++ [':']) ++ ['*'] := by simp
    have hns : '*' ∉ joinColon (List.map hex (List.take n (hextets base))) ++ [':'] := by
      have : '*' ∉ joinColon (List.map hex (List.take n (hextets base))) := by
        apply not_mem_joinColon _ (by decide)
        intro x hx
        obtain ⟨y, hy, rfl⟩ := List.mem_map.mp hx
        exact fun hc => (hex_chars (hextets_lt base y (List.mem_of_mem_take hy)) _ hc).1 rfl
      intro hmem
      rcases List.mem_append.mp hmem with h | h
      · exact this h
      · simp at h
    rw [e, glob_prefix_star _ hns]
    exact ⟨R, by simp⟩


/-! ### IPv6 soundness under the same hypothesis -/

/-- the list of fields of the text of an address (before joining with colons) -/
def midH (hs : List Nat) : List Str :=
  let strs := hs.map hex
  match bestRun hs 0 none 0 none 0 with
  | (some s, l) =>
    if l > 1 then
      let e := s + l
      let tail := strs.drop e
      let tail := if e == 8 then tail ++ [[]] else tail
      let mid := strs.take s ++ [[]] ++ tail
      if s == 0 then [] :: mid else mid
    else strs
  | _ => strs

theorem renderH_eq_mid (hs : List Nat) : renderH hs = joinColon (midH hs) := by
  unfold renderH midH
  generalize bestRun hs 0 none 0 none 0 = r
  obtain ⟨bs, l⟩ := r
  cases bs with
  | none => rfl
  | some s =>
    simp only []
    by_cases hl : l > 1
    · rw [if_pos hl, if_pos hl]
    · rw [if_neg hl, if_neg hl]

/-- a prefix of the field list that has no empty field consists of plain hextets -/
theorem midH_prefix (hs : List Nat) (X : List Str) (hX : ∀ x ∈ X, x ≠ [])
    (hpre : X <+: midH hs) : X <+: hs.map hex := by
  unfold midH at hpre
  generalize bestRun hs 0 none 0 none 0 = r at hpre
  obtain ⟨bs, l⟩ := r
  cases bs with
  | none => exact hpre
  | some s =>
    simp only [] at hpre
    by_cases hl : l > 1
    · rw [if_pos hl] at hpre
      by_cases h0 : (s == 0) = true
      · rw [if_pos h0] at hpre
        cases X with
        | nil => exact List.nil_prefix
        | cons x t =>
          rw [List.cons_prefix_cons] at hpre
          exact absurd hpre.1 (hX x (by simp))
      · rw [if_neg h0, List.append_assoc] at hpre
        rcases Nat.lt_or_ge (List.take s (List.map hex hs)).length X.length with h | h
        · exfalso
          have h1 : List.take s (List.map hex hs) ++ [[]] <+: X := by
            apply List.prefix_of_prefix_length_le _ hpre
            · simp only [List.length_append, List.length_cons, List.length_nil]; omega
            · rw [← List.append_assoc]; exact List.prefix_append _ _
          exact hX [] (h1.subset (by simp)) rfl
        · exact (List.prefix_of_prefix_length_le hpre (List.prefix_append _ _) h).trans
            (List.take_prefix _ _)
    · rw [if_neg hl] at hpre; exact hpre


/-- colon-free fields followed by a colon: prefix comparison splits field-wise -/
theorem cfield_prefix (x y r1 r2 : Str) (hx : ':' ∉ x) (hy : ':' ∉ y) :
    (x ++ ':' :: r1) <+: (y ++ ':' :: r2) ↔ x = y ∧ r1 <+: r2 := by
  induction x generalizing y with
  | nil =>
    cases y with
    | nil => simp [List.cons_prefix_cons]
    | cons d y =>
      have : d ≠ ':' := fun e => hy (by simp [e])
      simp [List.cons_prefix_cons, Ne.symm this]
  | cons c x ih =>
    have hc : c ≠ ':' := fun e => hx (by simp [e])
    have hx' : ':' ∉ x := fun e => hx (by simp [e])
    cases y with
    | nil => simp [List.cons_prefix_cons, hc]
    | cons d y =>
      have hy' : ':' ∉ y := fun e => hy (by simp [e])
      simp only [List.cons_append, List.cons_prefix_cons, ih y hx' hy', List.cons.injEq]
      rw [and_assoc]

/-- a colon-free field cannot have a prefix that contains a colon -/
theorem cfield_not_prefix (x y r : Str) (hy : ':' ∉ y) : ¬ (x ++ ':' :: r) <+: y := by
  intro h
  exact hy (h.subset (by simp))

/-- if `x₁:…:xₙ:` is a prefix of the colon-joined text of `M`, then `x₁ … xₙ` is a prefix of `M` -/
theorem joinColon_prefix (X M : List Str) (hXne : X ≠ []) (hX : ∀ x ∈ X, ':' ∉ x)
    (hM : ∀ x ∈ M, ':' ∉ x) (h : joinColon X ++ [':'] <+: joinColon M) : X <+: M := by
  induction X generalizing M with
  | nil => exact absurd rfl hXne
  | cons x t ih =>
    have hx : ':' ∉ x := hX x (by simp)
    cases M with
    | nil =>
      have := h.length_le
      simp [joinColon] at this
    | cons y m =>
      have hy : ':' ∉ y := hM y (by simp)
      cases t with
      | nil =>
        cases m with
        | nil => exact absurd h (cfield_not_prefix x y [] hy)
        | cons y' m' =>
          rw [joinColon_cons_cons] at h
          have := (cfield_prefix x y [] _ hx hy).1 h
          rw [this.1, List.cons_prefix_cons]
          exact ⟨rfl, List.nil_prefix⟩
      | cons x' t' =>
        rw [joinColon_cons_cons, List.append_assoc, List.cons_append] at h
        cases m with
        | nil => exact absurd h (cfield_not_prefix x y _ hy)
        | cons y' m' =>
          rw [joinColon_cons_cons] at h
          have := (cfield_prefix x y _ _ hx hy).1 h
          rw [this.1, List.cons_prefix_cons]
          exact ⟨rfl, ih (y' :: m') (by simp) (fun z hz => hX z (by simp [hz]))
            (fun z hz => hM z (by simp [hz])) this.2⟩

/-! ### `hex` is injective on hextets -/

def unhexChar (c : Char) : Nat := if c.toNat < 58 then c.toNat - 48 else c.toNat - 87

def unhex (s : Str) : Nat := s.foldl (fun acc c => 16 * acc + unhexChar c) 0

theorem unhexChar_hexChar : ∀ k, k < 16 → unhexChar (hexChar k) = k := by decide

theorem unhex_hex {n : Nat} (hn : n < 65536) : unhex (hex n) = n := by
  unfold hex
  split
  · simp only [unhex, List.foldl, unhexChar_hexChar n (by omega)]; omega
  · split
    · simp only [unhex, List.foldl, unhexChar_hexChar (n / 16) (by omega),
        unhexChar_hexChar (n % 16) (by omega)]; omega
    · split
      · simp only [unhex, List.foldl, unhexChar_hexChar (n / 256) (by omega),
          unhexChar_hexChar (n / 16 % 16) (by omega), unhexChar_hexChar (n % 16) (by omega)]; omega
      · simp only [unhex, List.foldl, unhexChar_hexChar (n / 4096) (by omega),
          unhexChar_hexChar (n / 256 % 16) (by omega), unhexChar_hexChar (n / 16 % 16) (by omega),
          unhexChar_hexChar (n % 16) (by omega)]; omega

theorem hex_inj {m n : Nat} (hm : m < 65536) (hn : n < 65536) (h : hex m = hex n) : m = n := by
  rw [← unhex_hex hm, ← unhex_hex hn, h]

theorem hex_ne_nil (n : Nat) : hex n ≠ [] := by
  unfold hex; split
  · simp
  · split
    · simp
    · split <;> simp

theorem map_hex_inj (A B : List Nat) (hA : ∀ x ∈ A, x < 65536) (hB : ∀ x ∈ B, x < 65536)
    (h : A.map hex = B.map hex) : A = B := by
  induction A generalizing B with
  | nil => cases B with
    | nil => rfl
    | cons b B => simp at h
  | cons a A ih => cases B with
    | nil => simp at h
    | cons b B =>
      simp only [List.map_cons, List.cons.injEq] at h
      rw [hex_inj (hA a (by simp)) (hB b (by simp)) h.1,
        ih B (fun x hx => hA x (by simp [hx])) (fun x hx => hB x (by simp [hx])) h.2]


theorem digits_eq (n q q' : Nat) (hq : q < 65536 ^ n) (hq' : q' < 65536 ^ n)
    (h : ∀ j, j < n → q / 65536 ^ j % 65536 = q' / 65536 ^ j % 65536) : q = q' := by
  induction n generalizing q q' with
  | zero => simp at hq hq'; omega
  | succ n ih =>
    have h0 := h 0 (by omega)
    simp only [Nat.pow_zero, Nat.div_one] at h0
    rw [Nat.pow_succ] at hq hq'
    have := ih (q / 65536) (q' / 65536) (Nat.div_lt_of_lt_mul (by rwa [Nat.mul_comm] at hq))
      (Nat.div_lt_of_lt_mul (by rwa [Nat.mul_comm] at hq')) (by
        intro j hj
        have := h (j + 1) (by omega)
        rwa [Nat.pow_succ, Nat.mul_comm, ← Nat.div_div_eq_div_mul, ← Nat.div_div_eq_div_mul] at this)
    omega

theorem inNet_of_hextets (n : Nat) (hn : n ≤ 8) (base a : Nat) (hb : base < 2 ^ 128) (ha : a < 2 ^ 128)
    (h : (hextets a).take n = (hextets base).take n) :
    a / 2 ^ (128 - 16 * n) = base / 2 ^ (128 - 16 * n) := by
  have e : 128 - 16 * n = 16 * (8 - n) := by omega
  rw [e]
  have e128 : 2 ^ 128 = 2 ^ (16 * (8 - n)) * 65536 ^ n := by
    rw [show (65536 : Nat) = 2 ^ 16 by rfl, ← Nat.pow_mul, ← Nat.pow_add]; congr 1; omega
  apply digits_eq n
  · apply Nat.div_lt_of_lt_mul; rwa [← e128]
  · apply Nat.div_lt_of_lt_mul; rwa [← e128]
  · intro j hj
    have hi : n - 1 - j < n := by omega
    have h1 : (hextets a)[n - 1 - j]'(by rw [length_hextets]; omega)
        = (hextets base)[n - 1 - j]'(by rw [length_hextets]; omega) := by
      have := congrArg (fun l => l[n - 1 - j]?) h
      simp only [List.getElem?_take, hi, if_true] at this
      rw [List.getElem?_eq_getElem (by rw [length_hextets]; omega),
        List.getElem?_eq_getElem (by rw [length_hextets]; omega)] at this
      exact Option.some.inj this
    rw [getElem_hextets, getElem_hextets, hextet_hi a (8 - n) _ (by omega),
      hextet_hi base (8 - n) _ (by omega)] at h1
    have e2 : 7 - (n - 1 - j) - (8 - n) = j := by omega
    rw [e2] at h1
    rw [show (65536 : Nat) ^ j = 2 ^ (16 * j) by rw [Nat.pow_mul]]
    exact h1

theorem midH_no_colon (hs : List Nat) (hlt : ∀ h ∈ hs, h < 65536) : ∀ x ∈ midH hs, ':' ∉ x := by
  have hstr : ∀ x ∈ hs.map hex, ':' ∉ x := by
    intro x hx
    obtain ⟨y, hy, rfl⟩ := List.mem_map.mp hx
    exact fun hc => (hex_chars (hlt y hy) _ hc).2 rfl
  unfold midH
  generalize bestRun hs 0 none 0 none 0 = r
  obtain ⟨bs, l⟩ := r
  cases bs with
  | none => exact hstr
  | some s =>
    simp only []
    have hmid : ∀ x ∈ List.take s (List.map hex hs) ++ [[]] ++
        (if (s + l == 8) = true then List.drop (s + l) (List.map hex hs) ++ [[]]
          else List.drop (s + l) (List.map hex hs)), ':' ∉ x := by
      intro x hx
      rcases List.mem_append.mp hx with h | h
      · rcases List.mem_append.mp h with h | h
        · exact hstr x (List.mem_of_mem_take h)
        · simp at h; subst h; simp
      · split at h
        · rcases List.mem_append.mp h with h | h
          · exact hstr x (List.mem_of_mem_drop h)
          · simp at h; subst h; simp
        · exact hstr x (List.mem_of_mem_drop h)
    by_cases hl : l > 1
    · rw [if_pos hl]
      split
      · intro x hx
        rcases List.mem_cons.mp hx with h | h
        · subst h; simp
        · exact hmid x h
      · exact hmid
    · rw [if_neg hl]; exact hstr

theorem prefix_drop_last (X M : List Str) (hX : ∀ x ∈ X, x ≠ []) (h : X <+: M ++ [[]]) : X <+: M := by
  rcases Nat.lt_or_ge M.length X.length with hl | hl
  · exfalso
    have : M ++ [[]] <+: X :=
      List.prefix_of_prefix_length_le (List.prefix_refl _) h (by simp; omega)
    exact hX [] (this.subset (by simp)) rfl
  · exact List.prefix_of_prefix_length_le h (List.prefix_append _ _) hl

/-- from a prefix of the field list back to hextets -/
theorem take_eq_of_map_hex_prefix (fx hs : List Nat) (hfx : ∀ x ∈ fx, x < 65536)
    (hhs : ∀ x ∈ hs, x < 65536) (h : fx.map hex <+: hs.map hex) : hs.take fx.length = fx := by
  have := List.prefix_iff_eq_take.mp h
  rw [List.length_map, ← List.map_take] at this
  exact (map_hex_inj _ _ hfx (fun x hx => hhs x (List.mem_of_mem_take hx)) this).symm

/-- **IPv6, partial soundness.**  Under the hypothesis of `matches6_of_inNet`, only addresses of
the network are matched. -/
theorem inNet_of_matches6 (base p a : Nat) (hp16 : p % 16 = 0) (hp1 : 16 ≤ p) (hp2 : p ≤ 128)
    (hb : base < 2 ^ 128) (ha : a < 2 ^ 128)
    (hal : base % 2 ^ (128 - p) = 0) (hnz : ∀ h ∈ (hextets base).take (p / 16), h ≠ 0)
    (hm : matches6 base p a = true) : inNet 128 base p a = true := by
  obtain ⟨n, rfl⟩ : ∃ n, p = 16 * n := ⟨p / 16, by omega⟩
  rw [Nat.mul_div_cancel_left _ (by decide : 0 < 16)] at hnz
  rw [inNet_iff]
  have hd : (4 - 16 * n % 4) % 4 = 0 := by omega
  have hn1 : 1 ≤ n := by omega
  have hn8 : n ≤ 8 := by omega
  simp only [matches6, expand6_eq, hd, Nat.pow_zero, List.range_one, List.map_cons, List.map_nil,
    List.any_cons, List.any_nil, Bool.or_false, Nat.zero_mul, Nat.add_zero] at hm
  have hfxlen : ((hextets base).take n).length = n := by
    rw [List.length_take, length_hextets]; omega
  have hfx : (hextets base).take n ≠ [] := by
    intro h; rw [h] at hfxlen; simp at hfxlen; omega
  have hfxlt : ∀ x ∈ (hextets base).take n, x < 65536 :=
    fun x hx => hextets_lt base x (List.mem_of_mem_take hx)
  have hXne : ∀ x ∈ ((hextets base).take n).map hex, x ≠ [] := by
    intro x hx; obtain ⟨y, _, rfl⟩ := List.mem_map.mp hx; exact hex_ne_nil y
  have hXc : ∀ x ∈ ((hextets base).take n).map hex, ':' ∉ x := by
    intro x hx; obtain ⟨y, hy, rfl⟩ := List.mem_map.mp hx
    exact fun hc => (hex_chars (hfxlt y hy) _ hc).2 rfl
  have hns : '*' ∉ joinColon (List.map hex (List.take n (hextets base))) := by
    apply not_mem_joinColon _ (by decide)
    intro x hx
    obtain ⟨y, hy, rfl⟩ := List.mem_map.mp hx
    exact fun hc => (hex_chars (hfxlt y hy) _ hc).1 rfl
  have hMc := midH_no_colon (hextets a) (hextets_lt a)
  -- in both cases the fixed hextets are a prefix of the plain hextet fields of `a`
  have key : ((hextets base).take n).map hex <+: (hextets a).map hex := by
    by_cases h8 : n = 8
    · subst h8
      have hall : (hextets base).take 8 = hextets base := by
        apply List.take_of_length_le; rw [length_hextets]; exact Nat.le_refl 8
      rw [hall] at hnz hns hXne hXc hfx ⊢
      have hfirst : render6 base = joinColon ((hextets base).map hex) := by
        rw [render6_eq]
        unfold renderH
        have := bestRun_skip (hextets base) [] hnz 0 none 0
        rw [List.append_nil] at this
        rw [this]; rfl
      have hsame : firstDiff (render6 base) (render6 base) 0 = none := by
        generalize render6 base = r
        generalize 0 = i
        induction r generalizing i with
        | nil => rfl
        | cons c r ih => simp [firstDiff, ih]
      simp only [Nat.reduceMul, Nat.sub_self, Nat.pow_zero, Nat.add_sub_cancel, pat6, hsame] at hm
      rw [hfirst, glob_of_no_star _ hns, render6_eq, renderH_eq_mid] at hm
      have hMne : midH (hextets a) ≠ [] := by
        intro h0
        rw [h0] at hm
        have : (hextets base).map hex ≠ [] := by simpa using hfx
        cases hq : (hextets base).map hex with
        | nil => exact this hq
        | cons x t =>
          rw [hq] at hm
          cases t with
          | nil =>
            have : x ≠ [] := hXne x (by rw [hq]; simp)
            exact this (by simpa [joinColon] using hm)
          | cons y t' => rw [joinColon_cons_cons] at hm; simp [joinColon] at hm
      have hp : joinColon ((hextets base).map hex) ++ [':'] <+: joinColon (midH (hextets a) ++ [[]]) := by
        rw [joinColon_append _ _ hMne (by simp), hm]; exact List.prefix_refl _
      have := joinColon_prefix _ _ (by simpa using hfx) hXc (by
        intro x hx
        rcases List.mem_append.mp hx with h | h
        · exact hMc x h
        · simp at h; subst h; simp) hp
      exact midH_prefix _ _ hXne (prefix_drop_last _ _ hXne this)
    · have hn7 : n ≤ 7 := by omega
      obtain ⟨k, hk⟩ : ∃ k, 8 - n = k + 1 := ⟨7 - n, by omega⟩
      rw [render6_eq, render6_eq, render6_eq, hextets_first n hn8 base hal, hextets_last n hn8 base hal,
        hk, pat6_core _ k hfx hnz (by omega)] at hm
      have e : joinColon (List.map hex (List.take n (hextets base))) ++ [':', '*']
          = (joinColon (List.map hex (List.take n (hextets base))) ++ [':']) ++ ['*'] := by simp
      have hns' : '*' ∉ joinColon (List.map hex (List.take n (hextets base))) ++ [':'] := by
        intro hmem
        rcases List.mem_append.mp hmem with h | h
        · exact hns h
        · simp at h
      rw [e, glob_prefix_star _ hns', renderH_eq_mid] at hm
      exact midH_prefix _ _ hXne (joinColon_prefix _ _ (by simpa using hfx) hXc hMc hm)
  have := take_eq_of_map_hex_prefix _ _ hfxlt (hextets_lt a) key
  rw [hfxlen] at this
  exact inNet_of_hextets n hn8 base a hb ha this


/-! ## The parametrised expansions at the standard constants are the modelled ones -/

theorem joinSep_dot (l : List Str) : joinSep '.' l = joinDot l := by
  induction l with
  | nil => rfl
  | cons x xs ih =>
    cases xs with
    | nil => rfl
    | cons y ys => simp only [joinSep, joinDot]; rw [ih]

theorem expand4S_std (base p : Nat) : expand4S Shape4.std base p = expand4 base p := by
  simp only [expand4S, expand4, Shape4.std, joinSep_dot]

theorem matches4S_std (base p a : Nat) : matches4S Shape4.std base p a = matches4 base p a := by
  simp only [matches4S, matches4, expand4S_std]

theorem expand6By_std (base p : Nat) : expand6By Shape6.std base p = expand6 base p := by
  simp only [expand6By, expand6, Shape6.std]

end SigmaVerif.Cidr
