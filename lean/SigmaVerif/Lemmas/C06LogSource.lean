import SigmaVerif.Model.LogSource
/-! helper lemma of the log source theorems of `Props/C06.lean` -/
namespace SigmaVerif.LogSource

theorem lookup_toDict (l : LS) :
    (toDict l).lookup "category" = l.category ∧ (toDict l).lookup "product" = l.product ∧
    (toDict l).lookup "service" = l.service ∧ (toDict l).lookup "definition" = l.definition := by
  obtain ⟨c, p, s, d⟩ := l
  cases c <;> cases p <;> cases s <;> cases d <;> simp [toDict, entry, List.lookup]

end SigmaVerif.LogSource
