import SigmaVerif.Lemmas.C06Touch
/-!
# C06 helper lemmas, part 5: meaning — the specification's reading of a document (`Spec/Rule.lean`)
is a function of the loaded object
-/
namespace SigmaVerif.Ser
open SigmaVerif.SStr SigmaVerif.SStrSpec SigmaVerif.Mods
open SigmaVerif.Rule (PV splitOn pvToVal Ctx SpecErr BE mapME valBE')

/-- The meaning of a detection item *object*: what `SigmaDetectionItem.postprocess` builds from field,
values, value linking and negation, in the vocabulary of `Spec/Rule.lean` (this is the part of
`Rule.itemBE` after the modifier chain). -/
def objBE (cx : Ctx) (it : Item) : Except SpecErr BE :=
  let body : Except SpecErr BE :=
    match it.value with
    | [] => if it.field.isSome then .ok (.atom (.null it.field)) else .error (.unsupported "null value without field")
    | vals =>
      match mapME (valBE' cx it.field) vals with
      | .ok [e] => .ok e
      | .ok es => .ok (if it.linkAnd then .and es else .or es)
      | .error e => .error e
  match body with
  | .ok e => .ok (if it.negated then .not e else e)
  | .error e => .error e

/-- the key spells its modifiers with the identifiers `to_plain` writes (no `i`, `m`, `dotall`) -/
def canonKeyed (k : Str) : Prop := ∀ m ∈ (splitOn '|' k).drop 1, canon m = m

theorem find?_unknown_none (ids : List Str) (h : ids.all known = true) :
    (ids.map String.ofList).find? (fun m => !(valueModifiers.contains m || listModifiers.contains m)) = none := by
  rw [List.find?_eq_none]
  intro m hm
  rcases List.mem_map.mp hm with ⟨x, hx, rfl⟩
  have := (List.all_eq_true.mp h) x hx
  unfold known at this
  rw [this]
  decide

/-- The specification's reading of `key: values` is the meaning of the object `from_mapping` builds
(for keys that use the canonical modifier identifiers). -/
theorem itemBE_eq_objBE (cx : Ctx) (k : Str) (v : PVals) (it : Item)
    (h : fromMapping cx.env k v = .ok it) (hc : canonKeyed k) :
    Rule.itemBE cx (some k) v.toList = objBE cx it := by
  rw [fromMapping_eq] at h
  have hparts := parts_shape k
  unfold canonKeyed at hc
  generalize hf : (splitOn '|' k).headD [] = f at *
  generalize hids : (splitOn '|' k).drop 1 = ids at *
  have hcan : ids.map canon = ids := by
    conv => rhs; rw [← List.map_id ids]
    apply List.map_congr_left
    intro m hm
    exact hc m hm
  unfold build at h
  by_cases hk : ids.all known = true
  · simp only [hk, if_true, hcan] at h
    unfold Rule.itemBE
    simp only [hparts, List.drop_succ_cons, List.drop_zero]
    unfold applyChain
    rw [find?_unknown_none ids hk]
    have hraw : (ids.map String.ofList).contains "re" = isRaw ids := rfl
    simp only [hraw]
    cases hr : applyChainAux cx.env true (ids.map String.ofList)
        { hasField := (if f.isEmpty = true then none else some f).isSome,
          vals := v.toList.map (pvToVal (isRaw ids)) } with
    | error e =>
      simp only [hr] at h
      cases h
    | ok r =>
      simp only [hr, Except.ok.injEq] at h
      subst h
      rfl
  · simp [hk] at h

/-- the specification's reading of what `to_plain` wrote for an item -/
def specOf (cx : Ctx) : IPlain → Except SpecErr BE
  | .bare v => Rule.itemBE cx none v.toList
  | .keyed k v => Rule.itemBE cx (some k) v.toList

theorem canonKey_split (k : Str) :
    splitOn '|' (canonKey k) = (splitOn '|' k).headD [] :: ((splitOn '|' k).drop 1).map canon := by
  have hnb := splitOn_parts_noSep '|' k
  have hparts := parts_shape k
  unfold canonKey
  apply splitOn_joinBar
  · exact hnb _ (by rw [hparts]; simp)
  · intro m hm
    rcases List.mem_map.mp hm with ⟨x, hx, rfl⟩
    exact canon_noBar x (hnb x (by rw [hparts]; exact List.mem_cons_of_mem _ hx))

theorem canonKeyed_canonKey (k : Str) : canonKeyed (canonKey k) := by
  unfold canonKeyed
  rw [canonKey_split]
  intro m hm
  simp only [List.drop_succ_cons, List.drop_zero] at hm
  rcases List.mem_map.mp hm with ⟨x, _, rfl⟩
  exact canon_idem x

/-- The written form of a loaded item, read by the specification, means what the object means. -/
theorem specOf_plainOf (cx : Ctx) (k : Str) (v : PVals) (it : Item)
    (h : fromMapping cx.env k v = .ok it) (hv : valsOk k v = true) :
    specOf cx (plainOf k v) = objBE cx it := by
  have hr := (item_plain_reload cx.env k v it h).2 hv
  unfold plainOf at hr ⊢
  by_cases hk : k.isEmpty = true
  · simp only [hk, if_true, fromIPlain] at hr ⊢
    have : Rule.itemBE cx none (valsOf k v).toList = Rule.itemBE cx (some []) (valsOf k v).toList := rfl
    simp only [specOf, this]
    exact itemBE_eq_objBE cx [] _ it hr (by intro m hm; simp [splitOn] at hm)
  · simp only [hk, Bool.false_eq_true, if_false, fromIPlain] at hr ⊢
    simp only [specOf]
    exact itemBE_eq_objBE cx _ _ it hr (canonKeyed_canonKey k)

end SigmaVerif.Ser
