import SigmaVerif.Model.Coll
/-!
# Lemmas about the collection model (`Model/Coll.lean`): depth-first ordering, key lookup,
reference resolution and conversion accounting.
-/
namespace SigmaVerif.Coll

/-! ## Auxiliary definitions -/

/-- references point to existing documents -/
def Closed (n : Nat) (g : Nat → List Nat) : Prop := ∀ v, v < n → ∀ w ∈ g v, w < n

/-- no reference cycles: some rank strictly decreases along every reference -/
def Acyclic (n : Nat) (g : Nat → List Nat) : Prop :=
  ∃ r : Nat → Nat, ∀ v, v < n → ∀ w ∈ g v, r w < r v

/-- `Reach g a b`: `b` is `a` or is (transitively) referenced by `a` -/
inductive Reach (g : Nat → List Nat) : Nat → Nat → Prop
  | refl (a) : Reach g a a
  | step {a b c} : b ∈ g a → Reach g b c → Reach g a c

/-! ## Pigeonhole -/

theorem length_le_of_nodup_lt : ∀ (n : Nat) (l : List Nat), l.Nodup → (∀ x ∈ l, x < n) → l.length ≤ n
  | 0, l, _, h => by
    cases l with
    | nil => simp
    | cons a t => exact absurd (h a (by simp)) (Nat.not_lt_zero _)
  | n+1, l, hn, h => by
    have ih := length_le_of_nodup_lt n (l.erase n) (hn.erase n) (by
      intro x hx
      rw [hn.mem_erase_iff] at hx
      have := h x hx.2
      omega)
    rw [List.length_erase] at ih
    split at ih <;> omega

/-! ## The depth-first ordering -/

/-- state invariant -/
structure Good (n : Nat) (st : St) : Prop where
  vis_nodup : st.visited.Nodup
  vis_lt : ∀ x ∈ st.visited, x < n
  ord_nodup : st.ordered.Nodup
  ord_vis : ∀ x ∈ st.ordered, x ∈ st.visited

/-- `st'` extends `st`: the newly visited nodes are exactly the newly ordered ones -/
def Ext (st st' : St) : Prop :=
  ∃ s t, st'.visited = s ++ st.visited ∧ st'.ordered = st.ordered ++ t ∧ ∀ x, x ∈ s ↔ x ∈ t

theorem Ext.refl (st : St) : Ext st st := ⟨[], [], by simp, by simp, by simp⟩

theorem Ext.trans {a b c : St} (h1 : Ext a b) (h2 : Ext b c) : Ext a c := by
  obtain ⟨s1, t1, hv1, ho1, e1⟩ := h1
  obtain ⟨s2, t2, hv2, ho2, e2⟩ := h2
  refine ⟨s2 ++ s1, t1 ++ t2, by simp [hv2, hv1], by simp [ho2, ho1], ?_⟩
  intro x
  simp [e1, e2, or_comm]

theorem Good.length_le {n st} (h : Good n st) : st.visited.length ≤ n :=
  length_le_of_nodup_lt n _ h.vis_nodup h.vis_lt

theorem Ext.length_le {st st'} (h : Ext st st') : st.visited.length ≤ st'.visited.length := by
  obtain ⟨s, t, hv, _, _⟩ := h
  simp [hv]

theorem Ext.vis_sub {st st'} (h : Ext st st') : ∀ x ∈ st.visited, x ∈ st'.visited := by
  obtain ⟨s, t, hv, _, _⟩ := h
  intro x hx; simp [hv, hx]

theorem Ext.ord_sub {st st'} (h : Ext st st') : ∀ x ∈ st.ordered, x ∈ st'.ordered := by
  obtain ⟨s, t, _, ho, _⟩ := h
  intro x hx; simp [ho, hx]

/-- a node that is visited-but-unfinished stays so -/
theorem Ext.gray {n st st'} (h : Ext st st') (hg : Good n st') :
    ∀ x, (x ∈ st'.visited ∧ x ∉ st'.ordered) ↔ (x ∈ st.visited ∧ x ∉ st.ordered) := by
  obtain ⟨s, t, hv, ho, e⟩ := h
  intro x
  have hnd := hg.vis_nodup
  rw [hv, List.nodup_append] at hnd
  rw [hv, ho]
  simp only [List.mem_append, not_or]
  constructor
  · rintro ⟨h1, h2, h3⟩
    rcases h1 with h1 | h1
    · exact absurd ((e x).1 h1) h3
    · exact ⟨h1, h2⟩
  · rintro ⟨h1, h2⟩
    refine ⟨Or.inr h1, h2, ?_⟩
    intro h3
    exact hnd.2.2 x ((e x).2 h3) x h1 rfl

theorem visit_zero (g : Nat → List Nat) (v : Nat) (st : St) : visit g 0 v st = st := rfl

theorem visit_succ (g : Nat → List Nat) (f v : Nat) (st : St) :
    visit g (f + 1) v st =
      if v ∈ st.visited then st
      else
        ⟨((g v).foldl (fun s w => visit g f w s) ⟨v :: st.visited, st.ordered⟩).visited,
         ((g v).foldl (fun s w => visit g f w s) ⟨v :: st.visited, st.ordered⟩).ordered ++ [v]⟩ := by
  rw [visit]
  simp only [List.contains_iff_mem]

section
variable {n : Nat} {g : Nat → List Nat}

/-- lifting a per-`visit` statement to the fold over a reference list -/
theorem fold_good_of (f : Nat)
    (H : ∀ v st, v < n → Good n st → n < f + st.visited.length →
      Good n (visit g f v st) ∧ Ext st (visit g f v st) ∧ v ∈ (visit g f v st).visited) :
    ∀ (ws : List Nat) (st : St), (∀ w ∈ ws, w < n) → Good n st → n < f + st.visited.length →
      Good n (ws.foldl (fun s w => visit g f w s) st) ∧
      Ext st (ws.foldl (fun s w => visit g f w s) st) ∧
      ∀ w ∈ ws, w ∈ (ws.foldl (fun s w => visit g f w s) st).visited
  | [], st, _, hg, _ => by simpa using ⟨hg, Ext.refl st⟩
  | w :: ws, st, hw, hg, hf => by
    obtain ⟨g1, e1, m1⟩ := H w st (hw w (by simp)) hg hf
    have hf1 : n < f + (visit g f w st).visited.length := by have := e1.length_le; omega
    obtain ⟨g2, e2, m2⟩ := fold_good_of f H ws (visit g f w st)
      (fun x hx => hw x (by simp [hx])) g1 hf1
    refine ⟨by simpa using g2, by simpa using e1.trans e2, ?_⟩
    intro x hx
    simp only [List.foldl_cons]
    rcases List.mem_cons.1 hx with rfl | hx
    · exact e2.vis_sub _ m1
    · exact m2 x hx

theorem visit_good (hc : Closed n g) : ∀ (f v : Nat) (st : St), v < n → Good n st →
    n < f + st.visited.length →
    Good n (visit g f v st) ∧ Ext st (visit g f v st) ∧ v ∈ (visit g f v st).visited
  | 0, v, st, _, hg, hf => by
    have := hg.length_le
    omega
  | f+1, v, st, hv, hg, hf => by
    rw [visit_succ]
    by_cases hvis' : v ∈ st.visited
    · rw [if_pos hvis']
      exact ⟨hg, Ext.refl st, hvis'⟩
    · rw [if_neg hvis']
      have g1 : Good n ⟨v :: st.visited, st.ordered⟩ :=
        { vis_nodup := by simp [hvis', hg.vis_nodup]
          vis_lt := by
            intro x hx
            rcases List.mem_cons.1 hx with rfl | hx
            · exact hv
            · exact hg.vis_lt x hx
          ord_nodup := hg.ord_nodup
          ord_vis := fun x hx => by simp [hg.ord_vis x hx] }
      obtain ⟨g2, e2, _⟩ := fold_good_of f (visit_good hc f) (g v)
        ⟨v :: st.visited, st.ordered⟩ (hc v hv) g1 (by simp; omega)
      generalize (g v).foldl (fun s w => visit g f w s) ⟨v :: st.visited, st.ordered⟩ = st2 at g2 e2
      obtain ⟨s, t, hv2, ho2, e⟩ := e2
      simp only at hv2 ho2
      have hnd := g2.vis_nodup
      rw [hv2] at hnd
      have hvs : v ∉ s := by
        intro h
        exact (List.nodup_append.1 hnd).2.2 v h v (by simp) rfl
      have hvo : v ∉ st.ordered := fun h => hvis' (hg.ord_vis v h)
      have hvt : v ∉ t := fun h => hvs ((e v).2 h)
      refine ⟨?_, ⟨s ++ [v], t ++ [v], by simp [hv2], by simp [ho2], ?_⟩, by simp [hv2]⟩
      · exact
          { vis_nodup := g2.vis_nodup
            vis_lt := g2.vis_lt
            ord_nodup := by
              have := g2.ord_nodup
              rw [ho2] at this ⊢
              simp only [List.nodup_append] at this ⊢
              refine ⟨this, by simp, ?_⟩
              intro a ha b hb
              simp only [List.mem_singleton] at hb
              subst hb
              rintro rfl
              simp only [List.mem_append] at ha
              exact ha.elim hvo hvt
            ord_vis := by
              intro x hx
              simp only [List.mem_append, List.mem_singleton] at hx
              rcases hx with hx | rfl
              · exact g2.ord_vis x hx
              · simp [hv2] }
      · intro x; simp [e x]

theorem fold_good (hc : Closed n g) (f : Nat) (ws : List Nat) (st : St)
    (hw : ∀ w ∈ ws, w < n) (hg : Good n st) (hf : n < f + st.visited.length) :
    Good n (ws.foldl (fun s w => visit g f w s) st) ∧
    Ext st (ws.foldl (fun s w => visit g f w s) st) ∧
    ∀ w ∈ ws, w ∈ (ws.foldl (fun s w => visit g f w s) st).visited :=
  fold_good_of f (visit_good hc f) ws st hw hg hf

theorem good_init : Good n ⟨[], []⟩ :=
  ⟨by simp, by simp, by simp, by simp⟩

theorem order_spec (hc : Closed n g) : (order n g).Nodup ∧ ∀ x, x ∈ order n g ↔ x < n := by
  obtain ⟨g1, e1, m1⟩ := fold_good hc (n + 1) (List.range n) ⟨[], []⟩ (by simp) good_init
    (by simp)
  obtain ⟨s, t, hv, ho, e⟩ := e1
  simp only [List.append_nil, List.nil_append] at hv ho
  refine ⟨g1.ord_nodup, fun x => ⟨fun hx => g1.vis_lt x (g1.ord_vis x hx), fun hx => ?_⟩⟩
  have := m1 x (by simpa using hx)
  unfold order
  rw [ho, ← e, ← hv]
  exact this

end

/-! ### Topological property -/

/-- every element's references occur before it -/
def Topo (g : Nat → List Nat) (l : List Nat) : Prop :=
  ∀ x ∈ l, ∀ w ∈ g x, l.idxOf w < l.idxOf x

theorem Topo.snoc {g : Nat → List Nat} {l : List Nat} {v : Nat} (h : Topo g l)
    (hw : ∀ w ∈ g v, w ∈ l) (hv : v ∉ l) : Topo g (l ++ [v]) := by
  intro x hx w hwx
  simp only [List.mem_append, List.mem_singleton] at hx
  rcases hx with hx | rfl
  · have h1 := h x hx w hwx
    have h2 : w ∈ l := by
      have := List.idxOf_lt_length_of_mem hx
      exact List.idxOf_lt_length_iff.1 (by omega)
    simpa [List.idxOf_append, hx, h2] using h1
  · have h2 := hw w hwx
    have := List.idxOf_lt_length_of_mem h2
    simp [List.idxOf_append, h2, hv]
    exact this

section
variable {n : Nat} {g : Nat → List Nat} {r : Nat → Nat}

theorem fold_topo_of (hc : Closed n g) (f : Nat)
    (H : ∀ v st, v < n → Good n st → n < f + st.visited.length →
      (∀ x ∈ st.visited, x ∉ st.ordered → r v < r x) → Topo g st.ordered →
      Topo g (visit g f v st).ordered ∧ v ∈ (visit g f v st).ordered) :
    ∀ (ws : List Nat) (st : St), (∀ w ∈ ws, w < n) → Good n st → n < f + st.visited.length →
      (∀ w ∈ ws, ∀ x ∈ st.visited, x ∉ st.ordered → r w < r x) → Topo g st.ordered →
      Topo g (ws.foldl (fun s w => visit g f w s) st).ordered ∧
      ∀ w ∈ ws, w ∈ (ws.foldl (fun s w => visit g f w s) st).ordered
  | [], st, _, _, _, _, ht => by simpa using ht
  | w :: ws, st, hw, hg, hf, hgray, ht => by
    have hwn := hw w (by simp)
    obtain ⟨g1, e1, _⟩ := visit_good hc f w st hwn hg hf
    obtain ⟨t1, m1⟩ := H w st hwn hg hf (hgray w (by simp)) ht
    have hf1 : n < f + (visit g f w st).visited.length := by have := e1.length_le; omega
    have hgray1 : ∀ w' ∈ ws, ∀ x ∈ (visit g f w st).visited, x ∉ (visit g f w st).ordered →
        r w' < r x := by
      intro w' hw' x hx hxo
      have := (e1.gray g1 x).1 ⟨hx, hxo⟩
      exact hgray w' (by simp [hw']) x this.1 this.2
    obtain ⟨t2, m2⟩ := fold_topo_of hc f H ws (visit g f w st)
      (fun x hx => hw x (by simp [hx])) g1 hf1 hgray1 t1
    obtain ⟨_, e2, _⟩ := fold_good hc f ws (visit g f w st)
      (fun x hx => hw x (by simp [hx])) g1 hf1
    refine ⟨by simpa using t2, ?_⟩
    intro x hx
    simp only [List.foldl_cons]
    rcases List.mem_cons.1 hx with rfl | hx
    · exact e2.ord_sub _ m1
    · exact m2 x hx

theorem visit_topo (hc : Closed n g) (hr : ∀ v, v < n → ∀ w ∈ g v, r w < r v) :
    ∀ (f v : Nat) (st : St), v < n → Good n st → n < f + st.visited.length →
      (∀ x ∈ st.visited, x ∉ st.ordered → r v < r x) → Topo g st.ordered →
      Topo g (visit g f v st).ordered ∧ v ∈ (visit g f v st).ordered
  | 0, v, st, _, hg, hf, _, _ => by
    have := hg.length_le
    omega
  | f+1, v, st, hv, hg, hf, hgray, ht => by
    rw [visit_succ]
    by_cases hvis' : v ∈ st.visited
    · rw [if_pos hvis']
      refine ⟨ht, ?_⟩
      apply Classical.byContradiction
      intro hno
      exact Nat.lt_irrefl _ (hgray v hvis' hno)
    · rw [if_neg hvis']
      have g1 : Good n ⟨v :: st.visited, st.ordered⟩ :=
        { vis_nodup := by simp [hvis', hg.vis_nodup]
          vis_lt := by
            intro x hx
            rcases List.mem_cons.1 hx with rfl | hx
            · exact hv
            · exact hg.vis_lt x hx
          ord_nodup := hg.ord_nodup
          ord_vis := fun x hx => by simp [hg.ord_vis x hx] }
      have hf1 : n < f + (St.mk (v :: st.visited) st.ordered).visited.length := by simp; omega
      have hgray1 : ∀ w ∈ g v, ∀ x ∈ (St.mk (v :: st.visited) st.ordered).visited,
          x ∉ (St.mk (v :: st.visited) st.ordered).ordered → r w < r x := by
        intro w hw x hx hxo
        have h1 := hr v hv w hw
        rcases List.mem_cons.1 hx with rfl | hx
        · exact h1
        · exact Nat.lt_trans h1 (hgray x hx hxo)
      obtain ⟨g2, e2, _⟩ := fold_good hc f (g v) ⟨v :: st.visited, st.ordered⟩ (hc v hv) g1 hf1
      obtain ⟨t2, m2⟩ := fold_topo_of hc f (visit_topo hc hr f) (g v)
        ⟨v :: st.visited, st.ordered⟩ (hc v hv) g1 hf1 hgray1 ht
      generalize (g v).foldl (fun s w => visit g f w s) ⟨v :: st.visited, st.ordered⟩ = st2
        at g2 e2 t2 m2
      have hvo : v ∉ st2.ordered := by
        have := (e2.gray g2 v).2 ⟨by simp, fun h => hvis' (hg.ord_vis v h)⟩
        exact this.2
      exact ⟨t2.snoc m2 hvo, by simp⟩

theorem order_topo (hc : Closed n g) (hr : ∀ v, v < n → ∀ w ∈ g v, r w < r v) :
    Topo g (order n g) := by
  have H := fold_topo_of hc (n + 1) (visit_topo hc hr (n + 1)) (List.range n) ⟨[], []⟩
    (by simp) good_init (by simp) (by simp) (by simp [Topo])
  exact H.1

end

/-! ### Stability -/

theorem Reach.trans {g : Nat → List Nat} {a b c : Nat} (h1 : Reach g a b) (h2 : Reach g b c) :
    Reach g a c := by
  induction h1 with
  | refl => exact h2
  | step hab _ ih => exact .step hab (ih h2)

theorem Reach.cases_tail {g : Nat → List Nat} {a c : Nat} (h : Reach g a c) :
    a = c ∨ ∃ b, Reach g a b ∧ c ∈ g b := by
  induction h with
  | refl => exact .inl rfl
  | @step a b c hab hbc ih =>
    rcases ih with rfl | ⟨d, hd, hc⟩
    · exact .inr ⟨a, .refl a, hab⟩
    · exact .inr ⟨d, .step hab hd, hc⟩

section
variable {g : Nat → List Nat}

theorem fold_reach_of (f : Nat)
    (H : ∀ v st, ∃ t, (visit g f v st).ordered = st.ordered ++ t ∧ ∀ x ∈ t, Reach g v x) :
    ∀ (ws : List Nat) (st : St), ∃ t, (ws.foldl (fun s w => visit g f w s) st).ordered
      = st.ordered ++ t ∧ ∀ x ∈ t, ∃ w ∈ ws, Reach g w x
  | [], st => ⟨[], by simp⟩
  | w :: ws, st => by
    obtain ⟨t1, h1, r1⟩ := H w st
    obtain ⟨t2, h2, r2⟩ := fold_reach_of f H ws (visit g f w st)
    refine ⟨t1 ++ t2, by simp [h2, h1], ?_⟩
    intro x hx
    rcases List.mem_append.1 hx with hx | hx
    · exact ⟨w, by simp, r1 x hx⟩
    · obtain ⟨w', hw', hr⟩ := r2 x hx
      exact ⟨w', by simp [hw'], hr⟩

/-- whatever a call of `visit v` appends to the order is referenced (transitively) by `v` -/
theorem visit_reach : ∀ (f v : Nat) (st : St),
    ∃ t, (visit g f v st).ordered = st.ordered ++ t ∧ ∀ x ∈ t, Reach g v x
  | 0, v, st => ⟨[], by simp [visit_zero]⟩
  | f+1, v, st => by
    rw [visit_succ]
    by_cases hvis' : v ∈ st.visited
    · rw [if_pos hvis']
      exact ⟨[], by simp⟩
    · rw [if_neg hvis']
      obtain ⟨t, h, hr⟩ := fold_reach_of f (visit_reach f) (g v) ⟨v :: st.visited, st.ordered⟩
      refine ⟨t ++ [v], by simp [h], ?_⟩
      intro x hx
      simp only [List.mem_append, List.mem_singleton] at hx
      rcases hx with hx | rfl
      · obtain ⟨w, hw, hwx⟩ := hr x hx
        exact .step hw hwx
      · exact .refl _

theorem fold_reach (f : Nat) (ws : List Nat) (st : St) :
    ∃ t, (ws.foldl (fun s w => visit g f w s) st).ordered
      = st.ordered ++ t ∧ ∀ x ∈ t, ∃ w ∈ ws, Reach g w x :=
  fold_reach_of f (visit_reach f) ws st

/-- A rule `v` is emitted after every rule `u` that precedes it in the collection, unless `v` is
referenced (transitively) by `u` or by a rule before `u`. -/
theorem order_stable_of_not_reach {n : Nat} (hc : Closed n g) (u v : Nat) (huv : u < v)
    (hv : v < n) (hnr : ∀ u', u' ≤ u → ¬ Reach g u' v) :
    (order n g).idxOf u < (order n g).idxOf v := by
  have hn : n = (u + 1) + (n - (u + 1)) := by omega
  have hsplit := @List.range_add (u + 1) (n - (u + 1))
  rw [← hn] at hsplit
  unfold order
  rw [hsplit, List.foldl_append]
  obtain ⟨g1, e1, m1⟩ := fold_good hc (n + 1) (List.range (u + 1)) ⟨[], []⟩
    (by simp; omega) good_init (by simp)
  obtain ⟨t1, h1, r1⟩ := fold_reach (g := g) (n + 1) (List.range (u + 1)) ⟨[], []⟩
  generalize (List.range (u + 1)).foldl (fun s w => visit g (n + 1) w s) ⟨[], []⟩ = stA
    at g1 e1 m1 h1
  obtain ⟨t2, h2, _⟩ := fold_reach (g := g) (n + 1)
    (List.map (fun x => u + 1 + x) (List.range (n - (u + 1)))) stA
  rw [h2]
  obtain ⟨s, t, hv1, ho1, e⟩ := e1
  simp only [List.append_nil, List.nil_append] at hv1 ho1 h1
  have hu : u ∈ stA.ordered := by
    rw [ho1, ← e, ← hv1]
    exact m1 u (by simp)
  have hvn : v ∉ stA.ordered := by
    intro h
    rw [h1] at h
    obtain ⟨w, hw, hwv⟩ := r1 v h
    exact hnr w (by simp at hw; omega) hwv
  have := List.idxOf_lt_length_of_mem hu
  simp only [List.idxOf_append, hu, hvn, if_true, if_false]
  omega

end

/-- without references `visit` just appends -/
theorem fold_noref {n : Nat} {g : Nat → List Nat} (hg : ∀ v, v < n → g v = []) (f : Nat) :
    ∀ m, m ≤ n → (List.range m).foldl (fun s v => visit g (f + 1) v s) ⟨[], []⟩
      = ⟨(List.range m).reverse, List.range m⟩
  | 0, _ => by simp
  | m+1, hm => by
    rw [List.range_succ, List.foldl_append, fold_noref hg f m (by omega)]
    simp [visit_succ, hg m (by omega)]

theorem Reach.lt {n : Nat} {g : Nat → List Nat} (hc : Closed n g) {a b : Nat} (h : Reach g a b)
    (ha : a < n) : b < n := by
  induction h with
  | refl => exact ha
  | step hab _ ih => exact ih (hc _ ha _ hab)

/-! ## Key lookup and reference resolution -/

/-- the default document of the model's `getD` calls -/
abbrev dflt : Doc := ⟨[], [], false⟩

/-- no key (name / id) is carried by two different documents of the collection -/
def KeysUnique (docs : List Doc) : Prop :=
  docs.Pairwise (fun a b => ∀ k ∈ a.keys, k ∉ b.keys)

/-- the rule `d` is referenced by a correlation rule of the collection that does not ask for
generation of the referenced rules' queries -/
def Suppressed (docs : List Doc) (d : Doc) : Prop :=
  ∃ d' ∈ docs, d'.generate = false ∧ ∃ k ∈ d'.refs, k ∈ d.keys

theorem getD_eq_getElem {docs : List Doc} {i : Nat} (hi : i < docs.length) :
    docs.getD i dflt = docs[i] := by
  simp [List.getD_eq_getElem?_getD, hi]

theorem KeysUnique.perm {docs docs' : List Doc} (hp : docs.Perm docs') (hu : KeysUnique docs) :
    KeysUnique docs' := by
  unfold KeysUnique at hu ⊢
  refine (hp.pairwise_iff ?_).1 hu
  intro x y h k hk hk'
  exact h k hk' hk

theorem KeysUnique.index_eq {docs : List Doc} (hu : KeysUnique docs) {i j k : Nat}
    (hi : i < docs.length) (hj : j < docs.length)
    (hki : k ∈ (docs.getD i dflt).keys) (hkj : k ∈ (docs.getD j dflt).keys) : i = j := by
  have hu' := List.pairwise_iff_getElem.1 hu
  rw [getD_eq_getElem hi] at hki
  rw [getD_eq_getElem hj] at hkj
  rcases Nat.lt_trichotomy i j with h | h | h
  · exact absurd hkj (hu' i j hi hj h k hki)
  · exact h
  · exact absurd hki (hu' j i hj hi h k hkj)

theorem mem_iff_getD {docs : List Doc} {d : Doc} :
    d ∈ docs ↔ ∃ i, i < docs.length ∧ docs.getD i dflt = d := by
  rw [List.mem_iff_getElem]
  constructor
  · rintro ⟨i, hi, h⟩
    exact ⟨i, hi, by rw [getD_eq_getElem hi]; exact h⟩
  · rintro ⟨i, hi, h⟩
    exact ⟨i, hi, by rw [getD_eq_getElem hi] at h; exact h⟩

theorem lookup_some {docs : List Doc} {k i : Nat} (h : lookup docs k = some i) :
    i < docs.length ∧ k ∈ (docs.getD i dflt).keys := by
  unfold lookup at h
  have hm := List.mem_of_getLast? h
  simpa using hm

theorem lookup_eq_none {docs : List Doc} {k : Nat} :
    lookup docs k = none ↔ ∀ d ∈ docs, k ∉ d.keys := by
  unfold lookup
  simp only [List.getLast?_eq_none_iff, List.filter_eq_nil_iff, List.mem_range,
    List.contains_iff_mem]
  constructor
  · intro h d hd
    obtain ⟨i, hi, rfl⟩ := mem_iff_getD.1 hd
    exact h i hi
  · intro h i hi
    exact h _ (mem_iff_getD.2 ⟨i, hi, rfl⟩)

theorem lookup_isSome {docs : List Doc} {k : Nat} :
    (lookup docs k).isSome ↔ ∃ d ∈ docs, k ∈ d.keys := by
  rw [Option.isSome_iff_ne_none, Ne, lookup_eq_none]
  simp

theorem lookup_eq_some_iff {docs : List Doc} (hu : KeysUnique docs) {k i : Nat} :
    lookup docs k = some i ↔ i < docs.length ∧ k ∈ (docs.getD i dflt).keys := by
  constructor
  · exact lookup_some
  · rintro ⟨hi, hk⟩
    cases h : lookup docs k with
    | none =>
      exact absurd hk (lookup_eq_none.1 h _ (mem_iff_getD.2 ⟨i, hi, rfl⟩))
    | some j =>
      obtain ⟨hj, hkj⟩ := lookup_some h
      rw [hu.index_eq hj hi hkj hk]

/-- with unique keys, looking up `k` finds *the* document carrying `k` -/
theorem lookup_map_eq_some {docs : List Doc} (hu : KeysUnique docs) {k : Nat} {d : Doc} :
    (lookup docs k).map (docs.getD · dflt) = some d ↔ d ∈ docs ∧ k ∈ d.keys := by
  constructor
  · intro h
    cases hl : lookup docs k with
    | none => simp [hl] at h
    | some i =>
      simp only [hl, Option.map_some, Option.some.injEq] at h
      obtain ⟨hi, hk⟩ := lookup_some hl
      subst h
      exact ⟨mem_iff_getD.2 ⟨i, hi, rfl⟩, hk⟩
  · rintro ⟨hd, hk⟩
    obtain ⟨i, hi, rfl⟩ := mem_iff_getD.1 hd
    rw [(lookup_eq_some_iff hu).2 ⟨hi, hk⟩]
    rfl

theorem mapM_option_eq_some {α β : Type} {f : α → Option β} :
    ∀ (l : List α) (ys : List β), l.mapM f = some ys ↔ l.map f = ys.map some
  | [], ys => by
    cases ys <;> simp
  | a :: as, ys => by
    rw [List.mapM_cons]
    cases hfa : f a with
    | none =>
      cases ys <;> simp [hfa]
    | some b =>
      cases hm : as.mapM f with
      | none =>
        cases ys with
        | nil => simp
        | cons y ys' =>
          have := (not_congr (mapM_option_eq_some (f := f) as ys')).1 (by simp [hm])
          simp [hfa, this]
      | some bs =>
        have h1 := (mapM_option_eq_some (f := f) as bs).1 hm
        cases ys with
        | nil => simp
        | cons y ys' =>
          simp only [hfa, List.map_cons, List.cons.injEq, Option.some.injEq, h1]
          constructor
          · intro h
            simp only [bind, Option.bind, pure, Option.some.injEq, List.cons.injEq] at h
            exact ⟨h.1, by rw [h.2]⟩
          · rintro ⟨rfl, h⟩
            have : bs = ys' :=
              (List.map_inj_right (f := some) (fun _ _ h => Option.some.inj h)).1 h
            subst this
            rfl

theorem mapM_option_isSome {α β : Type} {f : α → Option β} :
    ∀ (l : List α), (l.mapM f).isSome ↔ ∀ x ∈ l, (f x).isSome
  | [] => by simp
  | a :: as => by
    rw [List.mapM_cons]
    have ih := mapM_option_isSome (f := f) as
    cases hfa : f a with
    | none => simp [hfa]
    | some b =>
      cases hm : as.mapM f with
      | none =>
        rw [hm] at ih
        simp only [List.mem_cons, forall_eq_or_imp, hfa, Option.isSome_some, true_and]
        rw [← ih]
        simp
      | some bs =>
        rw [hm] at ih
        simp only [List.mem_cons, forall_eq_or_imp, hfa, Option.isSome_some, true_and]
        rw [← ih]
        simp

theorem resolveAll_isSome {docs : List Doc} :
    (resolveAll docs).isSome ↔ ∀ d ∈ docs, ∀ k ∈ d.refs, ∃ d' ∈ docs, k ∈ d'.keys := by
  unfold resolveAll resolveDoc
  rw [mapM_option_isSome]
  simp only [mapM_option_isSome, lookup_isSome]

/-- shape of a successfully resolved reference graph -/
theorem resolveAll_some {docs : List Doc} {graph : List (List Nat)}
    (h : resolveAll docs = some graph) :
    graph.length = docs.length ∧
    ∀ j, j < docs.length → ∀ i, i ∈ graph.getD j [] ↔
      ∃ k ∈ (docs.getD j dflt).refs, lookup docs k = some i := by
  unfold resolveAll at h
  rw [mapM_option_eq_some] at h
  have hlen : graph.length = docs.length := by
    have := congrArg List.length h
    simpa using this.symm
  refine ⟨hlen, ?_⟩
  intro j hj i
  have hj' : j < graph.length := by omega
  have hjth : resolveDoc docs docs[j] = some graph[j] := by
    have := congrArg (fun l => l[j]?) h
    simpa [hj, hj'] using this
  unfold resolveDoc at hjth
  rw [mapM_option_eq_some] at hjth
  rw [getD_eq_getElem hj]
  have hg : graph.getD j [] = graph[j] := by simp [List.getD_eq_getElem?_getD, hj']
  rw [hg]
  constructor
  · intro hi
    have : some i ∈ graph[j].map some := List.mem_map.2 ⟨i, hi, rfl⟩
    rw [← hjth] at this
    obtain ⟨k, hk, hki⟩ := List.mem_map.1 this
    exact ⟨k, hk, hki⟩
  · rintro ⟨k, hk, hki⟩
    have : some i ∈ docs[j].refs.map (lookup docs) := List.mem_map.2 ⟨k, hk, hki⟩
    rw [hjth] at this
    obtain ⟨i', hi', h'⟩ := List.mem_map.1 this
    cases h'
    exact hi'

theorem outputFlag_eq_true_iff {docs : List Doc} {graph : List (List Nat)} {i : Nat}
    (hu : KeysUnique docs) (hr : resolveAll docs = some graph) (hi : i < docs.length) :
    outputFlag docs graph i = true ↔ ¬ Suppressed docs (docs.getD i dflt) := by
  obtain ⟨_, hg⟩ := resolveAll_some hr
  unfold outputFlag Suppressed
  rw [Bool.not_eq_true', ← Bool.not_eq_true]
  apply not_congr
  simp only [List.any_eq_true, List.mem_range, Bool.and_eq_true, List.contains_iff_mem,
    Bool.not_eq_true']
  constructor
  · rintro ⟨j, hj, hij, hgen⟩
    obtain ⟨k, hk, hki⟩ := (hg j hj i).1 hij
    exact ⟨docs.getD j dflt, mem_iff_getD.2 ⟨j, hj, rfl⟩, hgen, k, hk, (lookup_some hki).2⟩
  · rintro ⟨d', hd', hgen, k, hk, hki⟩
    obtain ⟨j, hj, rfl⟩ := mem_iff_getD.1 hd'
    exact ⟨j, hj, (hg j hj i).2 ⟨k, hk, (lookup_eq_some_iff hu).2 ⟨hi, hki⟩⟩, hgen⟩

theorem Suppressed.perm {docs docs' : List Doc} (hp : docs.Perm docs') (d : Doc) :
    Suppressed docs d ↔ Suppressed docs' d := by
  unfold Suppressed
  simp only [hp.mem_iff]

theorem mapM_option_map {α β γ : Type} {f : α → Option β} (h : β → γ) :
    ∀ (l : List α), (l.mapM f).map (List.map h) = l.mapM (fun x => (f x).map h)
  | [] => by simp
  | a :: as => by
    rw [List.mapM_cons, List.mapM_cons, ← mapM_option_map h as]
    cases f a with
    | none => simp
    | some b =>
      cases as.mapM f with
      | none => simp
      | some bs => simp

/-! ## Conversion of a collection -/

section
variable {Q E : Type}

/-- Specification of `Backend.convert` with error collection: going through the rules in order,
a rule whose conversion (given the rules converted successfully before it) is `.ok r` contributes
the queries `r` if its output flag is set and nothing otherwise, and becomes available; a rule whose
conversion is `.error e` contributes no query and exactly the one record `(i, e)` and does not
become available. -/
def accounting (output : Nat → Bool) (conv : Nat → List Nat → Except E (List Q)) :
    List Nat → List Nat → List Q × List (Nat × E)
  | [], _ => ([], [])
  | i :: rest, avail =>
    match conv i avail with
    | .ok r =>
      ((if output i then r else []) ++ (accounting output conv rest (i :: avail)).1,
       (accounting output conv rest (i :: avail)).2)
    | .error e =>
      ((accounting output conv rest avail).1, (i, e) :: (accounting output conv rest avail).2)

/-- the rules with a conversion result after going through `rules` (most recent first) -/
def availAfter (conv : Nat → List Nat → Except E (List Q)) : List Nat → List Nat → List Nat
  | [], avail => avail
  | i :: rest, avail =>
    match conv i avail with
    | .ok _ => availAfter conv rest (i :: avail)
    | .error _ => availAfter conv rest avail

variable (output : Nat → Bool) (conv : Nat → List Nat → Except E (List Q))

theorem convertAll_true_eq : ∀ (rules avail : List Nat) (qs : List Q) (es : List (Nat × E)),
    convertAll true output conv rules avail qs es
      = .ok (qs ++ (accounting output conv rules avail).1)
            (es ++ (accounting output conv rules avail).2)
  | [], avail, qs, es => by simp [convertAll, accounting]
  | i :: rest, avail, qs, es => by
    rw [convertAll, accounting]
    cases h : conv i avail with
    | ok r =>
      simp only
      rw [convertAll_true_eq rest]
      cases output i <;> simp
    | error e =>
      simp only [if_true]
      rw [convertAll_true_eq rest]
      simp

theorem convertAll_false_eq : ∀ (rules avail : List Nat) (qs : List Q) (es : List (Nat × E)),
    convertAll false output conv rules avail qs es
      = match (accounting output conv rules avail).2 with
        | [] => .ok (qs ++ (accounting output conv rules avail).1) es
        | (i, e) :: _ => .raised i e
  | [], avail, qs, es => by simp [convertAll, accounting]
  | i :: rest, avail, qs, es => by
    rw [convertAll, accounting]
    cases h : conv i avail with
    | ok r =>
      simp only
      rw [convertAll_false_eq rest]
      cases output i <;> simp
    | error e =>
      simp

theorem accounting_errors_positions : ∀ (rules avail : List Nat),
    (accounting output conv rules avail).2
      = (List.range rules.length).filterMap (fun p =>
          match conv (rules.getD p 0) (availAfter conv (rules.take p) avail) with
          | .error e => some (rules.getD p 0, e)
          | .ok _ => none)
  | [], avail => by simp [accounting]
  | i :: rest, avail => by
    rw [accounting, List.length_cons, List.range_succ_eq_map, List.filterMap_cons,
      List.filterMap_map]
    cases h : conv i avail with
    | ok r =>
      simp only [List.getD_cons_zero, List.take_zero, availAfter, h]
      rw [accounting_errors_positions rest (i :: avail)]
      congr 1
      funext p
      simp [availAfter, h]
    | error e =>
      simp only [List.getD_cons_zero, List.take_zero, availAfter, h]
      rw [accounting_errors_positions rest avail]
      congr 2
      funext p
      simp [availAfter, h]

theorem accounting_total : ∀ (rules avail : List Nat),
    (accounting output conv rules avail).2.length + (availAfter conv rules avail).length
      = rules.length + avail.length
  | [], avail => by simp [accounting, availAfter]
  | i :: rest, avail => by
    rw [accounting, availAfter]
    cases h : conv i avail with
    | ok r =>
      simp only
      have := accounting_total rest (i :: avail)
      simp only [List.length_cons] at this ⊢
      omega
    | error e =>
      simp only
      have := accounting_total rest avail
      simp only [List.length_cons] at this ⊢
      omega

theorem accounting_independent : ∀ (rules avail : List Nat),
    (∀ i ∈ rules, ∀ a b, conv i a = conv i b) →
    (accounting output conv rules avail).1
      = (rules.filter output).flatMap
          (fun i => match conv i [] with | .ok r => r | .error _ => []) ∧
    (accounting output conv rules avail).2
      = rules.filterMap
          (fun i => match conv i [] with | .ok _ => none | .error e => some (i, e))
  | [], avail, _ => by simp [accounting]
  | i :: rest, avail, hind => by
    have hi := hind i (by simp) avail []
    have hrest : ∀ j ∈ rest, ∀ a b, conv j a = conv j b := fun j hj => hind j (by simp [hj])
    rw [accounting]
    cases h : conv i [] with
    | ok r =>
      rw [h] at hi
      obtain ⟨h1, h2⟩ := accounting_independent rest (i :: avail) hrest
      simp only [hi, h1, h2, List.filter_cons, List.filterMap_cons, h]
      cases output i <;> simp [h]
    | error e =>
      rw [h] at hi
      obtain ⟨h1, h2⟩ := accounting_independent rest avail hrest
      simp only [hi, h1, h2, List.filter_cons, List.filterMap_cons, h]
      cases output i <;> simp [h]

/-- the first recorded error is the error of the first rule that fails -/
theorem accounting_errors_cons_iff : ∀ (rules avail : List Nat) (i : Nat) (e : E),
    (∃ tl, (accounting output conv rules avail).2 = (i, e) :: tl) ↔
    ∃ pre post, rules = pre ++ i :: post ∧ (accounting output conv pre avail).2 = [] ∧
      conv i (availAfter conv pre avail) = .error e
  | [], avail, i, e => by simp [accounting]
  | j :: rest, avail, i, e => by
    rw [accounting]
    cases h : conv j avail with
    | ok r =>
      simp only
      rw [accounting_errors_cons_iff rest (j :: avail) i e]
      constructor
      · rintro ⟨pre, post, rfl, h1, h2⟩
        exact ⟨j :: pre, post, rfl, by simp [accounting, h, h1], by simpa [availAfter, h] using h2⟩
      · rintro ⟨pre, post, heq, h1, h2⟩
        cases pre with
        | nil =>
          simp only [List.nil_append, List.cons.injEq] at heq
          obtain ⟨rfl, rfl⟩ := heq
          simp [availAfter, h] at h2
        | cons a pre' =>
          simp only [List.cons_append, List.cons.injEq] at heq
          obtain ⟨rfl, rfl⟩ := heq
          refine ⟨pre', post, rfl, ?_, ?_⟩
          · simpa [accounting, h] using h1
          · simpa [availAfter, h] using h2
    | error e' =>
      simp only
      constructor
      · rintro ⟨tl, htl⟩
        simp only [List.cons.injEq, Prod.mk.injEq] at htl
        obtain ⟨⟨rfl, rfl⟩, _⟩ := htl
        exact ⟨[], rest, rfl, by simp [accounting], by simpa [availAfter] using h⟩
      · rintro ⟨pre, post, heq, h1, h2⟩
        cases pre with
        | nil =>
          simp only [List.nil_append, List.cons.injEq] at heq
          obtain ⟨rfl, rfl⟩ := heq
          simp only [availAfter] at h2
          rw [h] at h2
          cases h2
          exact ⟨_, rfl⟩
        | cons a pre' =>
          simp only [List.cons_append, List.cons.injEq] at heq
          obtain ⟨rfl, rfl⟩ := heq
          simp [accounting, h] at h1

/-- if, for every rule, the rules it needs are converted before it, nothing fails -/
theorem accounting_no_errors (g : Nat → List Nat)
    (hconv : ∀ v avail, (∀ w ∈ g v, w ∈ avail) → ∃ r, conv v avail = .ok r) :
    ∀ (rules avail : List Nat),
      (∀ pre v post, rules = pre ++ v :: post → ∀ w ∈ g v, w ∈ pre ∨ w ∈ avail) →
      (accounting output conv rules avail).2 = []
  | [], avail, _ => by simp [accounting]
  | i :: rest, avail, h => by
    obtain ⟨r, hr⟩ := hconv i avail (fun w hw => by
      have := h [] i rest rfl w hw
      simpa using this)
    rw [accounting, hr]
    simp only
    apply accounting_no_errors g hconv rest (i :: avail)
    intro pre v post heq w hw
    have := h (i :: pre) v post (by simp [heq]) w hw
    simp only [List.mem_cons] at this ⊢
    rcases this with (h1 | h1) | h1
    · exact .inr (.inl h1)
    · exact .inl h1
    · exact .inr (.inr h1)

end

/-- positions form of the topological property -/
theorem Topo.split {g : Nat → List Nat} {l : List Nat} (h : Topo g l) (hnd : l.Nodup)
    {pre post : List Nat} {v : Nat} (heq : l = pre ++ v :: post) : ∀ w ∈ g v, w ∈ pre := by
  intro w hw
  have h1 := h v (by simp [heq]) w hw
  subst heq
  have hv : v ∉ pre := by
    intro hv
    exact (List.nodup_append.1 hnd).2.2 v hv v (by simp) rfl
  apply Classical.byContradiction
  intro hwp
  simp [List.idxOf_append, hv, hwp] at h1
  omega

/-- a later document carrying the same key replaces an earlier one -/
theorem lookup_last {docs : List Doc} {k i : Nat} (h : lookup docs k = some i) :
    ∀ j, i < j → j < docs.length → k ∉ (docs.getD j dflt).keys := by
  intro j hij hj hk
  unfold lookup at h
  obtain ⟨ys, hys⟩ := List.getLast?_eq_some_iff.1 h
  have hpw : List.Pairwise (· < ·) (ys ++ [i]) := by
    rw [← hys]
    exact List.pairwise_lt_range.filter _
  have hjm : j ∈ ys ++ [i] := by
    rw [← hys]
    rw [getD_eq_getElem hj] at hk
    simp [hj, hk]
  rw [List.pairwise_append] at hpw
  simp only [List.mem_append, List.mem_singleton] at hjm
  rcases hjm with hjm | rfl
  · have := hpw.2.2 j hjm i (by simp)
    omega
  · omega

/-- a rank function excludes reference cycles -/
theorem reach_rank_le {n : Nat} {g : Nat → List Nat} {r : Nat → Nat} (hc : Closed n g)
    (hr : ∀ v, v < n → ∀ w ∈ g v, r w < r v) {a b : Nat} (h : Reach g a b) (ha : a < n) :
    r b ≤ r a := by
  induction h with
  | refl => exact Nat.le_refl _
  | @step a b c hab _ ih =>
    have := hr a ha b hab
    have := ih (hc a ha b hab)
    omega

theorem countP_lt_of_imp {α : Type} {p q : α → Bool} : ∀ (l : List α),
    (∀ x ∈ l, p x = true → q x = true) → (∃ x ∈ l, q x = true ∧ p x = false) →
    l.countP p < l.countP q
  | [], _, h => by simp at h
  | a :: l, himp, hex => by
    have himp' : ∀ x ∈ l, p x = true → q x = true := fun x hx => himp x (by simp [hx])
    have hle : l.countP p ≤ l.countP q := List.countP_mono_left himp'
    obtain ⟨x, hx, hq, hp⟩ := hex
    rcases List.mem_cons.1 hx with rfl | hx
    · simp [hq, hp]
      omega
    · have ih := countP_lt_of_imp l himp' ⟨x, hx, hq, hp⟩
      have ha := himp a (by simp)
      simp only [List.countP_cons]
      cases hpa : p a <;> cases hqa : q a <;> simp_all <;> omega

/-- absence of reference cycles yields a rank function (number of reachable rules) -/
theorem acyclic_of_no_cycle {n : Nat} {g : Nat → List Nat}
    (h : ∀ v, v < n → ∀ w ∈ g v, ¬ Reach g w v) : Acyclic n g := by
  classical
  refine ⟨fun v => (List.range n).countP (fun x => decide (Reach g v x)), ?_⟩
  intro v hv w hw
  apply countP_lt_of_imp
  · intro x _ hx
    simp only [decide_eq_true_eq] at hx ⊢
    exact .step hw hx
  · exact ⟨v, by simpa using hv, by simpa using Reach.refl v, by simpa using h v hv w hw⟩

end SigmaVerif.Coll
