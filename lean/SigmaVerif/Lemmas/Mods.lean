import SigmaVerif.Spec.Mods
import SigmaVerif.Spec.SStr
/-!
# Lemmas for C03 (value modifiers): wildcard padding, windash, expand
Core Lean only.
-/
namespace SigmaVerif.Lemmas.Mods
open SigmaVerif.Mods SigmaVerif.SStr SigmaVerif.SStrSpec

/-! ## glob: concatenation of patterns -/

theorem glob_nil (x : Str) : glob [] x = true ↔ x = [] := by
  unfold glob; cases x <;> simp

theorem glob_star_unfold (p : SStr) (x : Str) :
    glob (.star :: p) x = (glob p x || (match x with | [] => false | _ :: x' => glob (.star :: p) x')) := by
  cases x <;> rw [glob]

theorem glob_lit_nil (c : Char) (p : SStr) : glob (.lit c :: p) [] = false := by
  rw [glob]

theorem glob_lit_cons (c d : Char) (p : SStr) (x : Str) :
    glob (.lit c :: p) (d :: x) = (c == d && glob p x) := by
  rw [glob]

theorem glob_qm_nil (p : SStr) : glob (.qm :: p) [] = false := by
  rw [glob]

theorem glob_qm_cons (d : Char) (p : SStr) (x : Str) : glob (.qm :: p) (d :: x) = glob p x := by
  rw [glob]

theorem glob_ph (n : Str) (p : SStr) (x : Str) : glob (.ph n :: p) x = false := by
  rw [glob]

/-- a pattern `p ++ q` matches exactly the concatenations of a `p`-match and a `q`-match -/
theorem glob_append (p q : SStr) (x : Str) :
    glob (p ++ q) x = true ↔ ∃ v w, x = v ++ w ∧ glob p v = true ∧ glob q w = true := by
  induction p, x using glob.induct with
  | case1 x =>
    constructor
    · intro h; exact ⟨[], x, rfl, by simp [glob_nil], h⟩
    · rintro ⟨v, w, rfl, hv, hw⟩
      rw [glob_nil] at hv; subst hv; simpa using hw
  | case2 c p =>
    simp only [List.cons_append, glob_lit_nil]
    constructor
    · intro h; cases h
    · rintro ⟨v, w, h, hv, _⟩
      cases v with
      | nil => simp [glob_lit_nil] at hv
      | cons a v => simp at h
  | case3 c p d x' ih =>
    simp only [List.cons_append, glob_lit_cons, Bool.and_eq_true, ih]
    constructor
    · rintro ⟨hc, v, w, rfl, hv, hw⟩
      exact ⟨d :: v, w, rfl, by simp [glob_lit_cons, hc, hv], hw⟩
    · rintro ⟨v, w, h, hv, hw⟩
      cases v with
      | nil => simp [glob_lit_nil] at hv
      | cons a v =>
        simp only [List.cons_append, List.cons.injEq] at h
        obtain ⟨rfl, rfl⟩ := h
        simp only [glob_lit_cons, Bool.and_eq_true] at hv
        exact ⟨hv.1, v, w, rfl, hv.2, hw⟩
  | case4 p =>
    simp only [List.cons_append, glob_qm_nil]
    constructor
    · intro h; cases h
    · rintro ⟨v, w, h, hv, _⟩
      cases v with
      | nil => simp [glob_qm_nil] at hv
      | cons a v => simp at h
  | case5 p d x' ih =>
    simp only [List.cons_append, glob_qm_cons, ih]
    constructor
    · rintro ⟨v, w, rfl, hv, hw⟩
      exact ⟨d :: v, w, rfl, by simp [glob_qm_cons, hv], hw⟩
    · rintro ⟨v, w, h, hv, hw⟩
      cases v with
      | nil => simp [glob_qm_nil] at hv
      | cons a v =>
        simp only [List.cons_append, List.cons.injEq] at h
        obtain ⟨rfl, rfl⟩ := h
        simp only [glob_qm_cons] at hv
        exact ⟨v, w, rfl, hv, hw⟩
  | case6 p x ih1 ih2 =>
    simp only [List.cons_append]
    rw [glob_star_unfold]
    constructor
    · intro h
      simp only [Bool.or_eq_true] at h
      rcases h with h | h
      · obtain ⟨v, w, rfl, hv, hw⟩ := ih1.1 h
        exact ⟨v, w, rfl, by rw [glob_star_unfold, hv]; rfl, hw⟩
      · cases x with
        | nil => cases h
        | cons d x' =>
          simp only [List.cons_append] at ih2
          obtain ⟨v, w, rfl, hv, hw⟩ := ih2.1 h
          exact ⟨d :: v, w, rfl, by rw [glob_star_unfold]; simp [hv], hw⟩
    · rintro ⟨v, w, rfl, hv, hw⟩
      rw [glob_star_unfold] at hv
      simp only [Bool.or_eq_true] at hv ⊢
      rcases hv with hv | hv
      · exact Or.inl (ih1.2 ⟨v, w, rfl, hv, hw⟩)
      · cases v with
        | nil => cases hv
        | cons d v' =>
          right
          simp only [List.cons_append] at ih2 ⊢
          exact ih2.2 ⟨v', w, rfl, hv, hw⟩
  | case7 n t x =>
    simp only [List.cons_append, glob_ph]
    constructor
    · intro h; cases h
    · rintro ⟨v, w, _, hv, _⟩; simp at hv

theorem glob_star_all (x : Str) : glob [.star] x = true := by
  induction x with
  | nil => rw [glob_star_unfold]; simp [glob_nil]
  | cons d x ih => rw [glob_star_unfold]; simp [ih]

/-- a leading `*` lets the rest of the pattern match any suffix -/
theorem glob_star_cons (p : SStr) (x : Str) :
    glob (.star :: p) x = true ↔ ∃ u v, x = u ++ v ∧ glob p v = true := by
  have := glob_append [.star] p x
  simp only [List.singleton_append, glob_star_all, true_and] at this
  exact this

/-- a trailing `*` lets the rest of the pattern match any prefix -/
theorem glob_append_star (p : SStr) (x : Str) :
    glob (p ++ [.star]) x = true ↔ ∃ v w, x = v ++ w ∧ glob p v = true := by
  rw [glob_append]
  simp only [glob_star_all, and_true]

/-- a doubled leading star is absorbed -/
theorem glob_star_star (p : SStr) (x : Str) : glob (.star :: .star :: p) x = glob (.star :: p) x := by
  rw [Bool.eq_iff_iff, glob_star_cons]
  constructor
  · rintro ⟨u, v, rfl, hv⟩
    obtain ⟨u', v', rfl, hv'⟩ := (glob_star_cons p v).1 hv
    exact (glob_star_cons p _).2 ⟨u ++ u', v', by simp, hv'⟩
  · intro h; exact ⟨[], x, rfl, h⟩

/-- a doubled trailing star is absorbed -/
theorem glob_append_star_star (p : SStr) (x : Str) :
    glob (p ++ [.star] ++ [.star]) x = glob (p ++ [.star]) x := by
  rw [Bool.eq_iff_iff, glob_append_star]
  constructor
  · rintro ⟨v, w, rfl, hv⟩
    obtain ⟨v', w', rfl, hv'⟩ := (glob_append_star p v).1 hv
    exact (glob_append_star p _).2 ⟨v', w' ++ w, by simp, hv'⟩
  · intro h; exact ⟨x, [], by simp, h⟩

theorem glob_addStarFront (s : SStr) (x : Str) : glob (addStarFront s) x = glob (.star :: s) x := by
  unfold addStarFront
  split
  · rename_i h
    cases s with
    | nil => simp at h
    | cons a s =>
      simp only [List.head?_cons, beq_iff_eq, Option.some.injEq] at h
      subst h; rw [glob_star_star]
  · rfl

theorem glob_addStarBack (s : SStr) (x : Str) : glob (addStarBack s) x = glob (s ++ [.star]) x := by
  unfold addStarBack
  split
  · rename_i h
    simp only [beq_iff_eq] at h
    obtain ⟨l', rfl⟩ := List.getLast?_eq_some_iff.1 h
    rw [glob_append_star_star]
  · rfl


/-! ## windash -/

theorem dashes_nodup : dashes.Nodup := by decide

theorem windashExpand_length (ms : List (Part × Bool)) :
    (windashExpand ms).length = 5 ^ (ms.filter (·.2)).length := by
  induction ms with
  | nil => simp [windashExpand]
  | cons m r ih =>
    obtain ⟨p, b⟩ := m
    cases b with
    | false => simp [windashExpand, ih]
    | true =>
      simp [windashExpand, dashes, ih, Nat.pow_succ]
      omega

theorem windashExpand_nodup (ms : List (Part × Bool)) : (windashExpand ms).Nodup := by
  induction ms with
  | nil => simp [windashExpand]
  | cons m r ih =>
    obtain ⟨p, b⟩ := m
    cases b with
    | false =>
      simp only [windashExpand]
      exact List.Pairwise.map _ (fun a b hab h => hab (List.cons.inj h).2) ih
    | true =>
      simp only [windashExpand]
      rw [List.Nodup, List.pairwise_flatMap]
      refine ⟨fun d _ => List.Pairwise.map _ (fun a b hab h => hab (List.cons.inj h).2) ih, ?_⟩
      refine List.Pairwise.imp ?_ dashes_nodup
      intro a b hab x hx y hy hxy
      simp only [List.mem_map] at hx hy
      obtain ⟨x', _, rfl⟩ := hx
      obtain ⟨y', _, rfl⟩ := hy
      simp only [List.cons.injEq, Part.lit.injEq] at hxy
      exact hab hxy.1

/-- what a dash variant of a marked value is: same length, unmarked positions untouched, marked
positions carry one of the five dashes -/
def IsVariant : List (Part × Bool) → SStr → Prop
  | [], t => t = []
  | _ :: _, [] => False
  | (p, false) :: r, q :: t => q = p ∧ IsVariant r t
  | (_, true) :: r, q :: t => (∃ d ∈ dashes, q = .lit d) ∧ IsVariant r t

theorem mem_windashExpand (ms : List (Part × Bool)) (t : SStr) :
    t ∈ windashExpand ms ↔ IsVariant ms t := by
  induction ms generalizing t with
  | nil => simp [windashExpand, IsVariant]
  | cons m r ih =>
    obtain ⟨p, b⟩ := m
    cases b with
    | false =>
      simp only [windashExpand, List.mem_map]
      cases t with
      | nil => simp [IsVariant]
      | cons q t =>
        simp only [IsVariant, List.cons.injEq, ← ih]
        constructor
        · rintro ⟨a, ha, rfl, rfl⟩; exact ⟨rfl, ha⟩
        · rintro ⟨rfl, ht⟩; exact ⟨t, ht, rfl, rfl⟩
    | true =>
      simp only [windashExpand, List.mem_flatMap, List.mem_map]
      cases t with
      | nil => simp [IsVariant]
      | cons q t =>
        simp only [IsVariant, List.cons.injEq, ← ih]
        constructor
        · rintro ⟨d, hd, a, ha, rfl, rfl⟩; exact ⟨⟨d, hd, rfl⟩, ha⟩
        · rintro ⟨⟨d, hd, rfl⟩, ht⟩; exact ⟨d, hd, t, ht, rfl, rfl⟩

theorem isVariant_iff_index (ms : List (Part × Bool)) (t : SStr) :
    IsVariant ms t ↔ t.length = ms.length ∧ ∀ i (h : i < ms.length),
      (ms[i].2 = false → t[i]? = some ms[i].1) ∧
      (ms[i].2 = true → ∃ d ∈ dashes, t[i]? = some (.lit d)) := by
  induction ms generalizing t with
  | nil =>
    simp only [IsVariant, List.length_nil, List.length_eq_zero_iff]
    constructor
    · intro h; exact ⟨h, fun i hi => absurd hi (Nat.not_lt_zero i)⟩
    · intro h; exact h.1
  | cons m r ih =>
    obtain ⟨p, b⟩ := m
    cases t with
    | nil => cases b <;> simp [IsVariant]
    | cons q t =>
      have key : ∀ (P : (i : Nat) → i < (((p, b) :: r).length) → Prop),
          (∀ i (h : i < ((p, b) :: r).length), P i h) ↔
            P 0 (by simp) ∧ ∀ i (h : i < r.length), P (i + 1) (by simpa using h) := by
        intro P
        constructor
        · intro h; exact ⟨h 0 _, fun i hi => h (i + 1) _⟩
        · rintro ⟨h0, hs⟩ i hi
          cases i with
          | zero => exact h0
          | succ i => exact hs i (by simpa using hi)
      rw [key]
      cases b with
      | false =>
        simp only [IsVariant, ih, List.length_cons, Nat.add_right_cancel_iff,
          List.getElem_cons_zero, List.getElem?_cons_zero, Option.some.injEq, true_implies,
          List.getElem_cons_succ, List.getElem?_cons_succ]
        simp
        constructor
        · rintro ⟨rfl, h1, h2⟩; exact ⟨h1, rfl, h2⟩
        · rintro ⟨h1, rfl, h2⟩; exact ⟨rfl, h1, h2⟩
      | true =>
        simp only [IsVariant, ih, List.length_cons, Nat.add_right_cancel_iff,
          List.getElem_cons_zero, List.getElem?_cons_zero, Option.some.injEq, true_implies,
          List.getElem_cons_succ, List.getElem?_cons_succ]
        simp
        constructor
        · rintro ⟨h0, h1, h2⟩; exact ⟨h1, h0, h2⟩
        · rintro ⟨h1, h0, h2⟩; exact ⟨h0, h1, h2⟩


theorem windashMarks_length (w : Char → Bool) (prev : Option Char) (r : List Char) :
    (windashMarks w prev r).length = r.length := by
  induction r generalizing prev with
  | nil => simp [windashMarks]
  | cons c r ih => simp [windashMarks, ih]

/-- the mark at position `i` of a run, in full -/
def markAt (w : Char → Bool) (prev : Option Char) (r : List Char) (i : Nat) : Option Bool :=
  r[i]?.map fun c =>
    (c == '-' || c == '/') &&
    (match (if i = 0 then prev else r[i - 1]?) with | none => true | some p => !w p) &&
    (match r[i + 1]? with | some d => w d | none => false)

theorem windashMarks_getElem? (w : Char → Bool) (prev : Option Char) (r : List Char) (i : Nat) :
    (windashMarks w prev r)[i]? = markAt w prev r i := by
  induction r generalizing prev i with
  | nil => simp [windashMarks, markAt]
  | cons c r ih =>
    cases i with
    | zero =>
      simp only [windashMarks, markAt, List.getElem?_cons_zero, Option.map_some, if_true,
        List.getElem?_cons_succ, Nat.zero_add]
      cases r <;> rfl
    | succ i =>
      simp only [windashMarks, List.getElem?_cons_succ, ih, markAt, Nat.add_one_ne_zero, if_false,
        Nat.add_sub_cancel]
      cases i with
      | zero => simp
      | succ i => simp

/-- the labelled run produced for one maximal run of literal characters -/
def markRun (w : Char → Bool) (r : List Char) : List (Part × Bool) :=
  (r.zip (windashMarks w none r)).map (fun p => (Part.lit p.1, p.2))

theorem markRun_fst (w : Char → Bool) (r : List Char) : (markRun w r).map (·.1) = r.map Part.lit := by
  unfold markRun
  rw [List.map_map]
  have : ((fun x : Part × Bool => x.1) ∘ fun p : Char × Bool => (Part.lit p.1, p.2)) = Part.lit ∘ Prod.fst := rfl
  rw [this, ← List.map_map, List.map_fst_zip]
  rw [windashMarks_length]; exact Nat.le_refl _

theorem markValue_eq (w : Char → Bool) (s : SStr) (acc : List Char) :
    markValue w s acc = match s with
      | [] => markRun w acc.reverse
      | .lit c :: r => markValue w r (c :: acc)
      | p :: r => markRun w acc.reverse ++ (p, false) :: markValue w r [] := by
  cases s with
  | nil => rfl
  | cons p r => cases p <;> rfl

theorem markValue_fst_acc (w : Char → Bool) (s : SStr) (acc : List Char) :
    (markValue w s acc).map (·.1) = acc.reverse.map Part.lit ++ s := by
  induction s generalizing acc with
  | nil => rw [markValue_eq]; simp [markRun_fst]
  | cons p r ih =>
    rw [markValue_eq]
    cases p with
    | lit c => simp [ih]
    | star => simp [markRun_fst, ih]
    | qm => simp [markRun_fst, ih]
    | ph n => simp [markRun_fst, ih]

/-- every marked position carries a dash or a slash -/
def WellMarked (ms : List (Part × Bool)) : Prop :=
  ∀ m ∈ ms, m.2 = true → ∃ d ∈ dashes, m.1 = .lit d

theorem windashMarks_zip_dash (w : Char → Bool) (prev : Option Char) (r : List Char) :
    ∀ q ∈ r.zip (windashMarks w prev r), q.2 = true → q.1 = '-' ∨ q.1 = '/' := by
  induction r generalizing prev with
  | nil => simp [windashMarks]
  | cons c r ih =>
    intro q hq h
    simp only [windashMarks, List.zip_cons_cons, List.mem_cons] at hq
    rcases hq with rfl | hq
    · simp only [Bool.and_eq_true, Bool.or_eq_true, beq_iff_eq] at h
      exact h.1.1
    · exact ih _ q hq h

theorem markRun_wellMarked (w : Char → Bool) (r : List Char) : WellMarked (markRun w r) := by
  intro m hm h
  simp only [markRun, List.mem_map] at hm
  obtain ⟨q, hq, rfl⟩ := hm
  rcases windashMarks_zip_dash w none r q hq h with h' | h'
  · exact ⟨'-', by simp [dashes], by simp [h']⟩
  · exact ⟨'/', by simp [dashes], by simp [h']⟩

theorem WellMarked.append {a b : List (Part × Bool)} (ha : WellMarked a) (hb : WellMarked b) :
    WellMarked (a ++ b) := by
  intro m hm; rcases List.mem_append.1 hm with h | h
  · exact ha m h
  · exact hb m h

theorem WellMarked.cons_false {p : Part} {b : List (Part × Bool)} (hb : WellMarked b) :
    WellMarked ((p, false) :: b) := by
  intro m hm; rcases List.mem_cons.1 hm with rfl | h
  · intro h; cases h
  · exact hb m h

theorem markValue_wellMarked (w : Char → Bool) (s : SStr) (acc : List Char) :
    WellMarked (markValue w s acc) := by
  induction s generalizing acc with
  | nil => rw [markValue_eq]; exact markRun_wellMarked _ _
  | cons p r ih =>
    rw [markValue_eq]
    cases p with
    | lit c => exact ih _
    | star => exact (markRun_wellMarked _ _).append (ih _).cons_false
    | qm => exact (markRun_wellMarked _ _).append (ih _).cons_false
    | ph n => exact (markRun_wellMarked _ _).append (ih _).cons_false

theorem isVariant_self (ms : List (Part × Bool)) (h : WellMarked ms) : IsVariant ms (ms.map (·.1)) := by
  induction ms with
  | nil => simp [IsVariant]
  | cons m r ih =>
    obtain ⟨p, b⟩ := m
    have hr : WellMarked r := fun m hm => h m (List.mem_cons_of_mem _ hm)
    cases b with
    | false => exact ⟨rfl, ih hr⟩
    | true => exact ⟨h (p, true) (List.mem_cons_self) rfl, ih hr⟩


/-! ## expand -/

theorem splitName_some {r name rest : List Char} (h : splitName r = some (name, rest)) :
    name ≠ [] ∧ '%' ∉ name ∧ r = name ++ '%' :: rest := by
  unfold splitName at h
  split at h
  · rename_i a b hd tl rest' h1 h2
    simp only [Option.some.injEq, Prod.mk.injEq] at h
    obtain ⟨rfl, rfl⟩ := h
    refine ⟨by simp, ?_, ?_⟩
    · intro hm
      rw [← h1] at hm
      have hall := List.all_takeWhile (l := r) (p := fun x => x != '%')
      rw [List.all_eq_true] at hall
      have := hall _ hm
      simp at this
    · rw [← h1, ← h2, List.takeWhile_append_dropWhile]
  · cases h

theorem splitName_append (name rest : List Char) (hn : name ≠ []) (h : '%' ∉ name) :
    splitName (name ++ '%' :: rest) = some (name, rest) := by
  have hp : ∀ a ∈ name, (a != '%') = true := by
    intro a ha; simp only [bne_iff_ne, ne_eq]; rintro rfl; exact h ha
  unfold splitName
  rw [List.takeWhile_append_of_pos hp, List.dropWhile_append_of_pos hp]
  cases name with
  | nil => exact absurd rfl hn
  | cons a t => simp

theorem splitName_none_of_not_mem (r : List Char) (h : '%' ∉ r) : splitName r = none := by
  cases hs : splitName r with
  | none => rfl
  | some q =>
    obtain ⟨name, rest⟩ := q
    have := (splitName_some hs).2.2
    rw [this] at h; simp at h

theorem expandRunF_zero (prev : Option Char) (r : List Char) : expandRunF 0 prev r = [] := by
  unfold expandRunF; rfl

theorem expandRunF_nil (f : Nat) (prev : Option Char) : expandRunF f prev [] = [] := by
  cases f <;> rfl

theorem expandRunF_cons (f : Nat) (prev : Option Char) (c : Char) (r : List Char) :
    expandRunF (f + 1) prev (c :: r) =
      if c == '%' && prev != some '\\' then
        match splitName r with
        | some (name, rest) => .ph name :: expandRunF f (some '%') rest
        | none => .lit c :: expandRunF f (some c) r
      else if c == '\\' && r.head? == some '%' then
        .lit '%' :: expandRunF f (some '%') r.tail
      else .lit c :: expandRunF f (some c) r := by
  rfl

/-- enough fuel is enough -/
theorem expandRunF_fuel (n : Nat) : ∀ (r : List Char), r.length ≤ n → ∀ (f g : Nat) (prev : Option Char),
    r.length ≤ f → r.length ≤ g → expandRunF f prev r = expandRunF g prev r := by
  induction n with
  | zero =>
    intro r hr f g prev _ _
    have : r = [] := List.length_eq_zero_iff.1 (Nat.le_zero.1 hr)
    subst this; simp [expandRunF_nil]
  | succ n ih =>
    intro r hr f g prev hf hg
    cases r with
    | nil => simp [expandRunF_nil]
    | cons c r =>
      simp only [List.length_cons] at hr hf hg
      obtain ⟨f, rfl⟩ : ∃ f', f = f' + 1 := ⟨f - 1, by omega⟩
      obtain ⟨g, rfl⟩ : ∃ g', g = g' + 1 := ⟨g - 1, by omega⟩
      have hrn : r.length ≤ n := by omega
      have hrf : r.length ≤ f := by omega
      have hrg : r.length ≤ g := by omega
      rw [expandRunF_cons, expandRunF_cons]
      split
      · cases hs : splitName r with
        | none => simp only; rw [ih r hrn f g _ hrf hrg]
        | some q =>
          obtain ⟨name, rest⟩ := q
          have hlen : rest.length ≤ r.length := by
            have := (splitName_some hs).2.2
            rw [this]; simp; omega
          simp only
          rw [ih rest (by omega) f g _ (by omega) (by omega)]
      · split
        · have : r.tail.length ≤ r.length := by simp
          rw [ih r.tail (by omega) f g _ (by omega) (by omega)]
        · rw [ih r hrn f g _ hrf hrg]

theorem expandRunF_eq (f : Nat) (prev : Option Char) (r : List Char) (h : r.length ≤ f) :
    expandRunF f prev r = expandRunF r.length prev r :=
  expandRunF_fuel r.length r (Nat.le_refl _) f r.length prev h (Nat.le_refl _)

theorem expandRunF_no_percent (f : Nat) (prev : Option Char) (r : List Char) (hf : r.length ≤ f)
    (h : '%' ∉ r) : expandRunF f prev r = r.map .lit := by
  induction r generalizing f prev with
  | nil => simp [expandRunF_nil]
  | cons c r ih =>
    simp only [List.length_cons] at hf
    obtain ⟨f, rfl⟩ : ∃ f', f = f' + 1 := ⟨f - 1, by omega⟩
    simp only [List.mem_cons, not_or] at h
    have hc : (c == '%') = false := by
      simp only [beq_eq_false_iff_ne, ne_eq]; intro hc; exact h.1 hc.symm
    have hh : (r.head? == some '%') = false := by
      cases r with
      | nil => rfl
      | cons d r =>
        simp only [List.head?_cons, beq_eq_false_iff_ne, ne_eq, Option.some.injEq]
        intro hd; exact h.2 (by simp [hd])
    rw [expandRunF_cons]
    simp only [hc, hh, Bool.false_and, Bool.and_false, if_false, Bool.false_eq_true, List.map_cons]
    rw [ih f _ (by omega) h.2]

theorem expandRunF_names (f : Nat) : ∀ (prev : Option Char) (r : List Char) (n : Str),
    Part.ph n ∈ expandRunF f prev r → n ≠ [] ∧ '%' ∉ n := by
  induction f with
  | zero => intro prev r n h; simp [expandRunF_zero] at h
  | succ f ih =>
    intro prev r n h
    cases r with
    | nil => simp [expandRunF_nil] at h
    | cons c r =>
      rw [expandRunF_cons] at h
      split at h
      · cases hs : splitName r with
        | none =>
          rw [hs] at h
          simp only [List.mem_cons, reduceCtorEq, false_or] at h
          exact ih _ _ _ h
        | some q =>
          obtain ⟨name, rest⟩ := q
          rw [hs] at h
          simp only [List.mem_cons, Part.ph.injEq] at h
          rcases h with rfl | h
          · exact ⟨(splitName_some hs).1, (splitName_some hs).2.1⟩
          · exact ih _ _ _ h
      · split at h
        · simp only [List.mem_cons, reduceCtorEq, false_or] at h
          exact ih _ _ _ h
        · simp only [List.mem_cons, reduceCtorEq, false_or] at h
          exact ih _ _ _ h


theorem expandRun_no_percent (r : List Char) (h : '%' ∉ r) : expandRun r = r.map .lit :=
  expandRunF_no_percent _ _ _ (Nat.le_succ _) h

theorem expandValue_eq (s : SStr) (acc : List Char) :
    expandValue s acc = match s with
      | [] => expandRun acc.reverse
      | .lit c :: r => expandValue r (c :: acc)
      | p :: r => expandRun acc.reverse ++ p :: expandValue r [] := by
  cases s with
  | nil => rfl
  | cons p r => cases p <;> rfl

/-- whole values: without a literal `%` nothing changes -/
theorem expandValue_no_percent (s : SStr) (acc : List Char) (hs : Part.lit '%' ∉ s) (ha : '%' ∉ acc) :
    expandValue s acc = acc.reverse.map Part.lit ++ s := by
  induction s generalizing acc with
  | nil =>
    rw [expandValue_eq]; simp only [List.append_nil]
    exact expandRun_no_percent _ (by simpa using ha)
  | cons p r ih =>
    have hr : Part.lit '%' ∉ r := fun h => hs (List.mem_cons_of_mem _ h)
    have hrun : expandRun acc.reverse = acc.reverse.map Part.lit :=
      expandRun_no_percent _ (by simpa using ha)
    rw [expandValue_eq]
    cases p with
    | lit c =>
      have hc : c ≠ '%' := by rintro rfl; exact hs List.mem_cons_self
      simp only
      rw [ih _ hr (by simp [ha, hc.symm])]
      simp
    | star => simp only; rw [hrun, ih _ hr (by simp)]; simp
    | qm => simp only; rw [hrun, ih _ hr (by simp)]; simp
    | ph n => simp only; rw [hrun, ih _ hr (by simp)]; simp

/-- whole values: every placeholder of the result was there before or has a well-formed name -/
theorem expandValue_names (s : SStr) (acc : List Char) (n : Str) (h : Part.ph n ∈ expandValue s acc) :
    Part.ph n ∈ s ∨ (n ≠ [] ∧ '%' ∉ n) := by
  induction s generalizing acc with
  | nil =>
    rw [expandValue_eq] at h
    exact Or.inr (expandRunF_names _ _ _ n h)
  | cons p r ih =>
    rw [expandValue_eq] at h
    cases p with
    | lit c =>
      rcases ih _ h with h' | h'
      · exact Or.inl (List.mem_cons_of_mem _ h')
      · exact Or.inr h'
    | star =>
      simp only [List.mem_append, List.mem_cons, reduceCtorEq, false_or] at h
      rcases h with h | h
      · exact Or.inr (expandRunF_names _ _ _ n h)
      · rcases ih _ h with h' | h'
        · exact Or.inl (List.mem_cons_of_mem _ h')
        · exact Or.inr h'
    | qm =>
      simp only [List.mem_append, List.mem_cons, reduceCtorEq, false_or] at h
      rcases h with h | h
      · exact Or.inr (expandRunF_names _ _ _ n h)
      · rcases ih _ h with h' | h'
        · exact Or.inl (List.mem_cons_of_mem _ h')
        · exact Or.inr h'
    | ph m =>
      simp only [List.mem_append, List.mem_cons, Part.ph.injEq] at h
      rcases h with h | rfl | h
      · exact Or.inr (expandRunF_names _ _ _ n h)
      · exact Or.inl List.mem_cons_self
      · rcases ih _ h with h' | h'
        · exact Or.inl (List.mem_cons_of_mem _ h')
        · exact Or.inr h'


/-! ## windash marks of a whole value, position by position -/

def prevOkP (w : Char → Bool) : Option Part → Bool
  | some (.lit q) => !w q
  | _ => true

def nextOkP (w : Char → Bool) : Option Part → Bool
  | some (.lit d) => w d
  | _ => false

def isDashP : Part → Bool
  | .lit c => c == '-' || c == '/'
  | _ => false

/-- the marks of a whole value computed directly on the parts -/
def partMarks (w : Char → Bool) : Option Part → SStr → List Bool
  | _, [] => []
  | prev, p :: r => (isDashP p && prevOkP w prev && nextOkP w r.head?) :: partMarks w (some p) r

theorem partMarks_prev_irrel (w : Char → Bool) (a b : Option Part) (h : prevOkP w a = prevOkP w b)
    (s : SStr) : partMarks w a s = partMarks w b s := by
  cases s with
  | nil => rfl
  | cons p r => simp [partMarks, h]

theorem windashMarks_eq_partMarks (w : Char → Bool) (prev : Option Char) (r : List Char) :
    windashMarks w prev r = partMarks w (prev.map Part.lit) (r.map Part.lit) := by
  induction r generalizing prev with
  | nil => rfl
  | cons c r ih =>
    simp only [windashMarks, List.map_cons, partMarks, ih, Option.map_some]
    congr 1
    cases prev <;> cases r <;> rfl

theorem partMarks_run_append (w : Char → Bool) (prev : Option Char) (r : List Char) (p : Part)
    (hp : ∀ c, p ≠ .lit c) (t : SStr) :
    partMarks w (prev.map Part.lit) (r.map Part.lit ++ p :: t) =
      windashMarks w prev r ++ false :: partMarks w none t := by
  induction r generalizing prev with
  | nil =>
    simp only [List.map_nil, List.nil_append, partMarks, windashMarks]
    congr 1
    · cases p with
      | lit c => exact absurd rfl (hp c)
      | _ => rfl
    · apply partMarks_prev_irrel
      cases p with
      | lit c => exact absurd rfl (hp c)
      | _ => rfl
  | cons c r ih =>
    simp only [List.map_cons, List.cons_append, partMarks, windashMarks]
    have := ih (some c)
    simp only [Option.map_some] at this
    rw [this]
    congr 1
    cases r with
    | nil =>
      cases p with
      | lit c => exact absurd rfl (hp c)
      | _ => cases prev <;> simp [isDashP, prevOkP, nextOkP]
    | cons d r => cases prev <;> rfl

theorem markRun_snd (w : Char → Bool) (r : List Char) :
    (markRun w r).map (·.2) = windashMarks w none r := by
  unfold markRun
  rw [List.map_map]
  have : ((fun x : Part × Bool => x.2) ∘ fun p : Char × Bool => (Part.lit p.1, p.2)) = Prod.snd := rfl
  rw [this, List.map_snd_zip]
  rw [windashMarks_length]; exact Nat.le_refl _

theorem markValue_snd_acc (w : Char → Bool) (s : SStr) (acc : List Char) :
    (markValue w s acc).map (·.2) = partMarks w none (acc.reverse.map Part.lit ++ s) := by
  induction s generalizing acc with
  | nil =>
    rw [markValue_eq]
    simp only [List.append_nil, markRun_snd]
    exact windashMarks_eq_partMarks w none _
  | cons p r ih =>
    rw [markValue_eq]
    cases p with
    | lit c => simp [ih]
    | star =>
      simp only [List.map_append, List.map_cons, markRun_snd, ih, List.reverse_nil, List.map_nil,
        List.nil_append]
      exact (partMarks_run_append w none _ _ (by intro c h; cases h) _).symm
    | qm =>
      simp only [List.map_append, List.map_cons, markRun_snd, ih, List.reverse_nil, List.map_nil,
        List.nil_append]
      exact (partMarks_run_append w none _ _ (by intro c h; cases h) _).symm
    | ph n =>
      simp only [List.map_append, List.map_cons, markRun_snd, ih, List.reverse_nil, List.map_nil,
        List.nil_append]
      exact (partMarks_run_append w none _ _ (by intro c h; cases h) _).symm

theorem partMarks_getElem? (w : Char → Bool) (prev : Option Part) (s : SStr) (i : Nat) :
    (partMarks w prev s)[i]? =
      s[i]?.map fun p => isDashP p && prevOkP w (if i = 0 then prev else s[i - 1]?) && nextOkP w s[i + 1]? := by
  induction s generalizing prev i with
  | nil => simp [partMarks]
  | cons p r ih =>
    cases i with
    | zero =>
      simp only [partMarks, List.getElem?_cons_zero, Option.map_some, if_true,
        List.getElem?_cons_succ, Nat.zero_add]
      cases r <;> rfl
    | succ i =>
      simp only [partMarks, List.getElem?_cons_succ, ih, Nat.add_one_ne_zero, if_false,
        Nat.add_sub_cancel]
      cases i with
      | zero => simp
      | succ i => simp

theorem markValue_snd_getElem? (w : Char → Bool) (s : SStr) (i : Nat) :
    ((markValue w s [])[i]?).map (·.2) =
      s[i]?.map fun p => isDashP p && prevOkP w (if i = 0 then none else s[i - 1]?) && nextOkP w s[i + 1]? := by
  rw [← List.getElem?_map, markValue_snd_acc]
  simp only [List.reverse_nil, List.map_nil, List.nil_append]
  exact partMarks_getElem? w none s i


/-! ## type errors of the modifier table -/

def isTypeErr : Except MErr (List Val) → Bool
  | .error (.type _) => true
  | _ => false

def isExpansion : Val → Bool | .expansion _ => true | _ => false

theorem isTypeErr_iff (r : Except MErr (List Val)) : isTypeErr r = true ↔ ∃ e, r = .error (.type e) := by
  cases r with
  | ok a => simp [isTypeErr]
  | error e => cases e <;> simp [isTypeErr]

local macro "ty_one" : tactic => `(tactic| first
  | rfl
  | (show isTypeErr (ite _ _ _) = _; split <;> first | rfl | (split <;> rfl))
  | ((conv => lhs; arg 1; whnf); split <;> rfl))

/-- whether a value modifier answers with a type error depends only on the type of the value, and
is what `acceptsBySpec` (the table compared with the live modifier classes) says -/
theorem isTypeErr_modifyValue (env : Env) (hf first : Bool) (m : String) (hm : m ∈ valueModifiers)
    (v : Val) (hv : isExpansion v = false) :
    isTypeErr (modifyValue env hf first m v) = !acceptsBySpec m (typeName v) := by
  simp only [valueModifiers, List.mem_cons, List.not_mem_nil, or_false] at hm
  rcases hm with rfl | rfl | rfl | rfl | rfl | rfl | rfl | rfl | rfl | rfl | rfl | rfl | rfl | rfl | rfl | rfl |
    rfl | rfl | rfl | rfl | rfl | rfl | rfl | rfl | rfl | rfl | rfl | rfl | rfl | rfl | rfl
  all_goals
    cases v with
    | str c s => cases c <;> ty_one
    | expansion vs => cases hv
    | _ => ty_one

end SigmaVerif.Lemmas.Mods
