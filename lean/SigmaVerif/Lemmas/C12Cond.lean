import SigmaVerif.Lemmas.C12Pieces
import SigmaVerif.Lemmas.C12Read
/-! Helper lemmas for C12: a condition extended by a new detection. -/
namespace SigmaVerif.Lemmas.C12
open SigmaVerif.SStr SigmaVerif.Mods SigmaVerif.Rule SigmaVerif.Rewrite

/-- the selector patterns of a condition -/
def patterns : CondSpec.E → List Str
  | .id _ => []
  | .sel _ p => [p]
  | .not e => patterns e
  | .and a b => patterns a ++ patterns b
  | .or a b => patterns a ++ patterns b

/-- a name starting with `_` is selected only by a pattern starting with `_` (not by `them`, not by `sel*`) -/
theorem selects_underscore (pat name : Str) (hn : name.head? = some '_') (hp : pat.head? ≠ some '_') :
    CondSpec.selects pat name = false := by
  unfold CondSpec.selects
  have : (pat.head? == some '_') = false := by simpa using hp
  simp [this, hn]

/-- a condition that can be read over `ds` reads the same over `ds` extended by a detection no selector selects -/
theorem condBE_append (ds : List (Str × BE)) (x : Str × BE) :
    ∀ (e : CondSpec.E) (old : BE), (∀ p ∈ patterns e, CondSpec.selects p x.1 = false) →
      condBE ds e = .ok old → condBE (ds ++ [x]) e = .ok old
  | .id n, old, _, h => by
    simp only [condBE] at h ⊢
    cases hf : ds.find? (fun d => d.1 == n) with
    | none => rw [hf] at h; cases h
    | some d => rw [hf] at h; simp [List.find?_append, hf]; simpa using h
  | .sel q pat, old, hs, h => by
    have hx : CondSpec.selects pat x.1 = false := hs pat (by simp [patterns])
    have hnil : List.filter (fun d : Str × BE => CondSpec.selects pat d.1) [x] = [] := by simp [hx]
    simp only [condBE, List.filter_append, hnil, List.append_nil] at h ⊢
    exact h
  | .not e, old, hs, h => by
    simp only [condBE] at h ⊢
    cases he : condBE ds e with
    | error err => rw [he] at h; cases h
    | ok b => rw [he] at h; rw [condBE_append ds x e b (fun p hp => hs p (by simpa [patterns] using hp)) he]; exact h
  | .and a b, old, hs, h => by
    simp only [condBE] at h ⊢
    cases ha : condBE ds a with
    | error err => rw [ha] at h; cases hb : condBE ds b <;> rw [hb] at h <;> cases h
    | ok ea =>
      cases hb : condBE ds b with
      | error err => rw [ha, hb] at h; cases h
      | ok eb =>
        rw [ha, hb] at h
        rw [condBE_append ds x a ea (fun p hp => hs p (by simp [patterns, hp])) ha,
            condBE_append ds x b eb (fun p hp => hs p (by simp [patterns, hp])) hb]
        exact h
  | .or a b, old, hs, h => by
    simp only [condBE] at h ⊢
    cases ha : condBE ds a with
    | error err => rw [ha] at h; cases hb : condBE ds b <;> rw [hb] at h <;> cases h
    | ok ea =>
      cases hb : condBE ds b with
      | error err => rw [ha, hb] at h; cases h
      | ok eb =>
        rw [ha, hb] at h
        rw [condBE_append ds x a ea (fun p hp => hs p (by simp [patterns, hp])) ha,
            condBE_append ds x b eb (fun p hp => hs p (by simp [patterns, hp])) hb]
        exact h

theorem condBE_new (ds : List (Str × BE)) (name : Str) (b : BE) (hfresh : ∀ d ∈ ds, d.1 ≠ name) :
    condBE (ds ++ [(name, b)]) (.id name) = .ok b := by
  simp only [condBE, List.find?_append]
  have : ds.find? (fun d => d.1 == name) = none := by
    simp only [List.find?_eq_none]
    intro d hd; simpa using hfresh d hd
  simp [this]

/-- the parse tree of `name and (c)` / `not name and (c)` -/
def wrapE (name : Str) (negated : Bool) (e : CondSpec.E) : CondSpec.E :=
  .and (if negated then .not (.id name) else .id name) e

theorem condBE_wrap (ds : List (Str × BE)) (name : Str) (b : BE) (neg : Bool) (e : CondSpec.E) (old : BE)
    (hfresh : ∀ d ∈ ds, d.1 ≠ name) (hsel : ∀ p ∈ patterns e, CondSpec.selects p name = false)
    (hold : condBE ds e = .ok old) :
    condBE (ds ++ [(name, b)]) (wrapE name neg e) = .ok (.and [if neg then .not b else b, old]) := by
  have h1 := condBE_append ds (name, b) e old hsel hold
  have h2 := condBE_new ds name b hfresh
  have hand : ∀ a : CondSpec.E, condBE (ds ++ [(name, b)]) (.and a e) =
      match condBE (ds ++ [(name, b)]) a, condBE (ds ++ [(name, b)]) e with
      | .ok x, .ok y => .ok (.and [x, y])
      | .error e, _ => .error e
      | _, .error e => .error e := fun a => by simp only [condBE]; rfl
  have hnot : condBE (ds ++ [(name, b)]) (.not (.id name)) =
      match condBE (ds ++ [(name, b)]) (.id name) with | .ok b => .ok (.not b) | .error x => .error x := by
    simp only [condBE]; rfl
  cases neg
  · simp only [wrapE, Bool.false_eq_true, ↓reduceIte]; rw [hand, h2, h1]
  · simp only [wrapE, ↓reduceIte]; rw [hand, hnot, h2, h1]

theorem mapME_append {α β : Type} (F : α → Except SpecErr β) : ∀ (l : List α) (a : α) (bs : List β) (b : β),
    mapME F l = .ok bs → F a = .ok b → mapME F (l ++ [a]) = .ok (bs ++ [b])
  | [], a, bs, b, h, ha => by simp [mapME] at h; subst h; simp [mapME, ha]
  | x :: l, a, bs, b, h, ha => by
    simp only [mapME] at h
    cases hx : F x with
    | error e => rw [hx] at h; cases hM : mapME F l <;> rw [hM] at h <;> cases h
    | ok y =>
      cases hM : mapME F l with
      | error e => rw [hx, hM] at h; cases h
      | ok ys =>
        rw [hx, hM] at h; cases h
        simp [mapME, hx, mapME_append F l a ys b hM ha]

theorem mapME_fst {α : Type} (F : Str × α → Except SpecErr (Str × BE)) (hF : ∀ d y, F d = .ok y → y.1 = d.1) :
    ∀ (l : List (Str × α)) (ys : List (Str × BE)), mapME F l = .ok ys → ys.map (·.1) = l.map (·.1)
  | [], ys, h => by simp [mapME] at h; subst h; rfl
  | x :: l, ys, h => by
    simp only [mapME] at h
    cases hx : F x with
    | error e => rw [hx] at h; cases hM : mapME F l <;> rw [hM] at h <;> cases h
    | ok y =>
      cases hM : mapME F l with
      | error e => rw [hx, hM] at h; cases h
      | ok ys' =>
        rw [hx, hM] at h; cases h
        simp [hF x y hx, mapME_fst F hF l ys' hM]

/-- the rule with one more detection `name` and a condition that reads as `[not] name and (e)` -/
theorem ruleBE_addCond (cx : Ctx) (dets : List (Str × Det)) (c c' name : Str) (items : List KV) (neg : Bool)
    (e : CondSpec.E) (old b : BE)
    (hread : CondSpec.read c = some e) (hread' : CondSpec.read c' = some (wrapE name neg e))
    (hold : ruleBE cx dets c = .ok old) (hnew : detBE cx 8 (.map items) = .ok b)
    (hfresh : ∀ d ∈ dets, d.1 ≠ name) (hsel : ∀ p ∈ patterns e, CondSpec.selects p name = false) :
    ruleBE cx (dets ++ [(name, .map items)]) c' = .ok (.and [if neg then .not b else b, old]) := by
  unfold ruleBE at hold ⊢
  cases hM : mapME (fun d : Str × Det => match detBE cx 8 d.2 with | .ok b => Except.ok (d.1, b) | .error e => .error e) dets with
  | error err => erw [hM] at hold; cases hold
  | ok ds =>
    erw [hM] at hold
    simp only [hread] at hold
    have happ := mapME_append (fun d : Str × Det => match detBE cx 8 d.2 with | .ok b => Except.ok (d.1, b) | .error e => .error e)
      dets (name, .map items) ds (name, b) hM (by simp [hnew])
    erw [happ]
    simp only [hread']
    have hnames : ds.map (·.1) = dets.map (·.1) :=
      mapME_fst _ (fun d y hy => by
        cases hd : detBE cx 8 d.2 <;> rw [hd] at hy <;> cases hy; rfl) dets ds hM
    refine condBE_wrap ds name b neg e old (fun d hd hn => ?_) hsel hold
    have : d.1 ∈ dets.map (·.1) := hnames ▸ List.mem_map_of_mem hd
    obtain ⟨d', hd', he⟩ := List.mem_map.1 this
    exact hfresh d' hd' (he.trans hn)

/-- the specification reader takes `name and (c)` / `not name and (c)` apart as documented -/
theorem read_addCondText (name c : Str) (neg : Bool) (e : CondSpec.E) (h : C12Read.NameOK name)
    (hc : CondSpec.read c = some e) :
    CondSpec.read (addCondText name neg c) = some (wrapE name neg e) := by
  have hT := C12Read.read_some hc
  cases neg with
  | false =>
    have ht : addCondText name false c = name ++ " and (".toList ++ c ++ [')'] := by simp [addCondText]
    unfold CondSpec.read
    simp only [ht, C12Read.tokens_wrap name c h, C12Read.rOrF_wrap name h _ e hT]
    rfl
  | true =>
    have ht : addCondText name true c = "not ".toList ++ name ++ " and (".toList ++ c ++ [')'] := by simp [addCondText]
    unfold CondSpec.read
    simp only [ht, C12Read.tokens_wrap_not name c h, C12Read.rOrF_wrap_not name h _ e hT]
    rfl

end SigmaVerif.Lemmas.C12
