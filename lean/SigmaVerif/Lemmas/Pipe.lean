import SigmaVerif.Model.Pipe
/-!
# Lemmas about the pipeline-composition model (`Model/Pipe.lean`): resolver sorting, trace structure
and the ownership state machine.
-/
namespace SigmaVerif.Pipe

/-! ## `P.add` and variables -/

theorem lookupVar_append (v w : List (Nat × Nat)) (k : Nat) :
    lookupVar (v ++ w) k = (lookupVar w k).or (lookupVar v k) := by
  simp only [lookupVar, List.filter_append, List.getLast?_append]
  cases (List.filter (fun kv => kv.1 == k) w).getLast? <;> simp

/-! ## Resolver -/

/-- the sort key of a specifier -/
def Spec.hasKey (pr nm : Nat) (s : Spec) : Bool := s.priority == pr && s.name == nm

theorem Spec.le_total (a b : Spec) : Spec.le a b = true ∨ Spec.le b a = true := by
  simp only [Spec.le, Bool.or_eq_true, Bool.and_eq_true, decide_eq_true_eq, beq_iff_eq]; omega

theorem Spec.le_trans {a b c : Spec} (h1 : Spec.le a b = true) (h2 : Spec.le b c = true) :
    Spec.le a c = true := by
  simp only [Spec.le, Bool.or_eq_true, Bool.and_eq_true, decide_eq_true_eq, beq_iff_eq] at *; omega

theorem Spec.le_antisymm_key {a b : Spec} (h1 : Spec.le a b = true) (h2 : Spec.le b a = true) :
    a.priority = b.priority ∧ a.name = b.name := by
  simp only [Spec.le, Bool.or_eq_true, Bool.and_eq_true, decide_eq_true_eq, beq_iff_eq] at *; omega

theorem Spec.le_of_not_le {a b : Spec} (h : Spec.le a b = false) : Spec.le b a = true := by
  cases Spec.le_total a b with
  | inl h' => simp [h] at h'
  | inr h' => exact h'

theorem insertSorted_perm (x : Spec) (l : List Spec) : (insertSorted x l).Perm (x :: l) := by
  induction l with
  | nil => simp [insertSorted]
  | cons y ys ih =>
    simp only [insertSorted]
    split
    · exact (List.Perm.cons y ih).trans (List.Perm.swap x y ys)
    · exact List.Perm.refl _

theorem sortSpecs_perm' (l : List Spec) : (sortSpecs l).Perm l := by
  induction l with
  | nil => simp [sortSpecs]
  | cons x xs ih =>
    simp only [sortSpecs]
    exact (insertSorted_perm x _).trans (List.Perm.cons x ih)

theorem insertSorted_sorted (x : Spec) (l : List Spec)
    (h : l.Pairwise (fun a b => Spec.le a b = true)) :
    (insertSorted x l).Pairwise (fun a b => Spec.le a b = true) := by
  induction l with
  | nil => simp [insertSorted]
  | cons y ys ih =>
    simp only [insertSorted]
    rw [List.pairwise_cons] at h
    cases hxy : Spec.le x y with
    | false =>
      simp only [Bool.not_false, if_true]
      rw [List.pairwise_cons]
      refine ⟨?_, ih h.2⟩
      intro z hz
      have := (insertSorted_perm x ys).mem_iff.1 hz
      rcases List.mem_cons.1 this with rfl | hz'
      · exact Spec.le_of_not_le hxy
      · exact h.1 z hz'
    | true =>
      simp only [Bool.not_true, Bool.false_eq_true, if_false]
      rw [List.pairwise_cons]
      refine ⟨?_, List.pairwise_cons.2 h⟩
      intro z hz
      rcases List.mem_cons.1 hz with rfl | hz'
      · exact hxy
      · exact Spec.le_trans hxy (h.1 z hz')

theorem sortSpecs_sorted' (l : List Spec) :
    (sortSpecs l).Pairwise (fun a b => Spec.le a b = true) := by
  induction l with
  | nil => simp [sortSpecs]
  | cons x xs ih => exact insertSorted_sorted x _ ih

theorem insertSorted_filter_key (pr nm : Nat) (x : Spec) (l : List Spec) :
    (insertSorted x l).filter (Spec.hasKey pr nm) = (x :: l).filter (Spec.hasKey pr nm) := by
  induction l with
  | nil => simp [insertSorted]
  | cons y ys ih =>
    simp only [insertSorted]
    cases hxy : Spec.le x y with
    | true => simp
    | false =>
      simp only [Bool.not_false, if_true]
      rw [List.filter_cons, ih]
      have hne : ¬ (Spec.hasKey pr nm x = true ∧ Spec.hasKey pr nm y = true) := by
        intro ⟨hx, hy⟩
        simp only [Spec.hasKey, Bool.and_eq_true, beq_iff_eq] at hx hy
        simp [Spec.le, hx, hy] at hxy
      cases hx : Spec.hasKey pr nm x <;> cases hy : Spec.hasKey pr nm y <;>
        simp_all

theorem sortSpecs_filter_key (pr nm : Nat) (l : List Spec) :
    (sortSpecs l).filter (Spec.hasKey pr nm) = l.filter (Spec.hasKey pr nm) := by
  induction l with
  | nil => simp [sortSpecs]
  | cons x xs ih =>
    simp only [sortSpecs]
    rw [insertSorted_filter_key, List.filter_cons, List.filter_cons, ih]

/-- two sorted permutations of each other are equal if `le`-equivalent elements are equal -/
theorem eq_of_perm_of_sorted {α : Type} {le : α → α → Prop} :
    ∀ (l1 l2 : List α), (∀ a ∈ l1, ∀ b ∈ l1, le a b → le b a → a = b) →
      l1.Pairwise le → l2.Pairwise le → l1.Perm l2 → l1 = l2
  | [], l2, _, _, _, hp => by simpa using hp.symm
  | a :: t1, [], _, _, _, hp => by simp at hp
  | a :: t1, b :: t2, hanti, h1, h2, hp => by
    rw [List.pairwise_cons] at h1 h2
    have hab : a = b := by
      have ha : a ∈ b :: t2 := hp.mem_iff.1 (List.mem_cons_self ..)
      have hb : b ∈ a :: t1 := hp.mem_iff.2 (List.mem_cons_self ..)
      rcases List.mem_cons.1 ha with h | ha'
      · exact h
      rcases List.mem_cons.1 hb with h | hb'
      · exact h.symm
      exact hanti a (List.mem_cons_self ..) b hb (h1.1 b hb') (h2.1 a ha')
    subst hab
    have ht : t1.Perm t2 := (List.perm_cons a).1 hp
    have := eq_of_perm_of_sorted t1 t2
      (fun x hx y hy => hanti x (List.mem_cons_of_mem _ hx) y (List.mem_cons_of_mem _ hy))
      h1.2 h2.2 ht
    rw [this]

theorem sortSpecs_eq_of_perm (l1 l2 : List Spec) (hp : l1.Perm l2)
    (hkey : ∀ a ∈ l1, ∀ b ∈ l1, a.priority = b.priority → a.name = b.name → a = b) :
    sortSpecs l1 = sortSpecs l2 := by
  apply eq_of_perm_of_sorted (le := fun a b => Spec.le a b = true)
  · intro a ha b hb hab hba
    have ha' := (sortSpecs_perm' l1).mem_iff.1 ha
    have hb' := (sortSpecs_perm' l1).mem_iff.1 hb
    have := Spec.le_antisymm_key hab hba
    exact hkey a ha' b hb' this.1 this.2
  · exact sortSpecs_sorted' l1
  · exact sortSpecs_sorted' l2
  · exact (sortSpecs_perm' l1).trans (hp.trans (sortSpecs_perm' l2).symm)

/-- the sum of a list of pipelines, as a value -/
def sumP (l : List P) : P :=
  ⟨l.flatMap (·.items), l.flatMap (·.post), l.flatMap (·.fins), l.flatMap (·.vars)⟩

theorem foldl_add (l : List Spec) (init : P) :
    l.foldl (fun acc s => acc.add s.pipe) init = init.add (sumP (l.map (·.pipe))) := by
  induction l generalizing init with
  | nil => cases init; simp [sumP, P.add]
  | cons x xs ih =>
    rw [List.foldl_cons, ih]
    simp [sumP, P.add, List.append_assoc]

theorem resolve_eq (l : List Spec) : resolve l = sumP ((sortSpecs l).map (·.pipe)) := by
  rw [resolve, foldl_add]; simp [P.add, P.empty, sumP]

/-! ## Trace structure -/

/-- the events of one condition of a rule: conversion, then the query post-processing items -/
def condBlock (p : P) (r c : Nat) : List Ev :=
  Ev.convert r c :: p.post.map (fun q => Ev.postprocess q r c)

/-- the events of one rule: all transformations, then its conditions one after the other -/
def ruleBlock (p : P) (r : Nat × Nat) : List Ev :=
  p.items.map (fun i => Ev.transform i r.1) ++ (List.range r.2).flatMap (condBlock p r.1)

def Ev.isFinalize : Ev → Bool
  | .finalize _ => true
  | _ => false

def Ev.isTransform : Ev → Bool
  | .transform _ _ => true
  | _ => false

def Ev.isPostprocess : Ev → Bool
  | .postprocess _ _ _ => true
  | _ => false

/-- the rule an event belongs to (finalizers belong to no rule) -/
def Ev.rule? : Ev → Option Nat
  | .transform _ r => some r
  | .convert r _ => some r
  | .postprocess _ r _ => some r
  | .finalize _ => none

def Ev.isTransformOfRule (r : Nat) : Ev → Bool
  | .transform _ r' => r' == r
  | _ => false

/-- convert or postprocess event of rule `r` -/
def Ev.isQueryOfRule (r : Nat) : Ev → Bool
  | .convert r' _ => r' == r
  | .postprocess _ r' _ => r' == r
  | _ => false

theorem trace_eq (p : P) (rules : List (Nat × Nat)) :
    trace p rules = rules.flatMap (ruleBlock p) ++ p.fins.map Ev.finalize := rfl

theorem condBlock_rule (p : P) (r c : Nat) : ∀ e ∈ condBlock p r c, e.rule? = some r := by
  intro e he
  simp only [condBlock, List.mem_cons, List.mem_map] at he
  rcases he with rfl | ⟨q, _, rfl⟩ <;> rfl

theorem ruleBlock_rule (p : P) (r : Nat × Nat) : ∀ e ∈ ruleBlock p r, e.rule? = some r.1 := by
  intro e he
  simp only [ruleBlock, List.mem_append, List.mem_map, List.mem_flatMap] at he
  rcases he with ⟨i, _, rfl⟩ | ⟨c, _, hc⟩
  · rfl
  · exact condBlock_rule p r.1 c e hc

theorem condBlock_filter_transform (p : P) (r c : Nat) :
    (condBlock p r c).filter Ev.isTransform = [] := by
  simp [condBlock, Ev.isTransform, List.filter_eq_nil_iff]

theorem rule?_of_isQueryOfRule {r : Nat} {e : Ev} (h : e.isQueryOfRule r = true) :
    e.rule? = some r := by
  cases e <;> simp_all [Ev.isQueryOfRule, Ev.rule?]

theorem rule?_of_isTransformOfRule {r : Nat} {e : Ev} (h : e.isTransformOfRule r = true) :
    e.rule? = some r := by
  cases e <;> simp_all [Ev.isTransformOfRule, Ev.rule?]

/-- inside one rule's block no convert/postprocess event precedes a transformation -/
theorem ruleBlock_pairwise (p : P) (x : Nat × Nat) (r : Nat) :
    (ruleBlock p x).Pairwise
      (fun e1 e2 => ¬ (e1.isQueryOfRule r = true ∧ e2.isTransformOfRule r = true)) := by
  rw [ruleBlock, List.pairwise_append]
  refine ⟨?_, ?_, ?_⟩
  · rw [List.pairwise_map]
    exact List.pairwise_of_forall (fun _ _ => by simp [Ev.isQueryOfRule])
  · apply List.pairwise_of_forall_mem_list
    intro e1 _ e2 h2
    simp only [List.mem_flatMap, condBlock, List.mem_cons, List.mem_map] at h2
    rcases h2 with ⟨c, _, rfl | ⟨q, _, rfl⟩⟩ <;> simp [Ev.isTransformOfRule]
  · intro e1 h1 e2 _
    simp only [List.mem_map] at h1
    rcases h1 with ⟨i, _, rfl⟩
    simp [Ev.isQueryOfRule]

theorem ruleBlock_filter_transformOfRule (p : P) (x : Nat × Nat) (r : Nat) :
    (ruleBlock p x).filter (Ev.isTransformOfRule r) =
      if x.1 == r then p.items.map (fun i => Ev.transform i r) else [] := by
  rw [ruleBlock, List.filter_append]
  have h2 : ((List.range x.2).flatMap (condBlock p x.1)).filter (Ev.isTransformOfRule r) = [] := by
    simp only [List.filter_eq_nil_iff, List.mem_flatMap, condBlock, List.mem_cons, List.mem_map]
    rintro e ⟨c, _, rfl | ⟨q, _, rfl⟩⟩ <;> simp [Ev.isTransformOfRule]
  rw [h2, List.append_nil]
  by_cases h : x.1 = r
  · subst h
    simp [List.filter_eq_self, Ev.isTransformOfRule]
  · simp [h, List.filter_eq_nil_iff, Ev.isTransformOfRule]

theorem flatMap_ite_const {α β : Type} (c : α → Bool) (L : List β) (l : List α) :
    l.flatMap (fun a => if c a then L else []) = (l.filter c).flatMap (fun _ => L) := by
  induction l with
  | nil => rfl
  | cons a t ih =>
    rw [List.flatMap_cons, ih, List.filter_cons]
    cases c a <;> simp

theorem trace_filter_transformOfRule (p : P) (rules : List (Nat × Nat)) (r : Nat) :
    (trace p rules).filter (Ev.isTransformOfRule r) =
      (rules.filter (fun x => x.1 == r)).flatMap
        (fun _ => p.items.map (fun i => Ev.transform i r)) := by
  rw [trace_eq, List.filter_append, List.filter_flatMap]
  have : (p.fins.map Ev.finalize).filter (Ev.isTransformOfRule r) = [] := by
    simp [List.filter_eq_nil_iff, Ev.isTransformOfRule]
  rw [this, List.append_nil]
  simp only [ruleBlock_filter_transformOfRule]
  exact flatMap_ite_const (fun x => x.1 == r) _ rules

/-! ### every conversion is immediately followed by exactly its post-processing events -/

def posts (p : P) (r c : Nat) : List Ev := p.post.map (fun q => Ev.postprocess q r c)

/-- the list does not start with a postprocess event -/
def NoPostHead (l : List Ev) : Prop := ∀ e, l.head? = some e → e.isPostprocess = false

theorem NoPostHead.append {l1 l2 : List Ev} (h1 : NoPostHead l1) (h2 : NoPostHead l2) :
    NoPostHead (l1 ++ l2) := by
  cases l1 with
  | nil => exact h2
  | cons a t => exact h1

/-- compositional form of "each `convert r c` in `l` is followed by `posts p r c` and then by
something that is not a postprocess event", whatever (not starting with a postprocess event)
follows `l` -/
def ConvOK (p : P) (l : List Ev) : Prop :=
  NoPostHead l ∧ ∀ tail, NoPostHead tail → ∀ xs r c ys, l = xs ++ Ev.convert r c :: ys →
    ∃ zs, ys ++ tail = posts p r c ++ zs ∧ NoPostHead zs

theorem ConvOK.nil (p : P) : ConvOK p [] := by
  refine ⟨fun e h => by simp at h, ?_⟩
  intro tail _ xs r c ys h
  simp at h

theorem ConvOK.append {p : P} {l1 l2 : List Ev} (h1 : ConvOK p l1) (h2 : ConvOK p l2) :
    ConvOK p (l1 ++ l2) := by
  refine ⟨h1.1.append h2.1, ?_⟩
  intro tail ht xs r c ys h
  rw [List.append_eq_append_iff] at h
  rcases h with ⟨as, rfl, h⟩ | ⟨bs, rfl, h⟩
  · exact h2.2 tail ht as r c ys h
  · cases bs with
    | nil =>
      simp only [List.nil_append] at h
      have := h2.2 tail ht [] r c ys (by simpa using h.symm)
      simpa using this
    | cons b bs' =>
      simp only [List.cons_append, List.cons.injEq] at h
      obtain ⟨rfl, rfl⟩ := h
      obtain ⟨zs, hz, hz'⟩ := h1.2 (l2 ++ tail) (h2.1.append ht) xs r c bs' rfl
      exact ⟨zs, by rw [List.append_assoc]; exact hz, hz'⟩

theorem ConvOK.flatMap {α : Type} {p : P} (f : α → List Ev) (l : List α)
    (h : ∀ a ∈ l, ConvOK p (f a)) : ConvOK p (l.flatMap f) := by
  induction l with
  | nil => exact ConvOK.nil p
  | cons a t ih =>
    rw [List.flatMap_cons]
    exact (h a (List.mem_cons_self ..)).append
      (ih (fun b hb => h b (List.mem_cons_of_mem _ hb)))

theorem ConvOK.of_no_convert {p : P} {l : List Ev} (h1 : NoPostHead l)
    (h2 : ∀ r c, Ev.convert r c ∉ l) : ConvOK p l := by
  refine ⟨h1, ?_⟩
  intro tail _ xs r c ys h
  exact absurd (by rw [h]; simp) (h2 r c)

theorem ConvOK.condBlock (p : P) (r c : Nat) : ConvOK p (condBlock p r c) := by
  refine ⟨fun e h => by simp [Pipe.condBlock] at h; subst h; rfl, ?_⟩
  intro tail ht xs r' c' ys h
  cases xs with
  | nil =>
    simp only [Pipe.condBlock, List.nil_append, List.cons.injEq, Ev.convert.injEq] at h
    obtain ⟨⟨rfl, rfl⟩, rfl⟩ := h
    exact ⟨tail, rfl, ht⟩
  | cons x xs' =>
    simp only [Pipe.condBlock, List.cons_append, List.cons.injEq] at h
    have : Ev.convert r' c' ∈ p.post.map (fun q => Ev.postprocess q r c) := by
      rw [h.2]; simp
    simp at this

theorem ConvOK.ruleBlock (p : P) (x : Nat × Nat) : ConvOK p (ruleBlock p x) := by
  rw [Pipe.ruleBlock]
  apply ConvOK.append
  · apply ConvOK.of_no_convert
    · intro e h
      cases hi : p.items with
      | nil => simp [hi] at h
      | cons a t => simp [hi] at h; subst h; rfl
    · intro r c; simp
  · exact ConvOK.flatMap _ _ (fun c _ => ConvOK.condBlock p x.1 c)

theorem ConvOK.trace (p : P) (rules : List (Nat × Nat)) : ConvOK p (trace p rules) := by
  rw [trace_eq]
  apply ConvOK.append
  · exact ConvOK.flatMap _ _ (fun x _ => ConvOK.ruleBlock p x)
  · apply ConvOK.of_no_convert
    · intro e h
      cases hi : p.fins with
      | nil => simp [hi] at h
      | cons a t => simp [hi] at h; subst h; rfl
    · intro r c; simp

/-! ## Ownership -/

/-- the item objects re-pointed by an operation -/
def Op.touched (s : Sys) : Op → List Nat
  | .define items => items
  | .add a b => s.pipes.getD a [] ++ s.pipes.getD b []

/-- creating pipeline object number `s.pipes.length` from `items` -/
def Sys.push (s : Sys) (items : List Nat) : Sys :=
  { pipes := s.pipes ++ [items], owner := s.owner ++ items.map (fun i => (i, s.pipes.length)) }

theorem step_eq_push (s : Sys) (op : Op) : s.step op = s.push (op.touched s) := by
  cases op <;> rfl

theorem define_eq_push (s : Sys) (items : List Nat) :
    s.define items = (s.push items, s.pipes.length) := rfl

theorem add_eq_push (s : Sys) (a b : Nat) :
    s.add a b = (s.push (s.pipes.getD a [] ++ s.pipes.getD b []), s.pipes.length) := rfl

theorem ownerOf_push (s : Sys) (items : List Nat) (i : Nat) :
    (s.push items).ownerOf i = if i ∈ items then some s.pipes.length else s.ownerOf i := by
  simp only [Sys.ownerOf, Sys.push, List.filter_append, List.getLast?_append]
  split
  · next h =>
    have : (List.filter (fun kv => kv.1 == i) (items.map (fun i => (i, s.pipes.length)))).getLast?
        = some (i, s.pipes.length) := by
      induction items with
      | nil => simp at h
      | cons x xs ih =>
        simp only [List.map_cons, List.filter_cons]
        by_cases hx : i ∈ xs
        · have := ih hx
          split
          · rw [List.getLast?_cons, this]; rfl
          · exact this
        · have hxi : x = i := by
            rcases List.mem_cons.1 h with h | h
            · exact h.symm
            · exact absurd h hx
          subst hxi
          have : List.filter (fun kv => kv.1 == x) (xs.map (fun i => (i, s.pipes.length))) = [] := by
            simp only [List.filter_eq_nil_iff, List.mem_map]
            rintro _ ⟨j, hj, rfl⟩
            simp only [beq_iff_eq]
            rintro rfl
            exact hx hj
          simp [this]
    rw [this]; rfl
  · next h =>
    have : List.filter (fun kv => kv.1 == i) (items.map (fun i => (i, s.pipes.length))) = [] := by
      simp only [List.filter_eq_nil_iff, List.mem_map]
      rintro _ ⟨j, hj, rfl⟩
      simp only [beq_iff_eq]
      rintro rfl
      exact h hj
    rw [this]; simp

theorem pipes_push_new (s : Sys) (items : List Nat) :
    (s.push items).pipes.getD s.pipes.length [] = items := by
  simp [Sys.push, List.getD_eq_getElem?_getD]

theorem pipes_push_old (s : Sys) (items : List Nat) (p : Nat) (hp : p < s.pipes.length) :
    (s.push items).pipes.getD p [] = s.pipes.getD p [] := by
  simp [Sys.push, List.getD_eq_getElem?_getD, List.getElem?_append_left hp]

theorem push_length (s : Sys) (items : List Nat) :
    (s.push items).pipes.length = s.pipes.length + 1 := by
  simp [Sys.push]

theorem visible_iff' (s : Sys) (p : Nat) :
    s.visible p = s.specVisible p ↔ ∀ i ∈ s.pipes.getD p [], s.ownerOf i = some p := by
  simp [Sys.visible, Sys.specVisible, List.filter_eq_self]

theorem push_visible_new (s : Sys) (items : List Nat) :
    (s.push items).visible s.pipes.length = (s.push items).specVisible s.pipes.length := by
  rw [visible_iff', pipes_push_new]
  intro i hi
  rw [ownerOf_push, if_pos hi]

/-- one further operation keeps an existing pipeline object intact iff it was intact and the
operation re-points none of its items -/
theorem push_visible_old_iff (s : Sys) (items : List Nat) (p : Nat) (hp : p < s.pipes.length) :
    (s.push items).visible p = (s.push items).specVisible p ↔
      s.visible p = s.specVisible p ∧ ∀ i ∈ s.pipes.getD p [], i ∉ items := by
  rw [visible_iff', visible_iff', pipes_push_old s items p hp]
  constructor
  · intro h
    refine ⟨fun i hi => ?_, fun i hi hmem => ?_⟩
    · have := h i hi
      rw [ownerOf_push] at this
      split at this
      · simp at this; omega
      · exact this
    · have := h i hi
      rw [ownerOf_push, if_pos hmem] at this
      simp at this; omega
  · intro ⟨h1, h2⟩ i hi
    rw [ownerOf_push, if_neg (h2 i hi)]
    exact h1 i hi

/-- no operation of `ops` (run from `s`) re-points an item of pipeline object `p` -/
def Undisturbed : Sys → List Op → Nat → Prop
  | _, [], _ => True
  | s, op :: ops, p => (∀ i ∈ s.pipes.getD p [], i ∉ op.touched s) ∧ Undisturbed (s.step op) ops p

theorem run_cons (s : Sys) (op : Op) (ops : List Op) : s.run (op :: ops) = (s.step op).run ops := rfl

theorem run_append (s : Sys) (o1 o2 : List Op) : s.run (o1 ++ o2) = (s.run o1).run o2 := by
  simp [Sys.run, List.foldl_append]

theorem run_visible_iff (s : Sys) (ops : List Op) (p : Nat) (hp : p < s.pipes.length) :
    (s.run ops).visible p = (s.run ops).specVisible p ↔
      s.visible p = s.specVisible p ∧ Undisturbed s ops p := by
  induction ops generalizing s with
  | nil => simp [Sys.run, Undisturbed]
  | cons op ops ih =>
    rw [run_cons, ih (s.step op) (by rw [step_eq_push, push_length]; omega)]
    simp only [Undisturbed]
    rw [step_eq_push, push_visible_old_iff s _ p hp, and_assoc]

theorem run_pipes_old (s : Sys) (ops : List Op) (p : Nat) (hp : p < s.pipes.length) :
    (s.run ops).pipes.getD p [] = s.pipes.getD p [] ∧ p < (s.run ops).pipes.length := by
  induction ops generalizing s with
  | nil => exact ⟨rfl, hp⟩
  | cons op ops ih =>
    have hp' : p < (s.step op).pipes.length := by rw [step_eq_push, push_length]; omega
    rw [run_cons]
    refine ⟨(ih (s.step op) hp').1.trans ?_, (ih (s.step op) hp').2⟩
    rw [step_eq_push, pipes_push_old s _ p hp]

/-- defining pipelines whose items are all different from the items of `p` does not disturb `p` -/
theorem undisturbed_defines (s : Sys) (defs : List (List Nat)) (p : Nat) (hp : p < s.pipes.length)
    (hfresh : ∀ d ∈ defs, ∀ i ∈ d, i ∉ s.pipes.getD p []) :
    Undisturbed s (defs.map Op.define) p := by
  induction defs generalizing s with
  | nil => trivial
  | cons d ds ih =>
    simp only [List.map_cons, Undisturbed, Op.touched]
    refine ⟨fun i hi hid => hfresh d (List.mem_cons_self ..) i hid hi, ?_⟩
    apply ih
    · rw [step_eq_push, push_length]; omega
    · intro d' hd' i hi
      rw [step_eq_push, pipes_push_old s _ p hp]
      exact hfresh d' (List.mem_cons_of_mem _ hd') i hi


/-! ## The parametrised definitions (`P.addBy`, `keyLe`, `resolveBy`, `initPipelineBy`) -/

theorem addBy_std : P.addBy AddShape.std = P.add := rfl

theorem keyLe_total (ks : List KeyComp) (a b : Spec) : keyLe ks a b = true ∨ keyLe ks b a = true := by
  induction ks with
  | nil => simp [keyLe]
  | cons k ks ih =>
    simp only [keyLe, Bool.or_eq_true, Bool.and_eq_true, decide_eq_true_eq, beq_iff_eq]
    rcases Nat.lt_trichotomy (k.get a) (k.get b) with h | h | h
    · exact .inl (.inl h)
    · rcases ih with h' | h'
      · exact .inl (.inr ⟨h, h'⟩)
      · exact .inr (.inr ⟨h.symm, h'⟩)
    · exact .inr (.inl h)

theorem keyLe_trans (ks : List KeyComp) {a b c : Spec} (h1 : keyLe ks a b = true)
    (h2 : keyLe ks b c = true) : keyLe ks a c = true := by
  induction ks with
  | nil => simp [keyLe]
  | cons k ks ih =>
    simp only [keyLe, Bool.or_eq_true, Bool.and_eq_true, decide_eq_true_eq, beq_iff_eq] at *
    rcases h1 with h1 | ⟨e1, h1⟩ <;> rcases h2 with h2 | ⟨e2, h2⟩
    · exact .inl (by omega)
    · exact .inl (by omega)
    · exact .inl (by omega)
    · exact .inr ⟨by omega, ih h1 h2⟩

/-- two specifiers that compare `≤` both ways agree on every component of the key -/
theorem keyLe_antisymm (ks : List KeyComp) {a b : Spec} (h1 : keyLe ks a b = true)
    (h2 : keyLe ks b a = true) : ∀ k ∈ ks, k.get a = k.get b := by
  induction ks with
  | nil => intro k hk; cases hk
  | cons k ks ih =>
    simp only [keyLe, Bool.or_eq_true, Bool.and_eq_true, decide_eq_true_eq, beq_iff_eq] at h1 h2
    have he : k.get a = k.get b := by
      rcases h1 with h1 | ⟨e1, _⟩ <;> rcases h2 with h2 | ⟨e2, _⟩ <;> omega
    have t1 : keyLe ks a b = true := by
      rcases h1 with h1 | ⟨_, h1⟩
      · omega
      · exact h1
    have t2 : keyLe ks b a = true := by
      rcases h2 with h2 | ⟨_, h2⟩
      · omega
      · exact h2
    intro k' hk'
    rcases List.mem_cons.1 hk' with rfl | hk'
    · exact he
    · exact ih t1 t2 k' hk'

theorem keyLe_std (a b : Spec) : keyLe stdKey a b = Spec.le a b := by
  show (decide (a.priority < b.priority) || (a.priority == b.priority &&
      (decide (a.name < b.name) || (a.name == b.name && true)))) =
    (decide (a.priority < b.priority) || (a.priority == b.priority && decide (a.name ≤ b.name)))
  congr 2
  rw [Bool.and_true, Bool.eq_iff_iff]
  simp only [Bool.or_eq_true, decide_eq_true_eq, beq_iff_eq]
  omega

theorem insertSortedBy_std (x : Spec) (l : List Spec) :
    insertSortedBy (keyLe stdKey) x l = insertSorted x l := by
  induction l with
  | nil => rfl
  | cons y ys ih => simp only [insertSortedBy, insertSorted, keyLe_std, ih]

theorem sortSpecsBy_std (l : List Spec) : sortSpecsBy (keyLe stdKey) l = sortSpecs l := by
  induction l with
  | nil => rfl
  | cons x xs ih => simp only [sortSpecsBy, sortSpecs, ih, insertSortedBy_std]

theorem resolveBy_std (l : List Spec) : resolveBy stdKey l = resolve l := by
  simp only [resolveBy, resolve, sortSpecsBy_std]

section SortBy
variable (le : Spec → Spec → Bool)

theorem insertSortedBy_perm (x : Spec) (l : List Spec) : (insertSortedBy le x l).Perm (x :: l) := by
  induction l with
  | nil => simp [insertSortedBy]
  | cons y ys ih =>
    simp only [insertSortedBy]
    split
    · exact (List.Perm.cons y ih).trans (List.Perm.swap x y ys)
    · exact List.Perm.refl _

theorem sortSpecsBy_perm (l : List Spec) : (sortSpecsBy le l).Perm l := by
  induction l with
  | nil => simp [sortSpecsBy]
  | cons x xs ih =>
    simp only [sortSpecsBy]
    exact (insertSortedBy_perm le x _).trans (List.Perm.cons x ih)

theorem insertSortedBy_sorted (htot : ∀ a b, le a b = true ∨ le b a = true)
    (htr : ∀ a b c, le a b = true → le b c = true → le a c = true) (x : Spec) (l : List Spec)
    (h : l.Pairwise (fun a b => le a b = true)) :
    (insertSortedBy le x l).Pairwise (fun a b => le a b = true) := by
  induction l with
  | nil => simp [insertSortedBy]
  | cons y ys ih =>
    simp only [insertSortedBy]
    rw [List.pairwise_cons] at h
    cases hxy : le x y with
    | false =>
      simp only [Bool.not_false, if_true]
      rw [List.pairwise_cons]
      refine ⟨?_, ih h.2⟩
      intro z hz
      have := (insertSortedBy_perm le x ys).mem_iff.1 hz
      rcases List.mem_cons.1 this with rfl | hz'
      · rcases htot z y with h' | h'
        · simp [hxy] at h'
        · exact h'
      · exact h.1 z hz'
    | true =>
      simp only [Bool.not_true, Bool.false_eq_true, if_false]
      rw [List.pairwise_cons]
      refine ⟨?_, List.pairwise_cons.2 h⟩
      intro z hz
      rcases List.mem_cons.1 hz with rfl | hz'
      · exact hxy
      · exact htr _ _ _ hxy (h.1 z hz')

theorem sortSpecsBy_sorted (htot : ∀ a b, le a b = true ∨ le b a = true)
    (htr : ∀ a b c, le a b = true → le b c = true → le a c = true) (l : List Spec) :
    (sortSpecsBy le l).Pairwise (fun a b => le a b = true) := by
  induction l with
  | nil => simp [sortSpecsBy]
  | cons x xs ih => exact insertSortedBy_sorted le htot htr x _ ih

end SortBy

/-- the resolver's result does not depend on the order in which the pipelines are named, for *any*
sort key, provided the key identifies the pipeline among those named -/
theorem sortSpecsBy_eq_of_perm (ks : List KeyComp) (l1 l2 : List Spec) (hp : l1.Perm l2)
    (hkey : ∀ a ∈ l1, ∀ b ∈ l1, (∀ k ∈ ks, k.get a = k.get b) → a = b) :
    sortSpecsBy (keyLe ks) l1 = sortSpecsBy (keyLe ks) l2 := by
  apply eq_of_perm_of_sorted (le := fun a b => keyLe ks a b = true)
  · intro a ha b hb hab hba
    have ha' := (sortSpecsBy_perm _ l1).mem_iff.1 ha
    have hb' := (sortSpecsBy_perm _ l1).mem_iff.1 hb
    exact hkey a ha' b hb' (keyLe_antisymm ks hab hba)
  · exact sortSpecsBy_sorted _ (keyLe_total ks) (fun _ _ _ => keyLe_trans ks) l1
  · exact sortSpecsBy_sorted _ (keyLe_total ks) (fun _ _ _ => keyLe_trans ks) l2
  · exact (sortSpecsBy_perm _ l1).trans (hp.trans (sortSpecsBy_perm _ l2).symm)

theorem foldl_addP (l : List P) (init : P) : l.foldl P.add init = init.add (sumP l) := by
  induction l generalizing init with
  | nil => cases init; simp [sumP, P.add]
  | cons x xs ih =>
    rw [List.foldl_cons, ih]
    simp [sumP, P.add, List.append_assoc]

theorem initPipelineBy_eq (order : List Slot) (b u f : P) :
    initPipelineBy order b u f = sumP (order.map (Slot.pick b u f)) := by
  have : initPipelineBy order b u f = (order.map (Slot.pick b u f)).foldl P.add P.empty := by
    simp [initPipelineBy, List.foldl_map]
  rw [this, foldl_addP]
  simp [P.add, P.empty, sumP]

theorem initPipelineBy_std (b u f : P) : initPipelineBy stdInitOrder b u f = initPipeline b u f := by
  cases b; cases u; cases f
  simp [initPipelineBy, stdInitOrder, initPipeline, Slot.pick, P.add, P.empty]

end SigmaVerif.Pipe
