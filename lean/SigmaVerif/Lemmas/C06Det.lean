import SigmaVerif.Lemmas.C06Item
/-!
# C06 helper lemmas, part 2: detections (`from_definition` / `to_plain`), the detection section
-/
namespace SigmaVerif.Ser
open SigmaVerif.SStr SigmaVerif.SStrSpec SigmaVerif.Mods
open SigmaVerif.Rule (PV splitOn pvToVal)

/-! ## side conditions -/

def nodupB : List Str → Bool
  | [] => true
  | a :: r => !r.contains a && nodupB r

/-- a value that `to_plain` of a keyword item turns into `None` -/
def nullVals (v : PVals) : Bool := v.toList == [PV.null]

/-- definitions whose detection is written as a bare scalar -/
def scalarish : PDef → Bool
  | .val _ => true
  | .list [.val _] => true
  | .map [(k, v)] => k.isEmpty && v.toList.length == 1
  | _ => false

mutual
/-- The definitions for which one write/load cycle gives back the same object:
* string values satisfy the D3 side condition (`pvOk`);
* no keyword detection consisting of a single null (written as `None`, dropped, the detection is
  then empty: `to_plain` raises);
* a map does not mix the empty key (keyword item without modifiers) with other keys (`to_plain`
  raises "mixed detection item types"), and its keys stay distinct when written with the
  canonical modifier identifiers (otherwise the merge loop fuses or refuses them);
* a list of definitions does not consist only of definitions written as bare scalars (such a list
  is written as a list of scalars, which loads as ONE keyword item: same meaning, other object;
  if it has one element the dict form needs a second cycle to settle). -/
def Good : PDef → Bool
  | .val v => pvOk false v && !(v == PV.null)
  | .map kvs =>
      kvs.all (fun kv => valsOk kv.1 kv.2) &&
      (match kvs with
       | [(k, v)] => !(k.isEmpty && nullVals v)
       | _ => kvs.all (fun kv => !kv.1.isEmpty)) &&
      nodupB (kvs.map (fun kv => canonKey kv.1))
  | .list es =>
      if es.all PDef.isVal then
        (PDef.getVals es).all (pvOk false) && !(PDef.getVals es == [PV.null])
      else GoodL es && !(es.all scalarish)
def GoodL : List PDef → Bool
  | [] => true
  | e :: es => Good e && GoodL es
end

/-! ## small facts -/

theorem keyRaw_nil : keyRaw [] = false := by decide

theorem all_isVal_map (vs : List PV) : (vs.map PDef.val).all PDef.isVal = true := by
  induction vs with
  | nil => rfl
  | cons a r ih => simp [PDef.isVal, ih]

theorem getVals_map (vs : List PV) : PDef.getVals (vs.map PDef.val) = vs := by
  induction vs with
  | nil => rfl
  | cons a r ih => simp [PDef.getVals, ih]

theorem getVals_length (es : List PDef) (h : es.all PDef.isVal = true) :
    (PDef.getVals es).length = es.length := by
  induction es with
  | nil => rfl
  | cons e r ih =>
    cases e with
    | val v =>
      simp only [List.all_cons, Bool.and_eq_true] at h
      simp [PDef.getVals, ih h.2]
    | map kvs => simp [PDef.isVal] at h
    | list l => simp [PDef.isVal] at h

theorem collapse_isOne (l : List PV) :
    (∃ x, collapse l = .one x) ↔ l.length = 1 := by
  unfold collapse
  constructor
  · rintro ⟨x, h⟩
    split at h
    · rfl
    · cases h
  · intro h
    match l, h with
    | [a], _ => exact ⟨a, rfl⟩

theorem norm1_collapse (l : List PV) : norm1 (collapse l) = collapse l := by
  unfold collapse
  split
  · rfl
  · rename_i h
    unfold norm1
    split
    · rename_i x heq
      cases heq
      exact absurd rfl (h x)
    · rfl

/-- a keyword item's value that is not a single null is not written as `None` -/
theorem bare_notNone (v : PVals) (h : nullVals v = false) :
    isNone (IPlain.bare (valsOf [] v)).toPDef = false := by
  unfold valsOf nullVals at *
  rw [keyRaw_nil]
  generalize v.toList = l at *
  match l with
  | [] => rfl
  | [x] =>
    cases x with
    | str s => simp [collapse, IPlain.toPDef, normPV, isNone]
    | num n => simp [collapse, IPlain.toPDef, normPV, isNone]
    | bool b => simp [collapse, IPlain.toPDef, normPV, isNone]
    | null => simp at h
  | a :: b :: r => simp [collapse, IPlain.toPDef, isNone]

theorem fromDef_isNode (env : Env) (p : PDef) (d : Det) (h : fromDef env p = .ok d) :
    d.isItem = false := by
  cases p with
  | val v =>
    rw [fromDef] at h
    split at h
    · cases h; rfl
    · cases h
  | map kvs =>
    rw [fromDef] at h
    split at h
    · cases h
    · cases h
    · cases h; rfl
  | list es =>
    rw [fromDef] at h
    split at h
    · split at h
      · cases h; rfl
      · cases h
    · split at h
      · cases h; rfl
      · cases h

/-! ## a detection that consists of one keyword item without modifiers -/

theorem bare_node (env : Env) (i : Item) (v' : PVals)
    (hp : toPlainItem i = .ok (.bare v')) (hr : fromMapping env [] v' = .ok i)
    (hn : isNone (IPlain.bare v').toPDef = false) :
    toPlainDet (.node [.item i] false) = .ok (IPlain.bare v').toPDef ∧
    fromDef env (IPlain.bare v').toPDef = .ok (.node [.item i] false) := by
  constructor
  · rw [toPlainDet]
    simp only [List.any_cons, List.any_nil, Det.isItem, Bool.not_true, Bool.or_false,
      Bool.and_false, Bool.false_eq_true, if_false, toPlainDets, toPlainDet, hp]
    simp [List.filter, hn, combine]
  · cases v' with
    | one x =>
      simp only [IPlain.toPDef]
      rw [fromDef, hr]
    | many vs =>
      simp only [IPlain.toPDef]
      rw [fromDef]
      simp only [all_isVal_map, if_true, getVals_map, hr]

/-! ## maps -/

theorem items_plain (env : Env) : ∀ (kvs : List (Str × PVals)) (its : List Item),
    mapE (fun kv => fromMapping env kv.1 kv.2) kvs = .ok its →
    toPlainDets (its.map .item) = .ok (kvs.map fun kv => (plainOf kv.1 kv.2).toPDef) := by
  intro kvs
  induction kvs with
  | nil =>
    intro its h
    simp only [mapE, Except.ok.injEq] at h
    subst h
    simp [toPlainDets]
  | cons kv r ih =>
    intro its h
    simp only [mapE] at h
    cases h1 : fromMapping env kv.1 kv.2 with
    | error e => simp [h1] at h
    | ok it =>
      cases h2 : mapE (fun kv => fromMapping env kv.1 kv.2) r with
      | error e => simp [h1, h2] at h
      | ok its' =>
        simp only [h1, h2, Except.ok.injEq] at h
        subst h
        simp only [List.map_cons, toPlainDets, toPlainDet,
          (item_plain_reload env kv.1 kv.2 it h1).1, ih its' h2]

theorem items_reload (env : Env) : ∀ (kvs : List (Str × PVals)) (its : List Item),
    mapE (fun kv => fromMapping env kv.1 kv.2) kvs = .ok its →
    (∀ kv ∈ kvs, valsOk kv.1 kv.2 = true ∧ kv.1.isEmpty = false) →
    mapE (fun kv => fromMapping env kv.1 kv.2)
      (kvs.map fun kv => (canonKey kv.1, valsOf kv.1 kv.2)) = .ok its := by
  intro kvs
  induction kvs with
  | nil => intro its h _; simpa [mapE] using h
  | cons kv r ih =>
    intro its h hg
    simp only [mapE] at h
    cases h1 : fromMapping env kv.1 kv.2 with
    | error e => simp [h1] at h
    | ok it =>
      cases h2 : mapE (fun kv => fromMapping env kv.1 kv.2) r with
      | error e => simp [h1, h2] at h
      | ok its' =>
        simp only [h1, h2, Except.ok.injEq] at h
        subst h
        obtain ⟨hv, hk⟩ := hg kv (by simp)
        have hr := (item_plain_reload env kv.1 kv.2 it h1).2 hv
        simp only [plainOf, hk, Bool.false_eq_true, if_false, fromIPlain] at hr
        simp only [List.map_cons, mapE, hr, ih its' h2 (fun x hx => hg x (by simp [hx]))]

theorem contains_of_nodupB_append (a b : List Str) (k : Str)
    (h : nodupB (a ++ k :: b) = true) : a.contains k = false := by
  induction a with
  | nil => rfl
  | cons x a ih =>
    simp only [List.cons_append, nodupB, Bool.and_eq_true, Bool.not_eq_true'] at h
    have hx : x ≠ k := by
      intro e
      have := h.1
      simp [e] at this
    have := ih h.2
    simp only [List.contains_cons, this, Bool.or_false, beq_eq_false_iff_ne, ne_eq]
    exact fun e => hx e.symm

theorem get?_none (md : Dict) (k : Str) (h : (md.map (·.1)).contains k = false) :
    md.get? k = none := by
  unfold Dict.get?
  induction md with
  | nil => rfl
  | cons p r ih =>
    simp only [List.map_cons, List.contains_cons, Bool.or_eq_false_iff] at h
    have hp : (p.1 == k) = false := by
      have := h.1
      simp only [beq_eq_false_iff_ne, ne_eq] at this ⊢
      exact fun e => this e.symm
    simp only [List.find?, hp]
    exact ih h.2

/-- with distinct keys the merging loop only collects the pairs -/
theorem mergeAll_singles : ∀ (l md : Dict), nodupB ((md ++ l).map (·.1)) = true →
    mergeAll md (l.map (fun kv => PDef.map [kv])) = .ok (md ++ l) := by
  intro l
  induction l with
  | nil => intro md _; simp [mergeAll]
  | cons kv r ih =>
    intro md h
    have hk : (md.map (·.1)).contains kv.1 = false := by
      apply contains_of_nodupB_append (md.map (·.1)) (r.map (·.1)) kv.1
      simpa using h
    simp only [List.map_cons, mergeAll, mergeDict, mergeKV, get?_none md kv.1 hk]
    have := ih (md ++ [kv]) (by simpa using h)
    simpa using this

theorem all_isMap_singles (l : Dict) : (l.map (fun kv => PDef.map [kv])).all PDef.isMap = true := by
  induction l with
  | nil => rfl
  | cons a r ih => simp [PDef.isMap, ih]

theorem filter_notNone_singles (l : Dict) :
    (l.map (fun kv => PDef.map [kv])).filter (fun p => !isNone p) = l.map (fun kv => PDef.map [kv]) := by
  induction l with
  | nil => rfl
  | cons a r ih =>
    rw [List.map_cons, List.filter_cons]
    have : (!isNone (PDef.map [a])) = true := rfl
    rw [if_pos this, ih]

/-- `combine` on the converted items of a map whose written keys are distinct -/
theorem combine_singles (l : Dict) (hne : l ≠ []) (hnd : nodupB (l.map (·.1)) = true)
    (hn : ∀ kv ∈ l, norm1 kv.2 = kv.2) :
    combine false false (l.map (fun kv => PDef.map [kv])) = .ok (.map l) := by
  match l, hne with
  | [kv], _ => simp [combine]
  | a :: b :: r, _ =>
    have hall := all_isMap_singles (a :: b :: r)
    have hm := mergeAll_singles (a :: b :: r) [] (by simpa using hnd)
    have hnorm : (a :: b :: r).map (fun p => (p.1, norm1 p.2)) = a :: b :: r := by
      have : ∀ (l : Dict), (∀ kv ∈ l, norm1 kv.2 = kv.2) → l.map (fun p => (p.1, norm1 p.2)) = l := by
        intro l
        induction l with
        | nil => intro _; rfl
        | cons x t ih =>
          intro h
          simp only [List.map_cons, h x (by simp), ih (fun y hy => h y (by simp [hy]))]
      exact this _ hn
    unfold combine
    simp only [Bool.false_eq_true, if_false]
    rw [List.map_cons, List.map_cons] at hall hm ⊢
    simp only [Bool.false_and, Bool.false_eq_true, if_false]
    rw [hall]
    have hany : (PDef.map [a] :: PDef.map [b] :: List.map (fun kv => PDef.map [kv]) r).any PDef.isMap = true := by
      simp [PDef.isMap]
    simp only [hany, Bool.not_true, Bool.and_false, Bool.false_eq_true, if_false, if_true]
    simp only [List.nil_append] at hm
    rw [hm]
    simp only [hnorm]

/-! ## lists of definitions -/

theorem combine_notNone (hd l : Bool) (ps : List PDef) (q : PDef)
    (hps : ∀ p ∈ ps, isNone p = false) (h : combine hd l ps = .ok q) : isNone q = false := by
  unfold combine at h
  split at h
  · split at h
    · cases h
    · cases h; rfl
  · split at h
    · cases h
    · cases h; exact hps _ (by simp)
    · split at h
      · cases h; rfl
      · split at h
        · cases h
        · split at h
          · split at h
            · cases h; rfl
            · cases h
          · cases h; rfl

theorem toPlainDet_node_notNone (cs : List Det) (l : Bool) (q : PDef)
    (h : toPlainDet (.node cs l) = .ok q) : isNone q = false := by
  rw [toPlainDet] at h
  split at h
  · cases h
  · split at h
    · cases h
    · apply combine_notNone _ _ _ _ _ h
      intro p hp
      have := (List.mem_filter.mp hp).2
      simpa using this

theorem fromDefs_length (env : Env) : ∀ (es : List PDef) (ds : List Det),
    fromDefs env es = .ok ds → ds.length = es.length := by
  intro es
  induction es with
  | nil => intro ds h; rw [fromDefs] at h; cases h; rfl
  | cons e r ih =>
    intro ds h
    rw [fromDefs] at h
    split at h
    · cases h
    · split at h
      · cases h
      · cases h
        rename_i ds' hds
        simp [ih ds' hds]

theorem filter_notNone_id (qs : List PDef) (h : ∀ q ∈ qs, isNone q = false) :
    qs.filter (fun p => !isNone p) = qs := by
  apply List.filter_eq_self.mpr
  intro q hq
  simp [h q hq]

theorem any_isItem_false (ds : List Det) (h : ∀ d ∈ ds, d.isItem = false) :
    ds.any Det.isItem = false := by
  induction ds with
  | nil => rfl
  | cons d r ih =>
    simp only [List.any_cons, h d (by simp), ih (fun x hx => h x (by simp [hx])), Bool.or_false]

theorem any_notItem_true (ds : List Det) (hne : ds ≠ []) (h : ∀ d ∈ ds, d.isItem = false) :
    ds.any (fun c => !c.isItem) = true := by
  cases ds with
  | nil => exact absurd rfl hne
  | cons d r => simp [h d (by simp)]

theorem scalarish_of_allVal_one (es : List PDef) (h : es.all PDef.isVal = true)
    (hl : es.length = 1) : scalarish (.list es) = true := by
  match es, hl with
  | [e], _ =>
    cases e with
    | val v => rfl
    | map kvs => simp [PDef.isVal] at h
    | list l => simp [PDef.isVal] at h

mutual
/-- one write/load cycle of a loaded detection gives the same object (`Good` definitions) -/
theorem det_rt (env : Env) : ∀ (p : PDef) (d : Det), Good p = true → fromDef env p = .ok d →
    ∃ q, toPlainDet d = .ok q ∧ fromDef env q = .ok d ∧ (q.isVal = true → scalarish p = true)
  | .val v, d, hg, h => by
    rw [fromDef] at h
    rw [Good] at hg
    simp only [Bool.and_eq_true, Bool.not_eq_true', beq_eq_false_iff_ne, ne_eq] at hg
    cases hi : fromMapping env [] (.one v) with
    | error e => simp [hi] at h
    | ok i =>
      simp only [hi, Except.ok.injEq] at h
      subst h
      obtain ⟨hp, hr⟩ := item_plain_reload env [] (.one v) i hi
      have hvo : valsOk [] (.one v) = true := by
        simp [valsOk, PVals.toList, keyRaw_nil, hg.1]
      have hr := hr hvo
      simp only [plainOf, List.isEmpty_nil, if_true, fromIPlain] at hp hr
      have hn : isNone (IPlain.bare (valsOf [] (.one v))).toPDef = false := by
        apply bare_notNone
        simp only [nullVals, PVals.toList, beq_eq_false_iff_ne, ne_eq, List.cons.injEq, and_true]
        exact hg.2
      obtain ⟨h1, h2⟩ := bare_node env i _ hp hr hn
      exact ⟨_, h1, h2, fun _ => rfl⟩
  | .map kvs, d, hg, h => by
    rw [fromDef] at h
    unfold Good at hg
    simp only [Bool.and_eq_true] at hg
    obtain ⟨⟨hvals, hshape⟩, hnd⟩ := hg
    cases hi : mapE (fun kv => fromMapping env kv.1 kv.2) kvs with
    | error e => simp [hi] at h
    | ok its =>
      have hlen := mapE_ok_length _ kvs its hi
      simp only [hi] at h
      -- the single keyword item without modifiers
      by_cases hbare : ∃ v, kvs = [([], v)]
      · obtain ⟨v, rfl⟩ := hbare
        simp only [mapE] at hi
        cases hi1 : fromMapping env [] v with
        | error e => simp [hi1] at hi
        | ok i =>
          simp only [hi1, Except.ok.injEq] at hi
          subst hi
          simp only [List.map_cons, List.map_nil, Except.ok.injEq] at h
          subst h
          have hshape : nullVals v = false := by simpa using hshape
          obtain ⟨hp, hr⟩ := item_plain_reload env [] v i hi1
          have hr := hr (by simpa using hvals)
          simp only [plainOf, List.isEmpty_nil, if_true, fromIPlain] at hp hr
          obtain ⟨h1, h2⟩ := bare_node env i _ hp hr (bare_notNone v hshape)
          refine ⟨_, h1, h2, ?_⟩
          intro hv
          simp only [scalarish, List.isEmpty_nil, Bool.true_and, beq_iff_eq]
          have : ∃ x, valsOf [] v = .one x := by
            cases hc : valsOf [] v with
            | one x => exact ⟨x, rfl⟩
            | many vs => simp [hc, IPlain.toPDef, PDef.isVal] at hv
          unfold valsOf at this
          simpa using (collapse_isOne _).mp this
      · -- all keys are non-empty
        have hkeys : ∀ kv ∈ kvs, valsOk kv.1 kv.2 = true ∧ kv.1.isEmpty = false := by
          intro kv hkv
          refine ⟨by simpa using (List.all_eq_true.mp hvals) kv hkv, ?_⟩
          match kvs, hshape, hbare, hkv with
          | [(k, v)], hs, hb, hkv =>
            simp only [List.mem_singleton] at hkv
            subst hkv
            cases hk : k.isEmpty with
            | false => rfl
            | true =>
              exfalso
              have : k = [] := by simpa using hk
              subst this
              exact hb ⟨v, rfl⟩
          | [], _, _, hkv => simp at hkv
          | a :: b :: r, hs, _, hkv =>
            have := (List.all_eq_true.mp hs) kv hkv
            simpa using this
        have hne : kvs ≠ [] := by
          intro e; subst e
          simp only [mapE, Except.ok.injEq] at hi
          subst hi
          simp at h
        have hits : its ≠ [] := by
          intro e; subst e
          simp only [List.length_nil] at hlen
          exact hne (List.length_eq_zero_iff.mp hlen.symm)
        have hd : d = .node (its.map .item) false := by
          cases its with
          | nil => exact absurd rfl hits
          | cons a t => simp only [Except.ok.injEq] at h; exact h.symm
        subst hd
        let kvs' : Dict := kvs.map fun kv => (canonKey kv.1, valsOf kv.1 kv.2)
        have hps : toPlainDets (its.map .item) = .ok (kvs'.map (fun kv => PDef.map [kv])) := by
          rw [items_plain env kvs its hi, List.map_map]
          congr 1
          apply List.map_congr_left
          intro kv hkv
          simp [plainOf, (hkeys kv hkv).2, IPlain.toPDef]
        have hrel := items_reload env kvs its hi hkeys
        have hne' : kvs' ≠ [] := by simpa [kvs'] using hne
        have hk' : kvs'.map (·.1) = kvs.map (fun kv => canonKey kv.1) := by
          simp [kvs', List.map_map, Function.comp_def]
        have hcomb := combine_singles kvs' hne' (by rw [hk']; exact hnd)
          (by
            intro kv hkv
            simp only [kvs', List.mem_map] at hkv
            obtain ⟨x, _, rfl⟩ := hkv
            exact norm1_collapse _)
        refine ⟨.map kvs', ?_, ?_, by simp [PDef.isVal]⟩
        · rw [toPlainDet]
          have hany : (its.map Det.item).any Det.isItem = true := by
            cases its with
            | nil => exact absurd rfl hits
            | cons a t => simp [Det.isItem]
          have hany2 : (its.map Det.item).any (fun c => !c.isItem) = false := by
            simp [List.any_eq_false, Det.isItem]
          simp only [hany, hany2, Bool.and_false, Bool.false_eq_true, if_false, hps,
            filter_notNone_singles, hcomb]
        · rw [fromDef]
          simp only [kvs'] at hrel ⊢
          rw [hrel]
          cases its with
          | nil => exact absurd rfl hits
          | cons a t => rfl
  | .list es, d, hg, h => by
    rw [fromDef] at h
    rw [Good] at hg
    by_cases hall : es.all PDef.isVal = true
    · simp only [hall, if_true, Bool.and_eq_true, Bool.not_eq_true', beq_eq_false_iff_ne, ne_eq] at h hg
      cases hi : fromMapping env [] (.many (PDef.getVals es)) with
      | error e => simp [hi] at h
      | ok i =>
        simp only [hi, Except.ok.injEq] at h
        subst h
        obtain ⟨hp, hr⟩ := item_plain_reload env [] (.many (PDef.getVals es)) i hi
        have hr := hr (by simpa [valsOk, PVals.toList, keyRaw_nil] using hg.1)
        simp only [plainOf, List.isEmpty_nil, if_true, fromIPlain] at hp hr
        have hn := bare_notNone (.many (PDef.getVals es))
          (by simpa [nullVals, PVals.toList] using hg.2)
        obtain ⟨h1, h2⟩ := bare_node env i _ hp hr hn
        refine ⟨_, h1, h2, ?_⟩
        intro hv
        have : ∃ x, valsOf [] (.many (PDef.getVals es)) = .one x := by
          cases hc : valsOf [] (.many (PDef.getVals es)) with
          | one x => exact ⟨x, rfl⟩
          | many vs => simp [hc, IPlain.toPDef, PDef.isVal] at hv
        unfold valsOf at this
        have hl := (collapse_isOne _).mp this
        simp only [PVals.toList, List.length_map] at hl
        rw [getVals_length es hall] at hl
        exact scalarish_of_allVal_one es hall hl
    · simp only [hall, Bool.false_eq_true, if_false, Bool.and_eq_true, Bool.not_eq_true'] at h hg
      cases hds : fromDefs env es with
      | error e => simp [hds] at h
      | ok ds =>
        simp only [hds, Except.ok.injEq] at h
        subst h
        obtain ⟨qs, hq1, hq2, hq3, hq4, hq5, hq6⟩ := dets_rt env es ds hg.1 hds
        have hes : es ≠ [] := by intro e; subst e; simp at hall
        have hdsne : ds ≠ [] := by
          intro e; subst e
          have := fromDefs_length env es [] hds
          exact hes (List.length_eq_zero_iff.mp this.symm)
        have hqall : qs.all PDef.isVal = false := by
          cases hc : qs.all PDef.isVal with
          | false => rfl
          | true => rw [hq3 hc] at hg; exact absurd hg.2 (by simp)
        refine ⟨.list qs, ?_, ?_, by simp [PDef.isVal]⟩
        · rw [toPlainDet]
          simp only [any_isItem_false ds hq5, any_notItem_true ds hdsne hq5, Bool.false_and,
            Bool.false_eq_true, if_false, hq1, filter_notNone_id qs hq4, combine, if_true, Bool.not_true]
        · rw [fromDef]
          simp only [hqall, Bool.false_eq_true, if_false, hq2]
theorem dets_rt (env : Env) : ∀ (es : List PDef) (ds : List Det), GoodL es = true →
    fromDefs env es = .ok ds →
    ∃ qs, toPlainDets ds = .ok qs ∧ fromDefs env qs = .ok ds ∧
      (qs.all PDef.isVal = true → es.all scalarish = true) ∧
      (∀ q ∈ qs, isNone q = false) ∧ (∀ d ∈ ds, d.isItem = false) ∧ qs.length = es.length
  | [], ds, _, h => by
    rw [fromDefs] at h
    cases h
    exact ⟨[], by simp [toPlainDets], by simp [fromDefs], by simp, by simp, by simp, rfl⟩
  | e :: es, ds, hg, h => by
    rw [fromDefs] at h
    rw [GoodL] at hg
    simp only [Bool.and_eq_true] at hg
    cases hd : fromDef env e with
    | error x => simp [hd] at h
    | ok d =>
      cases hds : fromDefs env es with
      | error x => simp [hd, hds] at h
      | ok ds' =>
        simp only [hd, hds, Except.ok.injEq] at h
        subst h
        obtain ⟨q, hq1, hq2, hq3⟩ := det_rt env e d hg.1 hd
        obtain ⟨qs, hs1, hs2, hs3, hs4, hs5, hs6⟩ := dets_rt env es ds' hg.2 hds
        have hnode := fromDef_isNode env e d hd
        have hqn : isNone q = false := by
          cases d with
          | item i => simp [Det.isItem] at hnode
          | node cs l => exact toPlainDet_node_notNone cs l q hq1
        refine ⟨q :: qs, ?_, ?_, ?_, ?_, ?_, by simp [hs6]⟩
        · simp only [toPlainDets, hq1, hs1]
        · simp only [fromDefs, hq2, hs2]
        · intro hv
          simp only [List.all_cons, Bool.and_eq_true] at hv ⊢
          exact ⟨hq3 hv.1, hs3 hv.2⟩
        · intro x hx
          rcases List.mem_cons.mp hx with rfl | hx
          · exact hqn
          · exact hs4 x hx
        · intro x hx
          rcases List.mem_cons.mp hx with rfl | hx
          · exact hnode
          · exact hs5 x hx
end

end SigmaVerif.Ser
