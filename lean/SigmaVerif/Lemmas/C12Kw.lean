import SigmaVerif.Lemmas.C12Append
/-! Helper lemmas for C12: a keyword list mapped to a field is a `contains` item on that field. -/
namespace SigmaVerif.Lemmas.C12
open SigmaVerif.SStr SigmaVerif.Mods SigmaVerif.Rule SigmaVerif.Rewrite

/-- substring semantics: the pattern of a keyword, wrapped in multi-character wildcards (unless there already) -/
def wrapStars (p : SStr) : SStr := addStarBack (addStarFront p)

/-- the atom of a keyword after the keywords were mapped to field `g` -/
def kwAtom (g : Str) : Atom → Atom
  | .str none c p => .str (some g) c (wrapStars p)
  | a => a

theorem phNames_parseAux (e : Bool) : ∀ (x : Str) (b : Bool), Placeholder.phNames (parseAux e b x) = []
  | [], b => by cases b <;> simp [parseAux, Placeholder.phNames]
  | c :: x, true => by
    simp only [parseAux]
    split <;> simp [Placeholder.phNames, phNames_parseAux e x false]
  | c :: x, false => by
    simp only [parseAux]
    split
    · exact phNames_parseAux e x true
    · split
      · simp [Placeholder.phNames, phNames_parseAux e x false]
      · split <;> simp [Placeholder.phNames, phNames_parseAux e x false]

theorem parse_noPh' (s : Str) : Placeholder.noPh (parse s) = true := by
  simp [Placeholder.noPh, parse, phNames_parseAux]

theorem phNames_append_star : ∀ q : SStr, Placeholder.phNames (q ++ [Part.star]) = Placeholder.phNames q
  | [] => rfl
  | a :: q => by cases a <;> simp [Placeholder.phNames, phNames_append_star q]

theorem noPh_wrapStars (p : SStr) (h : Placeholder.noPh p = true) : Placeholder.noPh (wrapStars p) = true := by
  have hnames : ∀ q : SStr, Placeholder.phNames (addStarFront q) = Placeholder.phNames q := by
    intro q; unfold addStarFront; split <;> simp [Placeholder.phNames]
  have hback : ∀ q : SStr, Placeholder.phNames (addStarBack q) = Placeholder.phNames q := by
    intro q; unfold addStarBack; split
    · rfl
    · exact phNames_append_star q
  simp only [Placeholder.noPh, wrapStars, hback, hnames] at h ⊢
  exact h

theorem contains_key (g : Str) (hne : g ≠ []) (hbar : '|' ∉ g) :
    fieldOf (g ++ "|contains".toList) = some g ∧ keyMods (g ++ "|contains".toList) = ["contains".toList] := by
  have hj : g ++ "|contains".toList = g ++ joinMods ["contains".toList] := by simp [joinMods]
  have hs := splitOn_join g hbar ["contains".toList] (by decide)
  have h1 := splitOn_key (g ++ "|contains".toList)
  rw [hj, hs] at h1
  simp only [List.cons.injEq] at h1
  rw [hj]
  refine ⟨?_, h1.2.symm⟩
  unfold fieldOf
  rw [← h1.1]
  cases g with
  | nil => exact absurd rfl hne
  | cons a b => rfl

theorem mapM'_contains (env : Env) (hf : Bool) : ∀ strs : List Str,
    mapM' (applyToVal env hf true "contains" 8) (strs.map (fun s => Val.str false (parse s))) =
      .ok (strs.map (fun s => Val.str false (wrapStars (parse s))))
  | [] => rfl
  | s :: strs => by
    simp only [List.map_cons, mapM', mapM'_contains env hf strs]
    rfl

theorem mapME_strs (cx : Ctx) (field : Option Str) (c : Bool) (k : SStr → SStr) (hk : ∀ p, Placeholder.noPh p = true → Placeholder.noPh (k p) = true) :
    ∀ strs : List Str, mapME (valBE' cx field) (strs.map (fun s => Val.str c (k (parse s)))) =
      .ok (strs.map (fun s => BE.atom (.str field c (k (parse s)))))
  | [] => rfl
  | s :: strs => by
    have : valBE' cx field (Val.str c (k (parse s))) = .ok (BE.atom (.str field c (k (parse s)))) := by
      simp [valBE', strBE, hk _ (parse_noPh' s)]
    simp only [List.map_cons, mapME, this, mapME_strs cx field c k hk strs]

/-- keywords mapped to a field: the same strings, as substring matches on that field -/
theorem keyword_item_sem (cx : Ctx) (g : Str) (hne : g ≠ []) (hbar : '|' ∉ g) (strs : List Str) (hs : strs ≠ []) :
    itemBE cx (some (g ++ "|contains".toList)) (strs.map PV.str) =
      (itemBE cx none (strs.map PV.str)).map (mapAtoms (kwAtom g)) := by
  rw [itemBE_none, itemBE_some, itemBE_some]
  obtain ⟨h1, h2⟩ := contains_key g hne hbar
  rw [h1, h2]
  have hk0 : fieldOf [] = none ∧ keyMods [] = [] := by decide
  rw [hk0.1, hk0.2]
  have hvals : (strs.map PV.str).map (pvToVal false) = strs.map (fun s => Val.str false (parse s)) := by
    simp [pvToVal, Function.comp_def]
  -- the two chains
  have hc1 : chainOf cx true ["contains".toList] (strs.map PV.str) =
      .ok { hasField := true, vals := strs.map (fun s => Val.str false (wrapStars (parse s))) } := by
    unfold chainOf applyChain
    have hre : (["contains".toList].map String.ofList).contains "re" = false := by decide
    have hfind : List.find? (fun m => !(valueModifiers.contains m || listModifiers.contains m)) (["contains".toList].map String.ofList) = none := by decide
    rw [hre, hfind, hvals]
    have hmods : ["contains".toList].map String.ofList = ["contains"] := by decide
    rw [hmods]
    simp only [applyChainAux]
    have hmod : ∀ it : Item, applyModifier cx.env true "contains" it =
        match mapM' (applyToVal cx.env it.hasField true "contains" 8) it.vals with
        | .ok vs => .ok { it with vals := vs }
        | .error e => .error e := fun it => rfl
    rw [hmod]
    simp only [mapM'_contains]
  have hc0 : chainOf cx false [] (strs.map PV.str) =
      .ok { hasField := false, vals := strs.map (fun s => Val.str false (parse s)) } := by
    unfold chainOf applyChain
    simp [applyChainAux, hvals]
  unfold itemOf
  simp only [Option.isSome_some, Option.isSome_none, hc1, hc0]
  rw [itemBody_cons _ _ _ (by simpa using hs), itemBody_cons _ _ _ (by simpa using hs)]
  simp only []
  rw [mapME_strs cx (some g) false wrapStars noPh_wrapStars strs]
  have := mapME_strs cx none false id (fun p h => h) strs
  simp only [id] at this
  rw [this]
  simp only [Except.map, linkBE, Bool.false_eq_true, ↓reduceIte]
  congr 1
  match strs with
  | [] => exact absurd rfl hs
  | [s] => simp [mapAtoms, kwAtom]
  | s1 :: s2 :: rest => simp [mapAtoms, mapAtomsL_eq_map, kwAtom, Function.comp_def]

theorem allStr_iff (vs : List PV) : allStr vs = true ↔ ∃ strs : List Str, vs = strs.map PV.str := by
  constructor
  · intro h
    refine ⟨strsOf vs, ?_⟩
    induction vs with
    | nil => rfl
    | cons v vs ih =>
      simp only [allStr, List.all_cons, Bool.and_eq_true] at h
      have ih' := ih (by simpa [allStr] using h.2)
      cases v with
      | str s => simpa [strsOf] using ih'
      | _ => simp at h
  · rintro ⟨strs, rfl⟩
    simp [allStr]

end SigmaVerif.Lemmas.C12
