import SigmaVerif.Spec.Cond
/-! Helper lemmas for C12: the specification reader `CondSpec.read` is compositional for
`name and (c)` — the text an added condition is documented to produce. -/
namespace SigmaVerif.Lemmas.C12Read
open SigmaVerif.Cond SigmaVerif.CondSpec

abbrev Parser := List Tok → Option (E × List Tok)

/-- a parser returns a suffix no longer than its input -/
def Len (p : Parser) : Prop := ∀ xs e r, p xs = some (e, r) → r.length ≤ xs.length

theorem len_rAtom {sub : Parser} (hs : Len sub) : Len (rAtom sub) := by
  intro xs e r h
  unfold rAtom at h
  split at h
  · rename_i ts
    split at h
    · rename_i e' ts' hsub
      cases h
      have := hs _ _ _ hsub
      simp at this ⊢; omega
    · cases h
  · rename_i w ts
    split at h
    · split at h
      · cases h; simp; omega
      · split at h
        · cases h; simp
        · cases h
    · split at h
      · cases h; simp
      · cases h
  · cases h

theorem len_rNotF {sub : Parser} (hs : Len sub) : ∀ n, Len (rNotF sub n)
  | 0 => by intro xs e r h; simp [rNotF] at h
  | n + 1 => by
    intro xs e r h
    unfold rNotF at h
    split at h
    · rename_i w ts'
      split at h
      · cases hr : rNotF sub n ts' with
        | none => rw [hr] at h; cases h
        | some p =>
          obtain ⟨e', r'⟩ := p
          rw [hr] at h; cases h
          have := len_rNotF hs n _ _ _ hr
          simp; omega
      · exact len_rAtom hs _ _ _ h
    · exact len_rAtom hs _ _ _ h

theorem len_rChain (kw : Str) (mk : E → E → E) {sub : Parser} (hs : Len sub) :
    ∀ (n : Nat) (acc : E) (xs : List Tok) (e : E) (r : List Tok),
      rChain kw mk sub n acc xs = some (e, r) → r.length ≤ xs.length
  | 0, acc, xs, e, r, h => by simp [rChain] at h; simp [h.2]
  | n + 1, acc, xs, e, r, h => by
    unfold rChain at h
    split at h
    · rename_i w ts'
      split at h
      · cases hsub : sub ts' with
        | none => rw [hsub] at h; cases h
        | some p =>
          obtain ⟨e1, r1⟩ := p
          rw [hsub] at h
          have h1 := hs _ _ _ hsub
          have h2 := len_rChain kw mk hs n _ _ _ _ h
          simp; omega
      · cases h; simp
    · cases h; simp

/-- the AND level of the reader over a given NOT level -/
def rAndOf (rNot : Parser) : Parser := fun ts =>
  match rNot ts with
  | some (e, r) => rChain "and".toList .and rNot r.length e r
  | none => none

theorem rOrF_succ (f : Nat) (ts : List Tok) :
    rOrF (f + 1) ts =
      match rAndOf (rNotF (rOrF f) (ts.length + 1)) ts with
      | some (e, r) => rChain "or".toList .or (rAndOf (rNotF (rOrF f) (ts.length + 1))) r.length e r
      | none => none := rfl

theorem len_rAndOf {rNot : Parser} (hn : Len rNot) : Len (rAndOf rNot) := by
  intro ys e' r' hy
  unfold rAndOf at hy
  cases h3 : rNot ys with
  | none => rw [h3] at hy; cases hy
  | some p3 =>
    obtain ⟨e3, r3⟩ := p3
    rw [h3] at hy
    have := hn _ _ _ h3
    have := len_rChain _ _ hn _ _ _ _ _ hy
    omega

theorem len_rOrF : ∀ f, Len (rOrF f)
  | 0 => by intro xs e r h; simp [rOrF] at h
  | f + 1 => by
    intro xs e r h
    have hAnd : Len (rAndOf (rNotF (rOrF f) (xs.length + 1))) := len_rAndOf (len_rNotF (len_rOrF f) _)
    rw [rOrF_succ] at h
    cases h1 : rAndOf (rNotF (rOrF f) (xs.length + 1)) xs with
    | none => rw [h1] at h; cases h
    | some p1 =>
      obtain ⟨e1, r1⟩ := p1
      rw [h1] at h
      have a := hAnd _ _ _ h1
      have c := len_rChain _ _ hAnd _ _ _ _ _ h
      omega

/-! ### a closing parenthesis (and whatever follows it) after the input does not change what is read -/

/-- `p'` reads from `xs ++ S` what `p` reads from `xs`, leaving `S` in addition -/
def Stable (S : List Tok) (p p' : Parser) : Prop :=
  ∀ xs e r, p xs = some (e, r) → p' (xs ++ S) = some (e, r ++ S)

theorem stable_rAtom (S' : List Tok) {sub sub' : Parser} (hs : Stable (.rp :: S') sub sub') :
    Stable (.rp :: S') (rAtom sub) (rAtom sub') := by
  intro xs e r h
  rcases xs with _ | ⟨t, ts⟩
  · simp [rAtom] at h
  · cases t with
    | rp => simp [rAtom] at h
    | lp =>
      simp only [rAtom] at h
      cases hsub : sub ts with
      | none => rw [hsub] at h; cases h
      | some p =>
        obtain ⟨e', r'⟩ := p
        rw [hsub] at h
        rcases r' with _ | ⟨t', ts'⟩
        · cases h
        · cases t' with
          | rp =>
            cases h
            have := hs _ _ _ hsub
            simp only [List.cons_append, rAtom, this]
          | lp => cases h
          | word _ => cases h
    | word w =>
      cases hq : quantWord w with
      | none =>
        simp only [rAtom, hq] at h ⊢
        simp only [List.cons_append, rAtom, hq]
        split at h
        · cases h; simp_all
        · cases h
      | some q =>
        rcases ts with _ | ⟨t1, ts1⟩
        · simp only [rAtom, hq] at h
          simp only [List.cons_append, List.nil_append, rAtom, hq]
          split at h
          · cases h; simp_all
          · cases h
        · cases t1 with
          | lp =>
            simp only [rAtom, hq] at h
            simp only [List.cons_append, rAtom, hq]
            split at h
            · cases h; simp_all
            · cases h
          | rp =>
            simp only [rAtom, hq] at h
            simp only [List.cons_append, rAtom, hq]
            split at h
            · cases h; simp_all
            · cases h
          | word o =>
            rcases ts1 with _ | ⟨t2, ts2⟩
            · simp only [rAtom, hq] at h
              simp only [List.cons_append, List.nil_append, rAtom, hq]
              split at h
              · cases h; simp_all
              · cases h
            · cases t2 with
              | lp =>
                simp only [rAtom, hq] at h
                simp only [List.cons_append, rAtom, hq]
                split at h
                · cases h; simp_all
                · cases h
              | rp =>
                simp only [rAtom, hq] at h
                simp only [List.cons_append, rAtom, hq]
                split at h
                · cases h; simp_all
                · cases h
              | word p =>
                simp only [rAtom, hq] at h
                simp only [List.cons_append, rAtom, hq]
                split at h
                · cases h; simp_all
                · split at h
                  · cases h; simp_all
                  · cases h

theorem stable_rNotF (S' : List Tok) {sub sub' : Parser} (hs : Stable (.rp :: S') sub sub') :
    ∀ n n', n ≤ n' → Stable (.rp :: S') (rNotF sub n) (rNotF sub' n')
  | 0, _, _ => by intro xs e r h; simp [rNotF] at h
  | n + 1, 0, hle => by omega
  | n + 1, n' + 1, hle => by
    intro xs e r h
    unfold rNotF at h
    rcases xs with _ | ⟨t, ts⟩
    · simp [rAtom] at h
    · cases t with
      | word w =>
        simp only at h
        simp only [List.cons_append, rNotF]
        split at h
        · rename_i hw
          simp only [hw, ↓reduceIte]
          cases hr : rNotF sub n ts with
          | none => rw [hr] at h; cases h
          | some p =>
            obtain ⟨e', r'⟩ := p
            rw [hr] at h; cases h
            rw [stable_rNotF S' hs n n' (by omega) _ _ _ hr]
        · rename_i hw
          simp only [hw, ↓reduceIte]
          exact stable_rAtom S' hs _ _ _ h
      | lp => simp only [List.cons_append, rNotF]; exact stable_rAtom S' hs _ _ _ h
      | rp => simp [rAtom] at h

/-- a chain with enough fuel for its input reads the same from the extended input -/
theorem stable_rChain (S' : List Tok) (kw : Str) (mk : E → E → E) {sub sub' : Parser}
    (hl : Len sub) (hs : Stable (.rp :: S') sub sub') :
    ∀ (n n' : Nat) (acc : E) (xs : List Tok) (e : E) (r : List Tok), xs.length ≤ n → (xs ++ .rp :: S').length ≤ n' →
      rChain kw mk sub n acc xs = some (e, r) → rChain kw mk sub' n' acc (xs ++ .rp :: S') = some (e, r ++ .rp :: S')
  | 0, n', acc, xs, e, r, hn, _, h => by
    have hx : xs = [] := List.eq_nil_of_length_eq_zero (by omega)
    subst hx
    simp [rChain] at h
    obtain ⟨rfl, rfl⟩ := h
    cases n' <;> simp [rChain]
  | n + 1, n', acc, xs, e, r, hn, hn', h => by
    rcases xs with _ | ⟨t, ts⟩
    · simp [rChain] at h
      obtain ⟨rfl, rfl⟩ := h
      cases n' <;> simp [rChain]
    · cases n' with
      | zero => simp at hn'
      | succ n' =>
        cases t with
        | word w =>
          simp only [rChain] at h
          simp only [List.cons_append, rChain]
          split at h
          · rename_i hw
            simp only [hw, ↓reduceIte]
            cases hsub : sub ts with
            | none => rw [hsub] at h; cases h
            | some p =>
              obtain ⟨e1, r1⟩ := p
              rw [hsub] at h
              rw [hs _ _ _ hsub]
              have hlen := hl _ _ _ hsub
              simp only
              refine stable_rChain S' kw mk hl hs n n' _ r1 e r ?_ ?_ h
              · simp at hn; omega
              · simp at hn' ⊢; omega
          · rename_i hw
            simp only [hw, ↓reduceIte]
            cases h; rfl
        | lp => simp only [rChain] at h; cases h; simp [rChain]
        | rp => simp only [rChain] at h; cases h; simp [rChain]

theorem stable_rAndOf (S' : List Tok) {rNot rNot' : Parser} (hl : Len rNot) (hs : Stable (.rp :: S') rNot rNot') :
    Stable (.rp :: S') (rAndOf rNot) (rAndOf rNot') := by
  intro xs e r h
  unfold rAndOf at h ⊢
  cases h1 : rNot xs with
  | none => rw [h1] at h; cases h
  | some p =>
    obtain ⟨e1, r1⟩ := p
    rw [h1] at h
    rw [hs _ _ _ h1]
    exact stable_rChain S' _ _ hl hs _ _ _ _ _ _ (Nat.le_refl _) (Nat.le_refl _) h

theorem stable_rOrF (S' : List Tok) : ∀ f f', f ≤ f' → Stable (.rp :: S') (rOrF f) (rOrF f')
  | 0, _, _ => by intro xs e r h; simp [rOrF] at h
  | f + 1, 0, hle => by omega
  | f + 1, f' + 1, hle => by
    intro xs e r h
    rw [rOrF_succ] at h ⊢
    have ih := stable_rOrF S' f f' (by omega)
    have hlN : Len (rNotF (rOrF f) (xs.length + 1)) := len_rNotF (len_rOrF f) _
    have hsN : Stable (.rp :: S') (rNotF (rOrF f) (xs.length + 1)) (rNotF (rOrF f') ((xs ++ .rp :: S').length + 1)) :=
      stable_rNotF S' ih _ _ (by simp)
    have hlA := len_rAndOf hlN
    have hsA := stable_rAndOf S' hlN hsN
    cases h1 : rAndOf (rNotF (rOrF f) (xs.length + 1)) xs with
    | none => rw [h1] at h; cases h
    | some p =>
      obtain ⟨e1, r1⟩ := p
      rw [h1] at h
      rw [hsA _ _ _ h1]
      exact stable_rChain S' _ _ hlA hsA _ _ _ _ _ _ (Nat.le_refl _) (Nat.le_refl _) h

/-! ### tokens of `name and (c)` -/

theorem flushWord_acc (cur : Str) (acc : List Tok) : flushWord cur acc = acc ++ flushWord cur [] := by
  unfold flushWord; split <;> simp

theorem tokenize_acc : ∀ (s cur : Str) (acc : List Tok), tokenize s cur acc = acc ++ tokenize s cur []
  | [], cur, acc => by simp only [tokenize]; exact flushWord_acc cur acc
  | c :: s, cur, acc => by
    simp only [tokenize]
    split
    · rw [tokenize_acc s [] (flushWord cur acc), tokenize_acc s [] (flushWord cur []), flushWord_acc cur acc]; simp
    · split
      · rw [tokenize_acc s [] (flushWord cur acc ++ [Tok.lp]), tokenize_acc s [] (flushWord cur [] ++ [Tok.lp]), flushWord_acc cur acc]; simp
      · split
        · rw [tokenize_acc s [] (flushWord cur acc ++ [Tok.rp]), tokenize_acc s [] (flushWord cur [] ++ [Tok.rp]), flushWord_acc cur acc]; simp
        · exact tokenize_acc s (c :: cur) acc

def isDelim (c : Char) : Bool := isWs c || c == '(' || c == ')'

theorem tokenize_clean : ∀ (name rest cur : Str), (∀ c ∈ name, isDelim c = false) →
    tokenize (name ++ rest) cur [] = tokenize rest (name.reverse ++ cur) []
  | [], rest, cur, _ => rfl
  | c :: name, rest, cur, h => by
    have hc := h c (by simp)
    simp only [isDelim, Bool.or_eq_false_iff] at hc
    obtain ⟨⟨h1, h2⟩, h3⟩ := hc
    simp only [List.cons_append, tokenize, h1, h2, h3]
    rw [tokenize_clean name rest (c :: cur) (fun d hd => h d (by simp [hd]))]
    simp

theorem tokenize_snoc_rp : ∀ (c cur : Str), tokenize (c ++ [')']) cur [] = tokenize c cur [] ++ [.rp]
  | [], cur => by simp [tokenize, isWs, wsChars, flushWord]
  | x :: c, cur => by
    simp only [List.cons_append, tokenize]
    split
    · rw [tokenize_acc, tokenize_snoc_rp c [], tokenize_acc c [] (flushWord cur [])]; simp
    · split
      · rw [tokenize_acc, tokenize_snoc_rp c [], tokenize_acc c [] (flushWord cur [] ++ [Tok.lp])]; simp
      · split
        · rw [tokenize_acc, tokenize_snoc_rp c [], tokenize_acc c [] (flushWord cur [] ++ [Tok.rp])]; simp
        · exact tokenize_snoc_rp c (x :: cur)

/-- a detection name the reader takes as a name -/
def NameOK (name : Str) : Prop :=
  name ≠ [] ∧ quantWord name = none ∧ isKw name = false ∧ allIn stdGrammar.identChars name = true

theorem identChars_clean : ∀ c ∈ stdGrammar.identChars, isDelim c = false := by decide

theorem nameOK_clean {name : Str} (h : NameOK name) : ∀ c ∈ name, isDelim c = false := by
  intro c hc
  have := h.2.2.2
  simp only [allIn, List.all_eq_true] at this
  exact identChars_clean c (by simpa using this c hc)

theorem str_and_lp : " and (".toList = [' ', 'a', 'n', 'd', ' ', '('] := by decide
theorem str_not_sp : "not ".toList = ['n', 'o', 't', ' '] := by decide
theorem str_and : "and".toList = ['a', 'n', 'd'] := by decide
theorem str_not : "not".toList = ['n', 'o', 't'] := by decide

theorem tokens_wrap (name c : Str) (h : NameOK name) :
    tokenize (name ++ " and (".toList ++ c ++ [')']) [] [] =
      [.word name, .word "and".toList, .lp] ++ tokenize c [] [] ++ [.rp] := by
  have hne : (name.reverse.isEmpty) = false := by
    cases hn : name with
    | nil => exact absurd hn h.1
    | cons a l => simp
  rw [List.append_assoc, List.append_assoc, tokenize_clean name _ [] (nameOK_clean h), str_and_lp, str_and]
  simp only [List.append_nil, List.cons_append, List.nil_append, tokenize, isWs, wsChars]
  simp [flushWord, hne]
  rw [tokenize_acc, tokenize_snoc_rp]
  simp

theorem tokens_wrap_not (name c : Str) (h : NameOK name) :
    tokenize ("not ".toList ++ name ++ " and (".toList ++ c ++ [')']) [] [] =
      [.word "not".toList, .word name, .word "and".toList, .lp] ++ tokenize c [] [] ++ [.rp] := by
  have hne : (name.reverse.isEmpty) = false := by
    cases hn : name with
    | nil => exact absurd hn h.1
    | cons a l => simp
  rw [str_not_sp, str_and_lp, str_and, str_not]
  have : ['n', 'o', 't', ' '] ++ name ++ [' ', 'a', 'n', 'd', ' ', '('] ++ c ++ [')'] =
      'n' :: 'o' :: 't' :: ' ' :: (name ++ ([' ', 'a', 'n', 'd', ' ', '('] ++ (c ++ [')']))) := by simp
  rw [this]
  simp only [tokenize, isWs, wsChars]
  simp [flushWord]
  rw [tokenize_acc, tokenize_clean name _ [] (nameOK_clean h)]
  simp only [List.append_nil, List.cons_append, List.nil_append, tokenize, isWs, wsChars]
  simp [flushWord, hne]
  rw [tokenize_acc, tokenize_snoc_rp]
  simp

/-! ### reading `name and (c)` -/

theorem read_some {c : Str} {e : E} (h : CondSpec.read c = some e) :
    rOrF ((tokenize c [] []).length + 1) (tokenize c [] []) = some (e, []) := by
  unfold CondSpec.read at h
  simp only at h
  cases hr : rOrF ((tokenize c [] []).length + 1) (tokenize c [] []) with
  | none => rw [hr] at h; cases h
  | some p =>
    obtain ⟨e', r⟩ := p
    rw [hr] at h
    cases r with
    | nil => cases h; rfl
    | cons _ _ => cases h

theorem rAtom_name (sub : Parser) {name : Str} (h : NameOK name) (rest : List Tok) :
    rAtom sub (.word name :: rest) = some (.id name, rest) := by
  simp [rAtom, h.2.1, h.2.2.1, h.2.2.2]

theorem nameOK_ne_not {name : Str} (h : NameOK name) : (name == "not".toList) = false := by
  have := h.2.2.1
  simp only [isKw, Bool.or_eq_false_iff] at this
  exact this.1.1

theorem rNotF_name (sub : Parser) {name : Str} (h : NameOK name) (n : Nat) (rest : List Tok) :
    rNotF sub (n + 1) (.word name :: rest) = some (.id name, rest) := by
  simp only [rNotF, nameOK_ne_not h, Bool.false_eq_true, ↓reduceIte]
  exact rAtom_name sub h rest

theorem rChain_nil (kw : Str) (mk : E → E → E) (sub : Parser) (n : Nat) (acc : E) :
    rChain kw mk sub n acc [] = some (acc, []) := by
  cases n <;> simp [rChain]

/-- the parenthesised condition is read as a whole by the NOT level -/
theorem rNotF_paren (f n : Nat) (T : List Tok) (e : E) (hT : rOrF (T.length + 1) T = some (e, []))
    (hf : T.length + 1 ≤ f) :
    rNotF (rOrF f) (n + 1) (.lp :: (T ++ [.rp])) = some (e, []) := by
  have := stable_rOrF [] (T.length + 1) f hf T e [] hT
  simp only [rNotF, rAtom, this, List.nil_append]

theorem rOrF_wrap (name : Str) (h : NameOK name) (T : List Tok) (e : E)
    (hT : rOrF (T.length + 1) T = some (e, [])) :
    rOrF (([Tok.word name, Tok.word "and".toList, Tok.lp] ++ T ++ [Tok.rp]).length + 1) ([Tok.word name, Tok.word "and".toList, Tok.lp] ++ T ++ [Tok.rp]) =
      some (.and (.id name) e, []) := by
  rw [rOrF_succ]
  have hAnd : rAndOf (rNotF (rOrF ([Tok.word name, Tok.word "and".toList, Tok.lp] ++ T ++ [Tok.rp]).length)
        (([Tok.word name, Tok.word "and".toList, Tok.lp] ++ T ++ [Tok.rp]).length + 1))
      ([Tok.word name, Tok.word "and".toList, Tok.lp] ++ T ++ [Tok.rp]) = some (.and (.id name) e, []) := by
    unfold rAndOf
    simp only [List.cons_append, List.nil_append]
    rw [rNotF_name _ h]
    simp only [List.length_cons, rChain, beq_self_eq_true, ↓reduceIte]
    rw [rNotF_paren _ _ T e hT (by simp)]
  rw [hAnd]
  simp only [List.length_nil, rChain]

theorem rOrF_wrap_not (name : Str) (h : NameOK name) (T : List Tok) (e : E)
    (hT : rOrF (T.length + 1) T = some (e, [])) :
    rOrF (([Tok.word "not".toList, Tok.word name, Tok.word "and".toList, Tok.lp] ++ T ++ [Tok.rp]).length + 1)
        ([Tok.word "not".toList, Tok.word name, Tok.word "and".toList, Tok.lp] ++ T ++ [Tok.rp]) =
      some (.and (.not (.id name)) e, []) := by
  rw [rOrF_succ]
  have hAnd : rAndOf (rNotF (rOrF ([Tok.word "not".toList, Tok.word name, Tok.word "and".toList, Tok.lp] ++ T ++ [Tok.rp]).length)
        (([Tok.word "not".toList, Tok.word name, Tok.word "and".toList, Tok.lp] ++ T ++ [Tok.rp]).length + 1))
      ([Tok.word "not".toList, Tok.word name, Tok.word "and".toList, Tok.lp] ++ T ++ [Tok.rp]) = some (.and (.not (.id name)) e, []) := by
    unfold rAndOf
    simp only [List.cons_append, List.nil_append, List.length_cons]
    have hnot : ∀ (sub : Parser) (n : Nat) (rest : List Tok),
        rNotF sub (n + 1 + 1) (.word "not".toList :: .word name :: rest) = some (.not (.id name), rest) := by
      intro sub n rest
      rw [rNotF]
      simp only [beq_self_eq_true, ↓reduceIte, rNotF_name sub h n rest]
    rw [hnot]
    simp only [List.length_cons, rChain, beq_self_eq_true, ↓reduceIte]
    rw [rNotF_paren _ _ T e hT (by simp)]
  rw [hAnd]
  simp only [List.length_nil, rChain]

end SigmaVerif.Lemmas.C12Read
