import SigmaVerif.Spec.SStr
/-!
# Helper lemmas for C05 (`SigmaString`: parsing, conversion to a target literal, regular expression,
field names)
-/
namespace SigmaVerif.SStrSpec
open SigmaVerif.SStr

/-- `Except` has no `DecidableEq` instance in core; needed to `decide` concrete `convert` results -/
instance instDecidableEqExcept {ε α : Type} [DecidableEq ε] [DecidableEq α] :
    DecidableEq (Except ε α)
  | .ok a, .ok b => if h : a = b then isTrue (by rw [h]) else isFalse (fun h' => h (Except.ok.inj h'))
  | .error a, .error b =>
    if h : a = b then isTrue (by rw [h]) else isFalse (fun h' => h (Except.error.inj h'))
  | .ok _, .error _ => isFalse (fun h => by cases h)
  | .error _, .ok _ => isFalse (fun h => by cases h)

/-! ## Example configurations (used by the non-vacuity examples) -/

/-- the configuration most backends use: `\` escapes, `*` / `?` wildcards, `"` and `\` escaped -/
def stdConv : Conv :=
  { esc := some ['\\'], multi := some ['*'], single := some ['?'], addEscaped := ['"', '\\'],
    filter := [] }

/-- a quoting backend: `"` quotes, `\` escapes, `*` / `?` wildcards -/
def stdStr : StrCfg :=
  { quote := ['"'], esc := some ['\\'], multi := some ['*'], single := some ['?'],
    addEscaped := ['\\'], filter := [] }

/-! ## `stripPrefix` -/

theorem stripPrefix_eq_some {p t r : Str} : stripPrefix p t = some r ↔ t = p ++ r := by
  induction p generalizing t with
  | nil => simp [stripPrefix, eq_comm]
  | cons a p ih =>
    cases t with
    | nil => simp [stripPrefix]
    | cons b t =>
      simp only [stripPrefix, List.cons_append, List.cons.injEq]
      by_cases hab : a = b
      · subst hab; simp [ih]
      · have : (a == b) = false := by simpa using hab
        simp [this, hab, eq_comm]

theorem stripPrefix_append (p r : Str) : stripPrefix p (p ++ r) = some r :=
  stripPrefix_eq_some.2 rfl

theorem stripPrefix_eq_none {p t : Str} : stripPrefix p t = none ↔ ∀ r, t ≠ p ++ r := by
  rw [← Option.not_isSome_iff_eq_none, Option.isSome_iff_exists]
  simp [stripPrefix_eq_some]

theorem stripPrefix_head_ne {p t : Str} {a b : Char} (h : a ≠ b) :
    stripPrefix (a :: p) (b :: t) = none := by
  have : (a == b) = false := by simpa using h
  simp [stripPrefix, this]

/-! ## One token of the target-language reader -/

/-- the token the reader takes at `c :: rest` (shared by `decodeBody` and `decodeQuotedBody`) -/
def nextTok (k : Conv) (c : Char) (rest : Str) : Part × Str :=
  let t := c :: rest
  let tryEsc : Option (Part × Str) :=
    match k.esc with
    | some e => if e.isEmpty then none else
        match stripPrefix e t with
        | some (d :: r) => some (.lit d, r)
        | _ => none
    | none => none
  let tryTok (tok : Option Str) (p : Part) : Option (Part × Str) :=
    match tok with
    | some m => if m.isEmpty then none else (stripPrefix m t).map (fun r => (p, r))
    | none => none
  match tryEsc with
  | some r => r
  | none =>
    match tryTok k.multi .star with
    | some r => r
    | none =>
      match tryTok k.single .qm with
      | some r => r
      | none => (.lit c, rest)

theorem decodeBody_cons (k : Conv) (f : Nat) (c : Char) (rest : Str) :
    decodeBody k (f+1) (c :: rest) =
      (decodeBody k f (nextTok k c rest).2).map ((nextTok k c rest).1 :: ·) := by
  rfl

theorem decodeQuotedBody_cons (k : Conv) (q : Str) (f : Nat) (c : Char) (rest : Str)
    (h : stripPrefix q (c :: rest) = none) :
    decodeQuotedBody k q (f+1) (c :: rest) =
      (decodeQuotedBody k q f (nextTok k c rest).2).map ((nextTok k c rest).1 :: ·) := by
  simp only [decodeQuotedBody, h]
  rfl


/-! ## Well-formedness, unpacked -/

structure Wf (k : Conv) (e : Char) : Prop where
  esc : k.esc = some [e]
  eIn : e ∈ k.escapedSet
  multiNe : ∀ m, k.multi = some m → ∃ a m', m = a :: m' ∧ a ≠ e
  singleNe : ∀ s, k.single = some s → ∃ a s', s = a :: s' ∧ a ≠ e
  notPre : ∀ m s, k.multi = some m → k.single = some s → ∀ r, s ≠ m ++ r
  ext : ∀ m s, k.multi = some m → k.single = some s → ∀ r x, m = s ++ r :: x →
    r ≠ e ∧ some r ≠ m.head? ∧ some r ≠ s.head?

theorem tokNe_of {m : Str} {e : Char} (h : (!m.isEmpty && m.head? != some e) = true) :
    ∃ a m', m = a :: m' ∧ a ≠ e := by
  cases m with
  | nil => simp at h
  | cons a m' => exact ⟨a, m', rfl, by simpa using h⟩

theorem wf_of_convWf {k : Conv} (hk : convWf k = true) : ∃ e, Wf k e := by
  unfold convWf at hk
  split at hk
  next e he =>
    simp only [Bool.and_eq_true] at hk
    obtain ⟨⟨⟨h1, h2⟩, h3⟩, h4⟩ := hk
    refine ⟨e, he, by simpa using h1, ?_, ?_, ?_, ?_⟩
    · intro m hm; rw [hm] at h2; exact tokNe_of h2
    · intro s hs; rw [hs] at h3; exact tokNe_of h3
    · intro m s hm hs r hr
      rw [hm, hs] at h4
      simp only [Bool.and_eq_true] at h4
      have := h4.1.2
      rw [Option.isNone_iff_eq_none, stripPrefix_eq_none] at this
      exact this r hr
    · intro m s hm hs r x hx
      rw [hm, hs] at h4
      simp only [Bool.and_eq_true] at h4
      have h5 := h4.2
      rw [stripPrefix_eq_some.2 hx] at h5
      simpa [and_assoc] using h5
  next => simp at hk

theorem mem_escapedSet_multi {k : Conv} {m : Str} (hm : k.multi = some m) {c : Char} (h : c ∈ m) :
    c ∈ k.escapedSet := by
  simp [Conv.escapedSet, hm, h]

theorem mem_escapedSet_single {k : Conv} {m : Str} (hm : k.single = some m) {c : Char} (h : c ∈ m) :
    c ∈ k.escapedSet := by
  simp [Conv.escapedSet, hm, h]

/-! ## The reader takes the right branch on each encoded part -/

section tok
variable {k : Conv} {e : Char} (W : Wf k e)
include W

theorem nextTok_esc (c : Char) (t : Str) : nextTok k e (c :: t) = (.lit c, t) := by
  simp [nextTok, W.esc, stripPrefix]

omit W in
theorem tryTok_ne {c : Char} {tok : Option Str} (htok : ∀ m, tok = some m → ∃ a m', m = a :: m' ∧ a ≠ c)
    (p : Part) (t : Str) :
    (match tok with
      | some m => if m.isEmpty then none else (stripPrefix m (c :: t)).map (fun r => (p, r))
      | none => none) = none := by
  cases tok with
  | none => rfl
  | some m =>
    obtain ⟨a, m', rfl, ha⟩ := htok m rfl
    simp [stripPrefix_head_ne ha]

theorem nextTok_plain {c : Char} (hc : c ∉ k.escapedSet) (t : Str) :
    nextTok k c t = (.lit c, t) := by
  have hce : e ≠ c := fun h => hc (h ▸ W.eIn)
  have h1 := tryTok_ne (c := c) (tok := k.multi) (fun m hm => by
    obtain ⟨a, m', rfl, _⟩ := W.multiNe m hm
    exact ⟨a, m', rfl, fun h => hc (h ▸ mem_escapedSet_multi hm (by simp))⟩) .star t
  have h2 := tryTok_ne (c := c) (tok := k.single) (fun m hm => by
    obtain ⟨a, m', rfl, _⟩ := W.singleNe m hm
    exact ⟨a, m', rfl, fun h => hc (h ▸ mem_escapedSet_single hm (by simp))⟩) .qm t
  simp only [nextTok, W.esc, stripPrefix_head_ne hce, h1, h2]
  simp

theorem nextTok_multi {a : Char} {m' : Str} (hm : k.multi = some (a :: m')) (t : Str) :
    nextTok k a (m' ++ t) = (.star, t) := by
  obtain ⟨a', m'', h, ha⟩ := W.multiNe _ hm
  cases h
  have := stripPrefix_append (a :: m') t
  simp only [List.cons_append] at this
  simp [nextTok, W.esc, stripPrefix_head_ne (Ne.symm ha), hm, this]

theorem nextTok_single {a : Char} {s' : Str} (hs : k.single = some (a :: s')) (t : Str)
    (ht : ∀ m r x, k.multi = some m → m = (a :: s') ++ r :: x → t.head? ≠ some r) :
    nextTok k a (s' ++ t) = (.qm, t) := by
  obtain ⟨a', s'', h, ha⟩ := W.singleNe _ hs
  cases h
  have h1 := stripPrefix_append (a :: s') t
  simp only [List.cons_append] at h1
  have h2 : (match k.multi with
      | some m => if m.isEmpty then none
                  else (stripPrefix m (a :: (s' ++ t))).map (fun r => (Part.star, r))
      | none => none) = none := by
    cases hm : k.multi with
    | none => rfl
    | some m =>
      obtain ⟨b, m', rfl, _⟩ := W.multiNe m hm
      have : stripPrefix (b :: m') (a :: (s' ++ t)) = none := by
        rw [stripPrefix_eq_none]
        intro r hr
        rw [← List.cons_append, List.append_eq_append_iff] at hr
        rcases hr with ⟨x, hx, ht'⟩ | ⟨x, hx, _⟩
        · cases x with
          | nil => exact W.notPre _ _ hm hs [] (by simpa using hx.symm)
          | cons r x => exact ht _ r x hm hx (by simp [ht'])
        · exact W.notPre _ _ hm hs x hx
      simp [this]
  simp only [nextTok, W.esc, stripPrefix_head_ne (Ne.symm ha), h2, hs, h1]
  simp

end tok

/-! ## Inversion of `convert` -/

theorem convert_lit_ok {k : Conv} {c : Char} {r : SStr} {t : Str}
    (h : convert k (.lit c :: r) = .ok t) :
    ∃ t', convert k r = .ok t' ∧
      t = if k.filter.contains c then t'
          else if k.escapedSet.contains c then k.esc.getD [] ++ c :: t' else c :: t' := by
  simp only [convert] at h
  cases hr : convert k r with
  | error e => simp [hr] at h
  | ok t' =>
    refine ⟨t', rfl, ?_⟩
    simp only [hr] at h
    split at h
    · simp_all
    · split at h <;> simp_all

theorem convert_star_ok {k : Conv} {r : SStr} {t : Str} (h : convert k (.star :: r) = .ok t) :
    ∃ m t', k.multi = some m ∧ convert k r = .ok t' ∧ t = m ++ t' := by
  simp only [convert] at h
  cases hm : k.multi with
  | none => simp [hm] at h
  | some m =>
    cases hr : convert k r with
    | error e => simp [hm, hr] at h
    | ok t' => simp [hm, hr] at h; exact ⟨m, t', rfl, rfl, h.symm⟩

theorem convert_qm_ok {k : Conv} {r : SStr} {t : Str} (h : convert k (.qm :: r) = .ok t) :
    ∃ m t', k.single = some m ∧ convert k r = .ok t' ∧ t = m ++ t' := by
  simp only [convert] at h
  cases hm : k.single with
  | none => simp [hm] at h
  | some m =>
    cases hr : convert k r with
    | error e => simp [hm, hr] at h
    | ok t' => simp [hm, hr] at h; exact ⟨m, t', rfl, rfl, h.symm⟩

theorem convert_ph_ok {k : Conv} {n : Str} {r : SStr} {t : Str} :
    convert k (.ph n :: r) ≠ .ok t := by
  simp [convert]

theorem filtered_lit (k : Conv) (c : Char) (r : SStr) :
    filtered k (.lit c :: r) = if k.filter.contains c then filtered k r else .lit c :: filtered k r := by
  simp only [filtered, List.filter_cons]
  by_cases h : k.filter.contains c = true <;> simp_all

theorem filtered_star (k : Conv) (r : SStr) : filtered k (.star :: r) = .star :: filtered k r := by
  simp [filtered]

theorem filtered_qm (k : Conv) (r : SStr) : filtered k (.qm :: r) = .qm :: filtered k r := by
  simp [filtered]

/-! ## What an emitted literal can start with -/

def HeadOk (k : Conv) (e : Char) (t : Str) : Prop :=
  ∀ c, t.head? = some c → c = e ∨ c ∉ k.escapedSet ∨
    (∃ m, k.multi = some m ∧ m.head? = some c) ∨ (∃ s, k.single = some s ∧ s.head? = some c)

theorem headOk_nil (k : Conv) (e : Char) : HeadOk k e [] := by
  intro c h; simp at h

theorem convert_headOk {k : Conv} {e : Char} (W : Wf k e) :
    ∀ (s : SStr) (t : Str), convert k s = .ok t → HeadOk k e t := by
  intro s
  induction s with
  | nil => intro t h; simp [convert] at h; subst h; exact headOk_nil k e
  | cons p r ih =>
    intro t h
    cases p with
    | lit c =>
      obtain ⟨t', hr, rfl⟩ := convert_lit_ok h
      split
      · exact ih t' hr
      · split
        · intro d hd; left; simpa [W.esc] using hd.symm
        · rename_i _ hne
          intro d hd; right; left
          simp at hd; subst hd; simpa using hne
    | star =>
      obtain ⟨m, t', hm, hr, rfl⟩ := convert_star_ok h
      obtain ⟨a, m', rfl, _⟩ := W.multiNe m hm
      intro d hd; right; right; left
      exact ⟨_, hm, by simpa using hd⟩
    | qm =>
      obtain ⟨m, t', hm, hr, rfl⟩ := convert_qm_ok h
      obtain ⟨a, m', rfl, _⟩ := W.singleNe m hm
      intro d hd; right; right; right
      exact ⟨_, hm, by simpa using hd⟩
    | ph n => exact absurd h convert_ph_ok

theorem headOk_bad {k : Conv} {e : Char} (W : Wf k e) {t : Str} (ht : HeadOk k e t)
    {s : Str} (hs : k.single = some s) :
    ∀ m r x, k.multi = some m → m = s ++ r :: x → t.head? ≠ some r := by
  intro m r x hm hx hh
  obtain ⟨h1, h2, h3⟩ := W.ext m s hm hs r x hx
  have hmem : r ∈ k.escapedSet := mem_escapedSet_multi hm (by rw [hx]; simp)
  rcases ht r hh with h | h | ⟨m2, hm2, h⟩ | ⟨s2, hs2, h⟩
  · exact h1 h
  · exact h hmem
  · rw [hm] at hm2; cases hm2; exact h2 h.symm
  · rw [hs] at hs2; cases hs2; exact h3 h.symm

/-! ## Deliverable 1: the emitted literal decodes to the source -/

theorem decodeBody_convert {k : Conv} {e : Char} (W : Wf k e) :
    ∀ (s : SStr) (t : Str), convert k s = .ok t → ∀ f, t.length < f →
      decodeBody k f t = some (filtered k s) := by
  intro s
  induction s with
  | nil =>
    intro t h f _
    simp [convert] at h; subst h
    cases f <;> simp [decodeBody, filtered]
  | cons p r ih =>
    intro t h f hf
    cases p with
    | lit c =>
      obtain ⟨t', hr, rfl⟩ := convert_lit_ok h
      rw [filtered_lit]
      by_cases hfil : k.filter.contains c = true
      · simp only [hfil, if_true] at hf ⊢
        exact ih t' hr f hf
      · rw [Bool.not_eq_true] at hfil
        simp only [hfil, Bool.false_eq_true, if_false] at hf ⊢
        by_cases hesc : k.escapedSet.contains c = true
        · simp only [hesc, if_true, W.esc, Option.getD_some, List.cons_append, List.nil_append,
            List.length_cons] at hf ⊢
          obtain ⟨f, rfl⟩ : ∃ f', f = f' + 1 := ⟨f - 1, by omega⟩
          rw [decodeBody_cons, nextTok_esc W, ih t' hr f (by omega)]
          rfl
        · have hesc' := hesc
          rw [Bool.not_eq_true] at hesc'
          simp only [hesc', Bool.false_eq_true, if_false, List.length_cons] at hf ⊢
          obtain ⟨f, rfl⟩ : ∃ f', f = f' + 1 := ⟨f - 1, by omega⟩
          rw [decodeBody_cons, nextTok_plain W (by simpa using hesc), ih t' hr f (by omega)]
          rfl
    | star =>
      obtain ⟨m, t', hm, hr, rfl⟩ := convert_star_ok h
      obtain ⟨a, m', rfl, _⟩ := W.multiNe m hm
      simp only [List.cons_append, List.length_cons, List.length_append] at hf ⊢
      obtain ⟨f, rfl⟩ : ∃ f', f = f' + 1 := ⟨f - 1, by omega⟩
      rw [decodeBody_cons, nextTok_multi W hm, ih t' hr f (by omega), filtered_star]
      rfl
    | qm =>
      obtain ⟨m, t', hm, hr, rfl⟩ := convert_qm_ok h
      obtain ⟨a, m', rfl, _⟩ := W.singleNe m hm
      simp only [List.cons_append, List.length_cons, List.length_append] at hf ⊢
      obtain ⟨f, rfl⟩ : ∃ f', f = f' + 1 := ⟨f - 1, by omega⟩
      rw [decodeBody_cons,
        nextTok_single W hm t' (headOk_bad W (convert_headOk W r t' hr) hm),
        ih t' hr f (by omega), filtered_qm]
      rfl
    | ph n => exact absurd h convert_ph_ok

/-! ## Deliverable 3: quoted literals -/

structure QWf (k : Conv) (e qc : Char) : Prop where
  qIn : qc ∈ k.escapedSet
  qe : qc ≠ e
  qmulti : ∀ m, k.multi = some m → m.head? ≠ some qc
  qsingle : ∀ s, k.single = some s → s.head? ≠ some qc
  qx : ∀ m s r x, k.multi = some m → k.single = some s → m = s ++ r :: x → r ≠ qc

theorem qwf_of {k : Conv} {e : Char} (W : Wf k e) {q : Str} (hq : quoteWf k q = true)
    (hx : quoteTailOk k q = true) : ∃ qc, q = [qc] ∧ QWf k e qc := by
  unfold quoteWf at hq
  split at hq
  next qc =>
    simp only [Bool.and_eq_true] at hq
    obtain ⟨⟨⟨h1, h2⟩, h3⟩, h4⟩ := hq
    refine ⟨qc, rfl, by simpa using h1, ?_, ?_, ?_, ?_⟩
    · rintro rfl; simp [W.esc] at h2
    · intro m hm; simpa [hm] using h3
    · intro s hs; simpa [hs] using h4
    · intro m s r x hm hs hmx
      simp only [quoteTailOk, hm, hs, stripPrefix_eq_some.2 hmx] at hx
      simpa using hx
  next => simp at hq

theorem headOk_ne_quote {k : Conv} {e qc : Char} (Q : QWf k e qc) {t : Str} (ht : HeadOk k e t)
    {c : Char} (hc : t.head? = some c) : c ≠ qc := by
  rintro rfl
  rcases ht c hc with h | h | ⟨m, hm, h⟩ | ⟨s, hs, h⟩
  · exact Q.qe h
  · exact h Q.qIn
  · exact Q.qmulti m hm h
  · exact Q.qsingle s hs h

theorem decodeQuotedBody_convert {k : Conv} {e qc : Char} (W : Wf k e) (Q : QWf k e qc) :
    ∀ (s : SStr) (t : Str), convert k s = .ok t → ∀ f, t.length + 1 < f →
      decodeQuotedBody k [qc] f (t ++ [qc]) = some (filtered k s) := by
  intro s
  induction s with
  | nil =>
    intro t h f hf
    simp [convert] at h; subst h
    obtain ⟨f, rfl⟩ : ∃ f', f = f' + 1 := ⟨f - 1, by omega⟩
    simp [decodeQuotedBody, filtered, stripPrefix]
  | cons p r ih =>
    intro t h f hf
    have hH := convert_headOk W _ _ h
    have key : ∀ c t₁, t = c :: t₁ → stripPrefix [qc] (c :: (t₁ ++ [qc])) = none := by
      intro c t₁ ht
      exact stripPrefix_head_ne (Ne.symm (headOk_ne_quote Q hH (by simp [ht])))
    cases p with
    | lit c =>
      obtain ⟨t', hr, rfl⟩ := convert_lit_ok h
      rw [filtered_lit]
      by_cases hfil : k.filter.contains c = true
      · simp only [hfil, if_true] at hf ⊢
        exact ih t' hr f hf
      · rw [Bool.not_eq_true] at hfil
        simp only [hfil, Bool.false_eq_true, if_false] at hf key ⊢
        by_cases hesc : k.escapedSet.contains c = true
        · simp only [hesc, if_true, W.esc, Option.getD_some, List.cons_append, List.nil_append,
            List.length_cons] at hf key ⊢
          obtain ⟨f, rfl⟩ : ∃ f', f = f' + 1 := ⟨f - 1, by omega⟩
          have hk := key _ _ rfl
          simp only [List.cons_append] at hk
          rw [decodeQuotedBody_cons _ _ _ _ _ hk, nextTok_esc W, ih t' hr f (by omega)]
          rfl
        · have hesc' := hesc
          rw [Bool.not_eq_true] at hesc'
          simp only [hesc', Bool.false_eq_true, if_false, List.length_cons, List.cons_append]
            at hf key ⊢
          obtain ⟨f, rfl⟩ : ∃ f', f = f' + 1 := ⟨f - 1, by omega⟩
          rw [decodeQuotedBody_cons _ _ _ _ _ (key _ _ rfl),
            nextTok_plain W (by simpa using hesc), ih t' hr f (by omega)]
          rfl
    | star =>
      obtain ⟨m, t', hm, hr, rfl⟩ := convert_star_ok h
      obtain ⟨a, m', rfl, _⟩ := W.multiNe m hm
      simp only [List.cons_append, List.length_cons, List.length_append] at hf key ⊢
      obtain ⟨f, rfl⟩ : ∃ f', f = f' + 1 := ⟨f - 1, by omega⟩
      have := key _ _ rfl
      rw [List.append_assoc] at this ⊢
      rw [decodeQuotedBody_cons _ _ _ _ _ this, nextTok_multi W hm, ih t' hr f (by omega),
        filtered_star]
      rfl
    | qm =>
      obtain ⟨m, t', hm, hr, rfl⟩ := convert_qm_ok h
      obtain ⟨a, m', rfl, _⟩ := W.singleNe m hm
      simp only [List.cons_append, List.length_cons, List.length_append] at hf key ⊢
      obtain ⟨f, rfl⟩ : ∃ f', f = f' + 1 := ⟨f - 1, by omega⟩
      have := key _ _ rfl
      rw [List.append_assoc] at this ⊢
      have hbad : ∀ m r x, k.multi = some m → m = (a :: m') ++ r :: x →
          (t' ++ [qc]).head? ≠ some r := by
        intro m r₁ x hmm hmx
        cases t' with
        | nil =>
          have := Q.qx m _ r₁ x hmm hm hmx
          simpa using Ne.symm this
        | cons d t'' =>
          have := headOk_bad W (convert_headOk W r _ hr) hm m r₁ x hmm hmx
          simpa using this
      rw [decodeQuotedBody_cons _ _ _ _ _ this, nextTok_single W hm _ hbad,
        ih t' hr f (by omega), filtered_qm]
      rfl
    | ph n => exact absurd h convert_ph_ok

/-! ## Deliverable 3b: literals emitted without quotes in a language that has a string quote -/

theorem decodeBareBody_cons (k : Conv) (q : Str) (f : Nat) (c : Char) (rest : Str)
    (h : stripPrefix q (c :: rest) = none) :
    decodeBareBody k q (f+1) (c :: rest) =
      (decodeBareBody k q f (nextTok k c rest).2).map ((nextTok k c rest).1 :: ·) := by
  simp only [decodeBareBody, h]
  rfl

/-- the part of `QWf` a bare word needs (no condition on what follows the single-character token:
nothing is appended to a bare word) -/
structure QWf0 (k : Conv) (e qc : Char) : Prop where
  qIn : qc ∈ k.escapedSet
  qe : qc ≠ e
  qmulti : ∀ m, k.multi = some m → m.head? ≠ some qc
  qsingle : ∀ s, k.single = some s → s.head? ≠ some qc

theorem qwf0_of {k : Conv} {e : Char} (W : Wf k e) {q : Str} (hq : quoteWf k q = true) :
    ∃ qc, q = [qc] ∧ QWf0 k e qc := by
  unfold quoteWf at hq
  split at hq
  next qc =>
    simp only [Bool.and_eq_true] at hq
    obtain ⟨⟨⟨h1, h2⟩, h3⟩, h4⟩ := hq
    refine ⟨qc, rfl, by simpa using h1, ?_, ?_, ?_⟩
    · rintro rfl; simp [W.esc] at h2
    · intro m hm; simpa [hm] using h3
    · intro s hs; simpa [hs] using h4
  next => simp at hq

theorem headOk_ne_quote0 {k : Conv} {e qc : Char} (Q : QWf0 k e qc) {t : Str} (ht : HeadOk k e t)
    {c : Char} (hc : t.head? = some c) : c ≠ qc := by
  rintro rfl
  rcases ht c hc with h | h | ⟨m, hm, h⟩ | ⟨s, hs, h⟩
  · exact Q.qe h
  · exact h Q.qIn
  · exact Q.qmulti m hm h
  · exact Q.qsingle s hs h

theorem decodeBareBody_convert {k : Conv} {e qc : Char} (W : Wf k e) (Q : QWf0 k e qc) :
    ∀ (s : SStr) (t : Str), convert k s = .ok t → ∀ f, t.length < f →
      decodeBareBody k [qc] f t = some (filtered k s) := by
  intro s
  induction s with
  | nil =>
    intro t h f _
    simp [convert] at h; subst h
    cases f <;> simp [decodeBareBody, filtered]
  | cons p r ih =>
    intro t h f hf
    have hH := convert_headOk W _ _ h
    have key : ∀ c t₁, t = c :: t₁ → stripPrefix [qc] (c :: t₁) = none := by
      intro c t₁ ht
      exact stripPrefix_head_ne (Ne.symm (headOk_ne_quote0 Q hH (by simp [ht])))
    cases p with
    | lit c =>
      obtain ⟨t', hr, rfl⟩ := convert_lit_ok h
      rw [filtered_lit]
      by_cases hfil : k.filter.contains c = true
      · simp only [hfil, if_true] at hf ⊢
        exact ih t' hr f hf
      · rw [Bool.not_eq_true] at hfil
        simp only [hfil, Bool.false_eq_true, if_false] at hf key ⊢
        by_cases hesc : k.escapedSet.contains c = true
        · simp only [hesc, if_true, W.esc, Option.getD_some, List.cons_append, List.nil_append,
            List.length_cons] at hf key ⊢
          obtain ⟨f, rfl⟩ : ∃ f', f = f' + 1 := ⟨f - 1, by omega⟩
          rw [decodeBareBody_cons _ _ _ _ _ (key _ _ rfl), nextTok_esc W, ih t' hr f (by omega)]
          rfl
        · have hesc' := hesc
          rw [Bool.not_eq_true] at hesc'
          simp only [hesc', Bool.false_eq_true, if_false, List.length_cons] at hf key ⊢
          obtain ⟨f, rfl⟩ : ∃ f', f = f' + 1 := ⟨f - 1, by omega⟩
          rw [decodeBareBody_cons _ _ _ _ _ (key _ _ rfl),
            nextTok_plain W (by simpa using hesc), ih t' hr f (by omega)]
          rfl
    | star =>
      obtain ⟨m, t', hm, hr, rfl⟩ := convert_star_ok h
      obtain ⟨a, m', rfl, _⟩ := W.multiNe m hm
      simp only [List.cons_append, List.length_cons, List.length_append] at hf key ⊢
      obtain ⟨f, rfl⟩ : ∃ f', f = f' + 1 := ⟨f - 1, by omega⟩
      rw [decodeBareBody_cons _ _ _ _ _ (key _ _ rfl), nextTok_multi W hm, ih t' hr f (by omega),
        filtered_star]
      rfl
    | qm =>
      obtain ⟨m, t', hm, hr, rfl⟩ := convert_qm_ok h
      obtain ⟨a, m', rfl, _⟩ := W.singleNe m hm
      simp only [List.cons_append, List.length_cons, List.length_append] at hf key ⊢
      obtain ⟨f, rfl⟩ : ∃ f', f = f' + 1 := ⟨f - 1, by omega⟩
      rw [decodeBareBody_cons _ _ _ _ _ (key _ _ rfl),
        nextTok_single W hm t' (headOk_bad W (convert_headOk W r t' hr) hm),
        ih t' hr f (by omega), filtered_qm]
      rfl
    | ph n => exact absurd h convert_ph_ok

/-! ## Deliverable 4: the regular-expression form -/

theorem reRead_esc (f : Nat) (c : Char) (r : Str) :
    reRead (f+1) ('\\' :: c :: r) = (reRead f r).map (.ch c :: ·) := by
  simp [reRead]

theorem reRead_dotstar (f : Nat) (r : Str) :
    reRead (f+1) ('.' :: '*' :: r) = (reRead f r).map (.anyStar :: ·) := by
  simp [reRead]

theorem reRead_dot (f : Nat) (r : Str) (h : r.head? ≠ some '*') :
    reRead (f+1) ('.' :: r) = (reRead f r).map (.any :: ·) := by
  cases r with
  | nil => simp [reRead]
  | cons d r =>
    have : d ≠ '*' := by simpa using h
    simp [reRead, this]

theorem reRead_plain (f : Nat) (c : Char) (r : Str) (h : c ∉ reMeta) :
    reRead (f+1) (c :: r) = (reRead f r).map (.ch c :: ·) := by
  have h1 : c ≠ '\\' := by rintro rfl; exact h (by decide)
  have h2 : c ≠ '.' := by rintro rfl; exact h (by decide)
  simp [reRead, h1, h2, h]

def atoms : SStr → List RAtom
  | [] => []
  | .lit c :: r => .ch c :: atoms r
  | .star :: r => .anyStar :: atoms r
  | .qm :: r => .any :: atoms r
  | .ph _ :: r => atoms r

def noPh : SStr → Bool
  | [] => true
  | .ph _ :: _ => false
  | _ :: r => noPh r

theorem reMatchAtoms_atoms (s : SStr) (x : Str) (h : noPh s = true) :
    reMatchAtoms (atoms s) x = glob s x := by
  fun_induction glob s x
  case case6 p x ih2 ih1 =>
    cases x <;> rw [atoms, reMatchAtoms] <;> simp_all [noPh, atoms]
  all_goals simp_all [atoms, reMatchAtoms, noPh]

theorem regexConv_wf (custom : Str) : convWf (regexConv custom) = true := by
  simp [convWf, regexConv, Conv.escapedSet, stripPrefix]

theorem regexConv_Wf (custom : Str) : Wf (regexConv custom) '\\' := by
  obtain ⟨e, W⟩ := wf_of_convWf (regexConv_wf custom)
  have := W.esc
  simp [regexConv] at this
  subst this
  exact W

theorem reMeta_sub (custom : Str) {c : Char} (h : c ∈ reMeta) : c ∈ (regexConv custom).escapedSet := by
  simp only [Conv.escapedSet, regexConv, Option.getD_some, List.mem_append]
  exact Or.inr (Or.inl h)

theorem reRead_convert (custom : Str) :
    ∀ (s : SStr) (t : Str), convert (regexConv custom) s = .ok t → ∀ f, t.length < f →
      reRead f t = some (atoms s) := by
  have W := regexConv_Wf custom
  intro s
  induction s with
  | nil =>
    intro t h f _
    simp [convert] at h; subst h
    cases f <;> simp [reRead, atoms]
  | cons p r ih =>
    intro t h f hf
    cases p with
    | lit c =>
      obtain ⟨t', hr, rfl⟩ := convert_lit_ok h
      have hfil : (regexConv custom).filter.contains c = false := by simp [regexConv]
      simp only [hfil, Bool.false_eq_true, if_false] at hf ⊢
      by_cases hesc : (regexConv custom).escapedSet.contains c = true
      · simp only [hesc, if_true, W.esc, Option.getD_some, List.cons_append, List.nil_append,
          List.length_cons] at hf ⊢
        obtain ⟨f, rfl⟩ : ∃ f', f = f' + 1 := ⟨f - 1, by omega⟩
        obtain ⟨f, rfl⟩ : ∃ f', f = f' + 1 := ⟨f - 1, by omega⟩
        rw [reRead_esc, ih t' hr (f+1) (by omega)]
        rfl
      · have hesc' := hesc
        rw [Bool.not_eq_true] at hesc'
        simp only [hesc', Bool.false_eq_true, if_false, List.length_cons] at hf ⊢
        obtain ⟨f, rfl⟩ : ∃ f', f = f' + 1 := ⟨f - 1, by omega⟩
        have hc : c ∉ reMeta := fun hm => hesc (by simpa using reMeta_sub custom hm)
        rw [reRead_plain _ _ _ hc, ih t' hr f (by omega)]
        rfl
    | star =>
      obtain ⟨m, t', hm, hr, rfl⟩ := convert_star_ok h
      simp only [regexConv, Option.some.injEq] at hm
      subst hm
      simp only [List.cons_append, List.length_cons, List.nil_append] at hf ⊢
      obtain ⟨f, rfl⟩ : ∃ f', f = f' + 1 := ⟨f - 1, by omega⟩
      rw [reRead_dotstar, ih t' hr f (by omega)]
      rfl
    | qm =>
      obtain ⟨m, t', hm, hr, rfl⟩ := convert_qm_ok h
      simp only [regexConv, Option.some.injEq] at hm
      subst hm
      simp only [List.cons_append, List.length_cons, List.nil_append] at hf ⊢
      obtain ⟨f, rfl⟩ : ∃ f', f = f' + 1 := ⟨f - 1, by omega⟩
      have hh : t'.head? ≠ some '*' := by
        intro hh
        rcases convert_headOk W r t' hr '*' hh with h | h | ⟨m, hm, h⟩ | ⟨m, hm, h⟩
        · exact absurd h (by decide)
        · exact h (reMeta_sub custom (by decide))
        · simp only [regexConv, Option.some.injEq] at hm; subst hm; exact absurd h (by decide)
        · simp only [regexConv, Option.some.injEq] at hm; subst hm; exact absurd h (by decide)
      rw [reRead_dot _ _ hh, ih t' hr f (by omega)]
      rfl
    | ph n => exact absurd h convert_ph_ok

theorem convert_noPh {k : Conv} : ∀ (s : SStr) (t : Str), convert k s = .ok t → noPh s = true := by
  intro s
  induction s with
  | nil => intro _ _; rfl
  | cons p r ih =>
    intro t h
    cases p with
    | lit c => obtain ⟨t', hr, _⟩ := convert_lit_ok h; simpa [noPh] using ih t' hr
    | star => obtain ⟨_, t', _, hr, _⟩ := convert_star_ok h; simpa [noPh] using ih t' hr
    | qm => obtain ⟨_, t', _, hr, _⟩ := convert_qm_ok h; simpa [noPh] using ih t' hr
    | ph n => exact absurd h convert_ph_ok

/-! ## Deliverable 5: plain form and re-parsing -/

/-- can the part sequence not follow a literal backslash without changing the plain form's reading? -/
def badAfterBs : SStr → Bool
  | .lit c :: _ => c == '\\' || c == '*' || c == '?'
  | .star :: _ => true
  | .qm :: _ => true
  | _ => false

def bsOk : SStr → Bool
  | [] => true
  | .lit c :: r => (c != '\\' || !badAfterBs r) && bsOk r
  | _ :: r => bsOk r

theorem parseAux_toPlain (s : SStr) (hph : noPh s = true) (hbs : bsOk s = true) :
    parseAux true false (toPlain s) = s ∧
    (badAfterBs s = false → parseAux true true (toPlain s) = .lit '\\' :: s) := by
  induction s with
  | nil => simp [toPlain, parseAux]
  | cons p r ih =>
    cases p with
    | ph n => simp [noPh] at hph
    | star =>
      have := ih (by simpa [noPh] using hph) (by simpa [bsOk] using hbs)
      simp [toPlain, parseAux, badAfterBs, this.1]
    | qm =>
      have := ih (by simpa [noPh] using hph) (by simpa [bsOk] using hbs)
      simp [toPlain, parseAux, badAfterBs, this.1]
    | lit c =>
      simp only [bsOk, Bool.and_eq_true] at hbs
      have IH := ih (by simpa [noPh] using hph) hbs.2
      by_cases h1 : c = '\\'
      · subst h1
        have hb : badAfterBs r = false := by simpa using hbs.1
        simp [toPlain, parseAux, badAfterBs, IH.2 hb]
      · by_cases h2 : c = '*'
        · subst h2; simp [toPlain, parseAux, badAfterBs, IH.1]
        · by_cases h3 : c = '?'
          · subst h3; simp [toPlain, parseAux, badAfterBs, IH.1]
          · simp [toPlain, parseAux, badAfterBs, IH.1, h1, h2, h3]

theorem parse_noPh (e b : Bool) (x : Str) : noPh (parseAux e b x) = true := by
  fun_induction parseAux e b x <;> simp_all [noPh]

/-! ### the plain form written and parsed again by `replace_string` -/

/-- no literal backslash stands immediately in front of a wildcard -/
def bsWildOk : SStr → Bool
  | [] => true
  | .lit c :: r => (c != '\\' || !(r.head? == some .star || r.head? == some .qm)) && bsWildOk r
  | _ :: r => bsWildOk r

theorem toPlain_head_wild (r : SStr) (hph : noPh r = true) :
    ((toPlain r).head? == some '*' || (toPlain r).head? == some '?') = (r.head? == some .star || r.head? == some .qm) := by
  cases r with
  | nil => rfl
  | cons p r =>
    cases p with
    | ph n => simp [noPh] at hph
    | star => simp [toPlain]
    | qm => simp [toPlain]
    | lit c =>
      by_cases h2 : c = '*'
      · subst h2; simp [toPlain]
      · by_cases h3 : c = '?'
        · subst h3; simp [toPlain]
        · have e1 : (Part.lit c == Part.star) = false := beq_eq_false_iff_ne.mpr (by simp)
          have e2 : (Part.lit c == Part.qm) = false := beq_eq_false_iff_ne.mpr (by simp)
          simp [toPlain, h2, h3, e1, e2]

theorem parseAux_reescape_toPlain (s : SStr) (hph : noPh s = true) (hbs : bsWildOk s = true) :
    parseAux true false (reescape (toPlain s)) = s := by
  induction s with
  | nil => simp [toPlain, reescape, parseAux]
  | cons p r ih =>
    cases p with
    | ph n => simp [noPh] at hph
    | star =>
      have := ih (by simpa [noPh] using hph) (by simpa [bsWildOk] using hbs)
      simp [toPlain, reescape, parseAux, this]
    | qm =>
      have := ih (by simpa [noPh] using hph) (by simpa [bsWildOk] using hbs)
      simp [toPlain, reescape, parseAux, this]
    | lit c =>
      have hph' : noPh r = true := by simpa [noPh] using hph
      simp only [bsWildOk, Bool.and_eq_true] at hbs
      have IH := ih hph' hbs.2
      by_cases h1 : c = '\\'
      · subst h1
        have hw : ((toPlain r).head? == some '*' || (toPlain r).head? == some '?') = false := by
          rw [toPlain_head_wild r hph']; simpa using hbs.1
        have : toPlain (.lit '\\' :: r) = '\\' :: toPlain r := by simp [toPlain]
        rw [this, reescape]
        simp only [hw]
        simp [parseAux, IH]
      · by_cases h2 : c = '*'
        · subst h2; simp [toPlain, reescape, parseAux, IH]
        · by_cases h3 : c = '?'
          · subst h3; simp [toPlain, reescape, parseAux, IH]
          · simp [toPlain, reescape, parseAux, IH, h1, h2, h3]

/-! ## Deliverable 6: field names -/

/-- decidable well-formedness of a field-name escaping configuration: if there is a (non-empty)
escape string, its first character is itself among the escaped characters -/
def fieldWf (c : FieldCfg) : Bool :=
  match c.escape with
  | some (e0 :: _) => c.escapeChars.contains e0 || (c.escapeQuote && c.quote == some [e0])
  | _ => true

theorem escapeField_cons (c : FieldCfg) (ch : Char) (f : Str) :
    escapeField c (ch :: f) =
      (match c.escape with
       | none => [ch]
       | some e => if c.escapeChars.contains ch || (c.escapeQuote && c.quote == some [ch])
                   then e ++ [ch] else [ch]) ++ escapeField c f := by
  unfold escapeField
  cases c.escape <;> simp

theorem unescapeField_escapeField (c : FieldCfg) (hwf : fieldWf c = true) :
    ∀ (f : Str) (n : Nat), (escapeField c f).length < n →
      unescapeField c n (escapeField c f) = some f := by
  intro f
  induction f with
  | nil =>
    intro n _
    have : escapeField c [] = [] := by unfold escapeField; cases c.escape <;> simp
    rw [this]; cases n <;> simp [unescapeField]
  | cons ch f ih =>
    intro n hn
    rw [escapeField_cons] at hn ⊢
    cases he : c.escape with
    | none =>
      simp only [he, List.cons_append, List.nil_append, List.length_cons] at hn ⊢
      obtain ⟨n, rfl⟩ : ∃ n', n = n' + 1 := ⟨n - 1, by omega⟩
      simp [unescapeField, he, ih n (by omega)]
    | some e =>
      cases e with
      | nil =>
        have hn' : (escapeField c f).length + 1 < n := by
          simp only [he] at hn; split at hn <;> simpa using hn
        obtain ⟨n, rfl⟩ : ∃ n', n = n' + 1 := ⟨n - 1, by omega⟩
        simp only [List.nil_append]
        simp [unescapeField, he, ih n (by omega)]
      | cons e0 e' =>
        simp only [he] at hn ⊢
        have he0 : (c.escapeChars.contains e0 || (c.escapeQuote && c.quote == some [e0])) = true := by
          simpa [fieldWf, he] using hwf
        by_cases hch : (c.escapeChars.contains ch || (c.escapeQuote && c.quote == some [ch])) = true
        · simp only [hch, if_true, List.cons_append, List.length_cons, List.append_assoc,
            List.length_append, List.nil_append] at hn ⊢
          obtain ⟨n, rfl⟩ : ∃ n', n = n' + 1 := ⟨n - 1, by omega⟩
          have hs : stripPrefix (e0 :: e') (e0 :: (e' ++ ch :: escapeField c f))
              = some (ch :: escapeField c f) := stripPrefix_append (e0 :: e') _
          simp [unescapeField, he, hs, ih n (by omega)]
        · have hne : e0 ≠ ch := by rintro rfl; exact hch he0
          rw [Bool.not_eq_true] at hch
          simp only [hch, Bool.false_eq_true, if_false, List.cons_append, List.nil_append,
            List.length_cons] at hn ⊢
          obtain ⟨n, rfl⟩ : ∃ n', n = n' + 1 := ⟨n - 1, by omega⟩
          simp [unescapeField, he, stripPrefix_head_ne hne, ih n (by omega)]

/-- the test `escape_and_quote_field` applies to a character of the name (as in `escapeField`) -/
def fieldEsc (c : FieldCfg) (ch : Char) : Bool :=
  c.escapeChars.contains ch || (c.escapeQuote && c.quote == some [ch])

/-- the rendering puts a non-empty escape string in front of every `ch` of the name -/
def fieldEscaped (c : FieldCfg) (ch : Char) : Bool :=
  match c.escape with
  | some (_ :: _) => fieldEsc c ch
  | _ => false

/-- the escape string is not a proper prefix of the quote string (vacuous for a one-character
quote): otherwise the closing quote reads as an escape sequence -/
def escNotQuotePrefix (c : FieldCfg) (q : Str) : Bool :=
  match c.escape with
  | some (e0 :: e') => (match stripPrefix (e0 :: e') q with | some (_ :: _) => false | _ => true)
  | _ => true

/-- decidable side condition of the field-name round trip that the strict reading of a quoted name
forces (only for names emitted between non-empty quotes): the first character of the quote string
is escaped by the configuration (it is in the escape class, or it is the one-character quote and
`field_escape_quote` is set — with a non-empty escape string), OR it does not occur in the name.
For a one-character quote this is exact (`readQuotedField_unescaped_quote`). -/
def fieldQuoteOk (c : FieldCfg) (quoted : Bool) (f : Str) : Bool :=
  match c.quote, quoted with
  | some (q0 :: q'), true => escNotQuotePrefix c (q0 :: q') && (fieldEscaped c q0 || !f.contains q0)
  | _, _ => true

/-- a one-character quote has no proper prefix -/
theorem escNotQuotePrefix_single (c : FieldCfg) (qc : Char) : escNotQuotePrefix c [qc] = true := by
  unfold escNotQuotePrefix
  cases he : c.escape with
  | none => rfl
  | some e =>
    cases e with
    | nil => rfl
    | cons e0 e' =>
      cases e' with
      | nil => by_cases h : e0 = qc <;> simp [stripPrefix, h]
      | cons e1 e'' => by_cases h : e0 = qc <;> simp [stripPrefix, h]

theorem escapeField_nil (c : FieldCfg) : escapeField c [] = [] := by
  unfold escapeField; cases c.escape <;> simp

/-- strict reading of the escaped name followed by the closing quote -/
theorem readQuotedField_escapeField (c : FieldCfg) (hwf : fieldWf c = true) (q0 : Char) (q' : Str)
    (hpre : escNotQuotePrefix c (q0 :: q') = true) :
    ∀ (f : Str) (n : Nat), (fieldEscaped c q0 || !f.contains q0) = true →
      (escapeField c f).length < n →
      readQuotedField c (q0 :: q') n (escapeField c f ++ q0 :: q') = some f := by
  intro f
  induction f with
  | nil =>
    intro n _ hn
    rw [escapeField_nil] at hn ⊢
    obtain ⟨n, rfl⟩ : ∃ n', n = n' + 1 := ⟨n - 1, by simp at hn; omega⟩
    have hs : stripPrefix (q0 :: q') (q0 :: q') = some [] := by
      simpa using stripPrefix_append (q0 :: q') []
    cases he : c.escape with
    | none => simp [readQuotedField, he, hs]
    | some e =>
      cases e with
      | nil => simp [readQuotedField, he, hs]
      | cons e0 e' =>
        have hp : ∀ d r, stripPrefix (e0 :: e') (q0 :: q') ≠ some (d :: r) := by
          intro d r h; simp [escNotQuotePrefix, he, h] at hpre
        cases hx : stripPrefix (e0 :: e') (q0 :: q') with
        | none => simp [readQuotedField, he, hx, hs]
        | some x =>
          cases x with
          | nil => simp [readQuotedField, he, hx, hs]
          | cons d r => exact absurd hx (hp d r)
  | cons ch f ih =>
    intro n hc hn
    have hcf : (fieldEscaped c q0 || !f.contains q0) = true := by
      cases h : fieldEscaped c q0 with
      | true => simp
      | false => simp [h] at hc ⊢; exact hc.2
    have hq0 : fieldEscaped c q0 = false → q0 ≠ ch := by
      intro h; simp [h] at hc; exact hc.1
    rw [escapeField_cons] at hn ⊢
    cases he : c.escape with
    | none =>
      simp only [he, List.cons_append, List.nil_append, List.length_cons] at hn ⊢
      obtain ⟨n, rfl⟩ : ∃ n', n = n' + 1 := ⟨n - 1, by omega⟩
      have hne : q0 ≠ ch := hq0 (by simp [fieldEscaped, he])
      simp [readQuotedField, he, stripPrefix_head_ne hne, ih n hcf (by omega)]
    | some e =>
      cases e with
      | nil =>
        have hn' : (escapeField c f).length + 1 < n := by
          simp only [he] at hn; split at hn <;> simpa using hn
        obtain ⟨n, rfl⟩ : ∃ n', n = n' + 1 := ⟨n - 1, by omega⟩
        have hne : q0 ≠ ch := hq0 (by simp [fieldEscaped, he])
        simp only [List.nil_append, ite_self, List.cons_append]
        simp [readQuotedField, he, stripPrefix_head_ne hne, ih n hcf (by omega)]
      | cons e0 e' =>
        simp only [he] at hn ⊢
        have he0 : fieldEsc c e0 = true := by simpa [fieldWf, he, fieldEsc] using hwf
        by_cases hch : fieldEsc c ch = true
        · have hch' : (c.escapeChars.contains ch || (c.escapeQuote && c.quote == some [ch])) = true := hch
          simp only [hch', if_true, List.cons_append, List.length_cons, List.append_assoc,
            List.length_append, List.nil_append] at hn ⊢
          obtain ⟨n, rfl⟩ : ∃ n', n = n' + 1 := ⟨n - 1, by omega⟩
          have hs : stripPrefix (e0 :: e') (e0 :: (e' ++ ch :: (escapeField c f ++ q0 :: q')))
              = some (ch :: (escapeField c f ++ q0 :: q')) := stripPrefix_append (e0 :: e') _
          simp [readQuotedField, he, hs, ih n hcf (by omega)]
        · have hne : e0 ≠ ch := by rintro rfl; exact hch he0
          rw [Bool.not_eq_true] at hch
          have hch' : (c.escapeChars.contains ch || (c.escapeQuote && c.quote == some [ch])) = false := hch
          have hqne : q0 ≠ ch := by
            cases h : fieldEscaped c q0 with
            | false => exact hq0 h
            | true =>
              rintro rfl
              simp [fieldEscaped, he, hch] at h
          simp only [hch', Bool.false_eq_true, if_false, List.cons_append, List.nil_append,
            List.length_cons] at hn ⊢
          obtain ⟨n, rfl⟩ : ∃ n', n = n' + 1 := ⟨n - 1, by omega⟩
          simp [readQuotedField, he, stripPrefix_head_ne hne, stripPrefix_head_ne hqne,
            ih n hcf (by omega)]

/-- exactness for a one-character quote: when the quote character is NOT escaped by the
configuration and occurs in the name, the rendered body is terminated early, whatever the fuel -/
theorem readQuotedField_unescaped_quote (c : FieldCfg) (hwf : fieldWf c = true) (qc : Char)
    (hne : fieldEscaped c qc = false) :
    ∀ (f : Str) (n : Nat), f.contains qc = true →
      readQuotedField c [qc] n (escapeField c f ++ [qc]) = none := by
  intro f
  induction f with
  | nil => intro n h; simp at h
  | cons ch f ih =>
    intro n hc
    cases n with
    | zero => simp [readQuotedField]
    | succ n =>
      rw [escapeField_cons]
      -- the head chunk: either `e ++ [ch]` with a non-empty escape (then `ch ≠ qc`), or `[ch]`
      cases he : c.escape with
      | none =>
        simp only [List.cons_append, List.nil_append]
        by_cases hq : ch = qc
        · subst hq
          have hs : stripPrefix [ch] (ch :: (escapeField c f ++ [ch])) = some (escapeField c f ++ [ch]) :=
            stripPrefix_append [ch] _
          cases hx : escapeField c f ++ [ch] with
          | nil => simp at hx
          | cons a r => rw [hx] at hs; simp [readQuotedField, he, hs]
        · have hq' : qc ≠ ch := fun h => hq h.symm
          have hcf : f.contains qc = true := by simpa [hq'] using hc
          simp [readQuotedField, he, stripPrefix_head_ne hq', ih n hcf]
      | some e =>
        cases e with
        | nil =>
          simp only [List.nil_append, ite_self, List.cons_append]
          by_cases hq : ch = qc
          · subst hq
            have hs : stripPrefix [ch] (ch :: (escapeField c f ++ [ch])) = some (escapeField c f ++ [ch]) :=
              stripPrefix_append [ch] _
            cases hx : escapeField c f ++ [ch] with
            | nil => simp at hx
            | cons a r => rw [hx] at hs; simp [readQuotedField, he, hs]
          · have hq' : qc ≠ ch := fun h => hq h.symm
            have hcf : f.contains qc = true := by simpa [hq'] using hc
            simp [readQuotedField, he, stripPrefix_head_ne hq', ih n hcf]
        | cons e0 e' =>
          have he0 : fieldEsc c e0 = true := by simpa [fieldWf, he, fieldEsc] using hwf
          have hqe : fieldEsc c qc = false := by simpa [fieldEscaped, he] using hne
          by_cases hch : fieldEsc c ch = true
          · have hch' : (c.escapeChars.contains ch || (c.escapeQuote && c.quote == some [ch])) = true := hch
            have hq' : qc ≠ ch := by rintro rfl; simp [hqe] at hch
            have hcf : f.contains qc = true := by simpa [hq'] using hc
            simp only [hch', if_true, List.cons_append, List.append_assoc, List.nil_append]
            have hs : stripPrefix (e0 :: e') (e0 :: (e' ++ ch :: (escapeField c f ++ [qc])))
                = some (ch :: (escapeField c f ++ [qc])) := stripPrefix_append (e0 :: e') _
            simp [readQuotedField, he, hs, ih n hcf]
          · have hne0 : e0 ≠ ch := by rintro rfl; exact hch he0
            rw [Bool.not_eq_true] at hch
            have hch' : (c.escapeChars.contains ch || (c.escapeQuote && c.quote == some [ch])) = false := hch
            simp only [hch', Bool.false_eq_true, if_false, List.cons_append, List.nil_append]
            by_cases hq : ch = qc
            · subst hq
              have hs : stripPrefix [ch] (ch :: (escapeField c f ++ [ch])) = some (escapeField c f ++ [ch]) :=
                stripPrefix_append [ch] _
              cases hx : escapeField c f ++ [ch] with
              | nil => simp at hx
              | cons a r => rw [hx] at hs; simp [readQuotedField, he, stripPrefix_head_ne hne0, hs]
            · have hq' : qc ≠ ch := fun h => hq h.symm
              have hcf : f.contains qc = true := by simpa [hq'] using hc
              simp [readQuotedField, he, stripPrefix_head_ne hne0, stripPrefix_head_ne hq', ih n hcf]

theorem decodeField_escapeAndQuoteField (c : FieldCfg) (hwf : fieldWf c = true) (quoted : Bool)
    (f : Str) (hq : fieldQuoteOk c quoted f = true) :
    decodeField c quoted (escapeAndQuoteField c quoted f) = some f := by
  unfold decodeField escapeAndQuoteField
  cases hcq : c.quote with
  | none => simp only []; exact unescapeField_escapeField c hwf f _ (by omega)
  | some q =>
    cases quoted with
    | false => simp only [Bool.false_eq_true, if_false]; exact unescapeField_escapeField c hwf f _ (by omega)
    | true =>
      cases q with
      | nil =>
        simp only [if_true, List.nil_append, List.append_nil, List.isEmpty_nil]
        exact unescapeField_escapeField c hwf f _ (by omega)
      | cons q0 q' =>
        simp only [fieldQuoteOk, hcq, Bool.and_eq_true] at hq
        simp only [if_true, List.append_assoc, stripPrefix_append, List.isEmpty_cons,
          Bool.false_eq_true, if_false]
        exact readQuotedField_escapeField c hwf q0 q' hq.1 f _ hq.2 (by simp; omega)

/-- … and for a one-character quote the side condition is necessary: without it the quoted
rendering is terminated early -/
theorem decodeField_unescaped_quote (c : FieldCfg) (hwf : fieldWf c = true) (qc : Char)
    (hcq : c.quote = some [qc]) (f : Str) (hq : fieldQuoteOk c true f = false) :
    decodeField c true (escapeAndQuoteField c true f) = none := by
  have h : fieldEscaped c qc = false ∧ f.contains qc = true := by
    have hp := escNotQuotePrefix_single c qc
    simp only [fieldQuoteOk, hcq, hp, Bool.true_and] at hq
    cases h1 : fieldEscaped c qc with
    | true => simp [h1] at hq
    | false => simp [h1] at hq; exact ⟨rfl, by simpa using hq⟩
  unfold decodeField escapeAndQuoteField
  simp only [hcq, if_true, List.append_assoc, stripPrefix_append, List.isEmpty_cons,
    Bool.false_eq_true, if_false]
  exact readQuotedField_unescaped_quote c hwf qc h.1 f _ h.2

end SigmaVerif.SStrSpec
