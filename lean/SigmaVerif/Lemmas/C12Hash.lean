import SigmaVerif.Spec.Rewrite
/-! Helper lemmas for the hash-field splitting part of C12: grouping entries by target field
(`groupInsert`/`groupAll`) neither loses nor invents an entry and opens one group per field. -/
namespace SigmaVerif.Lemmas.C12
open SigmaVerif.SStr SigmaVerif.Rule SigmaVerif.Rewrite

/-- "value `x` is in a group of key `f`" -/
def InGroups (gs : List (Str × List Str)) (f x : Str) : Prop := ∃ g ∈ gs, g.1 = f ∧ x ∈ g.2

def groupKeys (gs : List (Str × List Str)) : List Str := gs.map (·.1)

theorem inGroups_nil (f x : Str) : ¬ InGroups [] f x := by
  rintro ⟨g, hg, _⟩; cases hg

theorem inGroups_cons (g : Str × List Str) (gs : List (Str × List Str)) (f x : Str) :
    InGroups (g :: gs) f x ↔ (g.1 = f ∧ x ∈ g.2) ∨ InGroups gs f x := by
  unfold InGroups
  constructor
  · rintro ⟨g', hg', h⟩
    rcases List.mem_cons.mp hg' with rfl | hm
    · exact .inl h
    · exact .inr ⟨g', hm, h⟩
  · rintro (h | ⟨g', hm, h⟩)
    · exact ⟨g, by simp, h⟩
    · exact ⟨g', by simp [hm], h⟩

/-- inserting `(k, v)` adds exactly the membership of `v` under `k` -/
theorem inGroups_insert (k v : Str) : ∀ (gs : List (Str × List Str)) (f x : Str),
    InGroups (groupInsert k v gs) f x ↔ InGroups gs f x ∨ (f = k ∧ x = v)
  | [], f, x => by
    simp only [groupInsert, inGroups_cons]
    constructor
    · rintro (⟨h1, h2⟩ | h)
      · exact .inr ⟨h1.symm, by simpa using h2⟩
      · exact absurd h (inGroups_nil f x)
    · rintro (h | ⟨h1, h2⟩)
      · exact absurd h (inGroups_nil f x)
      · exact .inl ⟨h1.symm, by simp [h2]⟩
  | g :: gs, f, x => by
    unfold groupInsert
    by_cases hk : g.1 = k
    · simp only [hk, if_true, inGroups_cons, List.mem_append, List.mem_singleton]
      constructor
      · rintro (⟨h1, h2 | h2⟩ | h)
        · exact .inl (.inl ⟨h1, h2⟩)
        · exact .inr ⟨h1.symm, h2⟩
        · exact .inl (.inr h)
      · rintro ((⟨h1, h2⟩ | h) | ⟨h1, h2⟩)
        · exact .inl ⟨h1, .inl h2⟩
        · exact .inr h
        · exact .inl ⟨h1.symm, .inr h2⟩
    · simp only [hk, if_false, inGroups_cons, inGroups_insert k v gs f x]
      constructor
      · rintro (h | h | h)
        · exact .inl (.inl h)
        · exact .inl (.inr h)
        · exact .inr h
      · rintro ((h | h) | h)
        · exact .inl h
        · exact .inr (.inl h)
        · exact .inr (.inr h)

/-- the keys after an insertion: unchanged if the key has a group, else the key is appended -/
theorem groupKeys_insert (k v : Str) : ∀ gs : List (Str × List Str),
    groupKeys (groupInsert k v gs) = if k ∈ groupKeys gs then groupKeys gs else groupKeys gs ++ [k]
  | [] => by simp [groupInsert, groupKeys]
  | g :: gs => by
    unfold groupInsert
    by_cases hk : g.1 = k
    · simp [hk, groupKeys]
    · have ih := groupKeys_insert k v gs
      have hk' : ¬ k = g.1 := fun h => hk h.symm
      simp only [hk, if_false, groupKeys, List.map_cons, List.mem_cons, hk', false_or] at ih ⊢
      rw [ih]
      by_cases hm : k ∈ List.map (fun x => x.fst) gs <;> simp [hm]

theorem groupKeys_insert_nodup (k v : Str) (gs : List (Str × List Str)) (h : (groupKeys gs).Nodup) :
    (groupKeys (groupInsert k v gs)).Nodup := by
  rw [groupKeys_insert]
  split
  · exact h
  · rename_i hk
    exact List.nodup_append.mpr ⟨h, by simp, by
      intro a ha b hb
      simp only [List.mem_singleton] at hb
      subst hb
      exact fun hab => hk (hab ▸ ha)⟩

theorem inGroups_groupAll : ∀ (es : List (Str × Str)) (acc : List (Str × List Str)) (f x : Str),
    InGroups (groupAll es acc) f x ↔ InGroups acc f x ∨ (f, x) ∈ es
  | [], acc, f, x => by simp [groupAll]
  | e :: es, acc, f, x => by
    simp only [groupAll, inGroups_groupAll es, inGroups_insert, List.mem_cons]
    constructor
    · rintro ((h | ⟨h1, h2⟩) | h)
      · exact .inl h
      · exact .inr (.inl (by rw [h1, h2]))
      · exact .inr (.inr h)
    · rintro (h | h | h)
      · exact .inl (.inl h)
      · exact .inl (.inr ⟨by rw [← h], by rw [← h]⟩)
      · exact .inr h

theorem groupAll_nodup : ∀ (es : List (Str × Str)) (acc : List (Str × List Str)),
    (groupKeys acc).Nodup → (groupKeys (groupAll es acc)).Nodup
  | [], _, h => h
  | e :: es, acc, h => groupAll_nodup es _ (groupKeys_insert_nodup e.1 e.2 acc h)

end SigmaVerif.Lemmas.C12
