import SigmaVerif.Lemmas.C13Conds
/-! Concrete worlds and items used by the witnesses and non-vacuity examples of `Props/C13.lean`:
`ruledoc` mirrors `RULEDOC` of `harness/c13.py`, the pre-items mirror the harness's pre-items. -/
namespace SigmaVerif.Lemmas.C13
open SigmaVerif.PipeConds

/-- the witness: an item `a = [fieldref b]`; `include_fields [a]` holds (through the field) and
`exclude_fields [a]` holds as well (through the reference) -/
def refItem : DetItem := { det := "sel".toList, field := some "a".toList, values := [.ref "b".toList], applied := [] }
def emptyWorld : World :=
  { kind := .sigma, logsource := ⟨none, none, none⟩, refSources := [], items := [], fields := [], applied := [],
    state := [], nameApplied := [], attrs := [], tags := [] }


/-- an unconditional `field_name_mapping {a: b}` with id `pid` -/
def plainMap (pid a b : Str) : PItem :=
  { id := some pid, rule := ⟨[], .all, false⟩, det := ⟨[], .all, false⟩, field := ⟨[], .all, false⟩,
    action := .mapFields [(a, b)] }


def sv (s : String) : Val := .str (SStr.parse s.toList)
def docItem (d f : String) (vs : List Val) : DetItem := { det := d.toList, field := some f.toList, values := vs, applied := [] }
def noGroup {α : Type} : PipeConds.Group α := ⟨[], .all, false⟩

/-- `RULEDOC` as the conditions see it before any item ran -/
def ruledoc : World :=
  { kind := .sigma, logsource := ⟨some "cat".toList, some "prod".toList, none⟩, refSources := [],
    items := [docItem "sel" "fieldA" [sv "valueA"], docItem "sel" "fieldB" [sv "x*", sv "y"], docItem "sel" "fieldC" [.null],
              docItem "sel" "fieldD" [.num (Num.ofInt 1), sv "x1"], docItem "sel" "fieldH" [.bool true, .num (Num.ofInt 2)],
              docItem "flt" "fieldA" [sv "other"], docItem "flt" "fieldE" [sv "*w*"]],
    fields := [], applied := [], state := [], nameApplied := [],
    attrs := [("title".toList, .str "t".toList), ("level".toList, .level 3), ("status".toList, .status 3),
              ("date".toList, .date 2024 1 5), ("references".toList, .list ["r1".toList, "r2".toList]),
              ("score".toList, .num (Num.ofInt 5)), ("ratio".toList, .num ⟨25, 1⟩)],
    tags := ["attack.t1234".toList] }

/-- `set_state k=v` guarded by a log source condition -/
def preState (cat : String) : PItem :=
  { id := some "state".toList, rule := ⟨[.logsource ⟨some cat.toList, none, none⟩], .all, false⟩, det := noGroup, field := noGroup,
    action := .setState "k".toList (.str "v".toList) }
def preMap : PItem := plainMap "map".toList "fieldB".toList "mappedB".toList
def preLogsource : PItem :=
  { id := some "ls".toList, rule := noGroup, det := noGroup, field := noGroup,
    action := .changeLogsource ⟨some "newcat".toList, none, none⟩ }

/-- a suffix probe: state k=v ∧ (some value has a wildcard) ∧ field ∈ {fieldA, mappedB} -/
def probe1 : PItem :=
  { id := some "probe".toList,
    rule := ⟨[.state ⟨"k".toList, .str "v".toList, .eq⟩], .all, false⟩,
    det := ⟨[.containsWildcard false], .all, false⟩,
    field := ⟨[.incl ["fieldA".toList, "mappedB".toList] false], .all, false⟩,
    action := .suffix "_X".toList }

def noRe : Str → Str → Bool := fun _ _ => false

/-- a keyword item: no field name -/
def kwItem : DetItem := { det := "kw".toList, field := none, values := [sv "plain"], applied := [] }
/-- the world after `set_state k=v` -/
def stateWorld : World := { emptyWorld with state := [("k".toList, .str "v".toList)] }
/-- a drop probe gated by the field-name condition `processing_state k == v` (optionally negated) -/
def stateDropProbe (neg : Bool) : PItem :=
  { id := some "probe".toList, rule := noGroup, det := noGroup,
    field := ⟨[.state ⟨"k".toList, .str "v".toList, .eq⟩], .all, neg⟩, action := .dropItem }


end SigmaVerif.Lemmas.C13
