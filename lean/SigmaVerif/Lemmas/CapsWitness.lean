import SigmaVerif.Lemmas.CapsFlow
/-!
# C16: small documents and deliberately broken configurations used as witnesses in `Props/C16.lean`,
and two projection lemmas about `Caller.effective`.
-/
namespace SigmaVerif.Caps

theorem effective_atv (cfg : Cfg) (w : World) (c : Caller) : (c.effective cfg w).atv = c.atv := by
  unfold Caller.effective
  split
  · split <;> rfl
  · rfl

theorem effective_aes (cfg : Cfg) (w : World) (c : Caller) : (c.effective cfg w).aes = c.aes := by
  unfold Caller.effective
  split
  · split <;> rfl
  · rfl

def str (s : String) : Val := .str s.toList
def cmdItem (extra : KV := []) : Node := .mk (some "command_placeholders") ([("cmd", str "id")] ++ extra) false []
def fileItem : Node := .mk (some "file_placeholders") [("path", str "/data/v.txt")] false []
def urlItem : Node := .mk (some "http_placeholders") [("url", str "http://x/")] false []
def tmplItem (vars : String) (extra : KV := []) : Node :=
  .mk (some "template") ([("template", str "{{ query }}"), ("vars", str vars)] ++ extra) false []
def grants : KV := [(kAtv, .bool true), (kVap, .strs ["/".toList]), (kAes, .bool true)]
def docT (ns : List Node) : Doc := { keys := ["transformations"], ts := ns }
def docPP (ns : List Node) : Doc := { keys := ["postprocessing"], pps := ns }
def docF (ns : List Node) : Doc := { keys := ["finalizers"], fs := ns }
def nestT (ns : List Node) (extra : KV := []) : Node := .mk (some "nest") extra true ns
def nestF (ns : List Node) (extra : KV := []) : Node := .mk (some "nested") extra true ns
/-- outcome of loading and converting -/
def outcome (cfg : Cfg) (w : World) (c : Caller) (d : Doc) : Except Err Unit :=
  match (load cfg w c d).res with
  | .ok p => (convert cfg w p).res
  | .error e => .error e

/-- the loader as it would be without the exclusion of `allow_external_sources` *and* without the overwriting
assignment for external sources -/
def cfgNoExt : Cfg :=
  { Cfg.ref with item := { strip := Cfg.ref.item.strip.filter (· != kAes), injTmpl := [kAtv, kVap], injExt := [] } }
/-- nested finalizers that neither strip nor overwrite -/
def cfgNoNestedFin : Cfg := { Cfg.ref with finNested := { strip := [], injTmpl := [], injExt := [] } }

end SigmaVerif.Caps
