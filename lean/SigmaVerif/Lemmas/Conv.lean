import SigmaVerif.Spec.Conv
/-!
# Lemmas for C01 (condition tree → query conversion, read back by the target language)
-/
namespace SigmaVerif.ConvLemmas
open SigmaVerif.Conv SigmaVerif.ConvSpec

deriving instance DecidableEq for QE

/-! ## Well-formed trees -/

/- Side conditions on the condition tree under which the conversion is sound.  Each is minimal in
the sense that dropping it admits a counterexample (checked by `decide` in `Props/C01.lean` §2):

* `exp as`, `cidr as`: `as ≠ []`.  An expansion without alternatives vanishes in the query but is
  `false` in the tree:
  `#eval convert (cfg defaultPrec) false (.and [.atom 1 strF1, .exp []])`   -- some [atom 1]
  `#eval evalCT (fun _ => true) (.and [.atom 1 strF1, .exp []])`            -- some false
  `#eval convert (cfg defaultPrec) false (.not (.cidr []))`                 -- none
  `#eval evalCT (fun _ => true) (.not (.cidr []))`                          -- some true
* `cidr as` with at least two patterns: all patterns carry the same `some` field and `inOk = true`
  (true for the real code: the patterns of one CIDR value are strings of one field).  Otherwise, in
  a backend with `orAsIn ∧ inAllowWild` (`cidrAsOr = false`, so `compare_precedence` and the NOT
  case treat the node as atomic) the patterns are not in-list eligible and an *ungrouped* OR is
  emitted:
  `#eval convert (cfg defaultPrec false true false true) false
      (.and [.atom 1 strF1, .cidr [(2, wildF1), (3, { wildF1 with field := some 2 })]])`
      -- some [atom 1, tand, atom 2, tor, atom 3], read as (1 and 2) or 3
  (same output with `{ wildF1 with inOk := false }` and with `field := none` on both patterns).
  A single pattern needs no condition (it is rendered as one atom either way).
No condition on `atom`, `nex`, `not`, `and`, `or`, `none` beyond the recursive ones. -/
mutual
def wfTree : CT → Bool
  | .atom _ _ => true
  | .exp as => !as.isEmpty
  | .cidr as =>
      match as with
      | [] => false
      | [_] => true
      | p :: _ => p.2.field.isSome && as.all (fun q => q.2.field == p.2.field && q.2.inOk)
  | .nex _ _ => true
  | .not c => wfTree c
  | .and cs => wfTreeL cs
  | .or cs => wfTreeL cs
  | .none => true
def wfTreeL : List CT → Bool
  | [] => true
  | c :: cs => wfTree c && wfTreeL cs
end

theorem wfTreeL_mem {cs : List CT} (h : wfTreeL cs = true) : ∀ c ∈ cs, wfTree c = true := by
  induction cs with
  | nil => simp
  | cons c cs ih =>
    simp only [wfTreeL, Bool.and_eq_true] at h
    intro x hx
    rcases List.mem_cons.1 hx with rfl | hx
    · exact h.1
    · exact ih h.2 x hx

/-- induction principle for the nested inductive `CT` -/
theorem CT.ind {P : CT → Prop}
    (atom : ∀ a i, P (.atom a i)) (exp : ∀ as, P (.exp as)) (cidr : ∀ as, P (.cidr as))
    (nex : ∀ a i, P (.nex a i))
    (not : ∀ c, P c → P (.not c))
    (and : ∀ cs, (∀ c ∈ cs, P c) → P (.and cs))
    (or : ∀ cs, (∀ c ∈ cs, P c) → P (.or cs))
    (none : P .none) : ∀ c, P c := by
  intro c
  exact CT.rec (motive_1 := P) (motive_2 := fun cs => ∀ c ∈ cs, P c)
    atom exp cidr nex (fun c ih => not c ih) (fun cs ih => and cs ih) (fun cs ih => or cs ih) none
    (by simp) (fun c cs ih1 ih2 x hx => by
      rcases List.mem_cons.1 hx with rfl | hx
      · exact ih1
      · exact ih2 x hx) c

/-! ## The precedence tuple -/

def ix (k : Cfg) (o : Op) : Nat := (idxOf k.prec o).getD 0

theorem wf_perm {k : Cfg} (hk : k.wf = true) :
    k.prec = [.not, .and, .or] ∨ k.prec = [.not, .or, .and] ∨ k.prec = [.and, .not, .or] ∨
    k.prec = [.and, .or, .not] ∨ k.prec = [.or, .not, .and] ∨ k.prec = [.or, .and, .not] := by
  unfold Cfg.wf at hk
  match h : k.prec with
  | [a, b, c] =>
    rw [h] at hk
    cases a <;> cases b <;> cases c <;> simp_all
  | [] => rw [h] at hk; simp at hk
  | [_] => rw [h] at hk; simp at hk
  | [_, _] => rw [h] at hk; simp at hk
  | _ :: _ :: _ :: _ :: _ => rw [h] at hk; simp at hk

theorem idxOf_ix {k : Cfg} (hk : k.wf = true) (o : Op) : idxOf k.prec o = some (ix k o) := by
  rcases wf_perm hk with h | h | h | h | h | h <;> cases o <;> simp [ix, idxOf, h] <;> decide

theorem prec_ix {k : Cfg} (hk : k.wf = true) (o : Op) : k.prec[ix k o]? = some o := by
  rcases wf_perm hk with h | h | h | h | h | h <;> cases o <;> simp [ix, idxOf, h] <;> decide

theorem ix_lt {k : Cfg} (hk : k.wf = true) (o : Op) : ix k o < 3 := by
  rcases wf_perm hk with h | h | h | h | h | h <;> cases o <;> simp [ix, idxOf, h] <;> decide

theorem ix_inj {k : Cfg} (hk : k.wf = true) (a b : Op) (h : ix k a = ix k b) : a = b := by
  have ha := prec_ix hk a
  have hb := prec_ix hk b
  rw [h, hb] at ha
  exact (Option.some.inj ha).symm

theorem prec_lt {k : Cfg} (hk : k.wf = true) (j : Nat) (hj : j < 3) :
    ∃ o, k.prec[j]? = some o ∧ ix k o = j := by
  have h3 : j = 0 ∨ j = 1 ∨ j = 2 := by omega
  rcases wf_perm hk with h | h | h | h | h | h <;> rcases h3 with rfl | rfl | rfl <;>
    simp [ix, idxOf, h] <;> decide

/-! ## The reader, level by level -/

/-- the reader after `j` levels of the stratified grammar (fuel `f` for the parenthesis knot) -/
def lev (k : Cfg) (f : Nat) : Nat → P
  | 0 => rPrim (rTop k.prec f)
  | j+1 => match k.prec[j]? with
           | some o => rLevel o (lev k f j)
           | none => lev k f j

theorem rTop_succ {k : Cfg} (hk : k.wf = true) (f : Nat) : rTop k.prec (f+1) = lev k f 3 := by
  rcases wf_perm hk with h | h | h | h | h | h <;> simp [rTop, lev, h]

theorem lev_succ {k : Cfg} (hk : k.wf = true) (f : Nat) (o : Op) :
    lev k f (ix k o + 1) = rLevel o (lev k f (ix k o)) := by
  simp [lev, prec_ix hk o]

def tokOf : Op → QTok | .and => .tand | .or => .tor | .not => .tnot
def mkOf : Op → QE → QE → QE | .and => .and | .or => .or | .not => fun a _ => a
def combOf : Op → Bool → Bool → Bool | .and => (· && ·) | .or => (· || ·) | .not => fun a _ => a
def isBin : Op → Bool | .not => false | _ => true

theorem rLevel_bin (o : Op) (ho : isBin o = true) (sub : P) :
    rLevel o sub = rBin (tokOf o) (mkOf o) sub := by
  cases o <;> simp_all [isBin, rLevel, tokOf, mkOf]

theorem combOf_assoc (o : Op) (a b c : Bool) :
    combOf o (combOf o a b) c = combOf o a (combOf o b c) := by
  cases o <;> simp [combOf, Bool.and_assoc, Bool.or_assoc]

/-- what may follow an expression read at level `j`: no binary operator token of a level `< j` -/
def Stop (k : Cfg) (j : Nat) : List QTok → Prop
  | .tand :: _ => j ≤ ix k .and
  | .tor :: _ => j ≤ ix k .or
  | _ => True

theorem Stop_mono {k : Cfg} {j j' : Nat} (h : j ≤ j') {R : List QTok} (hR : Stop k j' R) :
    Stop k j R := by
  unfold Stop at *
  split <;> simp_all <;> omega

theorem Stop_tok (k : Cfg) (o : Op) (R : List QTok) : Stop k (ix k o) (tokOf o :: R) := by
  cases o <;> simp [Stop, tokOf]

theorem Stop_head {k : Cfg} (o : Op) (ho : isBin o = true) {t : QTok} {R : List QTok}
    (h : Stop k (ix k o + 1) (t :: R)) : t ≠ tokOf o := by
  intro ht
  subst ht
  cases o <;> simp [Stop, tokOf, isBin] at h ho <;> omega

theorem Stop_rp (k : Cfg) (j : Nat) (R : List QTok) : Stop k j (.rp :: R) := by simp [Stop]
theorem Stop_nil (k : Cfg) (j : Nat) : Stop k j [] := by simp [Stop]

/-- `q` is read exactly at level `j` in front of any admissible rest, with meaning `v` -/
def G (k : Cfg) (f j : Nat) (q : List QTok) (v : (Nat → Bool) → Bool) : Prop :=
  ∀ R, Stop k j R → ∃ e, lev k f j (q ++ R) = some (e, R) ∧ ∀ ρ, e.denote ρ = v ρ

theorem rNot_ne (sub : P) (n : Nat) (t : QTok) (ts : List QTok) (h : t ≠ .tnot) :
    rNot sub (n+1) (t :: ts) = sub (t :: ts) := by
  cases t <;> simp_all [rNot]

/-- no level reads the empty list, and below the NOT level nothing starts with NOT -/
theorem lev_head {k : Cfg} (hk : k.wf = true) (f : Nat) :
    ∀ j, j ≤ 3 → ∀ ts r, lev k f j ts = some r →
      ∃ t ts', ts = t :: ts' ∧ (j ≤ ix k .not → t ≠ .tnot) := by
  intro j
  induction j with
  | zero =>
    intro _ ts r h
    cases ts with
    | nil => simp [lev, rPrim] at h
    | cons t ts' =>
      refine ⟨t, ts', rfl, fun _ ht => ?_⟩
      subst ht
      simp [lev, rPrim] at h
  | succ j ih =>
    intro hj ts r h
    obtain ⟨o, ho, hio⟩ := prec_lt hk j (by omega)
    simp only [lev, ho] at h
    cases o with
    | not =>
      cases ts with
      | nil =>
        simp only [rLevel, rNot] at h
        obtain ⟨t, ts', h', _⟩ := ih (by omega) _ _ h
        cases h'
      | cons t ts' =>
        refine ⟨t, ts', rfl, fun hle => ?_⟩
        omega
    | and =>
      simp only [rLevel, rBin] at h
      cases hs : lev k f j ts with
      | none => simp [hs] at h
      | some r' =>
        obtain ⟨t, ts', h', hn⟩ := ih (by omega) _ _ hs
        exact ⟨t, ts', h', fun hle => hn (by omega)⟩
    | or =>
      simp only [rLevel, rBin] at h
      cases hs : lev k f j ts with
      | none => simp [hs] at h
      | some r' =>
        obtain ⟨t, ts', h', hn⟩ := ih (by omega) _ _ hs
        exact ⟨t, ts', h', fun hle => hn (by omega)⟩

/-- an expression read at level `j` is also read one level up -/
theorem G_step {k : Cfg} (hk : k.wf = true) {f j : Nat} (hj : j < 3) {q v} (h : G k f j q v) :
    G k f (j+1) q v := by
  intro R hR
  obtain ⟨e, he, hv⟩ := h R (Stop_mono (Nat.le_succ j) hR)
  refine ⟨e, ?_, hv⟩
  obtain ⟨o, ho, hio⟩ := prec_lt hk j hj
  obtain ⟨t, ts', hts, hnot⟩ := lev_head hk f j (by omega) _ _ he
  simp only [lev, ho]
  cases o with
  | not =>
    have ht := hnot (by omega)
    simp only [rLevel]
    rw [hts] at he ⊢
    rw [List.length_cons, rNot_ne _ _ _ _ ht]
    exact he
  | and =>
    simp only [rLevel, rBin, he]
    cases R with
    | nil => cases hR' : ([] : List QTok).length <;> simp [rChain]
    | cons t R' =>
      have := Stop_head (k := k) .and rfl (hio ▸ hR)
      simp [rChain, tokOf] at this ⊢
      simp [this]
  | or =>
    simp only [rLevel, rBin, he]
    cases R with
    | nil => simp [rChain]
    | cons t R' =>
      have := Stop_head (k := k) .or rfl (hio ▸ hR)
      simp [rChain, tokOf] at this ⊢
      simp [this]

theorem G_lift {k : Cfg} (hk : k.wf = true) {f j j' : Nat} (hjj : j ≤ j') (hj : j' ≤ 3) {q v}
    (h : G k f j q v) : G k f j' q v := by
  induction j' with
  | zero => have : j = 0 := by omega
            subst this; exact h
  | succ n ih =>
    by_cases hjn : j = n + 1
    · subst hjn; exact h
    · exact G_step hk (by omega) (ih (by omega) (by omega))

/-! ## Chains of a binary operator -/

/-- `q` is a (possibly nested, hence flattened by the reader) chain of operands of the binary
operator `o`: the reader's chain loop consumes it both at the head of a chain and in the middle -/
def ChainG (k : Cfg) (f : Nat) (o : Op) (q : List QTok) (v : (Nat → Bool) → Bool) : Prop :=
  (∀ R, Stop k (ix k o) R → ∃ e n, R.length ≤ n ∧ (∀ ρ, e.denote ρ = v ρ) ∧
      rBin (tokOf o) (mkOf o) (lev k f (ix k o)) (q ++ R)
        = rChain (tokOf o) (mkOf o) (lev k f (ix k o)) n e R) ∧
  (∀ acc n R, Stop k (ix k o) R → (q ++ R).length < n →
      ∃ e n', R.length ≤ n' ∧ (∀ ρ, e.denote ρ = combOf o (acc.denote ρ) (v ρ)) ∧
      rChain (tokOf o) (mkOf o) (lev k f (ix k o)) n acc (tokOf o :: (q ++ R))
        = rChain (tokOf o) (mkOf o) (lev k f (ix k o)) n' e R)

theorem denote_mkOf (o : Op) (ho : isBin o = true) (a b : QE) (ρ : Nat → Bool) :
    (mkOf o a b).denote ρ = combOf o (a.denote ρ) (b.denote ρ) := by
  cases o <;> simp_all [isBin, mkOf, combOf, QE.denote]

/-- a single operand is a chain -/
theorem ChainG_single {k : Cfg} {f : Nat} (o : Op) (ho : isBin o = true) {q v}
    (h : G k f (ix k o) q v) : ChainG k f o q v := by
  constructor
  · intro R hR
    obtain ⟨e, he, hv⟩ := h R hR
    exact ⟨e, R.length, Nat.le_refl _, hv, by simp [rBin, he]⟩
  · intro acc n R hR hn
    obtain ⟨e, he, hv⟩ := h R hR
    obtain ⟨n, rfl⟩ : ∃ m, n = m + 1 := ⟨n - 1, by omega⟩
    refine ⟨mkOf o acc e, n, ?_, ?_, ?_⟩
    · simp at hn; omega
    · intro ρ; rw [denote_mkOf o ho, hv]
    · simp [rChain, he]

/-- two chains joined by the operator token form a chain -/
theorem ChainG_join {k : Cfg} {f : Nat} (o : Op) {q1 q2 v1 v2}
    (h1 : ChainG k f o q1 v1) (h2 : ChainG k f o q2 v2) :
    ChainG k f o (q1 ++ tokOf o :: q2) (fun ρ => combOf o (v1 ρ) (v2 ρ)) := by
  constructor
  · intro R hR
    obtain ⟨e1, n1, hn1, hv1, hr1⟩ := h1.1 (tokOf o :: (q2 ++ R)) (Stop_tok k o _)
    obtain ⟨e2, n2, hn2, hv2, hr2⟩ := h2.2 e1 n1 R hR (by simp at hn1 ⊢; omega)
    refine ⟨e2, n2, hn2, ?_, ?_⟩
    · intro ρ; rw [hv2, hv1]
    · simp only [List.append_assoc, List.cons_append] at hr1 ⊢
      rw [hr1, hr2]
  · intro acc n R hR hn
    obtain ⟨e1, n1, hn1, hv1, hr1⟩ := h1.2 acc n (tokOf o :: (q2 ++ R)) (Stop_tok k o _)
      (by simp at hn ⊢; omega)
    obtain ⟨e2, n2, hn2, hv2, hr2⟩ := h2.2 e1 n1 R hR (by simp at hn1 ⊢; omega)
    refine ⟨e2, n2, hn2, ?_, ?_⟩
    · intro ρ; rw [hv2, hv1, combOf_assoc]
    · simp only [List.append_assoc, List.cons_append] at hr1 ⊢
      rw [hr1, hr2]

/-- a chain is read at the operator's own level -/
theorem ChainG_G {k : Cfg} (hk : k.wf = true) {f : Nat} (o : Op) (ho : isBin o = true) {q v}
    (h : ChainG k f o q v) : G k f (ix k o + 1) q v := by
  intro R hR
  obtain ⟨e, n, _, hv, hr⟩ := h.1 R (Stop_mono (Nat.le_succ _) hR)
  refine ⟨e, ?_, hv⟩
  rw [lev_succ hk, rLevel_bin o ho, hr]
  cases n with
  | zero => simp [rChain]
  | succ n =>
    cases R with
    | nil => simp [rChain]
    | cons t R' =>
      have := Stop_head o ho hR
      simp [rChain, this]

/-! ## Primaries and NOT -/

theorem G_atom (k : Cfg) (f : Nat) (a : Nat) : G k f 0 [.atom a] (fun ρ => ρ a) := by
  intro R _
  exact ⟨.atom a, by simp [lev, rPrim], fun ρ => by simp [QE.denote]⟩

theorem G_inList (k : Cfg) (f : Nat) (isOr : Bool) (as : List Nat) :
    G k f 0 [.inList isOr as] (fun ρ => (QE.inList isOr as).denote ρ) := by
  intro R _
  exact ⟨.inList isOr as, by simp [lev, rPrim], fun ρ => rfl⟩

/-- a parenthesised top-level expression is a primary (one unit of fuel per nesting level) -/
theorem G_group {k : Cfg} (hk : k.wf = true) {f : Nat} {t v} (h : G k f 3 t v) :
    G k (f+1) 0 (.lp :: t ++ [.rp]) v := by
  intro R _
  obtain ⟨e, he, hv⟩ := h (.rp :: R) (Stop_rp k 3 R)
  refine ⟨e, ?_, hv⟩
  show rPrim (rTop k.prec (f+1)) (.lp :: t ++ [.rp] ++ R) = some (e, R)
  simp [rPrim, rTop_succ hk, he]

theorem G_not {k : Cfg} (hk : k.wf = true) {f : Nat} {t v} (h : G k f (ix k .not) t v) :
    G k f (ix k .not + 1) (.tnot :: t) (fun ρ => !v ρ) := by
  intro R hR
  obtain ⟨e, he, hv⟩ := h R (Stop_mono (Nat.le_succ _) hR)
  refine ⟨.not e, ?_, fun ρ => by simp [QE.denote, hv]⟩
  obtain ⟨x, ts', hts, hnot⟩ := lev_head hk f _ (Nat.le_of_lt (ix_lt hk .not)) _ _ he
  have hx := hnot (Nat.le_refl _)
  rw [lev_succ hk]
  simp only [rLevel, List.cons_append, List.length_cons, rNot]
  rw [hts] at he ⊢
  rw [List.length_cons, rNot_ne _ _ _ _ hx, he]

/-- NOT in front of an expression that is itself read at the NOT level (`NOT NOT x`) -/
theorem G_not2 {k : Cfg} (hk : k.wf = true) {f : Nat} {t v} (h : G k f (ix k .not + 1) t v) :
    G k f (ix k .not + 1) (.tnot :: t) (fun ρ => !v ρ) := by
  intro R hR
  obtain ⟨e, he, hv⟩ := h R hR
  refine ⟨.not e, ?_, fun ρ => by simp [QE.denote, hv]⟩
  rw [lev_succ hk] at he ⊢
  simp only [rLevel] at he
  simp only [rLevel, List.cons_append, List.length_cons, rNot, he]

/-! ## Vanishing: a query is emitted iff the tree did not vanish -/

mutual
def alive : CT → Bool
  | .atom _ _ => true | .exp _ => true | .cidr _ => true | .nex _ _ => true
  | .not c => alive c | .and cs => aliveL cs | .or cs => aliveL cs | .none => false
def aliveL : List CT → Bool
  | [] => false
  | c :: cs => alive c || aliveL cs
end

def cls (k : Cfg) : CT → Option Op
  | .atom _ _ => none | .exp _ => some .or
  | .cidr _ => if cidrAsOr k then some .or else none
  | .nex _ _ => some .not
  | .not _ => some .not | .and _ => some .and | .or _ => some .or | .none => none

def compound (k : Cfg) : CT → Bool
  | .and _ => true | .or _ => true | .not _ => true | .exp _ => true
  | .cidr _ => cidrAsOr k | _ => false

/-- the nodes NOT does not group: atoms (class `none`) and the negative existence test -/
theorem compound_false_cls (k : Cfg) (c : CT) (h : compound k c = false) :
    cls k c = none ∨ ∃ a i, c = .nex a i := by
  cases c <;> simp_all [compound, cls]

theorem convert_not (k : Cfg) (neg : Bool) (c : CT) : convert k neg (.not c) =
    match (if compound k c then group (convert k true c) else convert k true c) with
    | none => none
    | some g => if k.notAsNotEq then some g else some (.tnot :: g) := by
  cases c with
  | cidr as =>
    simp only [convert]
    rw [show compound k (.cidr as) = cidrAsOr k from rfl]
    by_cases h : cidrAsOr k = true
    · rw [if_pos h, if_pos h]; rfl
    · rw [if_neg h, if_neg h]; rfl
  | _ => simp only [convert, compound] <;> rfl

theorem group_isSome (x : Option (List QTok)) : (group x).isSome = x.isSome := by
  cases x <;> simp [group]

theorem evalList_nil_iff (ρ : Nat → Bool) (cs : List CT)
    (h : ∀ c ∈ cs, (evalCT ρ c).isSome = alive c) : (evalList ρ cs).isEmpty = !aliveL cs := by
  induction cs with
  | nil => simp [evalList, aliveL]
  | cons c cs ih =>
    have hc := h c (by simp)
    have := ih (fun x hx => h x (by simp [hx]))
    simp only [evalList, aliveL]
    cases he : evalCT ρ c <;> simp_all

theorem evalCT_isSome (ρ : Nat → Bool) : ∀ c, (evalCT ρ c).isSome = alive c := by
  apply CT.ind
  · intros; simp [evalCT, alive]
  · intros; simp [evalCT, alive]
  · intros; simp [evalCT, alive]
  · intros; simp [evalCT, alive]
  · intro c ih; simp [evalCT, alive, ih]
  · intro cs ih
    have := evalList_nil_iff ρ cs ih
    simp only [evalCT, alive]
    cases h : evalList ρ cs <;> simp_all
  · intro cs ih
    have := evalList_nil_iff ρ cs ih
    simp only [evalCT, alive]
    cases h : evalList ρ cs <;> simp_all
  · simp [evalCT, alive]

theorem convertArgs_nil_iff (k : Cfg) (neg : Bool) (o : Op) (cs : List CT)
    (h : ∀ c ∈ cs, (convert k neg c).isSome = alive c) :
    (convertArgs k neg o cs).isEmpty = !aliveL cs := by
  induction cs with
  | nil => simp [convertArgs, aliveL]
  | cons c cs ih =>
    have hc := h c (by simp)
    have := ih (fun x hx => h x (by simp [hx]))
    simp only [convertArgs, aliveL]
    cases he : convert k neg c with
    | none => simp_all [group]
    | some t => cases comparePrec k o c <;> simp_all [group]

theorem decideIn_cons {k : Cfg} {isOr : Bool} {cs : List CT} (h : decideIn k isOr cs = true) :
    ∃ a i cs', cs = .atom a i :: cs' := by
  unfold decideIn at h
  cases cs with
  | nil => simp at h
  | cons c cs' => cases c <;> simp at h; exact ⟨_, _, _, rfl⟩

theorem altsOr_isSome (k : Cfg) (neg : Bool) (as : List (Nat × AtomInfo)) :
    (altsOr k neg as).isSome = !as.isEmpty := by
  cases as <;> simp [altsOr]

theorem convert_isSome (k : Cfg) :
    ∀ c, wfTree c = true → ∀ neg, (convert k neg c).isSome = alive c := by
  apply CT.ind
  · intros; simp [convert, alive]
  · intro as hw neg
    simp only [wfTree] at hw
    simp [convert, alive, altsOr_isSome, hw]
  · intro as hw neg
    have : as.isEmpty = false := by cases as <;> simp_all [wfTree]
    simp only [convert, alive]
    split <;> simp [altsOr_isSome, this]
  · intro a i _ neg
    simp only [convert, alive]
    split <;> rfl
  · intro c ih hw neg
    simp only [wfTree] at hw
    have := ih hw true
    rw [convert_not]
    simp only [alive]
    cases hc : convert k true c with
    | none =>
      rw [hc] at this
      simp [group, ← this]
    | some t =>
      rw [hc] at this
      simp only [Option.isSome_some] at this
      simp only [group, Option.map_some, ← this]
      cases compound k c <;> cases k.notAsNotEq <;> simp
  · intro cs ih hw neg
    simp only [wfTree] at hw
    have := convertArgs_nil_iff k neg .and cs (fun c hc => ih c hc (wfTreeL_mem hw c hc) neg)
    simp only [convert, alive]
    split
    · rename_i hd
      obtain ⟨a, i, cs', rfl⟩ := decideIn_cons hd
      simp [aliveL, alive]
    · cases h : convertArgs k neg Op.and cs <;> simp_all
  · intro cs ih hw neg
    simp only [wfTree] at hw
    have := convertArgs_nil_iff k neg .or cs (fun c hc => ih c hc (wfTreeL_mem hw c hc) neg)
    simp only [convert, alive]
    split
    · rename_i hd
      obtain ⟨a, i, cs', rfl⟩ := decideIn_cons hd
      simp [aliveL, alive]
    · cases h : convertArgs k neg Op.or cs <;> simp_all
  · intros; simp [convert, alive]

/-! ## The in-list shortcut -/

def isAtom : CT → Bool | .atom _ _ => true | _ => false

theorem decideIn_atoms {k : Cfg} {isOr : Bool} {cs : List CT} (h : decideIn k isOr cs = true) :
    cs.all isAtom = true := by
  unfold decideIn at h
  simp only [Bool.and_eq_true] at h
  obtain ⟨⟨⟨⟨_, h1⟩, _⟩, _⟩, _⟩ := h
  rw [List.all_eq_true] at h1 ⊢
  intro c hc
  have := h1 c hc
  cases c <;> simp_all [isAtom]

theorem evalList_atoms (ρ : Nat → Bool) :
    ∀ cs : List CT, cs.all isAtom = true → evalList ρ cs = (atomIds cs).map ρ := by
  intro cs
  induction cs with
  | nil => simp [evalList, atomIds]
  | cons c cs ih =>
    intro h
    simp only [List.all_cons, Bool.and_eq_true] at h
    obtain ⟨h0, h⟩ := h
    cases c <;> simp only [isAtom, Bool.false_eq_true] at h0
    simp only [atomIds] at ih ⊢
    simp [evalList, evalCT, ih h]

theorem atomIds_map (as : List (Nat × AtomInfo)) :
    atomIds (as.map (fun p => CT.atom p.1 p.2)) = as.map (·.1) := by
  induction as with
  | nil => simp [atomIds]
  | cons p as ih => simp only [atomIds] at ih ⊢; simp [ih]

/-- if the in-list shortcut is taken, all operands are atoms and the in-list expression means the
OR (resp. AND) of the operands -/
theorem in_list_sound' (k : Cfg) (isOr : Bool) (cs : List CT) (h : decideIn k isOr cs = true) :
    (∀ c ∈ cs, ∃ a i, c = .atom a i) ∧
    ∀ ρ, evalCT ρ (if isOr then .or cs else .and cs)
      = some ((QE.inList isOr (atomIds cs)).denote ρ) := by
  have ha := decideIn_atoms h
  refine ⟨?_, ?_⟩
  · intro c hc
    have := List.all_eq_true.1 ha c hc
    cases c <;> simp [isAtom] at this
    exact ⟨_, _, rfl⟩
  · intro ρ
    obtain ⟨a, i, cs', rfl⟩ := decideIn_cons h
    have he := evalList_atoms ρ _ ha
    cases isOr
    · simp only [Bool.false_eq_true, if_false, evalCT, he, QE.denote]
      simp [atomIds, List.all_map]
    · simp only [if_true, evalCT, he, QE.denote]
      simp [atomIds, List.any_map]

/-! ## Parenthesis count = fuel needed -/

def nlp : List QTok → Nat
  | [] => 0
  | .lp :: r => nlp r + 1
  | _ :: r => nlp r

theorem nlp_append (a b : List QTok) : nlp (a ++ b) = nlp a + nlp b := by
  induction a with
  | nil => simp [nlp]
  | cons t a ih => cases t <;> simp [nlp, ih] <;> omega

theorem nlp_le_length (a : List QTok) : nlp a ≤ a.length := by
  induction a with
  | nil => simp [nlp]
  | cons t a ih => cases t <;> simp [nlp] <;> omega

theorem nlp_group (t : List QTok) : nlp (.lp :: t ++ [.rp]) = nlp t + 1 := by
  simp [nlp, nlp_append]

theorem nlp_joinWith_le (sep : QTok) (xs : List (List QTok)) :
    ∀ x ∈ xs, nlp x ≤ nlp (joinWith sep xs) := by
  induction xs with
  | nil => simp
  | cons y ys ih =>
    intro x hx
    cases ys with
    | nil => simp at hx; subst hx; simp [joinWith]
    | cons z zs =>
      simp only [joinWith, nlp_append]
      rcases List.mem_cons.1 hx with rfl | hx
      · omega
      · have := ih x hx
        have h2 : nlp (joinWith sep (z :: zs)) ≤ nlp (sep :: joinWith sep (z :: zs)) := by
          cases sep <;> simp [nlp]
        omega

/-! ## How a node's rendering is read, by the node's class -/

def Rd (k : Cfg) (f : Nat) (cl : Option Op) (q : List QTok) (v : (Nat → Bool) → Bool) : Prop :=
  match cl with
  | none => G k f 0 q v
  | some .not => G k f (ix k .not + 1) q v
  | some o => ChainG k f o q v

theorem Rd_top {k : Cfg} (hk : k.wf = true) {f cl q v} (h : Rd k f cl q v) : G k f 3 q v := by
  cases cl with
  | none => exact G_lift hk (Nat.zero_le _) (Nat.le_refl _) h
  | some o =>
    have := ix_lt hk o
    cases o with
    | not => exact G_lift hk (by omega) (Nat.le_refl _) h
    | and => exact G_lift hk (by omega) (Nat.le_refl _) (ChainG_G hk .and rfl h)
    | or => exact G_lift hk (by omega) (Nat.le_refl _) (ChainG_G hk .or rfl h)

theorem Rd_chain {k : Cfg} (hk : k.wf = true) (o : Op) (ho : isBin o = true) {f cl q v}
    (h : Rd k f cl q v) (hc : cl = none ∨ ∃ o', cl = some o' ∧ ix k o' ≤ ix k o) :
    ChainG k f o q v := by
  have h3 := ix_lt hk o
  rcases hc with rfl | ⟨o', rfl, hle⟩
  · exact ChainG_single o ho (G_lift hk (Nat.zero_le _) (by omega) h)
  · by_cases heq : o' = o
    · subst heq
      cases o' <;> first | exact h | simp [isBin] at ho
    · have hlt : ix k o' < ix k o := by
        rcases Nat.lt_or_eq_of_le hle with h' | h'
        · exact h'
        · exact absurd (ix_inj hk _ _ h') heq
      apply ChainG_single o ho
      cases o' with
      | not => exact G_lift hk (by omega) (by omega) h
      | and => exact G_lift hk (by omega) (by omega) (ChainG_G hk .and rfl h)
      | or => exact G_lift hk (by omega) (by omega) (ChainG_G hk .or rfl h)

theorem innerIdx_cls (k : Cfg) (c : CT) :
    innerIdx k c = match cls k c with | none => none | some o => idxOf k.prec o := by
  cases c <;> simp only [innerIdx, cls]
  split <;> rfl

theorem comparePrec_true {k : Cfg} (hk : k.wf = true) {o : Op} {c : CT}
    (h : comparePrec k o c = true) :
    cls k c = none ∨ ∃ o', cls k c = some o' ∧ ix k o' ≤ ix k o := by
  unfold comparePrec at h
  split at h
  · simp at h
  · rw [innerIdx_cls] at h
    cases hc : cls k c with
    | none => exact Or.inl rfl
    | some o' =>
      right
      refine ⟨o', rfl, ?_⟩
      simp only [hc, idxOf_ix hk] at h
      simpa using h

/-! ## Expanded values -/

theorem altsOr_chain {k : Cfg} (hk : k.wf = true) (hn : k.notAsNotEq = false) (f : Nat)
    (neg : Bool) : ∀ as : List (Nat × AtomInfo), as ≠ [] →
    ChainG k f .or (joinWith .tor (as.map (fun p => [atomTok k neg p.1 p.2])))
      (fun ρ => as.any (fun p => ρ p.1)) := by
  intro as
  induction as with
  | nil => simp
  | cons p as ih =>
    intro _
    have hp : ChainG k f .or [atomTok k neg p.1 p.2] (fun ρ => ρ p.1) := by
      apply ChainG_single .or rfl
      simp only [atomTok, hn]
      exact G_lift hk (Nat.zero_le _) (Nat.le_of_lt (ix_lt hk _)) (G_atom k f p.1)
    cases as with
    | nil => simpa [joinWith] using hp
    | cons p' as' =>
      have := ChainG_join .or hp (ih (by simp))
      simpa [joinWith, tokOf, combOf] using this

/-- a CIDR value with ≥ 2 patterns of one field is an in-list whenever CIDR is not rendered as OR -/
theorem decideIn_cidr {k : Cfg} (hc : cidrAsOr k = false) (p : Nat × AtomInfo)
    (as : List (Nat × AtomInfo))
    (hw : (p.2.field.isSome && (p :: as).all (fun q => q.2.field == p.2.field && q.2.inOk)) = true) :
    decideIn k true ((p :: as).map (fun p => CT.atom p.1 p.2)) = true := by
  simp only [cidrAsOr, Bool.not_eq_false', Bool.and_eq_true] at hc
  simp only [Bool.and_eq_true, List.all_eq_true] at hw
  unfold decideIn
  simp only [hc.1, hc.2, if_true, List.map_cons, Bool.true_or, Bool.and_true, Bool.true_and,
    Bool.and_eq_true, List.all_eq_true]
  refine ⟨⟨?_, hw.1, ?_⟩, ?_⟩
  · intro c hc'
    rcases List.mem_cons.1 hc' with rfl | hc'
    · rfl
    · obtain ⟨q, _, rfl⟩ := List.mem_map.1 hc'; rfl
  · intro c hc'
    rcases List.mem_cons.1 hc' with rfl | hc'
    · simp
    · obtain ⟨q, hq, rfl⟩ := List.mem_map.1 hc'
      exact (hw.2 q (List.mem_cons_of_mem _ hq)).1
  · intro c hc'
    rcases List.mem_cons.1 hc' with rfl | hc'
    · exact (hw.2 p (by simp)).2
    · obtain ⟨q, hq, rfl⟩ := List.mem_map.1 hc'
      exact (hw.2 q (List.mem_cons_of_mem _ hq)).2

/-! ## The main invariant -/

/-- the rendering of `c` is read — in the way its class is read — with the meaning of `c` -/
def Pc (k : Cfg) (c : CT) : Prop :=
  ∀ neg q f, convert k neg c = some q → nlp q ≤ f →
    ∃ v, (∀ ρ, evalCT ρ c = some (v ρ)) ∧ Rd k f (cls k c) q v

def foldB : Op → List Bool → Bool
  | .and, bs => bs.all id
  | .or, bs => bs.any id
  | .not, _ => false

theorem foldB_cons (o : Op) (ho : isBin o = true) (b b' : Bool) (bs : List Bool) :
    foldB o (b :: b' :: bs) = combOf o b (foldB o (b' :: bs)) := by
  cases o <;> simp_all [foldB, combOf, isBin]

theorem foldB_single (o : Op) (ho : isBin o = true) (b : Bool) : foldB o [b] = b := by
  cases o <;> simp_all [foldB, isBin]

theorem child_chain {k : Cfg} (hk : k.wf = true) (o : Op) (ho : isBin o = true) {c : CT}
    (hP : Pc k c) {neg : Bool} {x : List QTok} {f : Nat}
    (hx : (if comparePrec k o c then convert k neg c else group (convert k neg c)) = some x)
    (hf : nlp x ≤ f) :
    ∃ v, (∀ ρ, evalCT ρ c = some (v ρ)) ∧ ChainG k f o x v := by
  by_cases hcp : comparePrec k o c = true
  · rw [if_pos hcp] at hx
    obtain ⟨v, hv, hr⟩ := hP neg x f hx hf
    exact ⟨v, hv, Rd_chain hk o ho hr (comparePrec_true hk hcp)⟩
  · rw [if_neg hcp] at hx
    cases hc : convert k neg c with
    | none => simp [hc, group] at hx
    | some t =>
      simp only [hc, group, Option.map_some, Option.some.injEq] at hx
      subst hx
      rw [nlp_group] at hf
      obtain ⟨f, rfl⟩ : ∃ m, f = m + 1 := ⟨f - 1, by omega⟩
      obtain ⟨v, hv, hr⟩ := hP neg t f hc (by omega)
      refine ⟨v, hv, ChainG_single o ho ?_⟩
      exact G_lift hk (Nat.zero_le _) (Nat.le_of_lt (ix_lt hk _)) (G_group hk (Rd_top hk hr))

theorem args_chain {k : Cfg} (hk : k.wf = true) (o : Op) (ho : isBin o = true) (neg : Bool)
    (f : Nat) : ∀ cs : List CT, wfTreeL cs = true → (∀ c ∈ cs, wfTree c = true → Pc k c) →
    (∀ x ∈ convertArgs k neg o cs, nlp x ≤ f) →
    (convertArgs k neg o cs = [] ∧ ∀ ρ, evalList ρ cs = []) ∨
    (convertArgs k neg o cs ≠ [] ∧
      ∃ v, ChainG k f o (joinWith (tokOf o) (convertArgs k neg o cs)) v ∧
        ∀ ρ, ∃ b bs, evalList ρ cs = b :: bs ∧ v ρ = foldB o (b :: bs)) := by
  intro cs
  induction cs with
  | nil => intro _ _ _; left; simp [convertArgs, evalList]
  | cons c cs ih =>
    intro hw hP hf
    simp only [wfTreeL, Bool.and_eq_true] at hw
    have ih' := ih hw.2 (fun x hx => hP x (List.mem_cons_of_mem _ hx))
    simp only [convertArgs] at hf ⊢
    cases hr : (if comparePrec k o c then convert k neg c else group (convert k neg c)) with
    | none =>
      rw [hr] at hf
      simp only at hf ⊢
      have hcn : convert k neg c = none := by
        cases hc : convert k neg c with
        | none => rfl
        | some t => rw [hc] at hr; split at hr <;> simp [group] at hr
      have hdead : alive c = false := by
        have := convert_isSome k c hw.1 neg
        rw [hcn] at this; simpa using this.symm
      have hev : ∀ ρ, evalCT ρ c = none := by
        intro ρ
        have := evalCT_isSome ρ c
        rw [hdead] at this
        simpa using this
      simp only [evalList, hev]
      exact ih' hf
    | some x =>
      rw [hr] at hf
      simp only at hf ⊢
      right
      refine ⟨by simp, ?_⟩
      obtain ⟨vc, hvc, hcc⟩ := child_chain hk o ho (hP c (by simp) hw.1) hr (hf x (by simp))
      rcases ih' (fun y hy => hf y (List.mem_cons_of_mem _ hy)) with ⟨hnil, hev⟩ | ⟨hne, v, hch, hev⟩
      · refine ⟨vc, ?_, ?_⟩
        · rw [hnil]; simpa [joinWith] using hcc
        · intro ρ
          exact ⟨vc ρ, [], by simp [evalList, hvc, hev], (foldB_single o ho _).symm⟩
      · refine ⟨fun ρ => combOf o (vc ρ) (v ρ), ?_, ?_⟩
        · have hj : joinWith (tokOf o) (x :: convertArgs k neg o cs)
              = x ++ tokOf o :: joinWith (tokOf o) (convertArgs k neg o cs) := by
            cases hxs : convertArgs k neg o cs with
            | nil => exact absurd hxs hne
            | cons y ys => simp [joinWith]
          rw [hj]
          exact ChainG_join o hcc hch
        · intro ρ
          obtain ⟨b, bs, hb, hvb⟩ := hev ρ
          refine ⟨vc ρ, b :: bs, by simp [evalList, hvc, hb], ?_⟩
          show combOf o (vc ρ) (v ρ) = _
          rw [foldB_cons o ho, hvb]

theorem Rd_of_G0 {k : Cfg} (hk : k.wf = true) {f : Nat} {q v} (cl : Option Op)
    (hcl : cl ≠ some .not) (h : G k f 0 q v) : Rd k f cl q v := by
  cases cl with
  | none => exact h
  | some o =>
    cases o with
    | not => exact absurd rfl hcl
    | and => exact ChainG_single .and rfl (G_lift hk (Nat.zero_le _) (Nat.le_of_lt (ix_lt hk _)) h)
    | or => exact ChainG_single .or rfl (G_lift hk (Nat.zero_le _) (Nat.le_of_lt (ix_lt hk _)) h)

/-- n-ary AND / OR node -/
theorem nary_case {k : Cfg} (hk : k.wf = true) (o : Op) (ho : isBin o = true) (cs : List CT)
    (hw : wfTreeL cs = true) (ih : ∀ c ∈ cs, wfTree c = true → Pc k c)
    (neg : Bool) (q : List QTok) (f : Nat)
    (hq : (match convertArgs k neg o cs with
           | [] => none
           | xs => some (joinWith (tokOf o) xs)) = some q) (hf : nlp q ≤ f) :
    ∃ v, (∀ ρ, ∃ b bs, evalList ρ cs = b :: bs ∧ v ρ = foldB o (b :: bs)) ∧ ChainG k f o q v := by
  cases hxs : convertArgs k neg o cs with
  | nil => simp [hxs] at hq
  | cons x xs =>
    rw [hxs] at hq
    simp only [Option.some.injEq] at hq
    subst hq
    have hfx : ∀ y ∈ convertArgs k neg o cs, nlp y ≤ f := by
      intro y hy
      rw [hxs] at hy
      exact Nat.le_trans (nlp_joinWith_le _ _ y hy) hf
    rcases args_chain hk o ho neg f cs hw ih hfx with ⟨hnil, _⟩ | ⟨_, v, hch, hev⟩
    · rw [hxs] at hnil; cases hnil
    · rw [hxs] at hch
      exact ⟨v, hev, hch⟩

theorem main_inv {k : Cfg} (hk : k.wf = true) (hn : k.notAsNotEq = false) :
    ∀ c, wfTree c = true → Pc k c := by
  apply CT.ind
  · -- atom
    intro a i _ neg q f hq _
    simp only [convert, atomTok, hn, Bool.false_and, Bool.false_eq_true, if_false,
      Option.some.injEq] at hq
    subst hq
    exact ⟨fun ρ => ρ a, fun ρ => by simp [evalCT], G_atom k f a⟩
  · -- exp
    intro as hw neg q f hq _
    have hne : as ≠ [] := by cases as <;> simp_all [wfTree]
    refine ⟨fun ρ => as.any (fun p => ρ p.1), fun ρ => by simp [evalCT], ?_⟩
    have := altsOr_chain hk hn f neg as hne
    cases as with
    | nil => exact absurd rfl hne
    | cons p as' =>
      simp only [convert, altsOr, Option.some.injEq] at hq
      subst hq
      exact this
  · -- cidr
    intro as hw neg q f hq _
    have hne : as ≠ [] := by cases as <;> simp_all [wfTree]
    refine ⟨fun ρ => as.any (fun p => ρ p.1), fun ρ => by simp [evalCT], ?_⟩
    have hcl : cls k (.cidr as) ≠ some .not := by
      simp only [cls]; split <;> simp
    simp only [convert] at hq
    split at hq
    · -- in-list
      simp only [Option.some.injEq] at hq
      subst hq
      apply Rd_of_G0 hk _ hcl
      have := G_inList k f true (atomIds (as.map (fun p => CT.atom p.1 p.2)))
      simpa [atomIds_map, QE.denote, List.any_map, Function.comp_def] using this
    · rename_i hdec
      have hch := altsOr_chain hk hn f neg as hne
      by_cases hc : cidrAsOr k = true
      · cases as with
        | nil => exact absurd rfl hne
        | cons p as' =>
          simp only [altsOr, Option.some.injEq] at hq
          subst hq
          simpa [cls, hc, Rd] using hch
      · have hc' : cidrAsOr k = false := by simpa using hc
        match as, hw, hne, hq, hdec with
        | [p], _, _, hq, _ =>
          simp only [altsOr, List.map_cons, List.map_nil, joinWith, atomTok, hn, Bool.false_and,
            Bool.false_eq_true, if_false, Option.some.injEq] at hq
          subst hq
          apply Rd_of_G0 hk _ hcl
          simpa using G_atom k f p.1
        | p :: p' :: as', hw, _, _, hdec =>
          simp only [wfTree] at hw
          exact absurd (decideIn_cidr hc' p (p' :: as') hw) hdec
  · -- nex
    intro a i _ neg q f hq _
    simp only [convert, atomTok, hn, Bool.false_and, Bool.false_eq_true, if_false,
      Option.some.injEq] at hq
    subst hq
    refine ⟨fun ρ => !ρ a, fun ρ => by simp [evalCT], ?_⟩
    exact G_not hk (G_lift hk (Nat.zero_le _) (Nat.le_of_lt (ix_lt hk _)) (G_atom k f a))
  · -- not
    intro c ih hw neg q f hq hf
    simp only [wfTree] at hw
    rw [convert_not] at hq
    simp only [hn, Bool.false_eq_true, if_false] at hq
    cases hg : (if compound k c then group (convert k true c) else convert k true c) with
    | none => simp [hg] at hq
    | some g =>
      rw [hg] at hq
      simp only [Option.some.injEq] at hq
      subst hq
      have hfg : nlp g ≤ f := by simpa [nlp] using hf
      suffices h : ∃ v, (∀ ρ, evalCT ρ c = some (v ρ)) ∧
          (G k f 0 g v ∨ G k f (ix k .not + 1) g v) by
        obtain ⟨v, hv, hG⟩ := h
        refine ⟨fun ρ => !v ρ, fun ρ => by simp [evalCT, hv], ?_⟩
        rcases hG with hG | hG
        · exact G_not hk (G_lift hk (Nat.zero_le _) (Nat.le_of_lt (ix_lt hk _)) hG)
        · exact G_not2 hk hG
      by_cases hcomp : compound k c = true
      · rw [if_pos hcomp] at hg
        cases hc : convert k true c with
        | none => simp [hc, group] at hg
        | some t =>
          simp only [hc, group, Option.map_some, Option.some.injEq] at hg
          subst hg
          rw [nlp_group] at hfg
          obtain ⟨f, rfl⟩ : ∃ m, f = m + 1 := ⟨f - 1, by omega⟩
          obtain ⟨v, hv, hr⟩ := ih hw true t f hc (by omega)
          exact ⟨v, hv, Or.inl (G_group hk (Rd_top hk hr))⟩
      · rw [if_neg hcomp] at hg
        obtain ⟨v, hv, hr⟩ := ih hw true g f hg hfg
        rcases compound_false_cls k c (by simpa using hcomp) with hcl | ⟨a, i, rfl⟩
        · rw [hcl] at hr
          exact ⟨v, hv, Or.inl hr⟩
        · exact ⟨v, hv, Or.inr hr⟩
  · -- and
    intro cs ih hw neg q f hq hf
    simp only [wfTree] at hw
    simp only [convert] at hq
    split at hq
    · rename_i hdec
      simp only [Option.some.injEq] at hq
      subst hq
      have hs := (in_list_sound' k false cs hdec).2
      simp only [Bool.false_eq_true, if_false] at hs
      exact ⟨_, hs, Rd_of_G0 hk _ (by simp [cls]) (G_inList k f false (atomIds cs))⟩
    · obtain ⟨v, hev, hch⟩ := nary_case hk .and rfl cs hw ih neg q f hq hf
      refine ⟨v, ?_, hch⟩
      intro ρ
      obtain ⟨b, bs, hb, hv⟩ := hev ρ
      simp [evalCT, hb, hv, foldB]
  · -- or
    intro cs ih hw neg q f hq hf
    simp only [wfTree] at hw
    simp only [convert] at hq
    split at hq
    · rename_i hdec
      simp only [Option.some.injEq] at hq
      subst hq
      have hs := (in_list_sound' k true cs hdec).2
      simp only [if_true] at hs
      exact ⟨_, hs, Rd_of_G0 hk _ (by simp [cls]) (G_inList k f true (atomIds cs))⟩
    · obtain ⟨v, hev, hch⟩ := nary_case hk .or rfl cs hw ih neg q f hq hf
      refine ⟨v, ?_, hch⟩
      intro ρ
      obtain ⟨b, bs, hb, hv⟩ := hev ρ
      simp [evalCT, hb, hv, foldB]
  · -- none
    intro _ neg q f hq
    simp [convert] at hq

/-! ## Top level -/

theorem convert_sound_neg {k : Cfg} (hk : k.wf = true) (hn : k.notAsNotEq = false) (neg : Bool)
    (c : CT) (hc : wfTree c = true) (q : List QTok) (h : convert k neg c = some q) :
    ∃ e, readQ k.prec q = some e ∧ ∀ ρ, evalCT ρ c = some (e.denote ρ) := by
  obtain ⟨v, hv, hr⟩ := main_inv hk hn c hc neg q q.length h (nlp_le_length q)
  obtain ⟨e, he, hev⟩ := Rd_top hk hr [] (Stop_nil k 3)
  refine ⟨e, ?_, fun ρ => by rw [hv, hev]⟩
  rw [List.append_nil] at he
  simp [readQ, rTop_succ hk, he]

theorem convert_none_iff (k : Cfg) (neg : Bool) (c : CT) (hc : wfTree c = true) :
    convert k neg c = none ↔ ∀ ρ, evalCT ρ c = none := by
  have h1 := convert_isSome k c hc neg
  constructor
  · intro h ρ
    have h2 := evalCT_isSome ρ c
    rw [h] at h1
    rw [← h1] at h2
    simpa using h2
  · intro h
    have h2 := evalCT_isSome (fun _ => false) c
    rw [h] at h2
    rw [← h2] at h1
    simpa using h1

/-- the query with its parentheses removed -/
def stripParens (q : List QTok) : List QTok := q.filter (fun t => t != .lp && t != .rp)

/-- atom descriptors used in the examples: a plain string of field 1 / field 2, a number, a wildcard string -/
def strF1 : AtomInfo := { field := some 1, inOk := true, special := false, negatable := true }
def strF2 : AtomInfo := { field := some 2, inOk := true, special := false, negatable := true }
def numF1 : AtomInfo := { field := some 1, inOk := true, special := false, negatable := false }
def wildF1 : AtomInfo := { field := some 1, inOk := true, special := true, negatable := true }
/-- the exists-atom below a negative existence test (`CT.nex`): no value class, no negated twin -/
def exF1 : AtomInfo := { field := some 1, inOk := false, special := false, negatable := false }

def cfg (prec : List Op) (paren : Bool := false) (orAsIn andAsIn inAllowWild notAsNotEq : Bool := false) :
    Cfg :=
  { prec := prec, parenthesize := paren, orAsIn := orAsIn, andAsIn := andAsIn,
    inAllowWild := inAllowWild, notAsNotEq := notAsNotEq }

end SigmaVerif.ConvLemmas
