import SigmaVerif.Lemmas.C12Det
/-! Helper lemmas for C12: syntactic facts about the traversals (identity, congruence, composition). -/
namespace SigmaVerif.Lemmas.C12
open SigmaVerif.SStr SigmaVerif.Mods SigmaVerif.Rule SigmaVerif.Rewrite

mutual
theorem mapDet_congr (fi fi' : KV → Out) (fk fk' : List PV → Det) :
    ∀ d : Det, (∀ kv ∈ detItems d, fi kv = fi' kv) → (∀ vs, ([], vs) ∈ detItems d → fk vs = fk' vs) →
      mapDet fi fk d = mapDet fi' fk' d
  | .map items, h, _ => by
    simp only [mapDet]
    rw [List.map_congr_left (fun kv hkv => h kv (by simpa [detItems] using hkv))]
  | .values vs, _, h => by simp only [mapDet]; exact h vs (by simp [detItems])
  | .list ds, h, h' => by
    simp only [mapDet]
    rw [mapDetL_congr fi fi' fk fk' ds (by simpa [detItems] using h) (by simpa [detItems] using h')]
  | .all ds, h, h' => by
    simp only [mapDet]
    rw [mapDetL_congr fi fi' fk fk' ds (by simpa [detItems] using h) (by simpa [detItems] using h')]
theorem mapDetL_congr (fi fi' : KV → Out) (fk fk' : List PV → Det) :
    ∀ ds : List Det, (∀ kv ∈ detItemsL ds, fi kv = fi' kv) → (∀ vs, ([], vs) ∈ detItemsL ds → fk vs = fk' vs) →
      mapDetL fi fk ds = mapDetL fi' fk' ds
  | [], _, _ => rfl
  | d :: ds, h, h' => by
    simp only [mapDetL]
    rw [mapDet_congr fi fi' fk fk' d (fun kv hkv => h kv (by simp [detItemsL, hkv])) (fun vs hvs => h' vs (by simp [detItemsL, hvs])),
        mapDetL_congr fi fi' fk fk' ds (fun kv hkv => h kv (by simp [detItemsL, hkv])) (fun vs hvs => h' vs (by simp [detItemsL, hvs]))]
end

mutual
theorem mapDet_one_values : ∀ d : Det, mapDet .one .values d = d
  | .map items => by
    simp only [mapDet]
    have := assemble_ones id items
    simpa using this
  | .values vs => rfl
  | .list ds => by simp only [mapDet, mapDetL_one_values ds]
  | .all ds => by simp only [mapDet, mapDetL_one_values ds]
theorem mapDetL_one_values : ∀ ds : List Det, mapDetL .one .values ds = ds
  | [] => rfl
  | d :: ds => by simp only [mapDetL, mapDet_one_values d, mapDetL_one_values ds]
end

/-- a traversal that leaves every item and every keyword list of `d` alone leaves `d` alone -/
theorem mapDet_id (fi : KV → Out) (fk : List PV → Det) (d : Det)
    (h : ∀ kv ∈ detItems d, fi kv = .one kv) (h' : ∀ vs, ([], vs) ∈ detItems d → fk vs = .values vs) :
    mapDet fi fk d = d := by
  rw [mapDet_congr fi .one fk .values d h h', mapDet_one_values]

mutual
/-- two in-place traversals compose item by item -/
theorem mapDet_plain_comp (a b : KV → KV) (ka kb : List PV → List PV) :
    ∀ d : Det, mapDet (fun kv => .one (a kv)) (fun vs => .values (ka vs)) (mapDet (fun kv => .one (b kv)) (fun vs => .values (kb vs)) d) =
      mapDet (fun kv => .one (a (b kv))) (fun vs => .values (ka (kb vs))) d
  | .map items => by
    simp only [mapDet, assemble_ones]
    simp [List.map_map, Function.comp_def]
  | .values vs => by simp only [mapDet]
  | .list ds => by simp only [mapDet, mapDetL_plain_comp a b ka kb ds]
  | .all ds => by simp only [mapDet, mapDetL_plain_comp a b ka kb ds]
theorem mapDetL_plain_comp (a b : KV → KV) (ka kb : List PV → List PV) :
    ∀ ds : List Det, mapDetL (fun kv => .one (a kv)) (fun vs => .values (ka vs)) (mapDetL (fun kv => .one (b kv)) (fun vs => .values (kb vs)) ds) =
      mapDetL (fun kv => .one (a (b kv))) (fun vs => .values (ka (kb vs))) ds
  | [] => rfl
  | d :: ds => by simp only [mapDetL, mapDet_plain_comp a b ka kb d, mapDetL_plain_comp a b ka kb ds]
end

/-! ### renaming: identity and scope -/

theorem flatMap_renameValue_id (m : Str → List Str) : ∀ vs : List PV, (∀ s ∈ strsOf vs, m s = [s]) →
    vs.flatMap (renameValue m) = vs
  | [], _ => rfl
  | v :: vs, h => by
    have ih := flatMap_renameValue_id m vs (fun s hs => h s (by
      cases v <;> simp_all [strsOf]))
    cases v with
    | str s =>
      have : m s = [s] := h s (by simp [strsOf])
      simp [renameValue, this, ih]
    | _ => simp [renameValue, ih]

/-- an item whose field and referenced fields the mapping leaves alone stays as it is -/
theorem renameItem_fix (m : Str → List Str) (kv : KV)
    (hf : ∀ f, fieldOf kv.1 = some f → m f = [f]) (hv : ∀ s ∈ refNames kv.1 kv.2, m s = [s]) :
    renameItem m kv = .one kv := by
  obtain ⟨k, vs⟩ := kv
  have hvals : renameValues m k vs = vs := by
    unfold renameValues
    split
    · rename_i href
      exact flatMap_renameValue_id m vs (fun s hs => hv s (by simp [refNames, href, hs]))
    · rfl
  unfold renameItem
  simp only [hvals]
  cases hfo : fieldOf k with
  | none => rfl
  | some f =>
    obtain ⟨hfk, _⟩ := fieldOf_some hfo
    simp only [hf f hfo]
    rw [hfk, key_split]

/-- the item-level gate of the processing item is redundant for renaming -/
theorem renameItem_gate (sc : FScope) (m : Str → List Str) (kv : KV) :
    renameItemGated sc m kv = renameItem (scopedMap sc m) kv := by
  unfold renameItemGated
  split
  · rfl
  · rename_i hsc
    simp only [fieldScope, Bool.or_eq_true, not_or, Bool.not_eq_true, List.any_eq_false] at hsc
    symm
    refine renameItem_fix _ kv (fun f hf => ?_) (fun s hs => ?_)
    · simp [scopedMap, ← hf, hsc.1]
    · have := hsc.2 s hs
      simp [scopedMap, this]

theorem renameDet_id (m : Str → List Str) (d : Det)
    (h : ∀ kv ∈ detItems d, (∀ f, fieldOf kv.1 = some f → m f = [f]) ∧ ∀ s ∈ refNames kv.1 kv.2, m s = [s]) :
    renameDet m d = d :=
  mapDet_id _ _ d (fun kv hkv => renameItem_fix m kv (h kv hkv).1 (h kv hkv).2) (fun _ _ => rfl)

theorem mapDets_id (f : Det → Det) (dets : List (Str × Det)) (h : ∀ d ∈ dets, f d.2 = d.2) : mapDets f dets = dets := by
  unfold mapDets
  induction dets with
  | nil => rfl
  | cons d ds ih =>
    simp only [List.map_cons, h d (by simp)]
    rw [ih (fun x hx => h x (by simp [hx]))]

theorem flatMap_singleton_id {α : Type} (m : α → List α) : ∀ l : List α, (∀ a ∈ l, m a = [a]) → l.flatMap m = l
  | [], _ => rfl
  | a :: l, h => by simp [h a (by simp), flatMap_singleton_id m l (fun b hb => h b (by simp [hb]))]

/-! ### value transformations: identity and scope -/

theorem valueItem_out (vt : VT) (sc : Scope) (kv : KV) (h : sc kv.1 kv.2 = false) : valueItem vt sc kv = .one kv := by
  simp [valueItem, h]

theorem flatten_singletons {α : Type} : ∀ vs : List α, (vs.map (fun v => [v])).flatten = vs
  | [] => rfl
  | v :: vs => by simp [flatten_singletons vs]

theorem valueItem_fix (vt : VT) (sc : Scope) (kv : KV) (hs : vt.stripMods = false) (h : ∀ v ∈ kv.2, vt.f v = [v]) :
    valueItem vt sc kv = .one kv := by
  obtain ⟨k, vs⟩ := kv
  have halts : vs.map vt.f = vs.map (fun v => [v]) := List.map_congr_left h
  have hflat : (vs.map (fun v : PV => [v])).flatten = vs := flatten_singletons vs
  have hany : (vs.map (fun v : PV => [v])).any (fun a => decide (1 < a.length)) = false := by
    simp
  unfold valueItem
  simp only [hs, halts, hflat, hany]
  simp

theorem valueKeywords_fix (vt : VT) (sc : Scope) (vs : List PV) (h : sc [] vs = false ∨ ∀ v ∈ vs, vt.f v = [v]) :
    valueKeywords vt sc vs = .values vs := by
  unfold valueKeywords
  split
  · rename_i hsc
    cases h with
    | inl h => rw [h] at hsc; cases hsc
    | inr h => rw [flatMap_singleton_id' vt.f vs h]
  · rfl
where
  flatMap_singleton_id' (f : PV → List PV) : ∀ l : List PV, (∀ a ∈ l, f a = [a]) → l.flatMap f = l
    | [], _ => rfl
    | a :: l, h => by simp [h a (by simp), flatMap_singleton_id' f l (fun b hb => h b (by simp [hb]))]

/-- a value transformation that changes no value in scope (and does not replace the type) changes nothing -/
theorem valueDet_id (vt : VT) (sc : Scope) (d : Det) (hs : vt.stripMods = false)
    (h : ∀ kv ∈ detItems d, sc kv.1 kv.2 = false ∨ ∀ v ∈ kv.2, vt.f v = [v]) : valueDet vt sc d = d :=
  mapDet_id _ _ d
    (fun kv hkv => (h kv hkv).elim (valueItem_out vt sc kv) (valueItem_fix vt sc kv hs))
    (fun vs hvs => valueKeywords_fix vt sc vs (h ([], vs) hvs))

/-! ### dropping -/

theorem dropDet_map (sc : Scope) (items : List KV) :
    dropDet sc (.map items) =
      if items.filter (fun kv => !sc kv.1 kv.2) = [] then none else some (.map (items.filter (fun kv => !sc kv.1 kv.2))) := by
  simp only [dropDet]
  cases h : items.filter (fun kv => !sc kv.1 kv.2) <;> simp

/-! ### nested pipelines -/

theorem applyL_append (a b : List Tr) (doc : Doc) :
    Tr.applyL (a ++ b) doc = match Tr.applyL a doc with | .ok d => Tr.applyL b d | .error e => .error e := by
  induction a generalizing doc with
  | nil => simp [Tr.applyL]
  | cons t a ih =>
    simp only [List.cons_append, Tr.applyL]
    cases t.apply doc with
    | error e => rfl
    | ok d => exact ih d

end SigmaVerif.Lemmas.C12
