/-!
# `sigma.pipelines.base.Pipeline`: the decorator / base class behind which pipeline definitions are registered

`@Pipeline def f(): …` wraps a pipeline-building function in a `Pipeline` object; `class X(Pipeline)` with an
`apply` method is instantiated once per class.  Calling the object gives the pipeline definition.  A definition
is identified by a number (what the wrapped function / the class's `apply` builds).

`Reg` models `Pipeline.__new__` as it is: decorator use (`cls is Pipeline`) creates a new object per decorated
function; an inheriting class keeps one object in its own `_instance` slot.
`Reg1` models the single shared `_instance` slot the code had before (every `Pipeline(...)` call, for whatever
class, returned the one object, whose `func` the last decoration overwrote).
-/
namespace SigmaVerif.Registry

inductive Op where
  | decorate (d : Nat)            -- `@Pipeline` on a function building definition `d`; yields the next function handle
  | instantiate (c d : Nat)       -- `c()` for a class `c(Pipeline)` whose `apply` builds definition `d`
  | callFunc (h : Nat)            -- call the `h`-th decorated object
  | callClass (c : Nat)           -- call the object `c()` returned
  deriving Repr, DecidableEq

structure Reg where
  funcs : List Nat := []              -- the wrapped definition of each decorator object, in decoration order
  insts : List (Nat × Nat) := []      -- (class, definition of its `apply`): the class's own `_instance`
  deriving Repr, DecidableEq

def lookup (c : Nat) : List (Nat × Nat) → Option Nat
  | [] => none
  | (k, d) :: rest => if k = c then some d else lookup c rest

def Reg.step (r : Reg) : Op → Reg × Option Nat
  | .decorate d => ({ r with funcs := r.funcs ++ [d] }, some r.funcs.length)
  | .instantiate c d =>
      match lookup c r.insts with
      | some _ => (r, some c)                                   -- the class's instance exists: reuse it
      | none => ({ r with insts := r.insts ++ [(c, d)] }, some c)
  | .callFunc h => (r, r.funcs[h]?)
  | .callClass c => (r, lookup c r.insts)

def Reg.run (r : Reg) : List Op → Reg × List (Option Nat)
  | [] => (r, [])
  | op :: ops =>
      let (r', o) := r.step op
      let (r'', os) := r'.run ops
      (r'', o :: os)

/-! ## the former design: one slot for everything -/

structure Reg1 where
  slot : Option Nat := none          -- `Pipeline._instance.func` (the one object's wrapped definition)
  deriving Repr, DecidableEq

def Reg1.step (r : Reg1) : Op → Reg1 × Option Nat
  | .decorate d => ({ slot := some d }, some 0)                 -- `__init__` runs again on the one object
  | .instantiate c _ => (match r.slot with
      | some _ => (r, some c)                                   -- returns the decorator object; `__init__` is skipped (not an instance of `c`)
      | none => (r, some c))
  | .callFunc _ => (r, r.slot)
  | .callClass _ => (r, r.slot)

def Reg1.run (r : Reg1) : List Op → Reg1 × List (Option Nat)
  | [] => (r, [])
  | op :: ops =>
      let (r', o) := r.step op
      let (r'', os) := r'.run ops
      (r'', o :: os)

end SigmaVerif.Registry
