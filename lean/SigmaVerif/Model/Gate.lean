/-!
# Model of processing-item gating (`sigma/processing/pipeline.py`: `match_rule_conditions`,
`match_detection_item`, `match_field_name`, condition linking / negation / expressions) and of the
"applied so far" tracking a pipeline run exposes to later conditions.

Individual conditions are abstract truth values (indexed by position); what is modelled is how
they are *combined* and *when* an item acts.  No imports.
-/
namespace SigmaVerif.Gate

/-- condition expression over condition indices (`rule_cond_expr` & co.) -/
inductive BX
  | id (n : Nat)
  | not (e : BX)
  | and (a b : BX)
  | or (a b : BX)
deriving Repr, DecidableEq

def BX.eval (r : Nat → Bool) : BX → Bool
  | .id n => r n
  | .not e => !(e.eval r)
  | .and a b => a.eval r && b.eval r
  | .or a b => a.eval r || b.eval r

inductive Link
  | all | any | expr (e : BX)
deriving Repr, DecidableEq

/-- one condition group of an item (rule / detection item / field name conditions) -/
structure Group where
  n : Nat              -- number of conditions in the group
  link : Link
  neg : Bool
deriving Repr, DecidableEq

def Group.raw (g : Group) (r : Nat → Bool) : Bool :=
  match g.link with
  | .all => (List.range g.n).all r
  | .any => (List.range g.n).any r
  | .expr e => e.eval r

/-- does the group let the item act?  A group without conditions always does. -/
def Group.eval (g : Group) (r : Nat → Bool) : Bool :=
  g.n == 0 || (g.raw r != g.neg)

structure Item where
  rule : Group
  det : Group
  field : Group
deriving Repr, DecidableEq

/-- the item's transformation runs on the rule -/
def Item.onRule (it : Item) (rr : Nat → Bool) : Bool := it.rule.eval rr

/-- a detection-item transformation acts on one detection item -/
def Item.onDetItem (it : Item) (rr dr fr : Nat → Bool) : Bool :=
  it.rule.eval rr && it.det.eval dr && it.field.eval fr

/-! ## A pipeline run over one rule: what later items can observe -/

/-- `conds k applied i` = truth value of rule condition `i` of item `k`, given the list of items
(by position) applied to the rule so far -/
def run (items : List Item) (conds : Nat → List Nat → Nat → Bool) : Nat → List Nat → List Bool
  | k, applied =>
    match items with
    | [] => []
    | it :: rest =>
      let a := it.onRule (conds k applied)
      a :: run rest conds (k + 1) (if a then applied ++ [k] else applied)

end SigmaVerif.Gate
