import SigmaVerif.Model.LoadPrim
/-!
# C07 — model of the dynamic typing of the pySigma loaders

Functions mirror, one to one, the control flow of

* `SigmaRuleBase.document_as_map`, `SigmaRuleBase.from_dict_common_params` (sigma/rule/base.py),
* `SigmaLogSource.from_dict` + `__post_init__` (sigma/rule/logsource.py),
* `SigmaRelated.from_dict`, `SigmaRelatedItem.from_dict`, `SigmaRuleTag.from_str` (sigma/rule/attributes.py),
* `SigmaDetections.from_dict` + `__post_init__`, `SigmaDetection.from_definition` + `__post_init__`,
  `SigmaDetectionItem.from_mapping` (sigma/rule/detection.py), `sigma_type` (sigma/types.py),
* `SigmaRule.from_dict` (sigma/rule/rule.py), `SigmaGlobalFilter.from_dict`, `SigmaFilter.from_dict` (sigma/filters.py),
* `SigmaCorrelationRule.from_dict` + `__post_init__` + `_validate`, `SigmaCorrelationCondition.from_dict`,
  `SigmaCorrelationTimespan.__post_init__`, `SigmaCorrelationFieldAliases.from_dict`,
  `SigmaExtendedCorrelationCondition` (sigma/correlations.py),
* `SigmaCollection.from_dicts`, `deep_dict_update`, `SigmaCollection.__post_init__` (sigma/collection.py)

over the partial Python primitives of `LoadPrim`: an `isinstance` guard is a test on the value, a
`try/except` clause is `catchPy`/`catchSigma` with the classes the clause names, `errors.append`
is list concatenation in program order, `if not collect_errors and errors: raise errors[0]` is
`tailRaise`.  The observable per document is the raised exception or the ordered list of the
classes of the collected errors.

Abstracted (documents depending on it are excluded by `inDomain`, Model/LoadDomain.lean):
value modifiers other than a single `contains`/`startswith`/`endswith`/`re`; validity of regular
expressions; non-ASCII strings; integers that overflow `float()`; `int(hex, 16)` leniency in
`UUID()`; pyparsing's recursion limit.  The application of filters to rules inside a collection
(`SigmaCollection.apply_filters`, only filters loaded without errors are applied) is taken to raise
nothing and to leave the error list unchanged; references are not resolved (`resolve_references=False`).
-/
namespace SigmaVerif.Load

def S (s : String) : Str := s.toList

/-- `if not collect_errors and errors: raise errors[0]` -/
def tailRaise (collect : Bool) (errs : List SigmaCls) : R (List SigmaCls) :=
  match collect, errs with
  | false, e :: _ => raiseS e
  | _, _ => pure errs

/-- `SigmaRuleBase.document_as_map` -/
def documentAsMap (collect : Bool) (d : Y) : R (Dict × List SigmaCls) :=
  match d with
  | .map m => pure (m, [])
  | _ => if !collect then raiseS .typeError else pure ([], [.typeError])

/-! ## from_dict_common_params: one function per field, in program order -/
def allPy : List PyCls := [.attributeError, .typeError, .keyError, .valueError, .indexError, .overflowError]

def chkId (v : Y) : R (List SigmaCls) :=
  if v.isNone then pure []
  else catchPy [.valueError, .attributeError, .typeError] (do pyUUID v; pure []) (pure [.identifierError])

def Y.isEmptyStr : Y → Bool | .str [] => true | _ => false

def chkName (v : Y) : R (List SigmaCls) :=
  if v.isNone then pure []
  else if !v.isStr then pure [.typeError]
  else if v.isEmptyStr then pure [.nameError]
  else pure []

/-- `rule.get("taxonomy", "sigma")` -/
def chkTaxonomy (o : Option Y) : R (List SigmaCls) :=
  let v := o.getD (.str (S "sigma"))
  if v.isNone then pure []
  else if !v.isStr then pure [.taxonomyError]
  else if v.isEmptyStr then pure [.taxonomyError]
  else pure []

def relatedTypes : List Str := [S "CORRELATION", S "DERIVED", S "MERGED", S "OBSOLETE", S "RENAMED", S "SIMILAR"]

/-- `SigmaRelatedItem.from_dict` -/
def relatedItemFromDict (x : Y) : R Unit := do
  let i ← pyGetItem x (S "id")
  if !i.isStr then raiseS .relatedError
  else do
    catchPy [.valueError] (pyUUID i) (raiseS .relatedError)
    let t ← pyGetItem x (S "type")
    if !t.isStr then raiseS .relatedError
    else catchPy [.keyError] (do let u ← pyUpper t; pyLookupName relatedTypes u) (raiseS .relatedError)

/-- body of the loop of `SigmaRelated.from_dict` -/
def relatedItem (x : Y) : R Unit :=
  if !x.isMap then raiseS .relatedError
  else do
    let ks ← pyKeys x
    if !ks.any (keyIs · (S "id")) then raiseS .relatedError
    else if !ks.any (keyIs · (S "type")) then raiseS .relatedError
    else relatedItemFromDict x

def relatedFromDict (v : Y) : R Unit := do
  let items ← pyIter v
  forEach relatedItem items

def chkRelated (v : Y) : R (List SigmaCls) :=
  if v.isNone then pure []
  else if !v.isList then pure [.relatedError]
  else catchSigma (some .relatedError) (do relatedFromDict v; pure []) (fun c => pure [c])

def levels : List Str := [S "INFORMATIONAL", S "LOW", S "MEDIUM", S "HIGH", S "CRITICAL"]
def statuses : List Str := [S "UNSUPPORTED", S "DEPRECATED", S "EXPERIMENTAL", S "TEST", S "STABLE"]

/-- level / status: `Enum[value.upper()]` guarded by `isinstance(value, str)`, `except KeyError` -/
def chkEnum (names : List Str) (cls : SigmaCls) (v : Y) : R (List SigmaCls) :=
  if v.isNone then pure []
  else if !v.isStr then pure [cls]
  else catchPy [.keyError] (do let u ← pyUpper v; pyLookupName names u; pure []) (pure [cls])

/-- `ns, n = tag.split(".", maxsplit=1)`: unpacking needs two parts -/
def pyUnpack2 (parts : List Str) : R Unit :=
  if parts.length ≥ 2 then pure () else raiseP .valueError

/-- `SigmaRuleTag.from_str` -/
def tagFromStr (t : Y) : R Unit :=
  catchPy [.valueError] (do let parts ← pySplit t '.'; pyUnpack2 parts) (raiseS .valueError)

def chkTag (t : Y) : R (List SigmaCls) :=
  if !t.isStr then pure [.tagError]
  else catchSigma (some .valueError) (do tagFromStr t; pure []) (fun c => pure [c])

def chkTagList : List Y → R (List SigmaCls)
  | [] => pure []
  | t :: ts => do
      let e ← chkTag t
      let es ← chkTagList ts
      pure (e ++ es)

/-- `rule.get("tags", list())` -/
def chkTags (o : Option Y) : R (List SigmaCls) :=
  let v := o.getD (.list [])
  if v.isNone then pure []
  else if !v.isList then pure [.tagError]
  else do
    let ts ← pyIter v
    chkTagList ts

/-! ### dates -/
def digitVal (c : Char) : Nat := c.toNat - 48
def inRange (lo hi : Char) (c : Char) : Bool := lo ≤ c && c ≤ hi

def isLeap (y : Nat) : Bool := y % 4 == 0 && (y % 100 != 0 || y % 400 == 0)
def daysInMonth (y m : Nat) : Nat :=
  if m == 2 then (if isLeap y then 29 else 28)
  else if m == 4 || m == 6 || m == 9 || m == 11 then 30 else 31

/-- `datetime.date(y, m, d)` -/
def validDate (y m d : Nat) : Bool := 1 ≤ y && y ≤ 9999 && 1 ≤ m && m ≤ 12 && 1 ≤ d && d ≤ daysInMonth y m
def pyDate (y m d : Nat) : R Unit :=
  if validDate y m d then pure () else raiseP .valueError

/-- month `[01]?[0-9]` resp. day `[0-3]?[0-9]` -/
def optTwoDigits (hi : Char) : Str → Option Nat
  | [a] => if isDigit a then some (digitVal a) else none
  | [a, b] => if inRange '0' hi a && isDigit b then some (digitVal a * 10 + digitVal b) else none
  | _ => none

/-- `re.fullmatch` of the two accepted date formats, yielding the three groups as numbers -/
def dateMatch (s : Str) : Option (Nat × Nat × Nat) :=
  match s with
  | y1 :: y2 :: y3 :: y4 :: sep :: rest =>
    if inRange '1' '3' y1 && isDigit y2 && isDigit y3 && isDigit y4 then
      let y := digitVal y1 * 1000 + digitVal y2 * 100 + digitVal y3 * 10 + digitVal y4
      if sep == '-' then
        match rest with
        | [m1, m2, sep2, d1, d2] =>
          if inRange '0' '1' m1 && isDigit m2 && sep2 == '-' && inRange '0' '3' d1 && isDigit d2 then
            some (y, digitVal m1 * 10 + digitVal m2, digitVal d1 * 10 + digitVal d2)
          else none
        | _ => none
      else if sep == '/' then
        match splitOn '/' rest with
        | [ms, ds] =>
          (match optTwoDigits '1' ms, optTwoDigits '3' ds with
           | some m, some d => some (y, m, d)
           | _, _ => none)
        | _ => none
      else none
    else none
  | _ => none

def natDigits : Nat → Nat → Str
  | 0, _ => []
  | fuel + 1, n => if n < 10 then [Char.ofNat (48 + n)] else natDigits fuel (n / 10) ++ [Char.ofNat (48 + n % 10)]

/-- `str(v)`; exact for scalars, for lists and maps only the opening bracket is kept (enough to
know that no date format matches) -/
def pyStr : Y → Str
  | .null => S "None"
  | .bool b => if b then S "True" else S "False"
  | .int i => if i < 0 then '-' :: natDigits (i.natAbs + 1) i.natAbs else natDigits (i.natAbs + 1) i.natAbs
  | .float r => r
  | .str s => s
  | .list _ => S "["
  | .map _ => S "{"

/-- `get_rule_as_date` -/
def chkDate (cls : SigmaCls) (v : Y) : R (List SigmaCls) :=
  if v.isNone then pure []
  else
    match dateMatch (pyStr v) with
    | none => pure [cls]
    | some (y, m, d) => catchPy allPy (do pyDate y m d; pure []) (pure [cls])

def chkIsList (cls : SigmaCls) (v : Y) : R (List SigmaCls) :=
  if !v.isNone && !v.isList then pure [cls] else pure []

def chkIsStr (cls : SigmaCls) (v : Y) : R (List SigmaCls) :=
  if !v.isNone && !v.isStr then pure [cls] else pure []

def chkTitle (v : Y) : R (List SigmaCls) :=
  if v.isNone then pure [.titleError]
  else if !v.isStr then pure [.titleError]
  else do
    let n ← pyLen v
    if n > 256 then pure [.titleError] else pure []

/-- the error list `from_dict_common_params` builds (program order of the checks) -/
def commonErrsM (m : Dict) : R (List SigmaCls) := do
  let e1 ← chkId (dget m (S "id"))
  let e2 ← chkName (dget m (S "name"))
  let e3 ← chkTaxonomy (lookup m (S "taxonomy"))
  let e4 ← chkRelated (dget m (S "related"))
  let e5 ← chkEnum levels .levelError (dget m (S "level"))
  let e6 ← chkEnum statuses .statusError (dget m (S "status"))
  let e7 ← chkTags (lookup m (S "tags"))
  let e8 ← chkDate .dateError (dget m (S "date"))
  let e9 ← chkDate .modifiedError (dget m (S "modified"))
  let e10 ← chkIsList .fieldsError (dget m (S "fields"))
  let e11 ← chkIsList .falsePositivesError (dget m (S "falsepositives"))
  let e12 ← chkIsStr .authorError (dget m (S "author"))
  let e13 ← chkIsStr .descriptionError (dget m (S "description"))
  let e14 ← chkIsList .referencesError (dget m (S "references"))
  let e15 ← chkTitle (dget m (S "title"))
  let e16 ← chkIsList .scopeError (dget m (S "scope"))
  let e17 ← chkIsStr .licenseError (dget m (S "license"))
  pure (e1 ++ e2 ++ e3 ++ e4 ++ e5 ++ e6 ++ e7 ++ e8 ++ e9 ++ e10 ++ e11 ++ e12 ++ e13 ++ e14 ++ e15 ++ e16 ++ e17)

/-- `from_dict_common_params` -/
def commonParams (collect : Bool) (m : Dict) : R (List SigmaCls) := do
  let es ← commonErrsM m
  tailRaise collect es

/-! ## log source -/
/-- `SigmaLogSource.from_dict` followed by `__post_init__` -/
def logsourceFromDict (ls : Y) : R Unit := do
  let _ ← pyItems ls
  let c ← pyGet ls (S "category")
  let p ← pyGet ls (S "product")
  let s ← pyGet ls (S "service")
  let d ← pyGet ls (S "definition")
  if c.isNone && p.isNone && s.isNone then raiseS .logsourceError
  else if c.truthy && !c.isStr then raiseS .logsourceError
  else if p.truthy && !p.isStr then raiseS .logsourceError
  else if s.truthy && !s.isStr then raiseS .logsourceError
  else if d.truthy && !d.isStr then raiseS .logsourceError
  else pure ()

/-- the `try … except KeyError … except AttributeError … except SigmaError` block of
`SigmaRule.from_dict` / `SigmaFilter.from_dict` -/
def logsourceSection (m : Dict) : R (List SigmaCls) :=
  catchSigma none
    (catchPy [.attributeError]
      (catchPy [.keyError]
        (do let ls ← pyGetItem (.map m) (S "logsource"); logsourceFromDict ls; pure [])
        (pure [.logsourceError]))
      (pure [.logsourceError]))
    (fun c => pure [c])

/-! ## detections -/
/-- keys of `modifier_mapping` (tied to the source by `Oblig/C07.lean`) -/
def knownModifiers : List Str := [
  S "all", S "base64", S "base64offset", S "cased", S "cidr", S "contains", S "day", S "dotall", S "endswith",
  S "exists", S "expand", S "fieldref", S "gt", S "gte", S "hour", S "i", S "ignorecase", S "lt", S "lte", S "m",
  S "minute", S "month", S "multiline", S "neq", S "re", S "s", S "startswith", S "utf16", S "utf16be", S "week",
  S "wide", S "windash", S "year"]

/-- modifiers whose application is modelled: they accept exactly string values -/
def stringModifiers : List Str := [S "contains", S "startswith", S "endswith", S "re"]

/-- `sigma_type(v)` (resp. `SigmaString.from_str` under `re`): lists and maps are no Sigma types,
a non-finite number is an invalid number -/
def sigmaType (v : Y) : R Unit :=
  match v with
  | .list _ => raiseS .typeError
  | .map _ => raiseS .typeError
  | .float r => (match floatClass r with | .nan => raiseS .valueError | .inf => raiseS .valueError | _ => pure ())
  | _ => pure ()

/-- `SigmaDetectionItem.apply_modifiers`, abstracted: a single string modifier type-checks its
values in order; every other chain is taken to succeed (out of the domain) -/
def applyModifiers (mods : List Str) (vals : List Y) : R Unit :=
  match mods with
  | [m] => if stringModifiers.contains m then (if allStr vals then pure () else raiseS .typeError) else pure ()
  | _ => pure ()

/-- the modifier identifiers of a detection item key: `field, *modifier_ids = key.split("|")` -/
def itemModifiers (key : Y) : R (List Str) :=
  if key.isNone then pure []
  else if !key.isStr then raiseS .detectionError
  else do
    let parts ← pySplit key '|'
    pure parts.tail

/-- `SigmaDetectionItem.from_mapping(key, val)` + `__post_init__` -/
def fromMapping (key val : Y) : R Unit := do
  let mods ← itemModifiers key
  catchPy [.keyError] (forEach (pyLookupName knownModifiers) mods) (raiseS .modifierError)
  let vals := match val with | .list l => l | v => [v]
  forEach sigmaType vals
  applyModifiers mods vals

def fromMappings : Dict → R Unit
  | [] => pure ()
  | (k, v) :: rest => do fromMapping k v; fromMappings rest

mutual
/-- `SigmaDetection.from_definition` + `SigmaDetection.__post_init__` -/
def fromDefinition : Y → R Unit
  | .map m => do
      fromMappings m
      if m.isEmpty then raiseS .detectionError else pure ()
  | .list l =>
      if l.all Y.isScalar then fromMapping .null (.list l)
      else fromDefinitions l            -- a list with a non-scalar item is not empty
  | v => fromMapping .null v
def fromDefinitions : List Y → R Unit
  | [] => pure ()
  | x :: xs => do fromDefinition x; fromDefinitions xs
end

/-- the named detections of a detection / filter section: `from_definition` on every value whose
key is not in `skip`, in document order -/
def namedDetections (skip : List Str) : Dict → R Unit
  | [] => pure ()
  | (k, v) :: rest =>
      if skip.any (keyIs k ·) then namedDetections skip rest
      else do fromDefinition v; namedDetections skip rest

def isEmptyList : Y → Bool | .list [] => true | _ => false

/-- `SigmaDetections.from_dict` + `SigmaDetections.__post_init__` -/
def detectionsFromDict (d : Y) : R Unit := do
  let c ← catchPy [.keyError] (pyGetItem d (S "condition")) (raiseS .conditionError)
  let cond := if c.isList then c else .list [c]
  let items ← pyItems d
  namedDetections [S "condition"] items
  if (items.filter (fun p => !keyIs p.1 (S "condition"))).isEmpty then raiseS .detectionError
  else if isEmptyList cond then raiseS .conditionError
  else pure ()

/-- the `try … except KeyError … except TypeError … except SigmaError` block of `SigmaRule.from_dict` -/
def detectionSection (m : Dict) : R (List SigmaCls) :=
  catchSigma none
    (catchPy [.typeError]
      (catchPy [.keyError]
        (do let d ← pyGetItem (.map m) (S "detection"); detectionsFromDict d; pure [])
        (pure [.detectionError]))
      (pure [.detectionError]))
    (fun c => pure [c])

/-- `SigmaRule.from_dict` (the constructor's `__post_init__` only normalises, it raises nothing) -/
def ruleFromDict (collect : Bool) (d : Y) : R (List SigmaCls) := do
  let (m, e0) ← documentAsMap collect d
  let e1 ← commonParams collect m
  let e2 ← logsourceSection m
  let e3 ← detectionSection m
  tailRaise collect (e0 ++ e1 ++ e2 ++ e3)

/-! ## filters -/
/-- `SigmaGlobalFilter.from_dict` + `SigmaDetections.__post_init__` -/
def globalFilterFromDict (f : Y) : R Unit := do
  let _ ← catchPy [.keyError]
    (do let c ← pyGetItem f (S "condition")
        if c.isStr then pure c else raiseS .filterConditionError)
    (raiseS .filterConditionError)
  catchPy [.keyError]
    (do let r ← pyGetItem f (S "rules")
        if r.isStr then (do let _ ← pyLower r; pure ())
        else if r.isList then pure ()
        else raiseS .filterRuleReferenceError)
    (raiseS .filterRuleReferenceError)
  let items ← pyItems f
  namedDetections [S "condition", S "rules"] items
  if (items.filter (fun p => !(keyIs p.1 (S "condition") || keyIs p.1 (S "rules")))).isEmpty then raiseS .detectionError
  else pure ()

def filterSection (m : Dict) : R (List SigmaCls) :=
  catchSigma none
    (catchPy [.typeError]
      (catchPy [.keyError]
        (do let f ← pyGetItem (.map m) (S "filter"); globalFilterFromDict f; pure [])
        (pure [.filterError]))
      (pure [.filterError]))
    (fun c => pure [c])

/-- `SigmaFilter.from_dict` -/
def filterFromDict (collect : Bool) (d : Y) : R (List SigmaCls) := do
  let (m, e0) ← documentAsMap collect d
  let e1 ← commonParams collect m
  let e2 ← logsourceSection m
  let e3 ← filterSection m
  tailRaise collect (e0 ++ e1 ++ e2 ++ e3)

/-! ## correlation rules -/
inductive CorrType
  | eventCount | valueCount | temporal | temporalOrdered | valueSum | valueAvg | valuePercentile | valueMedian
  deriving DecidableEq, Repr

def corrTypeNames : List (Str × CorrType) := [
  (S "EVENT_COUNT", .eventCount), (S "VALUE_COUNT", .valueCount), (S "TEMPORAL", .temporal),
  (S "TEMPORAL_ORDERED", .temporalOrdered), (S "VALUE_SUM", .valueSum), (S "VALUE_AVG", .valueAvg),
  (S "VALUE_PERCENTILE", .valuePercentile), (S "VALUE_MEDIAN", .valueMedian)]

/-- `SigmaCorrelationType[name]` -/
def pyCorrType (k : Str) : R CorrType :=
  match corrTypeNames.find? (fun p => p.1 == k) with
  | some p => pure p.2
  | none => raiseP .keyError

def CorrType.isTemporal : CorrType → Bool | .temporal => true | .temporalOrdered => true | _ => false
def CorrType.isValue : CorrType → Bool
  | .valueCount => true | .valueSum => true | .valueAvg => true | .valuePercentile => true | .valueMedian => true
  | _ => false
/-- `correlation_type in (TEMPORAL, TEMPORAL_ORDERED)` for the possibly-`None` type -/
def optTemporal : Option CorrType → Bool | some t => t.isTemporal | none => false

def corrTypeSection (v : Y) : R (Option CorrType × List SigmaCls) :=
  if !v.isNone then
    catchPy [.keyError, .attributeError]
      (do let u ← pyUpper v; let t ← pyCorrType u; pure (some t, []))
      (pure (none, [.correlationTypeError]))
  else pure (none, [.correlationTypeError])

/-- rule references: the list handed to the constructor and the errors -/
def corrRulesSection (v : Y) (typ : Option CorrType) : R (List Y × List SigmaCls) :=
  if !v.isNone then
    if v.isStr then pure ([v], [])
    else if v.isList then do
      let items ← pyIter v
      if allStr items then pure (items, []) else pure ([], [.correlationRuleError])
    else pure ([], [.correlationRuleError])
  else if !optTemporal typ then pure ([], [.correlationRuleError])
  else pure ([], [])

def corrGenerateSection (v : Y) : R (List SigmaCls) :=
  if !v.isNone then (if !v.isBool then pure [.correlationRuleError] else pure []) else pure []

def corrGroupBySection (v : Y) : R (List SigmaCls) :=
  if !v.isNone then
    if v.isStr then pure []            -- `[group_by]`, then the list branch
    else if v.isList then (do let _ ← pyIter v; pure [])   -- `str(group)` is total
    else pure [.correlationRuleError]
  else pure []

def timespanUnits : List Str := [S "s", S "m", S "h", S "d", S "w", S "M", S "y"]

/-- `{…}[unit]` for an arbitrary key object -/
def pyUnitLookup (u : Y) : R Unit :=
  match u with
  | .str s => pyLookupName timespanUnits s
  | .list _ => raiseP .typeError
  | .map _ => raiseP .typeError
  | _ => raiseP .keyError

/-- `SigmaCorrelationTimespan.__post_init__` -/
def timespanInit (v : Y) : R Unit :=
  catchPy [.valueError, .keyError, .typeError, .indexError]
    (do let b ← pySliceInit v
        pyInt b
        let u ← pyIndexLast v
        pyUnitLookup u)
    (raiseS .timespanError)

def corrTimespanSection (v : Y) : R (List SigmaCls) :=
  if !v.isNone then catchSigma (some .timespanError) (do timespanInit v; pure []) (fun c => pure [c])
  else pure [.correlationRuleError]

def aliasItems : Dict → R Unit
  | [] => pure ()
  | (_, mapping) :: rest =>
      if !mapping.isMap then raiseS .correlationRuleError
      else do
        let _ ← pyItems mapping
        aliasItems rest

/-- `SigmaCorrelationFieldAliases.from_dict` -/
def aliasesFromDict (v : Y) : R Unit := do
  let items ← pyItems v
  aliasItems items

def corrAliasesSection (v : Y) : R (List SigmaCls) :=
  if !v.isNone then
    if v.isMap then catchSigma (some .correlationRuleError) (do aliasesFromDict v; pure []) (fun c => pure [c])
    else pure [.correlationRuleError]
  else pure []

def condOps : List Str := [S "lt", S "lte", S "gt", S "gte", S "eq", S "neq"]

/-- `SigmaCorrelationCondition.from_dict`; the result says whether `fieldref` is `None` -/
def condFromDict (d : Y) : R Bool := do
  let ks ← pyKeys d
  let present := condOps.filter (fun op => ks.any (keyIs · op))
  if present.length != 1 then raiseS .correlationConditionError
  else
    let unknown := ks.filter (fun k => !((condOps ++ [S "field", S "percentile"]).any (keyIs k ·)))
    if !unknown.isEmpty then raiseS .correlationConditionError     -- `", ".join(sorted(str(key) …))` is total
    else do
      forEach (fun op =>
        catchPy [.valueError, .typeError, .overflowError]
          (do let c ← pyGetItem d op; pyInt c)
          (raiseS .correlationConditionError)) present
      let fr ← catchPy [.keyError] (pyGetItem d (S "field")) (pure .null)
      catchPy [.valueError, .typeError, .overflowError]
        (catchPy [.keyError] (do let p ← pyGetItem d (S "percentile"); pyInt p) (pure ()))
        (raiseS .correlationConditionError)
      pure fr.isNone

/-! ### extended (string) conditions: the pyparsing `infix_notation` grammar as a PEG over tokens -/
inductive Tok | word (w : Str) | lp | rp deriving DecidableEq, Repr

def isWordChar (c : Char) : Bool := c.isAlphanum || c == '_'
def isCondSpace (c : Char) : Bool := c == ' ' || c == '\t' || c == '\n' || c == '\r'

/-- maximal runs of word characters, parentheses; `none` on any other character or on a run that
starts with a digit (no terminal of the grammar can consume it).  `cur` = the run being read
(reversed). -/
def tokenize : Str → Str → Option (List Tok)
  | cur, [] => if cur.isEmpty then some [] else some [.word cur.reverse]
  | cur, c :: cs =>
    if isWordChar c then
      if cur.isEmpty && isDigit c then none else tokenize (c :: cur) cs
    else
      let flush (rest : Option (List Tok)) : Option (List Tok) :=
        if cur.isEmpty then rest else rest.map (fun ts => .word cur.reverse :: ts)
      if isCondSpace c then flush (tokenize [] cs)
      else if c == '(' then flush ((tokenize [] cs).map (.lp :: ·))
      else if c == ')' then flush ((tokenize [] cs).map (.rp :: ·))
      else none

abbrev PR := Option (List Str × List Tok)

/-- one fuelled recursive descent; `lvl` 0 = or, 1 = and, 2 = not, 3 = atom, 4/5 = the
`(op operand)+` tails of or / and.  Every call consumes fuel. -/
def parseLvl : Nat → Nat → List Str → List Tok → PR
  | 0, _, _, _ => none
  | fuel + 1, 0, _, ts =>      -- or := and ("or" and)*   (FollowedBy makes the first repetition mandatory, else plain `and`)
      (match parseLvl fuel 1 [] ts with
       | none => none
       | some (r, ts1) => parseLvl fuel 4 r ts1)
  | fuel + 1, 4, acc, ts =>
      (match ts with
       | .word w :: ts2 =>
           if w == S "or" then
             (match parseLvl fuel 1 [] ts2 with
              | some (r2, ts3) => parseLvl fuel 4 (acc ++ r2) ts3
              | none => some (acc, ts))
           else some (acc, ts)
       | _ => some (acc, ts))
  | fuel + 1, 1, _, ts =>
      (match parseLvl fuel 2 [] ts with
       | none => none
       | some (r, ts1) => parseLvl fuel 5 r ts1)
  | fuel + 1, 5, acc, ts =>
      (match ts with
       | .word w :: ts2 =>
           if w == S "and" then
             (match parseLvl fuel 2 [] ts2 with
              | some (r2, ts3) => parseLvl fuel 5 (acc ++ r2) ts3
              | none => some (acc, ts))
           else some (acc, ts)
       | _ => some (acc, ts))
  | fuel + 1, 2, _, ts =>      -- not := "not" not / atom
      (match ts with
       | .word w :: ts2 =>
           if w == S "not" then
             (match parseLvl fuel 2 [] ts2 with
              | some r => some r
              | none => parseLvl fuel 3 [] ts)
           else parseLvl fuel 3 [] ts
       | _ => parseLvl fuel 3 [] ts)
  | fuel + 1, 3, _, ts =>      -- atom := identifier (any word, keywords included) / "(" or ")"
      (match ts with
       | .word w :: ts2 => some ([w], ts2)
       | .lp :: ts2 =>
           (match parseLvl fuel 0 [] ts2 with
            | some (r, .rp :: ts3) => some (r, ts3)
            | _ => none)
       | _ => none)
  | _ + 1, _, _, _ => none

/-- `SigmaExtendedCorrelationCondition.parse` + `get_referenced_rules` (`parse_all=True`) -/
def parseExt (s : Str) : Option (List Str) :=
  match tokenize [] s with
  | none => none
  | some ts =>
    match parseLvl (6 * ts.length + 10) 0 [] ts with
    | some (refs, []) => some refs
    | _ => none

/-- `SigmaExtendedCorrelationCondition.__post_init__` (`ParseException` → Sigma error) -/
def extCondInit (v : Y) : R (List Str) :=
  match v with
  | .str s => (match parseExt s with | some refs => pure refs | none => raiseS .correlationConditionError)
  | _ => raiseP .typeError

inductive CorrCond
  | basic (fieldrefNone : Bool)
  | extended (refs : List Str)
  deriving DecidableEq, Repr

def CorrCond.isExtended : CorrCond → Bool | .extended _ => true | _ => false

/-- the placeholder `SigmaCorrelationCondition(GTE, 1)` -/
def placeholderCond : CorrCond := .basic true

def corrConditionSection (v : Y) (typ : Option CorrType) : R (CorrCond × List SigmaCls) :=
  if !v.isNone then
    if v.isMap then
      catchSigma (some .correlationConditionError)
        (do let fr ← condFromDict v; pure (.basic fr, []))
        (fun c => pure (placeholderCond, [c]))
    else if v.isStr then
      if !optTemporal typ then pure (placeholderCond, [.correlationRuleError])
      else
        catchSigma (some .correlationConditionError)
          (do let refs ← extCondInit v; pure (.extended refs, []))
          (fun c => pure (placeholderCond, [c]))
    else pure (placeholderCond, [.correlationRuleError])
  else if !optTemporal typ then pure (placeholderCond, [.correlationRuleError])
  else pure (.basic true, [])       -- default `count >= len(rules)` condition, no field reference

def strIn (refs : List Str) (v : Y) : Bool := match v with | .str s => refs.contains s | _ => false

/-- `SigmaCorrelationRule._validate`: the cross-field validation of the constructor -/
def corrValidate (typ : Option CorrType) (rules : Option (List Y)) (cond : CorrCond) : R Unit := do
  if rules.isNone && !cond.isExtended then raiseS .correlationRuleError
  else if cond.isExtended && !optTemporal typ then raiseS .correlationConditionError
  else do
    (match cond, rules with
     | .extended refs, some rs => do
         forEach pyHash rs                                 -- `{rule.reference for rule in self.rules}`
         let unreferenced := rs.filter (fun r => !strIn refs r)
         if !unreferenced.isEmpty then do
           pyJoin unreferenced                            -- `', '.join(sorted(unreferenced_rules))`
           raiseS .correlationConditionError
         else
           let undefined := refs.filter (fun r => !rs.any (fun x => keyIs x r))
           if !undefined.isEmpty then raiseS .correlationConditionError else pure ()
     | _, _ => pure ())
    if !optTemporal typ && cond.isExtended then raiseS .correlationRuleError
    else
      match typ, cond with
      | some t, .basic true => if t.isValue then raiseS .correlationRuleError else pure ()
      | _, _ => pure ()

/-- the sections of `SigmaCorrelationRule.from_dict` between the common parameters and the tail -/
def corrSections (m : Dict) : R (Option CorrType × List Y × CorrCond × List SigmaCls) := do
  let cr := (lookup m (S "correlation")).getD (.map [])
  let (cm, e0) := if cr.isMap then (cr, []) else (Y.map [], [SigmaCls.correlationRuleError])
  let (typ, e1) ← corrTypeSection (← pyGet cm (S "type"))
  let (rules, e2) ← corrRulesSection (← pyGet cm (S "rules")) typ
  let e3 ← corrGenerateSection (← pyGet cm (S "generate"))
  let e4 ← corrGroupBySection (← pyGet cm (S "group-by"))
  let e5 ← corrTimespanSection (← pyGet cm (S "timespan"))
  let e6 ← corrAliasesSection (← pyGet cm (S "aliases"))
  let (cond, e7) ← corrConditionSection (← pyGet cm (S "condition")) typ
  pure (typ, rules, cond, e0 ++ e1 ++ e2 ++ e3 ++ e4 ++ e5 ++ e6 ++ e7)

/-- `SigmaCorrelationRule.__post_init__(collect_errors)` (after `SigmaRuleBase.__post_init__`, which
raises nothing), given the error list `errs` the constructor received:
`try: self._validate()  except SigmaError as e: if not collect_errors: raise; self.errors.append(e)`.
A non-Sigma exception of the validation would escape in both modes. -/
def corrPostInit (collect : Bool) (typ : Option CorrType) (rules : Option (List Y)) (cond : CorrCond)
    (errs : List SigmaCls) : R (List SigmaCls) :=
  catchSigma none (do corrValidate typ rules cond; pure errs)
    (fun c => if !collect then raiseS c else pure (errs ++ [c]))

/-- `SigmaCorrelationRule.from_dict`: the constructor runs after the tail, in both modes, on the
values the sections produced (placeholders for the parts that failed); in collecting mode the error
of its cross-field validation is appended after the collected ones -/
def corrFromDict (collect : Bool) (d : Y) : R (List SigmaCls) := do
  let (m, e0) ← documentAsMap collect d
  let e1 ← commonParams collect m
  let (typ, rules, cond, e2) ← corrSections m
  let errs ← tailRaise collect (e0 ++ e1 ++ e2)
  let rules' := if rules.isEmpty && cond.isExtended then none else some rules
  corrPostInit collect typ rules' cond errs

/-! ## collections -/
/-- `deep_dict_update(dest, src)` over the entries of `src` -/
def deepUpdate (dest : Y) : Dict → R Y
  | [] => pure dest
  | (k, .map vm) :: rest => do
      let d ← pyGetKeyDefault dest k              -- `dest.get(k)`
      let sub := if d.isMap then d else .map []
      let r ← deepUpdate sub vm
      let dest' ← pySetItem dest k r
      deepUpdate dest' rest
  | (k, v) :: rest => do
      let dest' ← pySetItem dest k v
      deepUpdate dest' rest

/-- what reference resolution needs of a parsed rule / correlation rule: the key it is registered
under in `ids_to_rules` (normalised hex digits of a valid UUID), its name, and the references a
correlation rule resolves -/
structure Obj where
  idKey : Y := .null
  name : Y := .null
  refs : List Str := []

/-- `UUID` objects are equal when their 128-bit values are: compare normalised lower-case hex digits -/
def uuidKey (s : Str) : Str := lowerS (uuidHex s)

/-- `rule.id` as a key of `ids_to_rules`: only a valid identifier becomes a `UUID` object -/
def idKeyOf (d : Y) : Y :=
  match d with
  | .map m => (match dget m (S "id") with | .str s => if uuidOk s then .str (uuidKey s) else .null | _ => .null)
  | _ => .null

structure CollSt where
  prev : Y := .map []
  glob : Y := .map []
  prevIsGlob : Bool := false        -- `prev_rule is global_rule`
  errs : List SigmaCls := []
  names : List Y := []              -- `rule.name` of the parsed rules and correlation rules
  nRules : Nat := 0
  nFilters : Nat := 0
  objs : List Obj := []             -- the parsed rules and correlation rules, in order

def strEq (v : Y) (s : Str) : Bool := keyIs v s

/-- `rule.name` of the object a loader builds from document `d`: `from_dict_common_params` keeps
the name only if it is a string -/
def nameOf (d : Y) : Y :=
  match d with
  | .map m => (match dget m (S "name") with | .str s => .str s | _ => .null)
  | _ => .null

def strsOf : List Y → List Str
  | [] => []
  | .str s :: rest => s :: strsOf rest
  | _ :: rest => strsOf rest

/-- the references `SigmaCorrelationRule.resolve_rule_references` resolves: the `rules` list, or —
when it is `None` — the identifiers of the extended condition -/
def corrRefs (d : Y) : List Str :=
  match d with
  | .map m =>
    (match corrSections m with
     | .ok (_, rules, cond, _) =>
         if rules.isEmpty && cond.isExtended then (match cond with | .extended refs => refs | _ => [])
         else strsOf rules
     | .error _ => [])
  | _ => []

def ruleObj (d : Y) : Obj := { idKey := idKeyOf d, name := nameOf d }
def corrObj (d : Y) : Obj := { idKey := idKeyOf d, name := nameOf d, refs := corrRefs d }

/-- one iteration of the loop of `SigmaCollection.from_dicts` -/
def collStep (collect : Bool) (st : CollSt) (doc : Y) : R CollSt :=
  if !doc.isMap then
    if collect then pure { st with errs := st.errs ++ [.collectionError] } else raiseS .collectionError
  else do
    let action ← pyGet doc (S "action")
    let keys ← pyKeys doc
    if action.isNone then
      if keys.any (keyIs · (S "correlation")) then do
        let es ← corrFromDict collect doc
        pure { st with errs := st.errs ++ es, names := st.names ++ [nameOf doc], objs := st.objs ++ [corrObj doc] }
      else if keys.any (keyIs · (S "filter")) then do
        let es ← filterFromDict collect doc
        pure { st with errs := st.errs ++ es, nFilters := st.nFilters + 1 }
      else do
        let g ← pyItems st.glob
        let merged ← deepUpdate doc g
        let es ← ruleFromDict collect merged
        pure { st with errs := st.errs ++ es, prev := merged, prevIsGlob := false, nRules := st.nRules + 1,
                       names := st.names ++ [nameOf merged], objs := st.objs ++ [ruleObj merged] }
    else if strEq action (S "global") then do
      let items ← pyItems doc
      let g := Y.map (dictDelKey items (S "action"))
      pure { st with glob := g, prev := g, prevIsGlob := true }
    else if strEq action (S "reset") then
      pure { st with glob := .map [], prevIsGlob := false }
    else if strEq action (S "repeat") then do
      let src ← pyItems doc
      let p ← deepUpdate st.prev src
      let es ← ruleFromDict collect p
      pure { st with errs := st.errs ++ es, prev := p, glob := if st.prevIsGlob then p else st.glob,
                     nRules := st.nRules + 1, names := st.names ++ [nameOf p], objs := st.objs ++ [ruleObj p] }
    else if collect then pure { st with errs := st.errs ++ [.collectionError] }
    else raiseS .collectionError

def collLoop (collect : Bool) : CollSt → List Y → R CollSt
  | st, [] => pure st
  | st, d :: ds => do
      let st' ← collStep collect st d
      collLoop collect st' ds

/-- `SigmaCollection.__post_init__` with `resolve_references=False` (filter application: see the
module comment): `self.names_to_rules[rule.name] = rule` hashes every name that is not `None` -/
def collPostInit (st : CollSt) : R Unit :=
  forEach pyHash (st.names.filter (fun n => !n.isNone))

/-- `SigmaCollection.from_dicts(docs, collect_errors, resolve_references=False)` -/
def collFromDicts (collect : Bool) (docs : List Y) : R (List SigmaCls) := do
  let st ← collLoop collect {} docs
  collPostInit st
  pure st.errs

/-! ### reference resolution (`resolve_references=True`, the default) -/
/-- `d[k]` on a dict given by its keys -/
def pyKeyLookup (keys : List Y) (k : Y) : R Unit :=
  if keys.any (keyEq k) then pure () else raiseP .keyError

/-- `SigmaCollection.__getitem__(ref)` for a string: by identifier if `ref` is a UUID, else by name;
`KeyError` becomes `SigmaRuleNotFoundError` -/
def collGetItem (objs : List Obj) (ref : Str) : R Unit :=
  catchPy [.keyError]
    (catchPy [.valueError]
      (do pyUUID (.str ref); pyKeyLookup (objs.map (·.idKey)) (.str (uuidKey ref)))
      (pyKeyLookup (objs.map (·.name)) (.str ref)))
    (raiseS .ruleNotFoundError)

/-- `SigmaCollection.resolve_rule_references`: every correlation rule resolves its references in
order (back references, output flags, filter re-application and sorting raise nothing) -/
def collResolve (objs : List Obj) : R Unit :=
  forEach (fun o => forEach (collGetItem objs) o.refs) objs

/-- `SigmaCollection.from_dicts(docs, collect_errors)` with reference resolution: strict mode
resolves in the constructor; collecting mode resolves afterwards and collects the Sigma error -/
def collFromDictsRef (collect : Bool) (docs : List Y) : R (List SigmaCls) := do
  let st ← collLoop collect {} docs
  collPostInit st
  if collect then
    catchSigma none (do collResolve st.objs; pure st.errs) (fun c => pure (st.errs ++ [c]))
  else do
    collResolve st.objs
    pure st.errs

/-! ## the observables -/
inductive Kind | rule | corr | filter | collection | collectionRef deriving DecidableEq, Repr

/-- a single document is loaded as a one-document collection (as `harness/c07.py` does) -/
def collDocs (d : Y) : List Y := match d with | .list l => l | v => [v]

def load (k : Kind) (collect : Bool) (d : Y) : R (List SigmaCls) :=
  match k with
  | .rule => ruleFromDict collect d
  | .corr => corrFromDict collect d
  | .filter => filterFromDict collect d
  | .collection => collFromDicts collect (collDocs d)
  | .collectionRef => collFromDictsRef collect (collDocs d)

/-- strict loading: succeeds or raises -/
def strict (k : Kind) (d : Y) : R Unit := (load k false d).map (fun _ => ())
/-- loading with error collection: the classes of the collected errors, in order -/
def collect (k : Kind) (d : Y) : R (List SigmaCls) := load k true d

end SigmaVerif.Load
