import SigmaVerif.Model.Conv
/-!
# Model of correlation rule conversion (`sigma/conversion/base.py`, `sigma/correlations.py`,
`FieldMappingTransformationBase.apply`)

What is modelled, as coded:

* `SigmaCorrelationTimespan.__post_init__` (`parseTimespan`, `unitLen`) and `convert_timespan`;
* the load-time checks of `SigmaCorrelationRule.__post_init__` (`validate`);
* `resolve_rule_references` (`refsOf`: the `rules` list, or the references of an extended condition in
  order of first appearance);
* `FieldMappingTransformationBase.apply` on a correlation rule (`applyStage`): `fields`, alias targets
  (as the code stands only when a group-by list exists), group-by (entries naming an alias are kept), the
  condition field; a one-to-many image of an alias target or condition field is a `SigmaConfigurationError`;
* `convert_correlation_rule`: method check, type → conversion method → template name (`dispatch`);
* `convert_correlation_rule_from_template` and its phases (search single/multi, field normalisation,
  typing, aggregation incl. the fields list and referenced-rules expression, group-by, condition) as pure
  functions producing a *structured record* (what the delimiter-structured templates of
  `harness/corrbackend.py` expose), with the support conditions and their error classes in evaluation order;
* `convert_extended_correlation_condition*` with `compare_precedence` (`renderExt`), producing the token
  list of C01 (`Conv.QTok`).

Two facts about the *shape* of the code are parameters read from the source by the translator
(`Cfg.corrFinTested`: does `convert_correlation_rule` test `finalize_correlation_subqueries`?
`Cfg.aliasAlways`: are alias targets mapped outside the group-by test?), so that the model follows the
code before and after the two defects recorded in `Props/C10.lean` §7 are repaired.

Parameters (not modelled here): the referenced rules' own conversion (`Env`: C01/C12's subject), the
effect of one field-mapping item on a field name (`Stage`: a finite table, identity elsewhere).
No Mathlib imports: compiled into the driver.
-/
namespace SigmaVerif.Corr
open SigmaVerif.Conv (Op QTok)

abbrev Str := List Char

/-! ## Correlation types, template names, dispatch -/

inductive CType
  | eventCount | valueCount | temporal | temporalOrdered | valueSum | valueAvg | valuePercentile | valueMedian
deriving DecidableEq, Repr

def CType.all : List CType :=
  [.eventCount, .valueCount, .temporal, .temporalOrdered, .valueSum, .valueAvg, .valuePercentile, .valueMedian]

/-- member name of `SigmaCorrelationType` -/
def CType.pyName : CType → String
  | .eventCount => "EVENT_COUNT" | .valueCount => "VALUE_COUNT" | .temporal => "TEMPORAL"
  | .temporalOrdered => "TEMPORAL_ORDERED" | .valueSum => "VALUE_SUM" | .valueAvg => "VALUE_AVG"
  | .valuePercentile => "VALUE_PERCENTILE" | .valueMedian => "VALUE_MEDIAN"

def CType.isTemporal : CType → Bool
  | .temporal => true | .temporalOrdered => true | _ => false

/-- the types whose basic condition must name a field -/
def CType.needsField : CType → Bool
  | .valueCount => true | .valueSum => true | .valueAvg => true | .valuePercentile => true
  | .valueMedian => true | _ => false

/-- the template families of `TextQueryBackend` (`{name}_correlation_query`, `{name}_aggregation_expression`,
`{name}_condition_expression`) -/
inductive TName
  | eventCount | valueCount | temporal | temporalOrdered | temporalExt | temporalOrderedExt
  | valueSum | valueAvg | valuePercentile | valueMedian
deriving DecidableEq, Repr

def TName.pyName : TName → String
  | .eventCount => "event_count" | .valueCount => "value_count" | .temporal => "temporal"
  | .temporalOrdered => "temporal_ordered" | .temporalExt => "temporal_extended"
  | .temporalOrderedExt => "temporal_ordered_extended" | .valueSum => "value_sum" | .valueAvg => "value_avg"
  | .valuePercentile => "value_percentile" | .valueMedian => "value_median"

def TName.all : List TName :=
  [.eventCount, .valueCount, .temporal, .temporalOrdered, .temporalExt, .temporalOrderedExt,
   .valueSum, .valueAvg, .valuePercentile, .valueMedian]

/-- `convert_correlation_rule`: type (and, for the temporal types, the kind of condition) → conversion
method → the template name that method passes to `convert_correlation_rule_from_template` -/
def dispatch (t : CType) (isExt : Bool) : TName :=
  match t, isExt with
  | .temporal, true => .temporalExt
  | .temporalOrdered, true => .temporalOrderedExt
  | .eventCount, _ => .eventCount
  | .valueCount, _ => .valueCount
  | .temporal, false => .temporal
  | .temporalOrdered, false => .temporalOrdered
  | .valueSum, _ => .valueSum
  | .valueAvg, _ => .valueAvg
  | .valuePercentile, _ => .valuePercentile
  | .valueMedian, _ => .valueMedian

/-! ## Timespan -/

/-- the unit table of `SigmaCorrelationTimespan.__post_init__` -/
def unitLen : Char → Option Nat
  | 's' => some 1 | 'm' => some 60 | 'h' => some 3600 | 'd' => some 86400 | 'w' => some 604800
  | 'M' => some 2629746 | 'y' => some 31556952 | _ => none

def units : List Char := ['s', 'm', 'h', 'd', 'w', 'M', 'y']

def digitVal (c : Char) : Option Nat :=
  if '0' ≤ c ∧ c ≤ '9' then some (c.toNat - '0'.toNat) else none

/-- value of a non-empty string of ASCII digits (`int(spec[:-1])` restricted to that grammar) -/
def digitsVal : Str → Option Nat
  | [] => none
  | cs => cs.foldl (fun acc c => match acc, digitVal c with
      | some a, some d => some (a * 10 + d) | _, _ => none) (some 0)

structure Timespan where
  spec : Str
  count : Nat
  unit : Char
deriving Repr, DecidableEq

/-- `count = int(spec[:-1]); unit = spec[-1]`, for the grammar digits⁺ unit -/
def parseTimespan (s : Str) : Option Timespan :=
  match s.getLast? with
  | none => none
  | some u =>
    match digitsVal s.dropLast, unitLen u with
    | some c, some _ => some { spec := s, count := c, unit := u }
    | _, _ => none

def natStr (n : Nat) : Str := (Nat.repr n).toList

/-- `SigmaCorrelationTimespan.seconds` -/
def Timespan.seconds (t : Timespan) : Nat := t.count * (unitLen t.unit).getD 0

/-- `convert_timespan` -/
def renderTimespan (tsSeconds : Bool) (tsMap : Option (List (Char × Str))) (t : Timespan) : Str :=
  if tsSeconds then natStr t.seconds
  else match tsMap.bind (fun m => m.lookup t.unit) with
    | some u => natStr t.count ++ u
    | none => t.spec

/-! ## Rules -/

inductive CondOp | lt | lte | gt | gte | eq | neq
deriving DecidableEq, Repr

def CondOp.all : List CondOp := [.lt, .lte, .gt, .gte, .eq, .neq]
def CondOp.pyName : CondOp → String
  | .lt => "LT" | .lte => "LTE" | .gt => "GT" | .gte => "GTE" | .eq => "EQ" | .neq => "NEQ"

/-- extended condition parse tree (`CorrelationCondition{AND,OR,NOT}`, `SigmaRuleReference`) -/
inductive Ext
  | ref (r : Str)
  | not (e : Ext)
  | and (es : List Ext)
  | or (es : List Ext)
deriving Repr

inductive FieldRef
  | none
  | one (f : Str)
  | many (fs : List Str)
deriving Repr, DecidableEq

def FieldRef.toList : FieldRef → List Str
  | .none => [] | .one f => [f] | .many fs => fs

structure BasicCond where
  op : CondOp
  count : Int
  field : FieldRef
  percentile : Option Int
deriving Repr

inductive Cond
  | basic (c : BasicCond)
  | ext (e : Ext)
deriving Repr

def Cond.isExt : Cond → Bool
  | .ext _ => true | _ => false

structure Alias where
  name : Str
  mapping : List (Str × Str)        -- (rule reference as written, field), in document order
deriving Repr, DecidableEq

structure Rule where
  type : CType
  rules : Option (List Str)         -- references as written (name or id)
  generate : Bool
  timespan : Str
  groupBy : Option (List Str)
  aliases : List Alias
  cond : Cond
  fields : List Str
deriving Repr

mutual
def Ext.leaves : Ext → List Str
  | .ref r => [r]
  | .not e => e.leaves
  | .and es => Ext.leavesL es
  | .or es => Ext.leavesL es
def Ext.leavesL : List Ext → List Str
  | [] => []
  | e :: es => e.leaves ++ Ext.leavesL es
end

/-- `get_referenced_rules`: unique references in order of first appearance -/
def Ext.refs (e : Ext) : List Str := e.leaves.eraseDups

def sameSet (a b : List Str) : Bool := a.all b.contains && b.all a.contains

/-- the checks of `SigmaCorrelationTimespan` and `SigmaCorrelationRule.__post_init__` -/
def validate (r : Rule) : Bool :=
  (parseTimespan r.timespan).isSome &&
  (match r.cond with
   | .ext e => r.type.isTemporal && (match r.rules with | some rs => sameSet rs e.refs | none => true)
   | .basic c => r.rules.isSome && !(r.type.needsField && c.field == .none))

/-- `resolve_rule_references`: which references, in which order -/
def refsOf (r : Rule) : List Str :=
  match r.rules, r.cond with
  | some rs, _ => rs
  | none, .ext e => e.refs
  | none, _ => []

/-! ## Referenced rules (parameter) -/

structure RefInfo where
  tag : Str                 -- `rule.name or rule.id`
  queries : List Str        -- the queries the rule converts to on its own, unfinalised, in condition order
  fields : List Str         -- its `fields` list after the pipeline
  isCorr : Bool             -- a correlation rule itself
deriving Repr, DecidableEq

abbrev Env := Str → Option RefInfo

/-! ## Field mapping -/

/-- one field-mapping item: images of the listed names; every other name is unchanged -/
abbrev Stage := List (Str × List Str)

/-- `_apply_field_name` -/
def mapField (t : Stage) (f : Str) : List Str :=
  match t.lookup f with
  | some r => r
  | none => [f]

inductive Err
  | load            -- rejected when the rule is constructed
  | notFound        -- SigmaRuleNotFoundError
  | unsupported     -- NotImplementedError
  | conversion      -- SigmaConversionError
  | backend         -- SigmaBackendError
  | config          -- SigmaConfigurationError (one-to-many image where one name is required)
  | crash           -- IndexError (empty image where one name is required)
deriving DecidableEq, Repr

/-- the single image required for alias targets and the condition field -/
def mapOne (t : Stage) (f : Str) : Except Err Str :=
  match mapField t f with
  | [x] => .ok x
  | [] => .error .crash
  | _ => .error .config

/-- the alias → field entries of one alias, each target replaced by its single image -/
def mapPairs (t : Stage) : List (Str × Str) → Except Err (List (Str × Str))
  | [] => .ok []
  | p :: ps =>
    match mapOne t p.2 with
    | .error e => .error e
    | .ok x =>
      match mapPairs t ps with
      | .error e => .error e
      | .ok r => .ok ((p.1, x) :: r)

def mapAliases (t : Stage) : List Alias → Except Err (List Alias)
  | [] => .ok []
  | a :: as =>
    match mapPairs t a.mapping with
    | .error e => .error e
    | .ok mp =>
      match mapAliases t as with
      | .error e => .error e
      | .ok r => .ok ({ a with mapping := mp } :: r)

def mapNames (t : Stage) : List Str → Except Err (List Str)
  | [] => .ok []
  | f :: fs =>
    match mapOne t f with
    | .error e => .error e
    | .ok x =>
      match mapNames t fs with
      | .error e => .error e
      | .ok r => .ok (x :: r)

def mapFieldRef (t : Stage) : FieldRef → Except Err FieldRef
  | .none => .ok .none
  | .one f => match mapOne t f with | .error e => .error e | .ok x => .ok (.one x)
  | .many fs => match mapNames t fs with | .error e => .error e | .ok xs => .ok (.many xs)

/-- the condition field of a basic condition is mapped; an extended condition has none -/
def mapCond (t : Stage) : Cond → Except Err Cond
  | .basic c => match mapFieldRef t c.field with | .error e => .error e | .ok f => .ok (.basic { c with field := f })
  | .ext e => .ok (.ext e)

/-- group-by entries that name an alias are kept, the others are replaced by all their images -/
def mapGroupBy (t : Stage) (aliasNames : List Str) (gb : List Str) : List Str :=
  gb.flatMap (fun g => if aliasNames.contains g then [g] else mapField t g)

/-- `FieldMappingTransformationBase.apply` on a correlation rule: the `fields` list; alias targets —
as the code stands (`always = false`: the alias loop sits inside `if rule.group_by is not None`) *only
when a group-by list exists*; group-by; the condition field.  `always` is read from the source by the
translator (`Gen.Corr.aliasMappingUnderGroupBy`), so that moving the loop out is followed by the model. -/
def applyStage (always : Bool) (t : Stage) (r : Rule) : Except Err Rule :=
  match (if always || r.groupBy.isSome then mapAliases t r.aliases else Except.ok r.aliases) with
  | .error e => .error e
  | .ok as =>
    match mapCond t r.cond with
    | .error e => .error e
    | .ok c =>
      .ok { r with fields := r.fields.flatMap (mapField t), aliases := as,
                   groupBy := r.groupBy.map (mapGroupBy t (r.aliases.map Alias.name)), cond := c }

def applyStages (always : Bool) : List Stage → Rule → Except Err Rule
  | [], r => .ok r
  | t :: ts, r =>
    match applyStage always t r with
    | .error e => .error e
    | .ok r1 => applyStages always ts r1

/-! ## Extended condition rendering -/

def Ext.isRef : Ext → Bool
  | .ref _ => true | _ => false

/-- class index of the inner item in `compare_precedence` (a rule reference: -1 ↦ `none`) -/
def extIdx (prec : List Op) : Ext → Option Nat
  | .ref _ => none
  | .not _ => prec.idxOf? .not
  | .and _ => prec.idxOf? .and
  | .or _ => prec.idxOf? .or

/-- `compare_precedence(outer, inner)` for correlation condition items: `true` = no grouping -/
def extCompare (prec : List Op) (par : Bool) (outer : Op) (inner : Ext) : Bool :=
  if par && !inner.isRef then false
  else match extIdx prec inner, prec.idxOf? outer with
    | none, _ => true
    | some i, some o => decide (i ≤ o)
    | some _, none => false

def grp (t : List QTok) : List QTok := QTok.lp :: t ++ [QTok.rp]

mutual
/-- `convert_extended_correlation_condition`; `ix` numbers the rule references -/
def renderExt (prec : List Op) (par : Bool) (ix : Str → Nat) : Ext → List QTok
  | .ref r => [.atom (ix r)]
  | .not e =>
      -- `_not`: every operand that is a condition item (not a reference) is grouped
      .tnot :: (if e.isRef then renderExt prec par ix e else grp (renderExt prec par ix e))
  | .and es => Conv.joinWith .tand (renderArgs prec par ix .and es)
  | .or es => Conv.joinWith .tor (renderArgs prec par ix .or es)
/-- operands of `_and` / `_or`: grouped iff a condition item and `compare_precedence` is false -/
def renderArgs (prec : List Op) (par : Bool) (ix : Str → Nat) (outer : Op) : List Ext → List (List QTok)
  | [] => []
  | e :: es =>
    (if !e.isRef && !extCompare prec par outer e then grp (renderExt prec par ix e)
     else renderExt prec par ix e) :: renderArgs prec par ix outer es
end

mutual
/-- meaning of an extended condition under a valuation of the rule references -/
def Ext.sem (ρ : Str → Bool) : Ext → Bool
  | .ref r => ρ r
  | .not e => !(e.sem ρ)
  | .and es => Ext.semAll ρ es
  | .or es => Ext.semAny ρ es
def Ext.semAll (ρ : Str → Bool) : List Ext → Bool
  | [] => true
  | e :: es => e.sem ρ && Ext.semAll ρ es
def Ext.semAny (ρ : Str → Bool) : List Ext → Bool
  | [] => false
  | e :: es => e.sem ρ || Ext.semAny ρ es
end

/-! ## Backend configuration -/

structure Cfg where
  corr : Bool                       -- `correlation_methods` is not None
  methods : List Str
  defaultMethod : Str
  tsSeconds : Bool
  tsMap : Option (List (Char × Str))
  single : Bool                     -- correlation_search_single_rule_expression
  multi : Bool                      -- the three correlation_search_multi_rule_* templates
  typing : Bool                     -- typing_expression and its two companions
  norm : Bool                       -- correlation_search_field_normalization_expression (+ joiner)
  gb : Bool                         -- groupby_expression, groupby_field_expression (+ joiner)
  gbNoField : Bool                  -- groupby_expression_nofield
  refsExpr : Bool                   -- referenced_rules_expression (+ joiner)
  refsUsed : Bool                   -- do the aggregation / condition templates contain {referenced_rules}?
  fieldsExpr : Bool                 -- correlation_fields_expression and its companions
  extRef : Bool                     -- extended_correlation_condition_rule_reference_expression
  finalizeSub : Bool                -- finalize_correlation_subqueries
  qDefault : Option (List Str)      -- methods of default_correlation_query
  qTypes : List (TName × List Str)  -- `{name}_correlation_query` present, with its methods
  aggTypes : List TName             -- `{name}_aggregation_expression` present
  condTypes : List TName            -- `{name}_condition_expression` present
  prec : List Op                    -- TextQueryBackend.precedence
  parenthesize : Bool
  corrFinTested : Bool := false     -- does `convert_correlation_rule` test finalize_correlation_subqueries? (read from the source)
  aliasAlways : Bool := false       -- are alias targets mapped even without a group-by list? (read from the source)
deriving Repr

/-! ## The structured record -/

structure SubQ where
  tag : Str
  fin : Bool                        -- embedded in finalised (and post-processed) form
  query : Str
  norms : List (Str × Str)          -- (alias, field)
deriving Repr, DecidableEq

inductive GB
  | absent                          -- no group-by and no `nofield` template: nothing emitted
  | nofield
  | fields (fs : List Str)
deriving Repr, DecidableEq

inductive CondR
  | basic (op : CondOp) (count : Int) (field : List Str)
  | ext (names : List Str) (toks : List QTok)
deriving Repr, DecidableEq

structure Record where
  qt : String                       -- query template selected: a template name or "default"
  tn : String                       -- aggregation / condition template family
  method : Str
  single : Bool                     -- single-rule search expression used
  subs : List SubQ
  typing : Option (List SubQ)
  ts : Str
  gb : GB
  aggField : List Str
  pct : Option Int
  fields : List Str
  refs : Option (List Str)          -- {referenced_rules}
  cond : CondR
deriving Repr, DecidableEq

/-! ## Phases -/

/-- `if not c: raise e` -/
def need (c : Bool) (e : Err) : Except Err Unit := if c then pure () else throw e

/-- `convert_correlation_search_field_normalization_expression` for one rule reference -/
def normsFor (aliases : List Alias) (ref : Str) : List (Str × Str) :=
  aliases.flatMap (fun a => (a.mapping.filter (fun p => p.1 == ref)).map (fun p => (a.name, p.2)))

/-- is the sub-query embedded in finalised form?  detection rules: iff the backend opts in
(`convert_rule`); correlation rules: always, as long as `convert_correlation_rule` has no such test -/
def subFin (k : Cfg) (i : RefInfo) : Bool := k.finalizeSub || (i.isCorr && !k.corrFinTested)

def subsOf (k : Cfg) (aliases : List Alias) (refs : List (Str × RefInfo)) : List SubQ :=
  refs.flatMap (fun p => p.2.queries.map (fun q =>
    { tag := p.2.tag, fin := subFin k p.2, query := q, norms := normsFor aliases p.1 }))

/-- the single-rule search expression is used iff one rule is referenced, it has one query, and the
backend defines the expression -/
def isSingle (k : Cfg) (refs : List (Str × RefInfo)) : Bool :=
  match refs with
  | [p] => p.2.queries.length == 1 && k.single
  | _ => false

/-- single-rule branch: `queries[0]` of the one referenced rule -/
def singleSubs (k : Cfg) (aliases : List Alias) (refs : List (Str × RefInfo)) : List SubQ :=
  match refs with
  | [p] => match p.2.queries with
    | q :: _ => [{ tag := p.2.tag, fin := subFin k p.2, query := q, norms := normsFor aliases p.1 }]
    | [] => []
  | _ => []

def searchSubs (k : Cfg) (aliases : List Alias) (refs : List (Str × RefInfo)) : List SubQ :=
  if isSingle k refs then singleSubs k aliases refs else subsOf k aliases refs

/-- `convert_correlation_search` -/
def search (k : Cfg) (aliases : List Alias) (refs : List (Str × RefInfo)) : Except Err (Bool × List SubQ) := do
  need (isSingle k refs || k.multi) .unsupported
  need (!(!(searchSubs k aliases refs).isEmpty && !aliases.isEmpty && !k.norm)) .unsupported
  pure (isSingle k refs, searchSubs k aliases refs)

/-- `convert_correlation_typing` -/
def typing (k : Cfg) (refs : List (Str × RefInfo)) : Option (List SubQ) :=
  if k.typing then some (subsOf k [] refs) else none

/-- `convert_correlation_aggregation_fields_from_template` -/
def aggFields (k : Cfg) (own : List Str) (refs : List (Str × RefInfo)) (gb : Option (List Str)) : List Str :=
  if !k.fieldsExpr then []
  else
    ((refs.flatMap (fun p => p.2.fields)) ++ own).foldl
      (fun acc f => if (match gb with | some g => !g.contains f | none => true) && !acc.contains f
                    then acc ++ [f] else acc) []

/-- `convert_correlation_aggregation_groupby_from_template` -/
def groupBy (k : Cfg) : Option (List Str) → Except Err GB
  | none => pure (if k.gbNoField then .nofield else .absent)
  | some fs => if k.gb then pure (.fields fs) else throw .unsupported

/-- `convert_referenced_rules` -/
def refsExpr (k : Cfg) (refs : List (Str × RefInfo)) : Option (List Str) :=
  if k.refsExpr then some (refs.map (·.2.tag)) else none

def resolveRefs (env : Env) : List Str → Except Err (List (Str × RefInfo))
  | [] => pure []
  | r :: rs => match env r with
    | some i => do pure ((r, i) :: (← resolveRefs env rs))
    | none => throw .notFound

/-- query template lookup of `convert_correlation_rule_from_template`:
`getattr(self, f"{type}_correlation_query") or self.default_correlation_query` -/
def queryTemplate (k : Cfg) (tn : TName) : Option (String × List Str) :=
  match k.qTypes.lookup tn with
  | some (m :: ms) => some (tn.pyName, m :: ms)
  | _ => k.qDefault.map (fun ms => ("default", ms))

def extNames (e : Ext) : List Str := e.refs
def extIx (names : List Str) (r : Str) : Nat := names.idxOf r

/-- aggregation phase (`convert_correlation_aggregation_from_template`): condition field, percentile,
referenced rules, fields list, group-by — with its support conditions in evaluation order -/
structure Agg where
  field : List Str
  pct : Option Int
  refs : Option (List Str)
  fields : List Str
  gb : GB
deriving Repr, DecidableEq

def aggregation (k : Cfg) (tn : TName) (refs : List (Str × RefInfo)) (r : Rule) : Except Err Agg := do
  need (k.aggTypes.contains tn) .unsupported
  need (match r.cond with
        | .basic c => !(tn == .valuePercentile && c.percentile.isNone)
        | .ext _ => true) .conversion
  let gb ← groupBy k r.groupBy
  need (!(k.refsUsed && (refsExpr k refs).isNone)) .backend
  pure { field := match r.cond with | .basic c => c.field.toList | .ext _ => [],
         pct := match r.cond with | .basic c => c.percentile | .ext _ => none,
         refs := refsExpr k refs, fields := aggFields k r.fields refs r.groupBy, gb := gb }

/-- condition phase (`convert_correlation_condition_from_template`) -/
def condition (k : Cfg) (tn : TName) (c : Cond) : Except Err CondR := do
  need (k.condTypes.contains tn) .unsupported
  match c with
  | .basic c => pure (CondR.basic c.op c.count c.field.toList)
  | .ext e => do
      need k.extRef .unsupported
      pure (CondR.ext (extNames e) (renderExt k.prec k.parenthesize (extIx (extNames e)) e))

def renderTs (k : Cfg) (spec : Str) : Str :=
  match parseTimespan spec with
  | some t => renderTimespan k.tsSeconds k.tsMap t
  | none => []

/-- `convert_correlation_rule_from_template` once the query template is selected -/
def phases (k : Cfg) (refs : List (Str × RefInfo)) (m : Str) (qt : String) (tn : TName) (r : Rule) :
    Except Err Record := do
  let ss ← search k r.aliases refs
  let agg ← aggregation k tn refs r
  let cond ← condition k tn r.cond
  pure { qt := qt, tn := tn.pyName, method := m, single := ss.1, subs := ss.2, typing := typing k refs,
         ts := renderTs k r.timespan, gb := agg.gb, aggField := agg.field, pct := agg.pct,
         fields := agg.fields, refs := agg.refs, cond := cond }

/-- `convert_correlation_rule_from_template` -/
def fromTemplate (k : Cfg) (refs : List (Str × RefInfo)) (m : Str) (r : Rule) : Except Err Record :=
  let tn := dispatch r.type r.cond.isExt
  match queryTemplate k tn with
  | none => throw .unsupported
  | some (qt, qms) => do
      need (qms.contains m) .conversion
      phases k refs m qt tn r

/-- `Backend.convert` for one correlation rule whose referenced rules are already converted -/
def convertCorr (k : Cfg) (env : Env) (stages : List Stage) (method : Option Str) (r0 : Rule) :
    Except Err Record := do
  need (validate r0) .load
  let refs ← resolveRefs env (refsOf r0)
  -- convert_correlation_rule
  need k.corr .unsupported
  let m := method.getD k.defaultMethod
  need (k.methods.contains m) .conversion
  let r ← applyStages k.aliasAlways stages r0
  fromTemplate k refs m r

end SigmaVerif.Corr
