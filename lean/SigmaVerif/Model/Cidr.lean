/-!
# Model of `SigmaCIDRExpression.expand` (`sigma/types.py`) and of the text forms of addresses
(`str(IPv4Address)`, `str(IPv6Address)` as CPython's `ipaddress` renders them).

A network is `(base, p)`: `base` the integer network address (host bits zero), `p` the prefix
length.  Patterns are character lists in which `'*'` is the wildcard.  No imports.
-/
namespace SigmaVerif.Cidr

abbrev Str := List Char

def digitChar (n : Nat) : Char := Char.ofNat (48 + n)

/-- decimal text of an octet -/
def dec (n : Nat) : Str :=
  if n < 10 then [digitChar n]
  else if n < 100 then [digitChar (n / 10), digitChar (n % 10)]
  else [digitChar (n / 100), digitChar (n / 10 % 10), digitChar (n % 10)]

def octets (a : Nat) : List Nat := [a / 2 ^ 24 % 256, a / 2 ^ 16 % 256, a / 2 ^ 8 % 256, a % 256]

def joinDot : List Str → Str
  | [] => []
  | [x] => x
  | x :: xs => x ++ '.' :: joinDot xs

/-- `str(IPv4Address(a))` -/
def render4 (a : Nat) : Str := joinDot ((octets a).map dec)

/-- `expand()` for an IPv4 network -/
def expand4 (base p : Nat) : List Str :=
  let diff := (8 - p % 8) % 8
  let p' := p + diff
  let g := p' / 8
  (List.range (2 ^ diff)).map fun k =>
    let sub := base + k * 2 ^ (32 - p')
    if g == 0 then ['*']
    else if g < 4 then joinDot (((octets sub).take g).map dec) ++ ['.', '*']
    else render4 sub

/-- membership of address `a` in the network `(base, p)` of width `w` bits -/
def inNet (w base p a : Nat) : Bool := a / 2 ^ (w - p) == base / 2 ^ (w - p)

/-- glob matching where `*` stands for any run of characters -/
def glob : Str → Str → Bool
  | [], n => n.isEmpty
  | '*' :: p, n => glob p n || (match n with | [] => false | _ :: n' => glob ('*' :: p) n')
  | a :: p, n => match n with | [] => false | c :: n' => a == c && glob p n'
termination_by p n => (p.length + n.length, p.length)
decreasing_by all_goals simp_wf <;> omega

def matches4 (base p a : Nat) : Bool := (expand4 base p).any (fun pat => glob pat (render4 a))

/-! ## IPv6 -/

def hexChar (n : Nat) : Char := if n < 10 then Char.ofNat (48 + n) else Char.ofNat (87 + n)

/-- `'%x' % n` for a hextet -/
def hex (n : Nat) : Str :=
  if n < 16 then [hexChar n]
  else if n < 256 then [hexChar (n / 16), hexChar (n % 16)]
  else if n < 4096 then [hexChar (n / 256), hexChar (n / 16 % 16), hexChar (n % 16)]
  else [hexChar (n / 4096), hexChar (n / 256 % 16), hexChar (n / 16 % 16), hexChar (n % 16)]

def hextets (a : Nat) : List Nat := (List.range 8).map (fun i => a / 2 ^ (16 * (7 - i)) % 65536)

/-- scan of `_compress_hextets`: (bestStart, bestLen) of the first longest run of zero hextets -/
def bestRun : List Nat → Nat → Option Nat → Nat → Option Nat → Nat → Option Nat × Nat
  | [], _, _, _, bs, bl => (bs, bl)
  | h :: hs, idx, cs, cl, bs, bl =>
    if h == 0 then
      let cl' := cl + 1
      let cs' := match cs with | none => some idx | some s => some s
      if cl' > bl then bestRun hs (idx + 1) cs' cl' cs' cl' else bestRun hs (idx + 1) cs' cl' bs bl
    else bestRun hs (idx + 1) none 0 bs bl

def joinColon : List Str → Str
  | [] => []
  | [x] => x
  | x :: xs => x ++ ':' :: joinColon xs

/-- `str(IPv6Address(a))`: lower-case hex, no leading zeros, first longest zero run (length ≥ 2)
replaced by `::` -/
def render6 (a : Nat) : Str :=
  let hs := hextets a
  let strs := hs.map hex
  match bestRun hs 0 none 0 none 0 with
  | (some s, l) =>
    if l > 1 then
      let e := s + l
      let tail := strs.drop e
      let tail := if e == 8 then tail ++ [[]] else tail
      let mid := strs.take s ++ [[]] ++ tail
      let mid := if s == 0 then [] :: mid else mid
      joinColon mid
    else joinColon strs
  | _ => joinColon strs

/-- index of the first position at which the two strings differ, scanning the first one's
positions; `none` when the first is a prefix of the second (Python's loop falls through);
the model does not cover the IndexError case (second string a proper prefix of the first) and
returns `none` there as well -/
def firstDiff : Str → Str → Nat → Option Nat
  | [], _, _ => none
  | _ :: _, [], _ => none
  | a :: as, b :: bs, i => if a != b then some i else firstDiff as bs (i + 1)

/-- `expand()` for an IPv6 network -/
def expand6 (base p : Nat) : List Str :=
  let diff := (4 - p % 4) % 4
  let p' := p + diff
  (List.range (2 ^ diff)).map fun k =>
    let sub := base + k * 2 ^ (128 - p')
    let first := render6 sub
    let last := render6 (sub + 2 ^ (128 - p') - 1)
    match firstDiff first last 0 with
    | some i => first.take i ++ ['*']
    | none => first

def matches6 (base p a : Nat) : Bool := (expand6 base p).any (fun pat => glob pat (render6 a))

/-! ## The code-shaped constants as parameters (tied to the source by `Gen/Cidr.lean`, `Oblig/C18.lean`)

`expand4` / `expand6` bake in the alignment step (8 bits = one decimal group for IPv4, 4 bits = one
hexadecimal digit for IPv6), the number of groups, the separator and the wildcard.  Below they are
data, so that the translator can regenerate them from `SigmaCIDRExpression.expand`. -/

/-- the constants of the IPv4 branch: `prefix_diff = (alignSub - prefixlen % alignMod) % alignWrap`,
`wildcard_group = subnet.prefixlen // groupDiv`, compared with `0` and `groups` -/
structure Shape4 where
  alignSub : Nat
  alignMod : Nat
  alignWrap : Nat
  groupDiv : Nat
  groups : Nat
  sep : Char
  wildcard : Str
deriving Repr, DecidableEq

def Shape4.std : Shape4 := ⟨8, 8, 8, 8, 4, '.', ['*']⟩

def joinSep (c : Char) : List Str → Str
  | [] => []
  | [x] => x
  | x :: xs => x ++ c :: joinSep c xs

def expand4S (s : Shape4) (base p : Nat) : List Str :=
  let diff := (s.alignSub - p % s.alignMod) % s.alignWrap
  let p' := p + diff
  let g := p' / s.groupDiv
  (List.range (2 ^ diff)).map fun k =>
    let sub := base + k * 2 ^ (32 - p')
    if g == 0 then s.wildcard
    else if g < s.groups then joinSep s.sep (((octets sub).take g).map dec) ++ (s.sep :: s.wildcard)
    else render4 sub

def matches4S (s : Shape4) (base p a : Nat) : Bool :=
  (expand4S s base p).any (fun pat => glob pat (render4 a))

/-- the constants of the IPv6 branch -/
structure Shape6 where
  alignSub : Nat
  alignMod : Nat
  alignWrap : Nat
  wildcard : Str
deriving Repr, DecidableEq

def Shape6.std : Shape6 := ⟨4, 4, 4, ['*']⟩

def expand6By (s : Shape6) (base p : Nat) : List Str :=
  let diff := (s.alignSub - p % s.alignMod) % s.alignWrap
  let p' := p + diff
  (List.range (2 ^ diff)).map fun k =>
    let sub := base + k * 2 ^ (128 - p')
    let first := render6 sub
    let last := render6 (sub + 2 ^ (128 - p') - 1)
    match firstDiff first last 0 with
    | some i => first.take i ++ s.wildcard
    | none => first

end SigmaVerif.Cidr
