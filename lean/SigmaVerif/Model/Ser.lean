import SigmaVerif.Spec.Rule
/-!
# Model of the serialisation of the detection section (C06)

Modelled, as coded (anchors in `sigma/rule/detection.py` unless noted):

* `SigmaDetectionItem.from_mapping` (`fromMapping`): the key is split on `|`, an empty field name
  means a keyword item, modifier identifiers are looked up (`modifier_mapping`; the *classes* are kept,
  here: the identifier `reverse_modifier_mapping` gives back, `canon`), a plain value becomes a one
  element list, values are typed by `sigma_type` / `SigmaString.from_str` under `re`
  (`Rule.pvToVal`), `original_value` keeps the typed values, the modifier chain produces `value`
  (`Mods.applyChainAux` — the specification of C03, reused as the model of `apply_modifiers`).
* `SigmaDetectionItem.to_plain` (`toPlainItem`): refusal when `original_value is None`
  (`disable_conversion_to_plain`), `len(original_value) != 1` ⇒ list else scalar, strings through
  `SigmaString.to_plain(regex = "re" ∈ modifiers)`, keyword item without modifiers ⇒ bare value,
  else `{field|mod|…: value}`; `to_plain` of the value types of `sigma/types.py` (`valToPlain`).
* `SigmaDetection.from_definition` / `to_plain` (`fromDef` / `toPlainDet`) including the type-set
  tests, the removal of `None`, the refusal of several AND-linked sub-detections, the OR-linked
  list-of-maps branch and the key-merging loop (`mergeKV`) with its `|all` rules.
* `SigmaDetections.from_dict` / `to_dict` (`loadDoc` / `serDoc`): condition scalar-or-list.
* what the transformations of `sigma/processing/transformations/base.py` do to an item as far as
  serialisation is concerned (`disable`, `valueTouch`, `rename`, `split`).
* rule dates (`sigma/rule/base.py` `get_rule_as_date`, `to_dict`): `parseDate`, `printDate`.

Not modelled (trusted / covered by the correspondence sweep only): the remaining metadata fields
(copied verbatim by `to_dict`), correlation rules and filters beyond their detection section, YAML.
Numbers are opaque canonical renderings (`PV.num`), as in `Spec/Rule.lean`.
No Mathlib.
-/
namespace SigmaVerif.Ser
open SigmaVerif.SStr SigmaVerif.Mods
open SigmaVerif.Rule (PV splitOn pvToVal)

deriving instance DecidableEq for Rule.PV

/-- a value of a detection map: plain scalar or list of scalars -/
inductive PVals
  | one (v : PV)
  | many (vs : List PV)
deriving DecidableEq, Repr

def PVals.toList : PVals → List PV
  | .one v => [v]
  | .many vs => vs

/-- plain (dict / YAML) form of a detection definition -/
inductive PDef
  | val (v : PV)
  | map (kvs : List (Str × PVals))
  | list (es : List PDef)
deriving Repr

mutual
def PDef.beq : PDef → PDef → Bool
  | .val a, .val b => a == b
  | .map a, .map b => a == b
  | .list a, .list b => PDef.beqL a b
  | _, _ => false
def PDef.beqL : List PDef → List PDef → Bool
  | [], [] => true
  | a :: as, b :: bs => PDef.beq a b && PDef.beqL as bs
  | _, _ => false
end

inductive Err
  | modifier      -- SigmaModifierError: unknown modifier
  | type          -- SigmaTypeError from the modifier chain
  | value         -- SigmaValueError & friends from the modifier chain
  | refused       -- SigmaValueError of to_plain: flag set / value type without plain form / mixed / unmergeable
  | empty         -- SigmaDetectionError: empty detection (at load or after conversion to plain)
  | condition     -- SigmaConditionError: no condition
  | junk          -- to_plain hands out an object that is no plain value (`SigmaTimestampPart`): no error in the code
deriving DecidableEq, Repr

def Err.ofM : MErr → Err
  | .type _ => .type
  | .value _ => .value
  | .unknown _ => .modifier

/-- `SigmaDetectionItem`; `mods` are the identifiers of the modifier *classes*;
`orig = none` ⇔ `disable_conversion_to_plain()` was called -/
structure Item where
  field : Option Str
  mods : List Str
  value : List Val
  linkAnd : Bool
  negated : Bool
  orig : Option (List Val)

/-- `reverse_modifier_mapping[modifier_mapping[id].__name__]`: the identifier a modifier class is
written with (the later of two aliases in `modifier_mapping` wins) -/
def canon (m : Str) : Str :=
  if m = "i".toList then "ignorecase".toList
  else if m = "m".toList then "multiline".toList
  else if m = "dotall".toList then "s".toList
  else m

def known (m : Str) : Bool :=
  valueModifiers.contains (String.ofList m) || listModifiers.contains (String.ofList m)

/-- `SigmaRegularExpressionModifier in modifiers` -/
def isRaw (mods : List Str) : Bool := (mods.map String.ofList).contains "re"

/-- first error wins (Python evaluates list comprehensions left to right) -/
def mapE {α β : Type} (f : α → Except Err β) : List α → Except Err (List β)
  | [] => .ok []
  | a :: as =>
    match f a with
    | .error e => .error e
    | .ok b =>
      match mapE f as with
      | .error e => .error e
      | .ok bs => .ok (b :: bs)

/-- `SigmaDetectionItem.from_mapping(key, val)`; `from_value(val)` is the key `""` -/
def fromMapping (env : Env) (k : Str) (v : PVals) : Except Err Item :=
  let parts := splitOn '|' k
  let f := parts.headD []
  let field : Option Str := if f.isEmpty then none else some f
  let ids := parts.drop 1
  if ids.all known then
    let mods := ids.map canon
    let raw := isRaw mods
    let orig := v.toList.map (pvToVal raw)
    match applyChainAux env true (mods.map String.ofList) { hasField := field.isSome, vals := orig } with
    | .ok r => .ok { field := field, mods := mods, value := r.vals, linkAnd := r.linkAnd,
                     negated := r.negated, orig := some orig }
    | .error e => .error (Err.ofM e)
  else .error .modifier

/-- `to_plain()` of the value types; `raw` = `SigmaString.to_plain(regex=True)` -/
def valToPlain (raw : Bool) : Val → Except Err PV
  | .str _ s => .ok (.str (if raw then litChars s else toPlain s))
  | .num n => .ok (.num n)
  | .bool b => .ok (.bool b)
  | .null => .ok .null
  | .re src _ _ _ => .ok (.str src)
  | .exists_ b => .ok (.bool b)
  | .tspart _ _ => .error .junk
  | .cidr _ => .error .refused
  | .cmp _ _ => .error .refused
  | .fieldref _ _ _ => .error .refused
  | .expansion _ => .error .refused

/-- `"|".join` -/
def joinBar : List Str → Str
  | [] => []
  | [a] => a
  | a :: b :: r => a ++ '|' :: joinBar (b :: r)

def emitKey (field : Option Str) (mods : List Str) : Str := joinBar (field.getD [] :: mods)

/-- what `SigmaDetectionItem.to_plain` returns -/
inductive IPlain
  | bare (v : PVals)
  | keyed (k : Str) (v : PVals)
deriving DecidableEq, Repr

/-- `len(original_value) != 1` ⇒ the list, else its only element -/
def collapse (pvs : List PV) : PVals :=
  match pvs with
  | [x] => .one x
  | _ => .many pvs

def toPlainItem (it : Item) : Except Err IPlain :=
  match it.orig with
  | none => .error .refused
  | some orig =>
    match mapE (valToPlain (isRaw it.mods)) orig with
    | .error e => .error e
    | .ok pvs =>
      if it.field.isNone && it.mods.isEmpty then .ok (.bare (collapse pvs))
      else .ok (.keyed (emitKey it.field it.mods) (collapse pvs))

def IPlain.toPDef : IPlain → PDef
  | .bare (.one v) => .val v
  | .bare (.many vs) => .list (vs.map .val)
  | .keyed k v => .map [(k, v)]

/-- loading the plain form of an item again -/
def fromIPlain (env : Env) : IPlain → Except Err Item
  | .bare v => fromMapping env [] v
  | .keyed k v => fromMapping env k v

/-! ## detections -/

/-- `SigmaDetection` (node) over `SigmaDetectionItem`s (leaves); `linkOr` = `item_linking is ConditionOR` -/
inductive Det
  | item (i : Item)
  | node (cs : List Det) (linkOr : Bool)

def PDef.isVal : PDef → Bool | .val _ => true | _ => false
def PDef.isMap : PDef → Bool | .map _ => true | _ => false
def PDef.getVals : List PDef → List PV
  | [] => []
  | .val v :: r => v :: getVals r
  | _ :: r => getVals r

mutual
/-- `SigmaDetection.from_definition` -/
def fromDef (env : Env) : PDef → Except Err Det
  | .val v =>
    match fromMapping env [] (.one v) with
    | .ok i => .ok (.node [.item i] false)
    | .error e => .error e
  | .map kvs =>
    match mapE (fun kv => fromMapping env kv.1 kv.2) kvs with
    | .error e => .error e
    | .ok [] => .error .empty
    | .ok is => .ok (.node (is.map .item) false)
  | .list es =>
    if es.all PDef.isVal then
      match fromMapping env [] (.many (PDef.getVals es)) with
      | .ok i => .ok (.node [.item i] false)
      | .error e => .error e
    else
      match fromDefs env es with
      | .ok ds => .ok (.node ds true)
      | .error e => .error e
def fromDefs (env : Env) : List PDef → Except Err (List Det)
  | [] => .ok []
  | e :: es =>
    match fromDef env e with
    | .error x => .error x
    | .ok d =>
      match fromDefs env es with
      | .error x => .error x
      | .ok ds => .ok (d :: ds)
end

def Det.isItem : Det → Bool | .item _ => true | _ => false

abbrev Dict := List (Str × PVals)

def Dict.get? (d : Dict) (k : Str) : Option PVals := (d.find? (fun p => p.1 == k)).map (·.2)
def Dict.set (d : Dict) (k : Str) (v : PVals) : Dict :=
  if d.any (fun p => p.1 == k) then d.map (fun p => if p.1 == k then (k, v) else p) else d ++ [(k, v)]
def Dict.del (d : Dict) (k : Str) : Dict := d.filter (fun p => p.1 != k)

/-- `needle in hay` for strings -/
def hasInfix (needle : Str) : Str → Bool
  | [] => needle.isEmpty
  | c :: r => needle.isPrefixOf (c :: r) || hasInfix needle r

def allSuffix : Str := "|all".toList
def neqName : Str := "neq".toList

/-- value normalisation of the merge loop: a one element list is its element -/
def norm1 : PVals → PVals
  | .many [x] => .one x
  | v => v

/-- one step of the key-merging loop of `SigmaDetection.to_plain` -/
def mergeKV (md : Dict) (k : Str) (v : PVals) : Except Err Dict :=
  match md.get? k with
  | none => .ok (md ++ [(k, v)])
  | some ev =>
    -- `"neq" in k.split("|")[1:]`: fusing negated items would read as NOT (a AND b)
    if ((splitOn '|' k).drop 1).contains neqName then .error .refused
    else if hasInfix allSuffix k then .ok (md.set k (.many (ev.toList ++ v.toList)))
    else
      match norm1 ev, norm1 v with
      | .one a, .one b =>
        let ak := k ++ allSuffix
        let md' : Dict := match md.get? ak with
          | some mak => md.set ak (.many (mak.toList ++ [a, b]))
          | none => md ++ [(ak, .many [a, b])]
        .ok (md'.del k)
      | _, _ => .error .refused

def mergeDict (md : Dict) : Dict → Except Err Dict
  | [] => .ok md
  | (k, v) :: r =>
    match mergeKV md k v with
    | .error e => .error e
    | .ok md' => mergeDict md' r

/-- the outer loop over the converted items (each a map) -/
def mergeAll (md : Dict) : List PDef → Except Err Dict
  | [] => .ok md
  | .map kvs :: r =>
    match mergeDict md kvs with
    | .error e => .error e
    | .ok md' => mergeAll md' r
  | _ :: r => mergeAll md r

/-- "only lists and plain values, merge them into one list" -/
def flattenVals : List PDef → List PDef
  | [] => []
  | .list es :: r => es ++ flattenVals r
  | p :: r => p :: flattenVals r

def isNone : PDef → Bool | .val .null => true | _ => false

/-- the part of `SigmaDetection.to_plain` after the children have been converted and `None`
results removed; `hasDet` = the children are detections -/
def combine (hasDet linkOr : Bool) (ps : List PDef) : Except Err PDef :=
  if hasDet then
    -- several AND-linked sub-detections cannot be written: a list reads back OR-linked
    (if !linkOr && decide (1 < ps.length) then .error .refused else .ok (.list ps))
  else
    match ps with
    | [] => .error .empty
    | [p] => .ok p
    | _ =>
      if linkOr && ps.all PDef.isMap then .ok (.list ps)
      else if ps.any PDef.isMap && !ps.all PDef.isMap then .error .refused
      else if ps.all PDef.isMap then
        match mergeAll [] ps with
        | .ok md => .ok (.map (md.map (fun p => (p.1, norm1 p.2))))
        | .error e => .error e
      else .ok (.list (flattenVals ps))

mutual
/-- `SigmaDetectionItem.to_plain` (leaf) / `SigmaDetection.to_plain` (node) -/
def toPlainDet : Det → Except Err PDef
  | .item i =>
    match toPlainItem i with
    | .ok p => .ok p.toPDef
    | .error e => .error e
  | .node cs linkOr =>
    if cs.any Det.isItem && cs.any (fun c => !c.isItem) then .error .refused
    else
      match toPlainDets cs with
      | .error e => .error e
      | .ok ps => combine (cs.any (fun c => !c.isItem)) linkOr (ps.filter (fun p => !isNone p))
def toPlainDets : List Det → Except Err (List PDef)
  | [] => .ok []
  | c :: cs =>
    match toPlainDet c with
    | .error e => .error e
    | .ok p =>
      match toPlainDets cs with
      | .error e => .error e
      | .ok ps => .ok (p :: ps)
end

/-! ## the detection section -/

inductive PCond
  | missing
  | one (c : Str)
  | many (cs : List Str)
deriving DecidableEq, Repr

structure PDoc where
  dets : List (Str × PDef)
  cond : PCond

structure Detections where
  dets : List (Str × Det)
  conds : List Str

def mapNamed {α β : Type} (f : α → Except Err β) : List (Str × α) → Except Err (List (Str × β))
  | [] => .ok []
  | (n, a) :: r =>
    match f a with
    | .error e => .error e
    | .ok b =>
      match mapNamed f r with
      | .error e => .error e
      | .ok bs => .ok ((n, b) :: bs)

/-- `SigmaDetections.from_dict` + `__post_init__` -/
def loadDoc (env : Env) (p : PDoc) : Except Err Detections :=
  match p.cond with
  | .missing => .error .condition
  | c =>
    let conds := match c with | .one x => [x] | .many xs => xs | .missing => []
    match mapNamed (fromDef env) p.dets with
    | .error e => .error e
    | .ok ds =>
      if ds.isEmpty then .error .empty
      else if conds.isEmpty then .error .condition
      else .ok { dets := ds, conds := conds }

/-- `SigmaDetections.to_dict` -/
def serDoc (d : Detections) : Except Err PDoc :=
  match mapNamed toPlainDet d.dets with
  | .error e => .error e
  | .ok ps =>
    match d.conds with
    | [] => .error .condition          -- `conditions[0]` on an empty list (unreachable after `loadDoc`)
    | [c] => .ok { dets := ps, cond := .one c }
    | cs => .ok { dets := ps, cond := .many cs }

/-! ## what a transformation does to an item, as far as serialisation is concerned

* `disable`: `DetectionItemTransformation.apply_detection` (every transformation that returns a
  detection item: `r.disable_conversion_to_plain()`), `FieldMappingTransformationBase.apply_detection`
  when the value list was replaced (keyword → field mapping, mapped field references).
* `valueTouch`: `ValueTransformation.apply_detection`: the item is disabled if it has modifiers or
  if some new value is not *exactly* a `SigmaString` / `SigmaNumber` / `SigmaBool` / `SigmaNull`
  (`plainType`); otherwise `original_value` is set to the new values (`resync`).
* `rename`: one-to-one field mapping / prefix / suffix (`detection_item.field = mapping`, value
  list untouched ⇒ nothing else changes).
* `split`: one-to-many field mapping (`FieldMappingTransformationBase.apply_detection_item`): one copy
  of the item per target inside an OR-linked `SigmaDetection`; a copy keeps the source item's
  `original_value`, or is disabled when the source was, when field references in the values were
  mapped (`replaced`) or when the source was a keyword item (wildcards were added). -/

def disable (vs : List Val) (it : Item) : Item := { it with value := vs, orig := none }
def resync (vs : List Val) (it : Item) : Item := { it with value := vs, orig := some vs }
def rename (f : Str) (it : Item) : Item := { it with field := some f }

/-- `type(v) in (SigmaString, SigmaNumber, SigmaBool, SigmaNull)` (exact types: neither
`SigmaCasedString` nor `SigmaTimestampPart`) -/
def plainType : Val → Bool
  | .str false _ => true
  | .num _ => true
  | .bool _ => true
  | .null => true
  | _ => false

def valueTouch (vs : List Val) (it : Item) : Item :=
  if it.mods.isEmpty && vs.all plainType then resync vs it else disable vs it

def splitCopy (replaced : Bool) (vs : List Val) (it : Item) (f : Str) : Item :=
  { it with field := some f, value := vs,
            orig := if replaced || it.field.isNone then none else it.orig }

def split (fs : List Str) (replaced : Bool) (vs : List Val) (it : Item) : Det :=
  .node (fs.map fun f => .item (splitCopy replaced vs it f)) true

/-! ## dates (`get_rule_as_date`, `date.isoformat()`) -/

structure Date where
  y : Nat
  m : Nat
  d : Nat
deriving DecidableEq, Repr

def isLeap (y : Nat) : Bool := y % 4 == 0 && (y % 100 != 0 || y % 400 == 0)

def daysIn (y m : Nat) : Nat :=
  if m == 2 then (if isLeap y then 29 else 28)
  else if m == 4 || m == 6 || m == 9 || m == 11 then 30
  else if 1 ≤ m && m ≤ 12 then 31 else 0

/-- what `datetime.date(y, m, d)` accepts -/
def Date.valid (t : Date) : Bool :=
  1 ≤ t.y && t.y ≤ 9999 && 1 ≤ t.m && t.m ≤ 12 && 1 ≤ t.d && t.d ≤ daysIn t.y t.m

def dval : Char → Option Nat
  | '0' => some 0 | '1' => some 1 | '2' => some 2 | '3' => some 3 | '4' => some 4
  | '5' => some 5 | '6' => some 6 | '7' => some 7 | '8' => some 8 | '9' => some 9
  | _ => none

def dch : Nat → Char
  | 0 => '0' | 1 => '1' | 2 => '2' | 3 => '3' | 4 => '4'
  | 5 => '5' | 6 => '6' | 7 => '7' | 8 => '8' | _ => '9'

/-- `[lo-hi]` character class on a digit -/
def dIn (lo hi : Nat) (c : Char) : Option Nat :=
  match dval c with
  | some n => if lo ≤ n && n ≤ hi then some n else none
  | none => none

def year4 (a b c d : Char) : Option Nat :=
  match dIn 1 3 a, dval b, dval c, dval d with
  | some a, some b, some c, some d => some (a * 1000 + b * 100 + c * 10 + d)
  | _, _, _, _ => none

def two (lo hi : Nat) (a b : Char) : Option Nat :=
  match dIn lo hi a, dval b with
  | some a, some b => some (a * 10 + b)
  | _, _ => none

def mkDate (y m d : Option Nat) : Option Date :=
  match y, m, d with
  | some y, some m, some d => if (Date.mk y m d).valid then some ⟨y, m, d⟩ else none
  | _, _, _ => none

/-- the two accepted spellings: `([1-3][0-9]{3})-([01][0-9])-([0-3][0-9])` and
`([1-3][0-9]{3})/([01]?[0-9])/([0-3]?[0-9])` (full match), then `date(…)` -/
def parseDate (s : Str) : Option Date :=
  match s with
  | [a, b, c, d, '-', e, f, '-', g, h] => mkDate (year4 a b c d) (two 0 1 e f) (two 0 3 g h)
  | [a, b, c, d, '/', e, f, '/', g, h] => mkDate (year4 a b c d) (two 0 1 e f) (two 0 3 g h)
  | [a, b, c, d, '/', e, f, '/', h] => mkDate (year4 a b c d) (two 0 1 e f) (dval h)
  | [a, b, c, d, '/', f, '/', g, h] => mkDate (year4 a b c d) (dval f) (two 0 3 g h)
  | [a, b, c, d, '/', f, '/', h] => mkDate (year4 a b c d) (dval f) (dval h)
  | _ => none

def year4s (y : Nat) : Str := [dch (y / 1000), dch (y / 100 % 10), dch (y / 10 % 10), dch (y % 10)]
def two2s (n : Nat) : Str := [dch (n / 10), dch (n % 10)]
/-- shortest decimal spelling of a number below 100 -/
def shorts (n : Nat) : Str := if n < 10 then [dch n] else two2s n

/-- `date.isoformat()` -/
def printDate (t : Date) : Str := year4s t.y ++ '-' :: two2s t.m ++ '-' :: two2s t.d

/-- the `/` spellings: month and day each zero-padded or not -/
def printSlash (padM padD : Bool) (t : Date) : Str :=
  year4s t.y ++ '/' :: (if padM then two2s t.m else shorts t.m) ++ '/' :: (if padD then two2s t.d else shorts t.d)

end SigmaVerif.Ser
