/-!
# Model of `SigmaString` (`sigma/types.py`) and of the string / field rendering of
`TextQueryBackend` (`sigma/conversion/base.py`)

A Sigma string is modelled character-granular (`SStr = List Part`); the implementation keeps
maximal runs of plain characters in one Python `str` segment, which no property can observe.
No imports.
-/
namespace SigmaVerif.SStr

abbrev Str := List Char

inductive Part
  | lit (c : Char)
  | star                 -- SpecialChars.WILDCARD_MULTI
  | qm                   -- SpecialChars.WILDCARD_SINGLE
  | ph (name : Str)      -- Placeholder
deriving Repr, DecidableEq

abbrev SStr := List Part

/-- `SigmaString.__init__`: the escape state machine.  `esc` = the `escape` argument. -/
def parseAux (esc : Bool) : Bool → Str → SStr
  | escaped, [] => if escaped then [.lit '\\'] else []
  | true, c :: s =>
      if c == '*' || c == '?' || c == '\\' then .lit c :: parseAux esc false s
      else .lit '\\' :: .lit c :: parseAux esc false s
  | false, c :: s =>
      if c == '\\' && esc then parseAux esc true s
      else if c == '*' then .star :: parseAux esc false s
      else if c == '?' then .qm :: parseAux esc false s
      else .lit c :: parseAux esc false s

def parse (s : Str) : SStr := parseAux true false s

/-- `SigmaString.to_plain()` -/
def toPlain : SStr → Str
  | [] => []
  | .lit c :: r => (if c == '*' || c == '?' then ['\\', c] else [c]) ++ toPlain r
  | .star :: r => '*' :: toPlain r
  | .qm :: r => '?' :: toPlain r
  | .ph n :: r => '%' :: n ++ '%' :: toPlain r

/-- `ReplaceStringTransformation.apply_string_value`, plain-form mode
(`sigma/processing/transformations/values.py`), after the substitution: every backslash of the
plain text that does not stand in front of `*` or `?` is doubled (`re.sub(r"\\(?![*?])", …)`) -/
def reescape : Str → Str
  | [] => []
  | c :: r =>
    if c == '\\' && !(r.head? == some '*' || r.head? == some '?') then '\\' :: '\\' :: reescape r
    else c :: reescape r

/-- the value a `replace_string` item (plain-form mode) hands back when its expression matches
nothing: the plain form, re-escaped and parsed again (values without placeholders) -/
def replaceIdentity (s : SStr) : SStr := parse (reescape (toPlain s))

inductive Err
  | noMulti | noSingle | placeholder (name : Str)
deriving Repr, DecidableEq

/-- arguments of `SigmaString.convert` -/
structure Conv where
  esc : Option Str          -- escape_char (None = no escaping)
  multi : Option Str        -- wildcard_multi
  single : Option Str       -- wildcard_single
  addEscaped : Str          -- add_escaped
  filter : Str              -- filter_chars
deriving Repr, DecidableEq

def Conv.escapedSet (k : Conv) : List Char :=
  k.multi.getD [] ++ k.single.getD [] ++ k.addEscaped

/-- `SigmaString.convert` -/
def convert (k : Conv) : SStr → Except Err Str
  | [] => .ok []
  | .lit c :: r =>
      match convert k r with
      | .error e => .error e
      | .ok t =>
        if k.filter.contains c then .ok t
        else if k.escapedSet.contains c then .ok (k.esc.getD [] ++ c :: t)
        else .ok (c :: t)
  | .star :: r =>
      match k.multi, convert k r with
      | none, _ => .error .noMulti
      | _, .error e => .error e
      | some m, .ok t => .ok (m ++ t)
  | .qm :: r =>
      match k.single, convert k r with
      | none, _ => .error .noSingle
      | _, .error e => .error e
      | some m, .ok t => .ok (m ++ t)
  | .ph n :: _ => .error (.placeholder n)

/-- `SigmaString.to_regex(custom_escaped)` (the text of the regular expression) -/
def regexConv (custom : Str) : Conv :=
  { esc := some ['\\'], multi := some ['.', '*'], single := some ['.'],
    addEscaped := ".*+?^$[](){}\\|".toList ++ custom, filter := [] }

def toRegex (custom : Str) (s : SStr) : Except Err Str := convert (regexConv custom) s

/-- string rendering knobs of `TextQueryBackend.convert_value_str` -/
structure StrCfg where
  quote : Str               -- str_quote ("" = never quote)
  esc : Option Str          -- escape_char
  multi : Option Str
  single : Option Str
  addEscaped : Str
  filter : Str
deriving Repr, DecidableEq

def StrCfg.conv (c : StrCfg) : Conv :=
  { esc := c.esc, multi := c.multi, single := c.single,
    addEscaped := c.quote ++ c.addEscaped, filter := c.filter }

/-- `convert_value_str`; `quoted` is the outcome of `decide_string_quoting` (a regular-expression
test on the plain form that the model takes as a parameter) -/
def convertValueStr (c : StrCfg) (quoted : Bool) (s : SStr) : Except Err Str :=
  match convert c.conv s with
  | .error e => .error e
  | .ok t => .ok (if quoted then c.quote ++ t ++ c.quote else t)

/-! ## `__getitem__` for the three slices the converter uses -/

def dropLast1 : SStr → SStr := List.dropLast      -- s[:-1]
def drop1 : SStr → SStr := List.tail              -- s[1:]
def mid : SStr → SStr := fun s => (s.tail).dropLast  -- s[1:-1]

def containsSpecial (s : SStr) : Bool := s.any (fun p => p == .star || p == .qm)
def startsWithStar (s : SStr) : Bool := s.head? == some .star
def endsWithStar (s : SStr) : Bool := s.getLast? == some .star

/-! ## Field names (`escape_and_quote_field`)

`field_escape_pattern` and `field_quote_pattern` are user regular expressions; the model covers
the common shape "a set of characters to escape" and takes the quoting decision as a parameter. -/
structure FieldCfg where
  escape : Option Str       -- field_escape
  escapeChars : List Char   -- characters matched by field_escape_pattern (single-character class)
  escapeQuote : Bool        -- field_escape_quote
  quote : Option Str        -- field_quote (single character in all known backends)
deriving Repr, DecidableEq

def escapeField (c : FieldCfg) (f : Str) : Str :=
  match c.escape with
  | none => f
  | some e =>
    f.flatMap fun ch =>
      if c.escapeChars.contains ch || (c.escapeQuote && c.quote == some [ch]) then e ++ [ch] else [ch]

def escapeAndQuoteField (c : FieldCfg) (quoted : Bool) (f : Str) : Str :=
  let e := escapeField c f
  match c.quote with
  | some q => if quoted then q ++ e ++ q else e
  | none => e

end SigmaVerif.SStr
