import SigmaVerif.Model.Load
/-!
# C07 — the domain on which the loader model claims to agree with the implementation

`inDomain k d = false` marks documents whose outcome depends on behaviour `Model/Load.lean`
abstracts; the harness reports them as unjudged for drift.  The theorems of `Props/C07.lean` do
not assume `inDomain`.
-/
namespace SigmaVerif.Load

def isAsciiStr (s : Str) : Bool := s.all (fun c => c.toNat < 128) && s.length ≤ 4000

/-- a map key the model handles: string, integer or null -/
def keyOk : Y → Bool
  | .str s => isAsciiStr s
  | .int i => -9223372036854775808 ≤ i && i ≤ 9223372036854775807
  | .null => true
  | _ => false

def noDupKeys : List Y → Bool
  | [] => true
  | k :: ks => !ks.any (keyEq k) && noDupKeys ks

/-- a regular expression that certainly compiles: letters, digits, blanks, `-`, `_`, and `+`
directly after a letter or digit -/
def safeRegexAux : Bool → Str → Bool
  | _, [] => true
  | prevAtom, c :: cs =>
    if c.isAlphanum then safeRegexAux true cs
    else if c == ' ' || c == '-' || c == '_' then safeRegexAux false cs
    else if c == '+' then prevAtom && safeRegexAux false cs
    else false
def safeRegex (s : Str) : Bool := safeRegexAux false s

/-- is the modifier chain of a detection item key modelled for these values -/
def chainOk (key : Str) (v : Y) : Bool :=
  match (splitOn '|' key).tail with
  | [] => true
  | [m] =>
    if !knownModifiers.contains m then true
    else if m == S "re" then
      (match v with
       | .str s => safeRegex s
       | .list l => l.all (fun x => match x with | .str s => safeRegex s | _ => true)
       | _ => true)
    else stringModifiers.contains m
  | ms => ms.any (fun m => !knownModifiers.contains m)

mutual
/-- ASCII strings of bounded length, 64-bit integers, supported keys without duplicates, modelled
modifier chains — everywhere in the value -/
def valueOk : Y → Bool
  | .null => true
  | .bool _ => true
  | .int i => -9223372036854775808 ≤ i && i ≤ 9223372036854775807
  | .float r => isAsciiStr r
  | .str s => isAsciiStr s
  | .list l => valuesOk l
  | .map m => noDupKeys (m.map (·.1)) && entriesOk m
def valuesOk : List Y → Bool
  | [] => true
  | x :: xs => valueOk x && valuesOk xs
def entriesOk : List (Y × Y) → Bool
  | [] => true
  | (k, v) :: rest =>
      keyOk k && (match k with | .str s => chainOk s v | _ => true) && valueOk v && entriesOk rest
end

/-- is the verdict of `UUID(s)` modelled: wrong length, all hex digits, or a character `int(…, 16)`
rejects for certain -/
def uuidDecided (v : Y) : Bool :=
  match v with
  | .str s =>
    let h := uuidHex s
    h.length != 32 || h.all isHexDigit ||
      h.any (fun c => !(isHexDigit c || c == '_' || c == '+' || c == 'x' || c == 'X' || isPySpace c))
  | _ => true

def relatedIdsDecided (v : Y) : Bool :=
  match v with
  | .list l => l.all (fun x => match x with | .map m => uuidDecided (dget m (S "id")) | _ => true)
  | _ => true

/-- nesting pyparsing handles without reaching Python's recursion limit (a parenthesis costs about
50 frames, a `not` about 10): at most 8 parentheses / 40 `not`s -/
def nestingOk (v : Y) : Bool :=
  match v with
  | .str s =>
    (match tokenize [] s with
     | some ts => 5 * (ts.filter (· == .lp)).length + (ts.filter (· == .word (S "not"))).length ≤ 40
     | none => true)
  | _ => true

def docOk (d : Y) : Bool :=
  valueOk d &&
  match d with
  | .map m =>
      uuidDecided (dget m (S "id")) && relatedIdsDecided (dget m (S "related")) &&
      (match dget m (S "correlation") with
       | .map cm => nestingOk (dget cm (S "condition"))
       | _ => true)
  | _ => true

mutual
/-- every string (a possible rule reference or identifier) has a modelled `UUID()` verdict -/
def stringsDecided : Y → Bool
  | .str s => uuidDecided (.str s)
  | .list l => stringsDecidedL l
  | .map m => stringsDecidedM m
  | _ => true
def stringsDecidedL : List Y → Bool
  | [] => true
  | x :: xs => stringsDecided x && stringsDecidedL xs
def stringsDecidedM : List (Y × Y) → Bool
  | [] => true
  | (k, v) :: rest => stringsDecided k && stringsDecided v && stringsDecidedM rest
end

def inDomain (k : Kind) (d : Y) : Bool :=
  match k with
  | .collection => valueOk d && (collDocs d).all docOk
  | .collectionRef => valueOk d && (collDocs d).all docOk && stringsDecided d
  | _ => docOk d

end SigmaVerif.Load
