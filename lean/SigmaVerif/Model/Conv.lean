/-!
# Model of the condition-tree → query conversion of `TextQueryBackend`
(`sigma/conversion/base.py`: `convert_condition`, `decide_convert_condition_as_in_expression`,
`compare_precedence`, `convert_condition_group/_or/_and/_not/_as_in_expression`,
`convert_condition_field_eq_expansion`, the CIDR expansion path)

The output is a *token list* — exactly the information content of the emitted text once the
literals are decoded (C05).  Atoms are opaque identities carrying the few facts the converter's
decisions depend on.  No imports.

Tied to the code on every run by the drift comparison of C01 (`conv.run`, Driver/ConvOps.lean and
harness/c01.py): `convert` is run on the condition tree the implementation built and must emit the
token skeleton of the real query, token by token.  Abstractions (normalised on the harness side,
listed in the harness' ASSUMPTIONS): which template spells an atom (only *whether it has a negated
twin that the not-equals context manager swaps in* is a fact of the atom: `negatable`); deferred
query expressions; the `TypeError → NotImplementedError` paths (a backend without group expression
or operator tokens).  `neg` is the *dynamic* extent of the not-equals context manager: it is entered
for a field/value item with a NOT ancestor and stays in force for the sub-conditions built from
that item (alternatives of an expanded value, patterns of a CIDR value).
-/
namespace SigmaVerif.Conv

inductive Op | not | and | or
deriving DecidableEq, Repr

/-- what the converter looks at in a `field = value` / value-only expression -/
structure AtomInfo where
  field : Option Nat      -- field identity; `none` = value without field (never in-list eligible)
  inOk : Bool             -- value is a (non-cased) string or a number
  special : Bool          -- string value containing wildcards
  negatable : Bool        -- rendered through an expression that has a negated twin (string, regex, CIDR)
deriving Repr, DecidableEq

/-- condition tree after post-processing -/
inductive CT
  | atom (a : Nat) (i : AtomInfo)
  | exp (as : List (Nat × AtomInfo))       -- SigmaExpansion value: OR of alternatives, never in-list
  | cidr (as : List (Nat × AtomInfo))      -- CIDR value without native expression: OR of patterns via `convert_condition`
  | nex (a : Nat) (i : AtomInfo)           -- `field|exists: false` in a backend without a not-exists expression: rendered from
                                           -- inside the atom conversion as NOT over the exists-atom `a` (`convert_condition_field_eq_val_exists`)
  | not (c : CT)
  | and (cs : List CT)
  | or (cs : List CT)
  | none                                   -- a vanished operand (`None`)
deriving Repr

inductive QTok
  | lp | rp | tnot | tand | tor
  | atom (a : Nat)
  | natom (a : Nat)                        -- atom rendered through the negated twin expression (not-equals mode)
  | inList (isOr : Bool) (as : List Nat)   -- `field in (v1, …)` / `field contains-all (v1, …)`
deriving Repr, DecidableEq

structure Cfg where
  prec : List Op            -- the `precedence` tuple: index 0 binds tightest
  parenthesize : Bool
  orAsIn : Bool
  andAsIn : Bool
  inAllowWild : Bool
  notAsNotEq : Bool
deriving Repr, DecidableEq

def defaultPrec : List Op := [.not, .and, .or]

def idxOf (p : List Op) (o : Op) : Option Nat := p.idxOf? o

/-- `_cidr_converts_to_or` -/
def cidrAsOr (k : Cfg) : Bool := !(k.orAsIn && k.inAllowWild)

def CT.isAtomLike : CT → Bool
  | .atom _ _ => true | .exp _ => true | .cidr _ => true | .nex _ _ => true | _ => false

/-- class index of the inner node as `compare_precedence` computes it (-1 ↦ `none`) -/
def innerIdx (k : Cfg) : CT → Option Nat
  | .atom _ _ => none
  | .exp _ => idxOf k.prec .or
  | .cidr _ => if cidrAsOr k then idxOf k.prec .or else none
  | .nex _ _ => idxOf k.prec .not      -- the special case of `compare_precedence` for negative existence tests
  | .not _ => idxOf k.prec .not
  | .and _ => idxOf k.prec .and
  | .or _ => idxOf k.prec .or
  | .none => none

/-- `compare_precedence(outer, inner)`: `true` = no grouping needed -/
def comparePrec (k : Cfg) (outer : Op) (inner : CT) : Bool :=
  if k.parenthesize && !inner.isAtomLike then false
  else
    match innerIdx k inner, idxOf k.prec outer with
    | none, _ => true                 -- idx_inner = -1
    | some i, some o => decide (i ≤ o)
    | some _, none => false           -- (ValueError in Python; excluded by `Cfg.wf`)

def group (q : Option (List QTok)) : Option (List QTok) :=
  q.map (fun t => QTok.lp :: t ++ [QTok.rp])

def joinWith (sep : QTok) : List (List QTok) → List QTok
  | [] => []
  | [x] => x
  | x :: xs => x ++ sep :: joinWith sep xs

/-- `decide_convert_condition_as_in_expression` -/
def decideIn (k : Cfg) (isOr : Bool) (args : List CT) : Bool :=
  (if isOr then k.orAsIn else k.andAsIn) &&
  args.all (fun c => match c with | .atom _ _ => true | _ => false) &&
  (match args with
   | .atom _ i :: _ =>
       i.field.isSome && args.all (fun c => match c with | .atom _ j => j.field == i.field | _ => false)
   | _ => false) &&
  args.all (fun c => match c with | .atom _ j => j.inOk | _ => false) &&
  (k.inAllowWild || args.all (fun c => match c with | .atom _ j => !j.special | _ => true))

def atomIds (args : List CT) : List Nat :=
  args.filterMap (fun c => match c with | .atom a _ => some a | _ => none)

def atomTok (k : Cfg) (neg : Bool) (a : Nat) (i : AtomInfo) : QTok :=
  if k.notAsNotEq && neg && i.negatable then .natom a else .atom a

/-- OR-linked alternatives of an expanded value: every alternative is an atom, so no grouping
decision arises inside (`convert_condition_or` on freshly built field/value expressions) -/
def altsOr (k : Cfg) (neg : Bool) (as : List (Nat × AtomInfo)) : Option (List QTok) :=
  match as with
  | [] => none
  | _ => some (joinWith .tor (as.map (fun p => [atomTok k neg p.1 p.2])))

mutual
/-- `convert_condition`; `neg` = some ancestor is a NOT (`is_parent_not`) -/
def convert (k : Cfg) (neg : Bool) : CT → Option (List QTok)
  | .atom a i => some [atomTok k neg a i]
  | .exp as => altsOr k neg as         -- the alternatives are converted inside the dynamic extent of the
                                      -- not-equals context manager entered for the expansion item itself
  | .cidr as =>
      let args := as.map (fun p => CT.atom p.1 p.2)
      if decideIn k true args then some [.inList true (atomIds args)] else altsOr k neg as
  | .nex a i =>
      -- `convert_condition_not(ConditionNOT([field exists]))`: the operand is a plain expression, so
      -- no grouping; its parent is the fresh NOT, hence `neg = true` for the exists-atom
      if k.notAsNotEq then some [atomTok k true a i] else some [.tnot, atomTok k true a i]
  | .not c =>
      match c with
      | .none => none
      | _ =>
        if (match c with | .and _ => true | .or _ => true | .not _ => true | .exp _ => true
                          | .cidr _ => cidrAsOr k | _ => false) then
          match group (convert k true c) with
          | none => none
          | some g => if k.notAsNotEq then some g else some (.tnot :: g)
        else
          match convert k true c with
          | none => none
          | some e => if k.notAsNotEq then some e else some (.tnot :: e)
  | .and cs =>
      if decideIn k false cs then some [.inList false (atomIds cs)]
      else
        match convertArgs k neg .and cs with
        | [] => none
        | xs => some (joinWith .tand xs)
  | .or cs =>
      if decideIn k true cs then some [.inList true (atomIds cs)]
      else
        match convertArgs k neg .or cs with
        | [] => none
        | xs => some (joinWith .tor xs)
  | .none => none
/-- arguments converted (grouped where `compare_precedence` says so), vanished ones dropped -/
def convertArgs (k : Cfg) (neg : Bool) (outer : Op) : List CT → List (List QTok)
  | [] => []
  | c :: cs =>
    let r := if comparePrec k outer c then convert k neg c else group (convert k neg c)
    match r with
    | some t => t :: convertArgs k neg outer cs
    | none => convertArgs k neg outer cs
end

/-- the three operators each occur exactly once in the precedence tuple -/
def Cfg.wf (k : Cfg) : Bool :=
  k.prec.length == 3 && k.prec.contains .not && k.prec.contains .and && k.prec.contains .or

end SigmaVerif.Conv
