/-!
# Model of the capability flow of pipeline loading (C16).  No imports.

What is modelled (source lines of the pinned tree):

* `ProcessingItemBase._instantiate_transformation` (pipeline.py l.307-359): the constructor parameters are the
  document's keys minus an exclusion set; *afterwards* the caller's `allow_template_vars` / `vars_allowed_paths`
  are written into the parameters of `TemplateBase` subclasses and the caller's `allow_external_sources` into those
  of `ExternalSourceBaseTransformation` subclasses (overwriting whatever the document said); `cls(**params)`
  with an unexpected / missing keyword is a `TypeError`, re-raised as `SigmaConfigurationError`.
* `ProcessingPipeline.from_dict` (l.789-887): unknown top-level keys are a configuration error; transformation
  items receive only `allow_external_sources`, post-processing items only the two template arguments; every
  pipeline-level finalizer dict has the three keys popped, template finalizers get the caller's two values
  assigned, `NestedFinalizer.from_dict` is called with the caller's two values.
* `NestedFinalizer.from_dict` (finalization.py l.112-144), `NestedProcessingTransformation.__post_init__`
  (meta.py: nested items are loaded with `ProcessingItem.from_dict(i)`, i.e. with *default* arguments) and
  `NestedQueryPostprocessingTransformation` (postprocessing.py: constructed directly by
  `_instantiate_transformation`, its `items` stay dicts and the nested `ProcessingPipeline` rejects them).
* `TemplateBase.__post_init__` / `_vars_execution_allowed` / `_load_vars_from_file` (templates.py l.48-120):
  the vars file is executed *while the object is constructed*; gate = stored flag or environment variable;
  containment = `realpath(vars).startswith(realpath(base) + os.sep) or realpath(vars) == realpath(base)`.
* `ExternalSourceBaseTransformation._external_sources_allowed` / `_get_values` (external.py l.89-127): gate at
  first use, then the effect of `_fetch_data` (command / file read / HTTP request).
* `ProcessingPipeline.from_yaml` (derives the allowed base directory from `source_path`) and
  `ProcessingPipelineResolver.resolve_pipeline` (passes `source_path` only).

Everything that the code *could* do differently without changing its shape is a PARAMETER (`Cfg`): the strip
sets, the keys overwritten per class family, which caller arguments each call forwards, the registries with the
constructor signatures, the accepted environment values, the form of the containment test.  The translator
regenerates `Cfg` from the live source (`Gen/Caps.lean`); the theorems are about every `Cfg` satisfying
decidable side conditions, which `Oblig/C16.lean` checks for the generated one.

Trusted / not modelled: values of non-capability keys are opaque (a constructor succeeds iff all keywords are
accepted and the required ones are present); only `ExternalSourceBaseTransformation` subclasses and the vars
file have external effects; the operating system (what `realpath` returns, what a command does) is a parameter
(`World`).  Paths, environment values and payloads are `List Char`; keys and type names are `String`.
-/
namespace SigmaVerif.Caps

abbrev Str := List Char

/-- a YAML value as far as capabilities care -/
inductive Val
  | bool (b : Bool)
  | null
  | str (s : Str)
  | strs (l : List Str)
  | other (truthy : Bool)
deriving DecidableEq, Repr, Inhabited

/-- Python truthiness -/
def Val.truthy : Val → Bool
  | .bool b => b
  | .null => false
  | .str s => !s.isEmpty
  | .strs l => !l.isEmpty
  | .other t => t

abbrev KV := List (String × Val)

/-- `d[k] = v` -/
def kvSet (kv : KV) (k : String) (v : Val) : KV := (k, v) :: kv.filter (fun e => e.1 != k)
/-- `{k: v for k, v in d.items() if k not in strip}` / `d.pop(k, None)` for every `k` of `strip` -/
def kvStrip (strip : List String) (kv : KV) : KV := kv.filter (fun e => !strip.contains e.1)

def kAtv : String := "allow_template_vars"
def kVap : String := "vars_allowed_paths"
def kAes : String := "allow_external_sources"
/-- the three opt-in keys -/
def optInKeys : List String := [kAtv, kVap, kAes]

/-- kinds of external placeholder sources -/
inductive Src | cmd | file | url | unknown
deriving DecidableEq, Repr, Inhabited

/-- a registered class: constructor keywords, required ones, class family, nesting -/
structure Cls where
  accepts : List String
  required : List String := []
  isTemplate : Bool := false
  isExt : Bool := false
  /-- effect of `_fetch_data` and the key holding its argument -/
  src : Option (Src × String) := none
  /-- holds child items (`items` / `finalizers`; that key is not listed in `accepts`) -/
  nest : Bool := false
deriving DecidableEq, Repr, Inhabited

abbrev Reg := List (String × Cls)

/-- one place where document keys become constructor parameters -/
structure Site where
  strip : List String
  /-- keys overwritten with the caller's value when the class is a `TemplateBase` -/
  injTmpl : List String
  /-- … when the class is an `ExternalSourceBaseTransformation` -/
  injExt : List String
deriving DecidableEq, Repr, Inhabited

/-- which of the caller's three arguments a call passes on (the others take their defaults) -/
structure Fwd where
  atv : Bool
  vap : Bool
  aes : Bool
deriving DecidableEq, Repr, Inhabited

structure Cfg where
  regT : Reg
  regPP : Reg
  regF : Reg
  /-- keys `ProcessingPipeline.from_dict` accepts at top level -/
  topAllowed : List String
  /-- `_instantiate_transformation` (transformation and post-processing items, nested or not) -/
  item : Site
  /-- the finalizer loop of `ProcessingPipeline.from_dict` -/
  finTop : Site
  /-- the loop of `NestedFinalizer.from_dict` (the finalizer loops have no assignment for external-source
  classes: the translator always emits `injExt := []` for the two finalizer sites) -/
  finNested : Site
  fwdT : Fwd          -- from_dict → ProcessingItem.from_dict → … → _instantiate_transformation
  fwdPP : Fwd         -- from_dict → QueryPostprocessingItem.from_dict → …
  fwdFin : Fwd        -- from_dict → its own finalizer loop (the values assigned there)
  fwdNestT : Fwd      -- NestedProcessingTransformation.__post_init__ → ProcessingItem.from_dict → …
  fwdNestPP : Fwd     -- NestedQueryPostprocessingTransformation.from_dict → … (only if not `nestPPDirect`)
  fwdTopNestF : Fwd   -- from_dict → NestedFinalizer.from_dict
  fwdNestF : Fwd      -- NestedFinalizer.from_dict → itself
  /-- nested post-processing is constructed with `cls(**params)`: dict children are rejected -/
  nestPPDirect : Bool
  /-- accepted values of the environment variables and whether the value is lower-cased first -/
  envAccepted : List Str
  envLower : Bool
  /-- the containment test appends the path separator to the base before `startswith` -/
  pathSep : Bool
  /-- … and has the `or vars_path == realpath(base)` clause -/
  pathEq : Bool
  /-- `from_yaml` derives the base directory from `source_path` when no bases are given -/
  derivesBase : Bool
deriving Repr, Inhabited

/-- the caller's explicit arguments -/
structure Caller where
  atv : Bool := false
  vap : Option (List Str) := none
  aes : Bool := false
  sourcePath : Option Str := none
deriving DecidableEq, Repr, Inhabited

/-- the caller as seen through a call that forwards only some arguments -/
def Caller.via (f : Fwd) (c : Caller) : Caller :=
  { atv := f.atv && c.atv, vap := if f.vap then c.vap else none, aes := f.aes && c.aes, sourcePath := c.sourcePath }

def vapVal : Option (List Str) → Val
  | none => .null
  | some l => .strs l

/-- the value the loader writes for an opt-in key -/
def Caller.val (c : Caller) (k : String) : Val :=
  if k == kAtv then .bool c.atv else if k == kVap then vapVal c.vap else if k == kAes then .bool c.aes else .null

/-- the process environment and the operating system, as far as the gates consult them -/
structure World where
  /-- `PYSIGMA_ALLOW_VARS_EXECUTION` -/
  envVars : Option Str := none
  /-- `PYSIGMA_ALLOW_EXTERNAL_SOURCES` -/
  envExt : Option Str := none
  realpath : Str → Str := id
  dirname : Str → Str := id
  /-- effects that are attempted and then end in an error (no network, missing file …) -/
  fails : Str → Bool := fun _ => false

inductive Event
  | cmd (c : Str)
  | read (p : Str)
  | fetch (u : Str)
  | exec (p : Str)
deriving DecidableEq, Repr, Inhabited

inductive Err
  | config     -- SigmaConfigurationError
  | security   -- SigmaSecurityError
  | value      -- SigmaValueError after an attempted effect failed
  | other      -- not from the Sigma hierarchy (C07's subject)
deriving DecidableEq, Repr, Inhabited

/-- a computation that emits effects and may stop with an error -/
structure Run (α : Type) where
  evs : List Event
  res : Except Err α

namespace Run
def ok (a : α) : Run α := ⟨[], .ok a⟩
def fail (e : Err) : Run α := ⟨[], .error e⟩
def emit (e : Event) : Run Unit := ⟨[e], .ok ()⟩
def bind (x : Run α) (f : α → Run β) : Run β :=
  match x.res with
  | .error e => ⟨x.evs, .error e⟩
  | .ok a => ⟨x.evs ++ (f a).evs, (f a).res⟩
/-- errors of class `config` stay `config` through the loaders' `except SigmaConfigurationError` wrappers -/
def isOk (x : Run α) : Bool := match x.res with | .ok _ => true | .error _ => false
end Run

/-- the document: a node = one item / finalizer dict -/
inductive Node
  | mk (ty : Option String) (kv : KV) (hasCh : Bool) (ch : List Node)
deriving Repr, Inhabited

/-- an instantiated object with the parameters stored on it -/
inductive Obj
  | mk (ty : String) (cls : Cls) (params : KV) (ch : List Obj)
deriving Repr, Inhabited

structure Doc where
  /-- all top-level keys -/
  keys : List String
  ts : List Node := []
  pps : List Node := []
  fs : List Node := []
deriving Repr, Inhabited

structure PObj where
  items : List Obj
  pps : List Obj
  fins : List Obj
deriving Repr, Inhabited

/-! ## gates -/

def lower (s : Str) : Str := s.map Char.toLower

/-- `os.environ.get(NAME, "").lower() in ("1", "true")` -/
def envOn (cfg : Cfg) : Option Str → Bool
  | none => cfg.envAccepted.contains (if cfg.envLower then lower [] else [])
  | some s => cfg.envAccepted.contains (if cfg.envLower then lower s else s)

/-- the containment test of `_load_vars_from_file` for one (already resolved) base -/
def contained (cfg : Cfg) (rb p : Str) : Bool :=
  (rb ++ (if cfg.pathSep then ['/'] else [])).isPrefixOf p || (cfg.pathEq && p == rb)

def pathOk (cfg : Cfg) (w : World) (bases : List Str) (p : Str) : Bool :=
  bases.any fun b => contained cfg (w.realpath b) p

def stored (params : KV) (k : String) (dflt : Val) : Val := (params.lookup k).getD dflt

/-- an external-source effect: attempted (event), then possibly failing -/
def effect (w : World) (ev : Event) (arg : Str) (e : Err) : Run Unit :=
  if w.fails arg then ⟨[ev], .error e⟩ else Run.emit ev

/-- executing the vars file; a file that cannot be read fails before anything runs -/
def execVars (w : World) (rp : Str) : Run Unit :=
  if w.fails rp then Run.fail .other else Run.emit (.exec rp)

/-- `_vars_execution_allowed` on an object with these parameters -/
def varsAllowed (cfg : Cfg) (w : World) (params : KV) : Bool :=
  (stored params kAtv (.bool false)).truthy || envOn cfg w.envVars

/-- `_external_sources_allowed` -/
def externalAllowed (cfg : Cfg) (w : World) (params : KV) : Bool :=
  (stored params kAes (.bool false)).truthy || envOn cfg w.envExt

/-- `TemplateBase.__post_init__` as far as `vars` is concerned -/
def tmplInit (cfg : Cfg) (w : World) (params : KV) : Run Unit :=
  match params.lookup "vars" with
  | none => Run.ok ()
  | some .null => Run.ok ()
  | some v =>
    if !varsAllowed cfg w params then Run.fail .security
    else match v with
      | .str p =>
        let rp := w.realpath p
        match stored params kVap .null with
        | .null => execVars w rp
        | .strs bases => if pathOk cfg w bases rp then execVars w rp else Run.fail .security
        | _ => Run.fail .other
      | _ => Run.fail .other

/-- `cls(**params)`: `TypeError` (→ configuration error) for an unexpected or a missing keyword -/
def construct (cls : Cls) (params : KV) : Bool :=
  params.all (fun e => cls.accepts.contains e.1) && cls.required.all (fun k => (params.lookup k).isSome)

/-- the overwriting assignments after the filter -/
def inject (keys : List String) (c : Caller) (params : KV) : KV :=
  keys.foldl (fun p k => kvSet p k (c.val k)) params

/-- document keys → constructor parameters at a site, for a class, as seen by the caller `c` -/
def siteParams (s : Site) (c : Caller) (cls : Cls) (kv : KV) : KV :=
  let p := kvStrip s.strip kv
  let p := if cls.isTemplate then inject s.injTmpl c p else p
  if cls.isExt then inject s.injExt c p else p

/-! ## loading -/

mutual
/-- `ProcessingItem.from_dict` / `QueryPostprocessingItem.from_dict` down to the constructed transformation -/
def instItem (cfg : Cfg) (w : World) (pp : Bool) (c : Caller) : Node → Run Obj
  | .mk ty kv hasCh ch =>
    match ty with
    | none => Run.fail .config
    | some t =>
      match (if pp then cfg.regPP else cfg.regT).lookup t with
      | none => Run.fail .config
      | some cls =>
        let params := siteParams cfg.item c cls kv
        if !construct cls params then Run.fail .config
        else if cls.nest then
          if !hasCh then Run.fail .config
          else if pp && cfg.nestPPDirect then
            (if ch.isEmpty then Run.ok (.mk t cls params []) else Run.fail .config)
          else
            (instItems cfg w pp (c.via (if pp then cfg.fwdNestPP else cfg.fwdNestT)) ch).bind fun os =>
              Run.ok (.mk t cls params os)
        else if cls.isTemplate then
          (tmplInit cfg w params).bind fun _ => Run.ok (.mk t cls params [])
        else Run.ok (.mk t cls params [])
def instItems (cfg : Cfg) (w : World) (pp : Bool) (c : Caller) : List Node → Run (List Obj)
  | [] => Run.ok []
  | n :: ns => (instItem cfg w pp c n).bind fun o => (instItems cfg w pp c ns).bind fun os => Run.ok (o :: os)
end

mutual
/-- one iteration of the finalizer loops (`nested = false`: `ProcessingPipeline.from_dict`,
`true`: `NestedFinalizer.from_dict`) -/
def instFin (cfg : Cfg) (w : World) (nested : Bool) (c : Caller) : Node → Run Obj
  | .mk ty kv hasCh ch =>
    match ty with
    | none => Run.fail .config
    | some t =>
      match cfg.regF.lookup t with
      | none => Run.fail (if nested then .other else .config)      -- KeyError in the nested loop
      | some cls =>
        let site := if nested then cfg.finNested else cfg.finTop
        if cls.isTemplate then
          let params := siteParams site c cls kv
          if !construct cls params then Run.fail .config
          else (tmplInit cfg w params).bind fun _ => Run.ok (.mk t cls params [])
        else if cls.nest then
          if !hasCh then Run.fail .config
          else (instFins cfg w true (c.via (if nested then cfg.fwdNestF else cfg.fwdTopNestF)) ch).bind fun os =>
            Run.ok (.mk t cls [] os)
        else
          let params := siteParams site c cls kv
          if !construct cls params then Run.fail .config else Run.ok (.mk t cls params [])
def instFins (cfg : Cfg) (w : World) (nested : Bool) (c : Caller) : List Node → Run (List Obj)
  | [] => Run.ok []
  | n :: ns => (instFin cfg w nested c n).bind fun o => (instFins cfg w nested c ns).bind fun os => Run.ok (o :: os)
end

/-- `ProcessingPipeline.from_dict(d, allow_template_vars, vars_allowed_paths, allow_external_sources)` -/
def load (cfg : Cfg) (w : World) (c : Caller) (d : Doc) : Run PObj :=
  if !d.keys.all cfg.topAllowed.contains then Run.fail .config
  else
    (instItems cfg w false (c.via cfg.fwdT) d.ts).bind fun ts =>
    (instItems cfg w true (c.via cfg.fwdPP) d.pps).bind fun pps =>
    (instFins cfg w false (c.via cfg.fwdFin) d.fs).bind fun fs =>
    Run.ok ⟨ts, pps, fs⟩

/-- the caller after `from_yaml` derived the base directory -/
def Caller.effective (cfg : Cfg) (w : World) (c : Caller) : Caller :=
  match c.vap, c.sourcePath with
  | none, some sp => if cfg.derivesBase then { c with vap := some [w.dirname (w.realpath sp)] } else c
  | _, _ => c

/-- `ProcessingPipeline.from_yaml(text, …, source_path)` (YAML parsing itself is not modelled) -/
def fromYaml (cfg : Cfg) (w : World) (c : Caller) (d : Doc) : Run PObj := load cfg w (c.effective cfg w) d

/-- `ProcessingPipelineResolver.resolve_pipeline(path)`: `from_yaml(f.read(), source_path=path)` -/
def resolveFile (cfg : Cfg) (w : World) (path : Str) (d : Doc) : Run PObj :=
  fromYaml cfg w { sourcePath := some path } d

/-! ## converting: the first use of every external-source transformation -/

def Src.event : Src → Str → Event
  | .cmd, a => .cmd a
  | .file, a => .read a
  | .url, a => .fetch a
  | .unknown, a => .fetch a

mutual
/-- `_get_values` of an external-source transformation whose placeholder occurs in the rule; nested
pipelines apply their items in order -/
def useItem (cfg : Cfg) (w : World) : Obj → Run Unit
  | .mk _ cls params ch =>
    if cls.nest then useItems cfg w ch
    else if cls.isExt then
      if !externalAllowed cfg w params then Run.fail .security
      else match cls.src with
        | none => Run.ok ()
        | some (kind, key) =>
          match params.lookup key with
          | some (.str a) => effect w (kind.event a) a .value
          | _ => Run.ok ()
    else Run.ok ()
def useItems (cfg : Cfg) (w : World) : List Obj → Run Unit
  | [] => Run.ok ()
  | o :: os => (useItem cfg w o).bind fun _ => useItems cfg w os
end

def convert (cfg : Cfg) (w : World) (p : PObj) : Run Unit := useItems cfg w p.items

/-- every effect of loading a document and converting a rule with it -/
def events (cfg : Cfg) (w : World) (c : Caller) (d : Doc) : List Event :=
  let l := load cfg w c d
  match l.res with
  | .ok p => l.evs ++ (convert cfg w p).evs
  | .error _ => l.evs

/-! ## the objects of a loaded pipeline and their capability bits -/

mutual
def Obj.all : Obj → List Obj
  | .mk t cls params ch => .mk t cls params ch :: Obj.allL ch
def Obj.allL : List Obj → List Obj
  | [] => []
  | o :: os => o.all ++ Obj.allL os
end

def PObj.all (p : PObj) : List Obj := Obj.allL p.items ++ Obj.allL p.pps ++ Obj.allL p.fins

def Obj.params : Obj → KV | .mk _ _ p _ => p
def Obj.cls : Obj → Cls | .mk _ c _ _ => c

/-- the three values stored on an instance (class defaults where the parameter was not passed) -/
def Obj.atv (o : Obj) : Val := stored o.params kAtv (.bool false)
def Obj.vap (o : Obj) : Val := stored o.params kVap .null
def Obj.aes (o : Obj) : Val := stored o.params kAes (.bool false)

/-! ## side conditions on a configuration -/

/-- key `k` of the document reaches the constructor of `cls` at site `s` unchanged -/
def keyOpen (s : Site) (cls : Cls) (k : String) : Bool :=
  cls.accepts.contains k && !s.strip.contains k &&
  !((cls.isTemplate && s.injTmpl.contains k) || (cls.isExt && s.injExt.contains k))

def siteSafe (s : Site) (reg : Reg) : Bool :=
  reg.all fun e => optInKeys.all fun k => !keyOpen s e.2 k

/-- no opt-in key of the document reaches any constructor -/
def Cfg.safe (cfg : Cfg) : Bool :=
  siteSafe cfg.item cfg.regT && siteSafe cfg.item cfg.regPP &&
  siteSafe cfg.finTop cfg.regF && siteSafe cfg.finNested cfg.regF

/-- a site strips every opt-in key that some class of the registry would accept -/
def siteStrips (s : Site) (reg : Reg) : Bool :=
  optInKeys.all fun k => !(reg.any fun e => e.2.accepts.contains k) || s.strip.contains k

/-- the design stated in the code comments ("Strip untrusted YAML value"): first line of defence -/
def Cfg.strips (cfg : Cfg) : Bool :=
  siteStrips cfg.item cfg.regT && siteStrips cfg.item cfg.regPP &&
  siteStrips cfg.finTop cfg.regF && siteStrips cfg.finNested cfg.regF

/-- second line of defence: the caller's values are written over whatever is there, for the class families
that have the fields -/
def Cfg.overwrites (cfg : Cfg) : Bool :=
  [kAtv, kVap].all (fun k => cfg.item.injTmpl.contains k && cfg.finTop.injTmpl.contains k && cfg.finNested.injTmpl.contains k) &&
  cfg.item.injExt.contains kAes

/-- wherever a template class can be instantiated the caller's base directories arrive together with the
permission: the call chain forwards `vars_allowed_paths` and the site writes it -/
def Cfg.basesSafe (cfg : Cfg) : Bool :=
  let tmpl (r : Reg) := r.any fun e => e.2.isTemplate
  (!tmpl cfg.regT || (cfg.item.injTmpl.contains kVap && cfg.fwdT.vap && cfg.fwdNestT.vap)) &&
  (!tmpl cfg.regPP || (cfg.item.injTmpl.contains kVap && cfg.fwdPP.vap && (cfg.nestPPDirect || cfg.fwdNestPP.vap))) &&
  (!tmpl cfg.regF || (cfg.finTop.injTmpl.contains kVap && cfg.finNested.injTmpl.contains kVap &&
      cfg.fwdFin.vap && cfg.fwdTopNestF.vap && cfg.fwdNestF.vap))

/-! ## scrubbing: the document without the keys `K` (for non-interference) -/

mutual
def Node.scrub (K : List String) : Node → Node
  | .mk ty kv hasCh ch => .mk ty (kvStrip K kv) hasCh (Node.scrubL K ch)
def Node.scrubL (K : List String) : List Node → List Node
  | [] => []
  | n :: ns => n.scrub K :: Node.scrubL K ns
end

mutual
/-- put `k: v` into the dict at a position (path of child indices) -/
def Node.injectAt (k : String) (v : Val) : List Nat → Node → Node
  | path, .mk ty kv hasCh ch =>
    match path with
    | [] => .mk ty (kvSet kv k v) hasCh ch
    | i :: rest => .mk ty kv hasCh (Node.injectAtL k v i rest ch)
def Node.injectAtL (k : String) (v : Val) (i : Nat) (rest : List Nat) : List Node → List Node
  | [] => []
  | n :: ns =>
    match i with
    | 0 => Node.injectAt k v rest n :: ns
    | j + 1 => n :: Node.injectAtL k v j rest ns
end

/-! ## the pinned reference configuration (what the code is today, with a small registry); the generated
configuration is compared with it only through the side conditions above -/

def refItemStrip : List String :=
  ["rule_conditions", "rule_cond_expr", "rule_cond_op", "rule_cond_not", "detection_item_conditions",
   "detection_item_cond_expr", "detection_item_cond_op", "detection_item_cond_not", "field_name_conditions",
   "field_name_cond_expr", "field_name_cond_op", "field_name_cond_not", "type", "id",
   "allow_template_vars", "vars_allowed_paths", "allow_external_sources"]

def tmplAccepts : List String := ["template", "path", "autoescape", "vars", "allow_template_vars", "vars_allowed_paths"]
def extAccepts : List String :=
  ["include", "exclude", "format", "filter", "csv_column", "csv_has_header", "jq_expression", "allow_external_sources"]

def Cfg.ref : Cfg where
  regT := [("set_state", { accepts := ["key", "val"], required := ["key", "val"] }),
           ("file_placeholders", { accepts := extAccepts ++ ["path"], isExt := true, src := some (.file, "path") }),
           ("http_placeholders", { accepts := extAccepts ++ ["url", "method", "timeout"], isExt := true, src := some (.url, "url") }),
           ("command_placeholders", { accepts := extAccepts ++ ["cmd", "timeout"], isExt := true, src := some (.cmd, "cmd") }),
           ("nest", { accepts := [], nest := true })]
  regPP := [("embed", { accepts := ["prefix", "suffix"] }),
            ("template", { accepts := tmplAccepts, required := ["template"], isTemplate := true }),
            ("nest", { accepts := [], nest := true })]
  regF := [("concat", { accepts := ["separator", "prefix", "suffix"] }),
           ("template", { accepts := tmplAccepts, required := ["template"], isTemplate := true }),
           ("nested", { accepts := [], nest := true })]
  topAllowed := ["vars", "transformations", "postprocessing", "finalizers", "priority", "name", "allowed_backends"]
  item := { strip := refItemStrip, injTmpl := [kAtv, kVap], injExt := [kAes] }
  finTop := { strip := [kAtv, kVap, kAes], injTmpl := [kAtv, kVap], injExt := [] }
  finNested := { strip := [kAtv, kVap], injTmpl := [kAtv, kVap], injExt := [] }
  fwdT := ⟨false, false, true⟩
  fwdPP := ⟨true, true, false⟩
  fwdFin := ⟨true, true, false⟩
  fwdNestT := ⟨false, false, false⟩
  fwdNestPP := ⟨false, false, false⟩
  fwdTopNestF := ⟨true, true, false⟩
  fwdNestF := ⟨true, true, false⟩
  nestPPDirect := true
  envAccepted := ["1".toList, "true".toList]
  envLower := true
  pathSep := true
  pathEq := true
  derivesBase := true

end SigmaVerif.Caps

