/-!
# Model of `sigma/conditions.py`: the condition grammar as pyparsing builds it

pyparsing constructs a *scannerless PEG*: ordered choice, greedy repetition, whitespace skipped in
front of every terminal.  The model is character level and mirrors `infix_notation`:

```
atom := selector / identifier / "(" or ")"
not  := NOT not / atom
and  := not (AND not)*          -- n-ary node when at least one AND was read
or   := and (OR and)*
start := or EOF                  -- parse_all=True
```

Everything that the translator reads from the live source (`Grammar`) is a parameter.
No imports: this file is also compiled into the driver.
-/
namespace SigmaVerif.Cond

abbrev Str := List Char

/-- What the translator extracts from `sigma/conditions.py` (character sets as explicit lists so
that well-formedness is decidable). -/
structure Grammar where
  identChars : List Char          -- `identifier = Word(...)`
  patChars : List Char            -- `identifier_pattern = Word(...)`
  quantKwChars : List Char        -- identifier characters of `Keyword("1"|"any"|"all"|"of")`
  opKeyword : Bool                -- are `not`/`and`/`or` pyparsing `Keyword`s (true) or `Literal`s (false)?
  opKwChars : List Char           -- identifier characters of the operator keywords
  kwNot : Str
  kwAnd : Str
  kwOr : Str
  quants : List Str               -- "1", "any", "all" in the order of the MatchFirst
  kwOf : Str
deriving Repr, DecidableEq

/-- pyparsing's default whitespace characters -/
def wsChars : List Char := [' ', '\t', '\n', '\r']
def isWs (c : Char) : Bool := wsChars.contains c

/-- two character lists denote the same set -/
def sameChars (a b : List Char) : Bool := a.all b.contains && b.all a.contains

def skipWs : Str → Str
  | [] => []
  | c :: s => if isWs c then skipWs s else c :: s

/-- `pre` is a prefix of `s`: return the remainder -/
def stripPrefix : Str → Str → Option Str
  | [], s => some s
  | _ :: _, [] => none
  | p :: ps, c :: s => if p == c then stripPrefix ps s else none

/-- the next character (if any) is not one of `cs` -/
def notFollowedBy (cs : List Char) : Str → Bool
  | [] => true
  | c :: _ => !cs.contains c

/-- `Literal(k)` after whitespace skipping -/
def literal (k : Str) (s : Str) : Option Str := stripPrefix k (skipWs s)

/-- `Keyword(k, ident_chars=cs)` after whitespace skipping (the look-behind half of pyparsing's
`Keyword` is not modelled: with the grammar's terminals it can never fire — every terminal that can
precede a keyword ends in front of a character no keyword starts with). -/
def keyword (cs : List Char) (k : Str) (s : Str) : Option Str :=
  match stripPrefix k (skipWs s) with
  | some r => if notFollowedBy cs r then some r else none
  | none => none

/-- longest prefix of characters in `cs` -/
def spanChars (cs : List Char) : Str → Str × Str
  | [] => ([], [])
  | c :: s => if cs.contains c then ((spanChars cs s).1.cons c, (spanChars cs s).2) else ([], c :: s)

/-- `Word(cs)` after whitespace skipping: maximal munch, at least one character -/
def word (cs : List Char) (s : Str) : Option (Str × Str) :=
  match spanChars cs (skipWs s) with
  | ([], _) => none
  | (w, r) => some (w, r)

inductive Quant | any | all
deriving Repr, DecidableEq

/-- parse tree (before post-processing); `and`/`or` are n-ary as `infix_notation` groups them -/
inductive PT
  | id (n : Str)
  | sel (q : Quant) (pat : Str)
  | not (p : PT)
  | and (ps : List PT)
  | or (ps : List PT)
deriving Repr

mutual
/-- structural equality test (used to state concrete witnesses by `decide`) -/
def PT.beq : PT → PT → Bool
  | .id a, .id b => a == b
  | .sel q p, .sel q' p' => q == q' && p == p'
  | .not a, .not b => PT.beq a b
  | .and as, .and bs => PT.beqList as bs
  | .or as, .or bs => PT.beqList as bs
  | _, _ => false
def PT.beqList : List PT → List PT → Bool
  | [], [] => true
  | a :: as, b :: bs => PT.beq a b && PT.beqList as bs
  | _, _ => false
end

def parsesTo (r : Option PT) (t : PT) : Bool :=
  match r with
  | some p => p.beq t
  | none => false

def opTok (g : Grammar) (k : Str) (s : Str) : Option Str :=
  if g.opKeyword then keyword g.opKwChars k s else literal k s

/-- first quantifier keyword that matches (MatchFirst) -/
def quantifier (g : Grammar) : List Str → Str → Option (Str × Str)
  | [], _ => none
  | q :: qs, s =>
    match keyword g.quantKwChars q s with
    | some r => some (q, r)
    | none => quantifier g qs s

def quantOf (q : Str) : Option Quant :=
  if q == "1".toList || q == "any".toList then some .any
  else if q == "all".toList then some .all
  else none

/-- `selector = quantifier + Keyword("of") + identifier_pattern` -/
def selector (g : Grammar) (s : Str) : Option (PT × Str) :=
  match quantifier g g.quants s with
  | none => none
  | some (q, r1) =>
    match keyword g.quantKwChars g.kwOf r1 with
    | none => none
    | some r2 =>
      match word g.patChars r2 with
      | none => none
      | some (pat, r3) =>
        match quantOf q with
        | some qq => some (.sel qq pat, r3)
        | none => none

def identifier (g : Grammar) (s : Str) : Option (PT × Str) :=
  match word g.identChars s with
  | some (w, r) => some (.id w, r)
  | none => none

/-- `(op sub)*` — greedy; `k` is fuel (the remaining input length suffices) -/
def many (op : Str → Option Str) (sub : Str → Option (PT × Str)) :
    Nat → List PT → Str → List PT × Str
  | 0, acc, s => (acc, s)
  | k+1, acc, s =>
    match op s with
    | some s1 =>
      match sub s1 with
      | some (p, s2) => many op sub k (acc ++ [p]) s2
      | none => (acc, s)
    | none => (acc, s)

/-- one binary level of `infix_notation` -/
def level (op : Str → Option Str) (mk : List PT → PT) (sub : Str → Option (PT × Str))
    (s : Str) : Option (PT × Str) :=
  match sub s with
  | none => none
  | some (p, s1) =>
    match many op sub s1.length [p] s1 with
    | ([q], s2) => some (q, s2)
    | (qs, s2) => some (mk qs, s2)

/-- the only recursive knot: NOT / operand / parenthesised expression -/
def pNot (g : Grammar) : Nat → Str → Option (PT × Str)
  | 0, _ => none
  | f+1, s =>
    let notBranch : Option (PT × Str) :=
      match opTok g g.kwNot s with
      | some s1 =>
        match pNot g f s1 with
        | some (p, s2) => some (.not p, s2)
        | none => none
      | none => none
    match notBranch with
    | some r => some r
    | none =>
      match selector g s with
      | some r => some r
      | none =>
        match identifier g s with
        | some r => some r
        | none =>
          match literal ['('] s with
          | some s1 =>
            match level (opTok g g.kwOr) .or (level (opTok g g.kwAnd) .and (pNot g f)) s1 with
            | some (p, s2) =>
              match literal [')'] s2 with
              | some s3 => some (p, s3)
              | none => none
            | none => none
          | none => none

def pAnd (g : Grammar) (f : Nat) := level (opTok g g.kwAnd) .and (pNot g f)
def pOr (g : Grammar) (f : Nat) := level (opTok g g.kwOr) .or (pAnd g f)

/-- `condition.parse_string(s, parse_all=True)` -/
def parse (g : Grammar) (s : Str) : Option PT :=
  match pOr g (s.length + 1) s with
  | some (p, r) => if skipWs r == [] then some p else none
  | none => none

/-! ## Selector resolution and post-processing (`ConditionSelector.postprocess`,
`ConditionItem.postprocess`) -/

/-- `re.fullmatch(pattern.replace("*", ".*"), name)`; `.` does not match a newline -/
def starMatch : Str → Str → Bool
  | [], [] => true
  | [], _ :: _ => false
  | '*' :: p, [] => starMatch p []
  | '*' :: p, c :: n => starMatch p (c :: n) || (c != '\n' && starMatch ('*' :: p) n)
  | _ :: _, [] => false
  | a :: p, c :: n => a == c && starMatch p n
termination_by p n => (p.length + n.length, p.length)
decreasing_by all_goals simp_wf <;> omega

def selMatches (pat : Str) (name : Str) : Bool :=
  (if pat == "them".toList then starMatch ['*'] name else starMatch pat name)
  && (pat.head? == some '_' || name.head? != some '_')

/-- post-processed condition tree over detection names -/
inductive CT
  | det (n : Str)
  | not (c : CT)
  | and (cs : List CT)
  | or (cs : List CT)
deriving Repr

inductive Res (α : Type)
  | ok (a : α)
  | undefinedDet (n : Str)     -- SigmaConditionError: detection not defined
deriving Repr

mutual
/-- `postprocess`: `none` = the node vanished (a selector that matches nothing) -/
def resolve (dets : List Str) : PT → Res (Option CT)
  | .id n => if dets.contains n then .ok (some (.det n)) else .undefinedDet n
  | .sel q pat =>
    let ms := dets.filter (selMatches pat)
    match ms with
    | [] => .ok none
    | [m] => .ok (some (.det m))
    | _ => .ok (some (match q with | .any => .or (ms.map .det) | .all => .and (ms.map .det)))
  | .not p =>
    match resolve dets p with
    | .ok (some c) => .ok (some (.not c))
    | .ok none => .ok none
    | .undefinedDet n => .undefinedDet n
  | .and ps =>
    match resolveList dets ps with
    | .ok [] => .ok none
    | .ok [c] => .ok (some c)
    | .ok cs => .ok (some (.and cs))
    | .undefinedDet n => .undefinedDet n
  | .or ps =>
    match resolveList dets ps with
    | .ok [] => .ok none
    | .ok [c] => .ok (some c)
    | .ok cs => .ok (some (.or cs))
    | .undefinedDet n => .undefinedDet n
def resolveList (dets : List Str) : List PT → Res (List CT)
  | [] => .ok []
  | p :: ps =>
    match resolve dets p with
    | .undefinedDet n => .undefinedDet n
    | .ok oc =>
      match resolveList dets ps with
      | .undefinedDet n => .undefinedDet n
      | .ok cs => .ok (match oc with | some c => c :: cs | none => cs)
end

mutual
def CT.eval (ρ : Str → Bool) : CT → Bool
  | .det n => ρ n
  | .not c => !(c.eval ρ)
  | .and cs => CT.evalAll ρ cs
  | .or cs => CT.evalAny ρ cs
def CT.evalAll (ρ : Str → Bool) : List CT → Bool
  | [] => true
  | c :: cs => c.eval ρ && CT.evalAll ρ cs
def CT.evalAny (ρ : Str → Bool) : List CT → Bool
  | [] => false
  | c :: cs => c.eval ρ || CT.evalAny ρ cs
end

/-- The grammar of the pinned tree after the `fix:` commit for D1 (operators are `Keyword`s whose
identifier characters are those of detection names). -/
def alnum : List Char :=
  "abcdefghijklmnopqrstuvwxyzABCDEFGHIJKLMNOPQRSTUVWXYZ0123456789".toList

def stdGrammar : Grammar where
  identChars := alnum ++ ['_', '-']
  patChars := alnum ++ ['*', '_']
  quantKwChars := alnum ++ ['_', '$']
  opKeyword := true
  opKwChars := alnum ++ ['_', '-']
  kwNot := "not".toList
  kwAnd := "and".toList
  kwOr := "or".toList
  quants := ["1".toList, "any".toList, "all".toList]
  kwOf := "of".toList

/-- same grammar up to the order/multiplicity in which character sets are listed -/
def Grammar.equiv (g h : Grammar) : Bool :=
  sameChars g.identChars h.identChars && sameChars g.patChars h.patChars &&
  sameChars g.quantKwChars h.quantKwChars && g.opKeyword == h.opKeyword &&
  sameChars g.opKwChars h.opKwChars && g.kwNot == h.kwNot && g.kwAnd == h.kwAnd &&
  g.kwOr == h.kwOr && g.quants == h.quants && g.kwOf == h.kwOf

/-- Decidable well-formedness of an extracted grammar: exactly what the C02 theorems assume.
Operators are keywords whose identifier characters cover those of detection names; whitespace and
parentheses are not word characters of any terminal; the keyword spellings are the Sigma ones;
the first letter of `of` is an identifier character of the quantifier keywords (otherwise a name
such as `1ofx` or `allofus` is read as the selector `1 of x` / `all of us`: the quantifier keyword
would match in front of the `o`). -/
def Grammar.wf (g : Grammar) : Bool :=
  g.opKeyword &&
  g.identChars.all g.opKwChars.contains &&
  g.quantKwChars.contains 'o' &&
  (wsChars ++ ['(', ')']).all (fun c =>
    !g.identChars.contains c && !g.patChars.contains c && !g.opKwChars.contains c &&
    !g.quantKwChars.contains c) &&
  g.kwNot == "not".toList && g.kwAnd == "and".toList && g.kwOr == "or".toList &&
  g.kwOf == "of".toList && g.quants == ["1".toList, "any".toList, "all".toList]

/-- the grammar as it was before the fix: operators are bare `Literal`s -/
def literalGrammar : Grammar := { stdGrammar with opKeyword := false }

end SigmaVerif.Cond
