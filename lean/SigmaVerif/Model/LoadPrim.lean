/-!
# C07 — YAML values, Python exceptions and the partial Python primitives the loaders use

`Y` is the JSON-like fragment of YAML data (no dates, binaries, sets or custom tags) with arbitrary
scalar keys.  `Exc` is what a Python call may raise: an exception of the Sigma hierarchy (by class)
or another Python exception (by class).  The primitives below are *partial the way Python's are*:
`pyGetItem none "x"` raises `TypeError`, `pyUpper 5` raises `AttributeError`, … .  The loaders in
`Model/Load.lean` are written over these primitives only, so "no `py` exception escapes" is a
theorem about every YAML value (`Props/C07.lean`), not a consequence of typing.

Trusted: the classification of each primitive (which Python exception class on which operand type)
was read off CPython 3.12 and is exercised by the correspondence sweep `harness/c07.py`.
Strings are treated as ASCII by `upper`/`lower`/`int()`/whitespace; `inDomain` (Model/LoadDomain)
excludes documents with non-ASCII strings.
-/
namespace SigmaVerif.Load

abbrev Str := List Char

/-- YAML-representable value.  A float carries its Python `repr` (enough to tell nan/inf/zero). -/
inductive Y where
  | null : Y
  | bool (b : Bool) : Y
  | int (i : Int) : Y
  | float (repr : Str) : Y
  | str (s : Str) : Y
  | list (l : List Y) : Y
  | map (m : List (Y × Y)) : Y

abbrev Dict := List (Y × Y)

/-- Python exception classes (outside the Sigma hierarchy) the primitives can raise -/
inductive PyCls
  | attributeError | typeError | keyError | valueError | indexError | overflowError
  deriving DecidableEq, Repr

/-- classes of the Sigma error hierarchy the loaders instantiate -/
inductive SigmaCls
  | typeError | identifierError | nameError | taxonomyError | relatedError | levelError | statusError
  | tagError | valueError | dateError | modifiedError | fieldsError | falsePositivesError | authorError
  | descriptionError | referencesError | titleError | scopeError | licenseError
  | logsourceError | detectionError | conditionError | modifierError | regularExpressionError
  | correlationRuleError | correlationTypeError | correlationConditionError | timespanError
  | filterError | filterConditionError | filterRuleReferenceError | collectionError | ruleNotFoundError
  deriving DecidableEq, Repr

def SigmaCls.name : SigmaCls → String
  | .typeError => "SigmaTypeError" | .identifierError => "SigmaIdentifierError" | .nameError => "SigmaNameError"
  | .taxonomyError => "SigmaTaxonomyError" | .relatedError => "SigmaRelatedError" | .levelError => "SigmaLevelError"
  | .statusError => "SigmaStatusError" | .tagError => "SigmaTagError" | .valueError => "SigmaValueError"
  | .dateError => "SigmaDateError" | .modifiedError => "SigmaModifiedError" | .fieldsError => "SigmaFieldsError"
  | .falsePositivesError => "SigmaFalsePositivesError" | .authorError => "SigmaAuthorError"
  | .descriptionError => "SigmaDescriptionError" | .referencesError => "SigmaReferencesError"
  | .titleError => "SigmaTitleError" | .scopeError => "SigmaScopeError" | .licenseError => "SigmaLicenseError"
  | .logsourceError => "SigmaLogsourceError" | .detectionError => "SigmaDetectionError"
  | .conditionError => "SigmaConditionError" | .modifierError => "SigmaModifierError"
  | .regularExpressionError => "SigmaRegularExpressionError" | .correlationRuleError => "SigmaCorrelationRuleError"
  | .correlationTypeError => "SigmaCorrelationTypeError" | .correlationConditionError => "SigmaCorrelationConditionError"
  | .timespanError => "SigmaTimespanError" | .filterError => "SigmaFilterError"
  | .filterConditionError => "SigmaFilterConditionError" | .filterRuleReferenceError => "SigmaFilterRuleReferenceError"
  | .collectionError => "SigmaCollectionError"
  | .ruleNotFoundError => "SigmaRuleNotFoundError"

def SigmaCls.all : List SigmaCls := [
  .typeError, .identifierError, .nameError, .taxonomyError, .relatedError, .levelError, .statusError,
  .tagError, .valueError, .dateError, .modifiedError, .fieldsError, .falsePositivesError, .authorError,
  .descriptionError, .referencesError, .titleError, .scopeError, .licenseError,
  .logsourceError, .detectionError, .conditionError, .modifierError, .regularExpressionError,
  .correlationRuleError, .correlationTypeError, .correlationConditionError, .timespanError,
  .filterError, .filterConditionError, .filterRuleReferenceError, .collectionError, .ruleNotFoundError]

/-- direct base class inside the Sigma hierarchy (`none` = derives from `SigmaError` directly);
tied to `sigma/exceptions.py` by `Oblig/C07.lean` -/
def SigmaCls.parent : SigmaCls → Option SigmaCls
  | .typeError => some .modifierError
  | .regularExpressionError => some .valueError
  | .correlationRuleError => some .valueError
  | .correlationTypeError => some .correlationRuleError
  | .correlationConditionError => some .correlationRuleError
  | .timespanError => some .correlationRuleError
  | .ruleNotFoundError => some .correlationRuleError
  | .filterError => some .valueError
  | .filterConditionError => some .filterError
  | .filterRuleReferenceError => some .filterError
  | _ => none

/-- `isinstance(e, base)` inside the Sigma hierarchy (depth ≤ 3) -/
def SigmaCls.isA (c base : SigmaCls) : Bool :=
  c == base ||
  match c.parent with
  | none => false
  | some p => p == base ||
    match p.parent with
    | none => false
    | some q => q == base || (match q.parent with | none => false | some r => r == base)

def PyCls.name : PyCls → String
  | .attributeError => "AttributeError" | .typeError => "TypeError" | .keyError => "KeyError"
  | .valueError => "ValueError" | .indexError => "IndexError" | .overflowError => "OverflowError"

inductive Exc
  | sigma (c : SigmaCls)
  | py (c : PyCls)
  deriving DecidableEq, Repr

abbrev R := Except Exc

deriving instance DecidableEq for Except

def raiseS {α} (c : SigmaCls) : R α := .error (.sigma c)
def raiseP {α} (c : PyCls) : R α := .error (.py c)

/-- `try: x  except <py classes in cs>: h`.  `SigmaError` derives from `ValueError`, so a clause
naming `ValueError` also catches every Sigma error. -/
def catchPy {α} (cs : List PyCls) (x : R α) (h : R α) : R α :=
  match x with
  | .error (.py c) => if cs.contains c then h else .error (.py c)
  | .error (.sigma c) => if cs.contains .valueError then h else .error (.sigma c)
  | r => r

/-- `try: x  except <Sigma class base> as e: h e` -/
def catchSigma {α} (base : Option SigmaCls) (x : R α) (h : SigmaCls → R α) : R α :=
  match x with
  | .error (.sigma c) =>
      (match base with
       | none => h c
       | some b => if c.isA b then h c else .error (.sigma c))
  | r => r

/-- `for x in xs: f(x)` -/
def forEach {α} (f : α → R Unit) : List α → R Unit
  | [] => pure ()
  | x :: xs => do f x; forEach f xs

/-! ## type tests (`isinstance`, `is None`, truthiness) -/
def Y.isNone : Y → Bool | .null => true | _ => false
def Y.isStr : Y → Bool | .str _ => true | _ => false
def Y.isList : Y → Bool | .list _ => true | _ => false
def Y.isMap : Y → Bool | .map _ => true | _ => false
def Y.isBool : Y → Bool | .bool _ => true | _ => false
/-- `all(isinstance(x, str) for x in xs)` -/
def allStr (xs : List Y) : Bool := xs.all Y.isStr
/-- `isinstance(v, (str, int, float, bool, type(None)))` -/
def Y.isScalar : Y → Bool | .list _ => false | .map _ => false | _ => true

inductive FloatClass | zero | nan | inf | finite deriving DecidableEq
def floatClass (r : Str) : FloatClass :=
  if r == "nan".toList then .nan
  else if r == "inf".toList || r == "-inf".toList then .inf
  else if r == "0.0".toList || r == "-0.0".toList then .zero
  else .finite

/-- Python truthiness `bool(v)` -/
def Y.truthy : Y → Bool
  | .null => false
  | .bool b => b
  | .int i => i != 0
  | .float r => floatClass r != .zero
  | .str s => !s.isEmpty
  | .list l => !l.isEmpty
  | .map m => !m.isEmpty

def keyIs (k : Y) (s : Str) : Bool := match k with | .str t => t == s | _ => false

/-- value of the first entry with string key `k` -/
def lookup (m : Dict) (k : Str) : Option Y := (m.find? (fun p => keyIs p.1 k)).map (·.2)

/-- `d.get(k)` on a value known to be a dict -/
def dget (m : Dict) (k : Str) : Y := (lookup m k).getD .null

def hasKey (m : Dict) (k : Str) : Bool := (lookup m k).isSome

/-! ## partial primitives -/

/-- `o[k]` for a string key -/
def pyGetItem (o : Y) (k : Str) : R Y :=
  match o with
  | .map m => (match lookup m k with | some v => pure v | none => raiseP .keyError)
  | _ => raiseP .typeError

/-- `o.items()` -/
def pyItems (o : Y) : R Dict :=
  match o with
  | .map m => pure m
  | _ => raiseP .attributeError

/-- `o.get(k)` -/
def pyGet (o : Y) (k : Str) : R Y :=
  match o with
  | .map m => pure (dget m k)
  | _ => raiseP .attributeError

/-- `o.keys()` -/
def pyKeys (o : Y) : R (List Y) :=
  match o with
  | .map m => pure (m.map (·.1))
  | _ => raiseP .attributeError

def upperS (s : Str) : Str := s.map Char.toUpper
def lowerS (s : Str) : Str := s.map Char.toLower

/-- `o.upper()` -/
def pyUpper (o : Y) : R Str :=
  match o with
  | .str s => pure (upperS s)
  | _ => raiseP .attributeError

/-- `o.lower()` -/
def pyLower (o : Y) : R Str :=
  match o with
  | .str s => pure (lowerS s)
  | _ => raiseP .attributeError

def splitOn (sep : Char) : Str → List Str
  | [] => [[]]
  | c :: cs =>
    match splitOn sep cs with
    | [] => [[]]            -- unreachable
    | h :: t => if c == sep then [] :: h :: t else (c :: h) :: t

/-- `o.split(sep)` -/
def pySplit (o : Y) (sep : Char) : R (List Str) :=
  match o with
  | .str s => pure (splitOn sep s)
  | _ => raiseP .attributeError

/-- `Enum[name]` / `dict[name]` with string keys -/
def pyLookupName (names : List Str) (k : Str) : R Unit :=
  if names.contains k then pure () else raiseP .keyError

/-- `len(o)` -/
def pyLen (o : Y) : R Nat :=
  match o with
  | .str s => pure s.length
  | .list l => pure l.length
  | .map m => pure m.length
  | _ => raiseP .typeError

/-- `for x in o` -/
def pyIter (o : Y) : R (List Y) :=
  match o with
  | .list l => pure l
  | .map m => pure (m.map (·.1))
  | .str s => pure (s.map (fun c => .str [c]))
  | _ => raiseP .typeError

/-- `hash(o)` (set / dict-key construction) -/
def pyHash (o : Y) : R Unit :=
  match o with
  | .list _ => raiseP .typeError
  | .map _ => raiseP .typeError
  | _ => pure ()

/-- `", ".join(xs)` (also `", ".join(sorted(xs))` for hashable `xs`: a non-string element makes
either `sorted` or `join` raise `TypeError`) -/
def pyJoin (xs : List Y) : R Unit :=
  if allStr xs then pure () else raiseP .typeError

/-! ### `int(x)` -/
def isDigit (c : Char) : Bool := '0' ≤ c && c ≤ '9'
def isHexDigit (c : Char) : Bool := isDigit c || ('a' ≤ c && c ≤ 'f') || ('A' ≤ c && c ≤ 'F')
/-- ASCII characters `str.strip()` / `int()` treat as white space -/
def isPySpace (c : Char) : Bool := c.toNat == 32 || (9 ≤ c.toNat && c.toNat ≤ 13) || (28 ≤ c.toNat && c.toNat ≤ 31)

/-- digits with single underscores between them, `prevDigit` = the previous character was a digit -/
def digitsUnderscore : Bool → Str → Bool
  | prevDigit, [] => prevDigit
  | prevDigit, c :: cs =>
    if isDigit c then digitsUnderscore true cs
    else if c == '_' then prevDigit && digitsUnderscore false cs
    else false

def stripSpace (s : Str) : Str := ((s.dropWhile isPySpace).reverse.dropWhile isPySpace).reverse

/-- does `int(s)` succeed for an ASCII string: white space, optional sign, digits with single `_` -/
def intStrOk (s : Str) : Bool :=
  match stripSpace s with
  | [] => false
  | c :: cs => if c == '+' || c == '-' then digitsUnderscore false cs else digitsUnderscore false (c :: cs)

/-- `int(o)` (only success / exception class is modelled) -/
def pyInt (o : Y) : R Unit :=
  match o with
  | .null => raiseP .typeError
  | .bool _ => pure ()
  | .int _ => pure ()
  | .float r =>
      (match floatClass r with
       | .nan => raiseP .valueError
       | .inf => raiseP .overflowError
       | _ => pure ())
  | .str s => if intStrOk s then pure () else raiseP .valueError
  | .list _ => raiseP .typeError
  | .map _ => raiseP .typeError

/-! ### `uuid.UUID(x)` -/
/-- remove all (non-overlapping, left to right) occurrences of `pat`; `skip` = characters of a
match still to drop -/
def removeAllAux (pat : Str) : Nat → Str → Str
  | _, [] => []
  | skip + 1, _ :: cs => removeAllAux pat skip cs
  | 0, c :: cs =>
    if pat.isPrefixOf (c :: cs) && !pat.isEmpty then removeAllAux pat (pat.length - 1) cs
    else c :: removeAllAux pat 0 cs
def removeAll (pat s : Str) : Str := removeAllAux pat 0 s

def isBrace (c : Char) : Bool := c == '{' || c == '}'
def uuidHex (s : Str) : Str :=
  let a := removeAll "uuid:".toList (removeAll "urn:".toList s)
  let b := ((a.dropWhile isBrace).reverse.dropWhile isBrace).reverse
  b.filter (· != '-')

/-- `UUID(o)`: `hex.replace(...)` needs a string; 32 hex digits after normalisation.
(`int(hex, 16)` also accepts signs, `_`, white space and a `0x` prefix — see `uuidDecided`.) -/
def uuidOk (s : Str) : Bool :=
  let h := uuidHex s
  h.length == 32 && h.all isHexDigit

def pyUUID (o : Y) : R Unit :=
  match o with
  | .str s => if uuidOk s then pure () else raiseP .valueError
  | _ => raiseP .attributeError

/-! ### slicing (time spans) -/
/-- `o[:-1]` -/
def pySliceInit (o : Y) : R Y :=
  match o with
  | .str s => pure (.str s.dropLast)
  | .list l => pure (.list l.dropLast)
  | _ => raiseP .typeError

/-- `o[-1]` -/
def pyIndexLast (o : Y) : R Y :=
  match o with
  | .str s => (match s.getLast? with | some c => pure (.str [c]) | none => raiseP .indexError)
  | .list l => (match l.getLast? with | some v => pure v | none => raiseP .indexError)
  | .map _ => raiseP .keyError
  | _ => raiseP .typeError

/-! ### item assignment `o[k] = v` (collection merging) -/
/-- key equality for hashable keys (no bool/float keys in the domain, so no `1 == True`) -/
def keyEq : Y → Y → Bool
  | .null, .null => true
  | .bool a, .bool b => a == b
  | .int a, .int b => a == b
  | .float a, .float b => a == b
  | .str a, .str b => a == b
  | _, _ => false

def dictSet : Dict → Y → Y → Dict
  | [], k, v => [(k, v)]
  | (k', v') :: rest, k, v => if keyEq k' k then (k', v) :: rest else (k', v') :: dictSet rest k v

def dictGetKey (m : Dict) (k : Y) : Option Y := (m.find? (fun p => keyEq p.1 k)).map (·.2)

def dictDelKey (m : Dict) (k : Str) : Dict := m.filter (fun p => !keyIs p.1 k)

/-- `o[k] = v` -/
def pySetItem (o k v : Y) : R Y :=
  match o with
  | .map m => pure (.map (dictSet m k v))
  | .list l =>
      (match k with
       | .int i =>
           let n : Int := l.length
           if 0 ≤ i && i < n then pure (.list (l.set i.toNat v))
           else if -n ≤ i && i < 0 then pure (.list (l.set (i + n).toNat v))
           else raiseP .indexError
       | _ => raiseP .typeError)
  | _ => raiseP .typeError

/-- `o.get(k, {})` with an arbitrary key -/
def pyGetKeyDefault (o k : Y) : R Y :=
  match o with
  | .map m => pure ((dictGetKey m k).getD (.map []))
  | _ => raiseP .attributeError

end SigmaVerif.Load
