/-!
# Model of the log source of a rule / filter and of its dict form (C06)

`sigma/rule/logsource.py`: `SigmaLogSource.from_dict` (the four named attributes are read with
`dict.get`, a log source without category, product and service is refused), `to_dict` (every named
attribute that `is not None` is written, an empty string included), `__eq__` (the named attributes),
`__contains__` (which rules a filter with this log source meets; `sigma/filters.py`
`_should_apply_on_rule`).  Attribute values are strings (what the sweep generates); custom attributes
and the source location are not modelled (custom attributes are written back as the keys they were
loaded from, the source location is not part of the dict form: fix 47b2b34 of the code; swept by the harness).
No imports.
-/
namespace SigmaVerif.LogSource

abbrev Str := List Char

/-- the named attributes; `none` = not given, `some []` = given as the empty string -/
structure LS where
  category : Option Str
  product : Option Str
  service : Option Str
  definition : Option Str
deriving DecidableEq, Repr

/-- the dict form: named attributes in the order of the dataclass fields -/
abbrev Dict := List (String × Str)

def entry (k : String) : Option Str → Dict
  | some v => [(k, v)]
  | none => []

/-- `SigmaLogSource.to_dict`: every attribute that is not `None` -/
def toDict (l : LS) : Dict :=
  entry "category" l.category ++ entry "product" l.product ++ entry "service" l.service ++ entry "definition" l.definition

/-- `SigmaLogSource.from_dict` + `__post_init__`: `none` = "Sigma log source can't be empty" -/
def fromDict (d : Dict) : Option LS :=
  let l : LS := { category := d.lookup "category", product := d.lookup "product", service := d.lookup "service",
                  definition := d.lookup "definition" }
  if l.category.isNone && l.product.isNone && l.service.isNone then none else some l

def LS.nonEmpty (l : LS) : Bool := !(l.category.isNone && l.product.isNone && l.service.isNone)

def attrIn (mine other : Option Str) : Bool :=
  match mine with
  | none => true
  | some v => other == some v

/-- `f.contains r` = `r in f` (`SigmaLogSource.__contains__`): a filter with log source `f` meets a rule with log source `r` -/
def LS.contains (f r : LS) : Bool :=
  f == r || (attrIn f.category r.category && attrIn f.product r.product && attrIn f.service r.service)

end SigmaVerif.LogSource
