/-!
# Model of `SigmaCollection` reference resolution / ordering (`sigma/collection.py`,
`SigmaCorrelationRule.resolve_rule_references`) and of `Backend.convert` over a collection
(`sigma/conversion/base.py`).

Documents are abstract: what matters is under which keys (name / id) a rule can be referenced,
which keys it references, whether it asks for generation of the referenced rules' queries, and what
its own conversion yields.  No imports.
-/
namespace SigmaVerif.Coll

structure Doc where
  keys : List Nat          -- name and/or id (disjoint namespaces encoded as different numbers)
  refs : List Nat          -- keys of the rules a correlation rule refers to ([] for detection rules)
  generate : Bool := false
deriving Repr, DecidableEq

/-- `names_to_rules` / `ids_to_rules`: a later document with the same key replaces an earlier one -/
def lookup (docs : List Doc) (k : Nat) : Option Nat :=
  let idxs := (List.range docs.length).filter (fun i => (docs.getD i ⟨[], [], false⟩).keys.contains k)
  idxs.getLast?

/-- references of document `i` as document indices; `none` = some reference is missing
(`SigmaRuleNotFoundError`) -/
def resolveDoc (docs : List Doc) (d : Doc) : Option (List Nat) :=
  d.refs.mapM (lookup docs)

def resolveAll (docs : List Doc) : Option (List (List Nat)) :=
  docs.mapM (resolveDoc docs)

/-- `_output`: disabled as soon as a correlation rule without `generate` refers to the rule -/
def outputFlag (docs : List Doc) (graph : List (List Nat)) (i : Nat) : Bool :=
  !(List.range docs.length).any (fun j =>
      (graph.getD j []).contains i && !(docs.getD j ⟨[], [], false⟩).generate)

/-- `outputFlag` with the guard of the `disable_output()` call as data: the output of a referenced
rule is disabled by a referring rule whose `generate` equals `disableWhen` (the code:
`if not self.generate: rule.disable_output()`, i.e. `disableWhen = false`).  Tied to the source by
`Gen/Coll.lean` / `Oblig/C09.lean`. -/
def outputFlagBy (disableWhen : Bool) (docs : List Doc) (graph : List (List Nat)) (i : Nat) : Bool :=
  !(List.range docs.length).any (fun j =>
      (graph.getD j []).contains i && ((docs.getD j ⟨[], [], false⟩).generate == disableWhen))

/-- the control shape of the nested `visit` function that the model `visit` below implements:
return if already visited; mark as visited; visit everything the rule refers to; emit the rule -/
def visitShape : List String := ["guard", "mark", "recurse", "emit"]

/-! ## `_sort_by_references`: stable depth-first topological order -/

structure St where
  visited : List Nat
  ordered : List Nat
deriving Repr

/-- `visit`; fuel bounds the recursion depth (the number of documents + 1 suffices: every level
marks a fresh node) -/
def visit (g : Nat → List Nat) : Nat → Nat → St → St
  | 0, _, st => st
  | f+1, v, st =>
    if st.visited.contains v then st
    else
      let st1 : St := { st with visited := v :: st.visited }
      let st2 := (g v).foldl (fun s w => visit g f w s) st1
      { st2 with ordered := st2.ordered ++ [v] }

def order (n : Nat) (g : Nat → List Nat) : List Nat :=
  ((List.range n).foldl (fun s v => visit g (n + 1) v s) ⟨[], []⟩).ordered

def graphFn (graph : List (List Nat)) : Nat → List Nat := fun i => graph.getD i []

/-! ## Conversion of a collection (`Backend.convert`) -/

inductive Outcome (Q E : Type)
  | ok (queries : List Q) (errors : List (Nat × E))
  | raised (rule : Nat) (e : E)
deriving Repr

/-- `conv i avail` = conversion of rule `i` on its own given which rules already have a conversion
result (`avail`); `.error` = a Sigma error.  A correlation rule needs the results of all rules it
refers to ("Conversion result not available" otherwise). -/
def convertAll {Q E : Type} (collect : Bool) (output : Nat → Bool)
    (conv : Nat → List Nat → Except E (List Q)) :
    List Nat → List Nat → List Q → List (Nat × E) → Outcome Q E
  | [], _, qs, es => .ok qs es
  | i :: rest, avail, qs, es =>
    match conv i avail with
    | .ok r => convertAll collect output conv rest (i :: avail) (if output i then qs ++ r else qs) es
    | .error e =>
      if collect then convertAll collect output conv rest avail qs (es ++ [(i, e)])
      else .raised i e

end SigmaVerif.Coll
