import SigmaVerif.Model.Cond
/-!
# Model of the reference validators (`sigma/validators/core/condition.py`:
DanglingDetectionValidator, DanglingConditionValidator) and of the uniqueness validators
(`metadata.py`: identifier / title / filename uniqueness), plus exclusions (`sigma/validation.py`).
-/
namespace SigmaVerif.Valid
open SigmaVerif.Cond

mutual
/-- detection names a (raw) parse tree refers to: identifiers by name, selectors by the detections
they select (`condition_referenced_ids`) -/
def referenced (dets : List Str) : PT → List Str
  | .id n => [n]
  | .sel _ pat => dets.filter (selMatches pat)
  | .not p => referenced dets p
  | .and ps => referencedL dets ps
  | .or ps => referencedL dets ps
def referencedL (dets : List Str) : List PT → List Str
  | [] => []
  | p :: ps => referenced dets p ++ referencedL dets ps
end

mutual
/-- selector patterns that select nothing (`condition_unknown_referenced_ids`) -/
def danglingSels (dets : List Str) : PT → List Str
  | .id _ => []
  | .sel _ pat => if (dets.filter (selMatches pat)).isEmpty then [pat] else []
  | .not p => danglingSels dets p
  | .and ps => danglingSelsL dets ps
  | .or ps => danglingSelsL dets ps
def danglingSelsL (dets : List Str) : List PT → List Str
  | [] => []
  | p :: ps => danglingSels dets p ++ danglingSelsL dets ps
end

/-- DanglingDetectionValidator on one rule: detections no condition refers to -/
def danglingDetections (dets : List Str) (conds : List PT) : List Str :=
  dets.filter (fun d => !(conds.flatMap (referenced dets)).contains d)

def danglingConditions (dets : List Str) (conds : List PT) : List Str :=
  (conds.flatMap (danglingSels dets)).eraseDups

/-- uniqueness validators: keys (id / title / file name) carried by at least two rules, with the
rules (by position) carrying them, in order of first occurrence -/
def groups (keys : List (Option Nat)) : List (Nat × List Nat) :=
  let present := (keys.filterMap id).eraseDups
  (present.map (fun k => (k, (List.range keys.length).filter (fun i => keys.getD i none == some k)))).filter
    (fun g => g.2.length > 1)

/-- exclusions: validator `v` runs on rule `r` unless `(rule id of r, v)` is excluded -/
def runs (excl : List (Option Nat × Nat)) (ruleId : Option Nat) (v : Nat) : Bool :=
  !excl.contains (ruleId, v)

end SigmaVerif.Valid
