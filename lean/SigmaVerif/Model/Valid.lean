import SigmaVerif.Model.Cond
/-!
# Model of the reference validators (`sigma/validators/core/condition.py`:
DanglingDetectionValidator, DanglingConditionValidator) and of the uniqueness validators
(`metadata.py`: identifier / title / filename uniqueness), plus exclusions (`sigma/validation.py`).
-/
namespace SigmaVerif.Valid
open SigmaVerif.Cond

mutual
/-- detection names a (raw) parse tree refers to: identifiers by name, selectors by the detections
they select (`condition_referenced_ids`) -/
def referenced (dets : List Str) : PT → List Str
  | .id n => [n]
  | .sel _ pat => dets.filter (selMatches pat)
  | .not p => referenced dets p
  | .and ps => referencedL dets ps
  | .or ps => referencedL dets ps
def referencedL (dets : List Str) : List PT → List Str
  | [] => []
  | p :: ps => referenced dets p ++ referencedL dets ps
end

mutual
/-- selector patterns that select nothing (`condition_unknown_referenced_ids`) -/
def danglingSels (dets : List Str) : PT → List Str
  | .id _ => []
  | .sel _ pat => if (dets.filter (selMatches pat)).isEmpty then [pat] else []
  | .not p => danglingSels dets p
  | .and ps => danglingSelsL dets ps
  | .or ps => danglingSelsL dets ps
def danglingSelsL (dets : List Str) : List PT → List Str
  | [] => []
  | p :: ps => danglingSels dets p ++ danglingSelsL dets ps
end

/-- DanglingDetectionValidator on one rule: detections no condition refers to -/
def danglingDetections (dets : List Str) (conds : List PT) : List Str :=
  dets.filter (fun d => !(conds.flatMap (referenced dets)).contains d)

def danglingConditions (dets : List Str) (conds : List PT) : List Str :=
  (conds.flatMap (danglingSels dets)).eraseDups

/-- uniqueness validators: keys (id / title / file name) carried by at least two rules, with the
rules (by position) carrying them, in order of first occurrence -/
def groups (keys : List (Option Nat)) : List (Nat × List Nat) :=
  let present := (keys.filterMap id).eraseDups
  (present.map (fun k => (k, (List.range keys.length).filter (fun i => keys.getD i none == some k)))).filter
    (fun g => g.2.length > 1)

/-- exclusions: validator `v` runs on rule `r` unless `(rule id of r, v)` is excluded -/
def runs (excl : List (Option Nat × Nat)) (ruleId : Option Nat) (v : Nat) : Bool :=
  !excl.contains (ruleId, v)

/-! ## Which of the registered validators the model covers (tied to the live registry by
`Gen/Valid.lean`, `Oblig/C19.lean`: a validator added to the code must be put into one of the lists) -/

/-- validators whose issues the model computes: `danglingDetections`, `danglingConditions`, `groups` -/
def modelled : List String :=
  ["dangling_detection", "dangling_condition", "identifier_uniqueness", "duplicate_title", "duplicate_filename"]

/-- validators the model says nothing about beyond "validation only observes" (checked statically for
all of them, and by the sweep): per-rule style checks of conditions, log sources, metadata, modifiers,
tags and values -/
def notModelled : List String :=
  ["all_of_them_condition", "them_condition_with_single_detection",
   "fieldname_logsource", "specific_instead_of_generic_logsource",
   "custom_attributes", "duplicate_references", "filename_length", "identifier_existence",
   "invalid_modifier_combinations",
   "attacktag", "cartag", "cvetag", "d3_fendtag", "detection_tag", "duplicate_tag", "namespace_tag", "stptag",
   "tlptag", "tlpv1_tag", "tlpv2_tag", "tag_format",
   "control_character", "double_wildcard", "escaped_wildcard", "number_as_string",
   "wildcards_instead_of_modifiers"]

/-- methods the validators call on the objects they are handed, reviewed as pure observers -/
def knownObservers : List String :=
  ["contains_special", "endswith", "items", "keys", "values", "get", "parse", "resolve_referenced_detections",
   "startswith", "lower", "upper", "count", "index", "find"]

end SigmaVerif.Valid
