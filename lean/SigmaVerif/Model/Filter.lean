import SigmaVerif.Model.Cond
/-!
# Model of `sigma/filters.py`: when a filter applies to a rule (`_should_apply_on_rule`,
`SigmaLogSource.__contains__`) and how its condition is rewritten (`apply_on_rule`).
-/
namespace SigmaVerif.Filter
open SigmaVerif.Cond

structure LogSource where
  category : Option Str
  product : Option Str
  service : Option Str
deriving Repr, DecidableEq

/-- `rule.logsource in filter.logsource`: every field the filter specifies equals the rule's -/
def LogSource.covers (f r : LogSource) : Bool :=
  (f.category.isNone || f.category == r.category) &&
  (f.product.isNone || f.product == r.product) &&
  (f.service.isNone || f.service == r.service)

inductive RuleList | any | refs (keys : List Str)
deriving Repr, DecidableEq

structure RuleInfo where
  isCorrelation : Bool
  logsource : LogSource
  keys : List Str           -- name and id of the rule
deriving Repr

/-- `_should_apply_on_rule` -/
def applies (flog : LogSource) (frules : RuleList) (r : RuleInfo) : Bool :=
  !r.isCorrelation && flog.covers r.logsource &&
  (match frules with
   | .any => true
   | .refs ks => ks.any r.keys.contains)

/-! ## Condition rewriting: `re.sub(r"[a-zA-Z0-9_*][a-zA-Z0-9*_-]*", _replace_token, cond)` -/

def startChars : List Char := alnum ++ ['_', '*']
def bodyChars : List Char := alnum ++ ['*', '_', '-']
def keywords : List Str := ["not", "and", "or", "all", "any", "of", "1"].map String.toList

def replaceToken (pre : Str) (tok : Str) : Str :=
  if keywords.contains tok then tok
  else if tok == "them".toList then pre ++ "_*".toList
  else pre ++ '_' :: tok

/-- leftmost-longest token scan; fuel = string length -/
def rewriteF (pre : Str) : Nat → Str → Str
  | 0, s => s
  | _+1, [] => []
  | f+1, c :: s =>
    if startChars.contains c then
      let body := (spanChars bodyChars s).1
      let rest := (spanChars bodyChars s).2
      replaceToken pre (c :: body) ++ rewriteF pre f rest
    else c :: rewriteF pre f s

def rewrite (pre : Str) (s : Str) : Str := rewriteF pre (s.length + 1) s

/-- the condition of a filtered rule -/
def combine (ruleCond filterCond : Str) : Str :=
  "(".toList ++ ruleCond ++ ") and (".toList ++ filterCond ++ ")".toList

end SigmaVerif.Filter
