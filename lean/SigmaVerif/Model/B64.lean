/-!
# Model of the encoding modifiers (`sigma/modifiers.py`: base64, base64offset, wide/utf16le,
utf16be, utf16) and of the byte-level primitives they use (`base64.b64encode`,
`str.encode("utf-8"|"utf-16le"|"utf-16be")`, `bytes.decode("utf-8")`).

Bytes are `Nat`s `< 256`, characters are code points (`Nat`), so that the model also covers the
intermediate strings of the "encode as UTF-16, decode as UTF-8" trick.  No imports.
-/
namespace SigmaVerif.B64

abbrev Byte := Nat
abbrev CP := Nat        -- Unicode code point

def alphabet : List Char :=
  "ABCDEFGHIJKLMNOPQRSTUVWXYZabcdefghijklmnopqrstuvwxyz0123456789+/".toList

def byteAt (x : List Byte) (k : Nat) : Nat := x.getD k 0

/-- 6-bit value of output position `j` (textbook case split on the bit offset `6j mod 8`) -/
def sextet (x : List Byte) (j : Nat) : Nat :=
  let k := 6 * j / 8
  match 6 * j % 8 with
  | 0 => byteAt x k / 4
  | 6 => (byteAt x k % 4) * 16 + byteAt x (k + 1) / 16
  | 4 => (byteAt x k % 16) * 4 + byteAt x (k + 1) / 64
  | _ => byteAt x k % 64

/-- number of output characters that carry data: ⌈8n/6⌉ -/
def dataChars (n : Nat) : Nat := (8 * n + 5) / 6
/-- padded output length -/
def encLen (n : Nat) : Nat := 4 * ((n + 2) / 3)

def b64char (x : List Byte) (j : Nat) : Char :=
  if j < dataChars x.length then alphabet.getD (sextet x j) '?' else '='

/-- `base64.b64encode`, defined position by position -/
def b64 (x : List Byte) : List Char := (List.range (encLen x.length)).map (b64char x)

/-- RFC 4648 as the textbook states it: three bytes become four characters; one or two trailing
bytes are zero-filled and padded with `=` -/
def b64Spec : List Byte → List Char
  | [] => []
  | [a] => [alphabet.getD (a / 4) '?', alphabet.getD (a % 4 * 16) '?', '=', '=']
  | [a, b] => [alphabet.getD (a / 4) '?', alphabet.getD (a % 4 * 16 + b / 16) '?',
               alphabet.getD (b % 16 * 4) '?', '=']
  | a :: b :: c :: rest =>
      alphabet.getD (a / 4) '?' :: alphabet.getD (a % 4 * 16 + b / 16) '?' ::
      alphabet.getD (b % 16 * 4 + c / 64) '?' :: alphabet.getD (c % 64) '?' :: b64Spec rest

/-- `start_offsets` / `end_offsets` of `SigmaBase64OffsetModifier`; `cuts[r]` is the number of
characters removed from the end (Python `None`, `-3`, `-2` ↦ 0, 3, 2) -/
structure Tables where
  starts : List Nat
  cuts : List Nat
deriving Repr, DecidableEq

def stdTables : Tables := { starts := [0, 2, 3], cuts := [0, 3, 2] }

/-- Python `s[a : len(s) - c]` -/
def slice (s : List Char) (a c : Nat) : List Char := (s.take (s.length - c)).drop a

/-- the value produced for alignment `i`; `lenV` is the length the code uses to pick the cut -/
def b64offsetAt (T : Tables) (lenV : Nat) (v : List Byte) (i : Nat) : List Char :=
  slice (b64 (List.replicate i 32 ++ v)) (T.starts.getD i 0) (T.cuts.getD ((lenV + i) % 3) 0)

def b64offset (T : Tables) (lenV : Nat) (v : List Byte) : List (List Char) :=
  (List.range 3).map (b64offsetAt T lenV v)

/-- the values of a detection item whose value is a *list* of payloads (`f|base64offset: [v1, v2, …]`):
the modifier is applied to every element, the item matches when any of the values occurs -/
def b64offsetList (T : Tables) (vs : List (List Byte)) : List (List Char) :=
  vs.flatMap (fun v => b64offset T v.length v)

/-- decidable soundness condition on the tables: pointwise at least as conservative as the minimal
ones, and of the right length -/
def Tables.sound (T : Tables) : Bool :=
  T.starts.length == 3 && T.cuts.length == 3 &&
  decide (0 ≤ T.starts.getD 0 0) && decide (2 ≤ T.starts.getD 1 0) && decide (3 ≤ T.starts.getD 2 0) &&
  decide (0 ≤ T.cuts.getD 0 0) && decide (3 ≤ T.cuts.getD 1 0) && decide (2 ≤ T.cuts.getD 2 0)

/-! ## UTF-8 and UTF-16 -/

def isSurrogate (c : CP) : Bool := 0xD800 ≤ c && c ≤ 0xDFFF

/-- `str.encode("utf-8")` for a scalar value (surrogates are rejected by Python: `none`) -/
def utf8encCP (c : CP) : Option (List Byte) :=
  if c < 0x80 then some [c]
  else if c < 0x800 then some [0xC0 + c / 64, 0x80 + c % 64]
  else if isSurrogate c then none
  else if c < 0x10000 then some [0xE0 + c / 4096, 0x80 + c / 64 % 64, 0x80 + c % 64]
  else if c < 0x110000 then some [0xF0 + c / 262144, 0x80 + c / 4096 % 64, 0x80 + c / 64 % 64, 0x80 + c % 64]
  else none

def utf8enc : List CP → Option (List Byte)
  | [] => some []
  | c :: cs =>
    match utf8encCP c, utf8enc cs with
    | some a, some b => some (a ++ b)
    | _, _ => none

def isCont (b : Byte) : Bool := 0x80 ≤ b && b < 0xC0

/-- strict `bytes.decode("utf-8")`: shortest form only, no surrogates, at most U+10FFFF -/
def utf8dec : List Byte → Option (List CP)
  | [] => some []
  | b0 :: rest =>
    if b0 < 0x80 then (utf8dec rest).map (b0 :: ·)
    else if b0 < 0xC2 then none
    else if b0 < 0xE0 then
      match rest with
      | b1 :: r =>
        if isCont b1 then (utf8dec r).map (((b0 - 0xC0) * 64 + (b1 - 0x80)) :: ·) else none
      | _ => none
    else if b0 < 0xF0 then
      match rest with
      | b1 :: b2 :: r =>
        let c := (b0 - 0xE0) * 4096 + (b1 - 0x80) * 64 + (b2 - 0x80)
        if isCont b1 && isCont b2 && 0x800 ≤ c && !isSurrogate c then (utf8dec r).map (c :: ·) else none
      | _ => none
    else if b0 < 0xF5 then
      match rest with
      | b1 :: b2 :: b3 :: r =>
        let c := (b0 - 0xF0) * 262144 + (b1 - 0x80) * 4096 + (b2 - 0x80) * 64 + (b3 - 0x80)
        if isCont b1 && isCont b2 && isCont b3 && 0x10000 ≤ c && c < 0x110000 then (utf8dec r).map (c :: ·) else none
      | _ => none
    else none

/-- UTF-16 code units of a scalar value -/
def utf16units (c : CP) : Option (List Nat) :=
  if isSurrogate c then none
  else if c < 0x10000 then some [c]
  else if c < 0x110000 then some [0xD800 + (c - 0x10000) / 1024, 0xDC00 + (c - 0x10000) % 1024]
  else none

def unitsLE (us : List Nat) : List Byte := us.flatMap (fun u => [u % 256, u / 256])
def unitsBE (us : List Nat) : List Byte := us.flatMap (fun u => [u / 256, u % 256])

def utf16 (be : Bool) : List CP → Option (List Byte)
  | [] => some []
  | c :: cs =>
    match utf16units c, utf16 be cs with
    | some u, some b => some ((if be then unitsBE u else unitsLE u) ++ b)
    | _, _ => none

/-- the modifiers' trick: `s.encode("utf-16le"/"utf-16be").decode("utf-8")` — the new string, or
`none` when Python raises `UnicodeDecodeError` (mapped to a Sigma error by the modifier) -/
def wideTrick (be : Bool) (s : List CP) : Option (List CP) :=
  match utf16 be s with
  | some b => utf8dec b
  | none => none

end SigmaVerif.B64
