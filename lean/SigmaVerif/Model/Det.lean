import SigmaVerif.Model.Cond
import SigmaVerif.Model.Filter
/-!
# Model for C20: where CPython's set iteration order or the `random` module could reach output

A Lean function is deterministic, so the model makes the two sources of nondeterminism explicit:

* **hash order** — a Python `set` is a list *in an arbitrary enumeration order*; "independent of the
  hash seed" means: the result is the same for any two enumerations that are permutations of each
  other (`List.Perm`; for error texts and trees equality, for tracking state equality as sets).
  Modelled sites: rendering of regular expression flags (`SigmaRegularExpression.escape`), the error
  messages that join key sets (`correlations.py`, `pipeline.py`, `failure.py`, `validation.py`), the
  dangling-reference validators, the validator collection, `FieldMappingTracking.add_mapping` /
  `merge` (dict of sets with its reverse dict of sets) and `_generate_identifier`.
* **random draws** — the name drawn by `AddConditionTransformation` (`_cond_` + 10 letters) and the
  prefix drawn by `SigmaFilter.apply_on_rule` (`_filt_` + 10 letters) are *parameters*.  What the
  backend sees is the condition tree whose leaves are detection *contents* (`resolveC`, built on the
  C02 model `Cond.parse` / `Cond.selMatches`), so names are consumed by resolution.

Not modelled (trusted / covered by the subprocess sweep only): CPython's actual hash order, the
`random` module, `hashlib`, the YAML loader.  No Mathlib import: compiled into the driver.
-/
namespace SigmaVerif.Det
open SigmaVerif.Cond

/-! ## 0. Tables the translator regenerates (`Gen/Det.lean`) -/

/-- one place in the source where a set-typed expression is consumed -/
structure Site where
  file : String
  func : String
  expr : String            -- source text of the set-typed expression
  kind : String            -- join | fstring | str | format | for | comp | list | tuple | star | sorted …
  sorted : Bool            -- the set goes through `sorted(...)` first
  ordered : Bool           -- the consumption is (syntactically) order revealing
  sink : String            -- raise | return | yield | state | local
  loopVarEscapes : Bool    -- a `for` variable over the set is read after the loop
deriving Repr, DecidableEq

/-- a generator of random internal names: `<pfx> + "".join(random.choices(<alphabet>, k=<length>))` -/
structure RandName where
  file : String
  func : String
  pfx : String
  alphabet : String
  length : Nat
deriving Repr, DecidableEq

/-- sites are identified by file, function and kind of consumption (not by the spelling of the
expression, so that renaming a local variable changes nothing) -/
def Site.key (s : Site) : String × String × String := (s.file, s.func, s.kind)

/-! ## 1. Sorting and joining strings (Python `sorted` on `str`, `sep.join`) -/

/-- Python's ordering of `str`: lexicographic by code point -/
def strLe : Str → Str → Bool
  | [], _ => true
  | _ :: _, [] => false
  | a :: as, b :: bs => a.toNat < b.toNat || (a.toNat == b.toNat && strLe as bs)

/-- insertion into a sorted list (structural, so that closed examples reduce) -/
def insertBy (le : α → α → Bool) (x : α) : List α → List α
  | [] => [x]
  | y :: ys => if le x y then x :: y :: ys else y :: insertBy le x ys

/-- insertion sort; for a total order it returns THE sorted arrangement, as Python's `sorted` does -/
def isort (le : α → α → Bool) : List α → List α
  | [] => []
  | x :: xs => insertBy le x (isort le xs)

/-- `sorted(xs)` for strings -/
def sortStrs (l : List Str) : List Str := isort strLe l

/-- `sep.join(xs)` -/
def joinWith (sep : Str) : List Str → Str
  | [] => []
  | [a] => a
  | a :: b :: r => a ++ sep ++ joinWith sep (b :: r)

/-- a set rendered as the code does after the fixes: `sep.join(sorted(s))` -/
def renderSorted (sep : Str) (enum : List Str) : Str := joinWith sep (sortStrs enum)

/-- a set rendered without sorting: `sep.join(s)` (what the code did before the fixes) -/
def renderUnsorted (sep : Str) (enum : List Str) : Str := joinWith sep enum

def commaSep : Str := ", ".toList

/-! ### error messages that contain key sets -/

/-- `SigmaCorrelationCondition.from_dict` -/
def msgUnknownKeys (unknown : List Str) : Str :=
  "Sigma correlation condition contains invalid items: ".toList ++ renderSorted commaSep unknown

/-- `ProcessingItemBase._resolve_condition_expression` -/
def msgUnreferenced (name : Str) (unreferenced : List Str) : Str :=
  name ++ " contains unreferenced condition items: ".toList ++ renderSorted commaSep unreferenced

/-- `StrictFieldMappingFailure.apply`: the fields of the rule (a set) are visited in sorted order,
the unmapped ones are collected in that order and joined -/
def msgUnmapped (isMapped : Str → Bool) (allFields : List Str) : Str :=
  "The following fields are not mapped: ".toList ++
    joinWith commaSep ((sortStrs allFields).filter (fun f => !isMapped f))

/-- the same loop without `sorted` (before the fix) -/
def msgUnmappedUnsorted (isMapped : Str → Bool) (allFields : List Str) : Str :=
  "The following fields are not mapped: ".toList ++
    joinWith commaSep (allFields.filter (fun f => !isMapped f))

/-- `SigmaValidator.from_dict`: `f"… from validator set { sorted(vs) }."` prints a Python list -/
def pyListRepr (xs : List Str) : Str :=
  '[' :: joinWith commaSep (xs.map (fun x => '\'' :: x ++ ['\''])) ++ [']']

def msgRemoveValidator (vn : Str) (vs : List Str) : Str :=
  "Attempting to remove not existing validator '".toList ++ vn ++ "' from validator set ".toList ++
    pyListRepr (sortStrs vs) ++ ".".toList

/-- `DanglingDetectionValidator.validate`: one issue per name of
`sorted(detection_names - referenced_ids)` -/
def danglingIssues (detectionNames referenced : List Str) : List Str :=
  sortStrs (detectionNames.filter (fun n => !referenced.contains n))

/-! ### regular expression flags (`SigmaRegularExpression.escape`) -/

inductive Flag | i | m | s
deriving Repr, DecidableEq

def Flag.text : Flag → Str
  | .i => ['i'] | .m => ['m'] | .s => ['s']

/-- `"(?" + "".join(sorted(sigma_to_re_flag[f] for f in self.flags)) + ")"`, empty without flags -/
def renderFlags (flags : List Flag) : Str :=
  if flags.isEmpty then [] else "(?".toList ++ joinWith [] (sortStrs (flags.map Flag.text)) ++ [')']

/-- the same without `sorted` (mutation (i) of the harness) -/
def renderFlagsUnsorted (flags : List Flag) : Str :=
  if flags.isEmpty then [] else "(?".toList ++ joinWith [] (flags.map Flag.text) ++ [')']

/-! ## 2. Validators (`SigmaValidator`) -/

/-- `dict.fromkeys(validators)`: duplicates removed, first occurrence kept, order kept -/
def dedupKeepFirst [BEq α] (l : List α) : List α := l.eraseDups

/-- the issue list of `validate_rules`: for every rule in order, every validator in order; then the
finalisation issues of every validator in order.  `perRule v i` are the issues validator `v` emits for
the `i`-th rule, `final v` its finalisation issues (both determined by `v` and the rule sequence). -/
def validateRules (perRule : ν → Nat → List ι) (final : ν → List ι) (validators : List ν) (nRules : Nat) :
    List ι :=
  (List.range nRules).flatMap (fun i => validators.flatMap (fun v => perRule v i)) ++
    validators.flatMap final

/-! ## 3. Field mapping tracking (`FieldMappingTracking`)

A dict of sets is an ordered key list plus a relation.  `keys`/`pairs` is the forward dict
(`self[source]` ∋ target), `rkeys`/`rpairs` the reverse dict `target_fields` (`target_fields[t]` ∋ s).
Lists stand for sets in an arbitrary enumeration (duplicates are harmless); only `keys` is an ordered
dict key list (it is iterated by `merge`). -/

abbrev Key := Option Str

structure Track where
  keys : List Key
  pairs : List (Key × Key)
  rkeys : List Key
  rpairs : List (Key × Key)
deriving Repr

def Track.empty : Track := ⟨[], [], [], []⟩

/-- `self.target_fields[t]` in some enumeration -/
def Track.sourcesOf (S : Track) (t : Key) : List Key := (S.rpairs.filter (fun p => p.1 == t)).map (·.2)
/-- `self[s]` in some enumeration -/
def Track.targetsOf (S : Track) (s : Key) : List Key := (S.pairs.filter (fun p => p.1 == s)).map (·.2)

/-- the first half of `add_mapping`: `source` was itself the target of earlier mappings -/
def remap (S : Track) (src : Key) (tgt : List Key) : Track :=
  if S.rkeys.contains src then
    let sfs := S.sourcesOf src
    { keys := S.keys
      pairs := S.pairs.filter (fun p => !(sfs.contains p.1 && p.2 == src && src.isSome)) ++
                 sfs.flatMap (fun sf => tgt.map (fun t => (sf, t)))
      rkeys := S.rkeys.filter (fun k => k != src) ++ tgt
      rpairs := S.rpairs.filter (fun p => p.1 != src) ++
                  tgt.flatMap (fun t => sfs.map (fun sf => (t, sf))) }
  else S

/-- `FieldMappingTracking.add_mapping(source, target)` (after the fix `2178638`: the reverse dict is
updated with *all* previous sources) -/
def addMapping (S : Track) (src : Key) (tgt : List Key) : Track :=
  let S1 := remap S src tgt
  { keys := if S1.keys.contains src then S1.keys else S1.keys ++ [src]
    pairs := S1.pairs ++ tgt.map (fun t => (src, t))
    rkeys := S1.rkeys ++ tgt
    rpairs := S1.rpairs ++ tgt.map (fun t => (t, src)) }

/-- the code before the fix: the reverse dict was updated with the loop variable after the loop, i.e.
with the LAST source of the enumeration only -/
def remapLeaky (S : Track) (src : Key) (tgt : List Key) : Track :=
  if S.rkeys.contains src then
    let sfs := S.sourcesOf src
    { keys := S.keys
      pairs := S.pairs.filter (fun p => !(sfs.contains p.1 && p.2 == src && src.isSome)) ++
                 sfs.flatMap (fun sf => tgt.map (fun t => (sf, t)))
      rkeys := S.rkeys.filter (fun k => k != src) ++ tgt
      rpairs := S.rpairs.filter (fun p => p.1 != src) ++
                  (match sfs.getLast? with
                   | some last => tgt.map (fun t => (t, last))
                   | none => []) }
  else S

def addMappingLeaky (S : Track) (src : Key) (tgt : List Key) : Track :=
  let S1 := remapLeaky S src tgt
  { keys := if S1.keys.contains src then S1.keys else S1.keys ++ [src]
    pairs := S1.pairs ++ tgt.map (fun t => (src, t))
    rkeys := S1.rkeys ++ tgt
    rpairs := S1.rpairs ++ tgt.map (fun t => (t, src)) }

/-- a sequence of `add_mapping` calls -/
def runOps (S : Track) (ops : List (Key × List Key)) : Track :=
  ops.foldl (fun acc op => addMapping acc op.1 op.2) S

def runOpsLeaky (S : Track) (ops : List (Key × List Key)) : Track :=
  ops.foldl (fun acc op => addMappingLeaky acc op.1 op.2) S

/-- `other.items()` as `add_mapping` arguments: keys in dict order, each with `list(target_set)` in
whatever enumeration the set has -/
def Track.items (O : Track) : List (Key × List Key) := O.keys.map (fun k => (k, O.targetsOf k))

/-- `FieldMappingTracking.merge(other)` -/
def merge (S O : Track) : Track := runOps S O.items

/-- two enumerations of the same set -/
def SetEq (a b : List α) : Prop := ∀ x, x ∈ a ↔ x ∈ b

/-- two representations of the same tracking state: same dict keys in the same order, same sets -/
structure Track.Equiv (S T : Track) : Prop where
  keys : S.keys = T.keys
  pairs : SetEq S.pairs T.pairs
  rkeys : SetEq S.rkeys T.rkeys
  rpairs : SetEq S.rpairs T.rpairs

/-- canonical rendering of a tracking state for comparison with the implementation: the forward dict
in key order with sorted targets; the reverse dict as sorted pairs -/
def keyStr : Key → Str
  | none => []
  | some s => s

/-- `None` last (the order the harness prints set-valued state in) -/
def keyLe (a b : Key) : Bool :=
  match a, b with
  | _, none => true
  | none, some _ => false
  | some x, some y => strLe x y

def dedupSorted (l : List Key) : List Key := (isort keyLe l).eraseDups

def Track.render (S : Track) : List (Key × List Key) :=
  S.keys.map (fun k => (k, dedupSorted (S.targetsOf k)))

def Track.renderRev (S : Track) : List (Key × List Key) :=
  (dedupSorted S.rkeys).map (fun k => (k, dedupSorted (S.sourcesOf k)))

/-! ## 4. `ProcessingItemBase._generate_identifier` -/

/-- `str(sorted(transformation.__dict__.items()))` with values already rendered (`repr`): sorted by
attribute name (names are unique, so values are never compared) -/
def sortItems (items : List (Str × Str)) : List (Str × Str) :=
  isort (fun a b => strLe a.1 b.1) items

def renderItems (items : List (Str × Str)) : Str :=
  '[' :: joinWith commaSep ((sortItems items).map (fun kv =>
    "('".toList ++ kv.1 ++ "', ".toList ++ kv.2 ++ ")".toList)) ++ [']']

/-- the text that is hashed: class name, sorted attribute dict, the condition lists (lists, in
configuration order), the three negation flags -/
def identifierContent (className : Str) (items : List (Str × Str)) (conds : List Str) : Str :=
  joinWith ['|'] ([className, renderItems items] ++ conds)

/-- the identifier, for an arbitrary hash function (`sha256(...).hexdigest()[:16]`) -/
def generateIdentifier (hash : Str → Str) (className : Str) (items : List (Str × Str))
    (conds : List Str) : Str :=
  hash (identifierContent className items conds)

/-! ## 5. What the backend sees: the condition tree over detection *contents* -/

/-- resolved condition tree: leaves are the contents of detections (type parameter `δ`), there is no
place for a name -/
inductive DT (δ : Type)
  | det (d : δ)
  | not (c : DT δ)
  | and (cs : List (DT δ))
  | or (cs : List (DT δ))
deriving Repr

/-- `rule.detection.detections`: an insertion-ordered dict name ↦ content -/
abbrev Env (δ : Type) := List (Str × δ)

def Env.keys (env : Env δ) : List Str := env.map (·.1)

def Env.lookup (env : Env δ) (n : Str) : Option δ := (env.find? (fun e => e.1 == n)).map (·.2)

/-- `detections[name] = content`: replace in place if the key exists, else append -/
def Env.set (env : Env δ) (n : Str) (d : δ) : Env δ :=
  if env.keys.contains n then env.map (fun e => if e.1 == n then (n, d) else e) else env ++ [(n, d)]

mutual
/-- `SigmaCondition.parsed` post-processing (`ConditionIdentifier.postprocess`,
`ConditionSelector.postprocess`, `ConditionItem.postprocess`) with the detection objects in the
leaves; same control flow as `Cond.resolve` (`resolveC_eq_resolve` in `Lemmas/C20Names.lean`) -/
def resolveC (env : Env δ) : PT → Res (Option (DT δ))
  | .id n =>
    match env.lookup n with
    | some d => .ok (some (.det d))
    | none => .undefinedDet n
  | .sel q pat =>
    let ms := (env.filter (fun e => selMatches pat e.1)).map (·.2)
    match ms with
    | [] => .ok none
    | [m] => .ok (some (.det m))
    | _ => .ok (some (match q with | .any => .or (ms.map .det) | .all => .and (ms.map .det)))
  | .not p =>
    match resolveC env p with
    | .ok (some c) => .ok (some (.not c))
    | .ok none => .ok none
    | .undefinedDet n => .undefinedDet n
  | .and ps =>
    match resolveCList env ps with
    | .ok [] => .ok none
    | .ok [c] => .ok (some c)
    | .ok cs => .ok (some (.and cs))
    | .undefinedDet n => .undefinedDet n
  | .or ps =>
    match resolveCList env ps with
    | .ok [] => .ok none
    | .ok [c] => .ok (some c)
    | .ok cs => .ok (some (.or cs))
    | .undefinedDet n => .undefinedDet n
def resolveCList (env : Env δ) : List PT → Res (List (DT δ))
  | [] => .ok []
  | p :: ps =>
    match resolveC env p with
    | .undefinedDet n => .undefinedDet n
    | .ok oc =>
      match resolveCList env ps with
      | .undefinedDet n => .undefinedDet n
      | .ok cs => .ok (match oc with | some c => c :: cs | none => cs)
end

mutual
/-- identifiers a parse tree mentions -/
def PT.ids : PT → List Str
  | .id n => [n]
  | .sel _ _ => []
  | .not p => PT.ids p
  | .and ps => PT.idsList ps
  | .or ps => PT.idsList ps
def PT.idsList : List PT → List Str
  | [] => []
  | p :: ps => PT.ids p ++ PT.idsList ps
end

mutual
/-- selector patterns a parse tree mentions -/
def PT.pats : PT → List Str
  | .id _ => []
  | .sel _ p => [p]
  | .not p => PT.pats p
  | .and ps => PT.patsList ps
  | .or ps => PT.patsList ps
def PT.patsList : List PT → List Str
  | [] => []
  | p :: ps => PT.pats p ++ PT.patsList ps
end

mutual
/-- rename identifiers by `fi` and patterns by `fp` -/
def PT.mapNames (fi fp : Str → Str) : PT → PT
  | .id n => .id (fi n)
  | .sel q p => .sel q (fp p)
  | .not p => .not (PT.mapNames fi fp p)
  | .and ps => .and (PT.mapNamesList fi fp ps)
  | .or ps => .or (PT.mapNamesList fi fp ps)
def PT.mapNamesList (fi fp : Str → Str) : List PT → List PT
  | [] => []
  | p :: ps => PT.mapNames fi fp p :: PT.mapNamesList fi fp ps
end

mutual
/-- the contents in the leaves of a resolved tree -/
def DT.leaves : DT δ → List δ
  | .det d => [d]
  | .not c => DT.leaves c
  | .and cs => DT.leavesList cs
  | .or cs => DT.leavesList cs
def DT.leavesList : List (DT δ) → List δ
  | [] => []
  | c :: cs => DT.leaves c ++ DT.leavesList cs
end

/-! ### `AddConditionTransformation` -/

/-- `apply_condition`: `("not " if negated else "") + name + " and (" + cond + ")"`, or just the
(negated) name when the condition is empty -/
def addCondText (negated : Bool) (name cond : Str) : Str :=
  (if negated then "not ".toList else []) ++
    (if cond.isEmpty then name else name ++ " and (".toList ++ cond ++ ")".toList)

/-- the rule after `AddConditionTransformation.apply`: the new detection is stored under the drawn
name, every condition is rewritten and re-parsed; the result per condition is what the backend
converts -/
def applyAddCond (g : Grammar) (env : Env δ) (conds : List Str) (negated : Bool) (name : Str) (d : δ) :
    List (Option (Res (Option (DT δ)))) :=
  conds.map (fun c => (parse g (addCondText negated name c)).map (resolveC (env.set name d)))

/-- the operand a drawn name contributes at the head of a rewritten condition -/
def headLeaf (negated : Bool) (name : Str) : PT := if negated then .not (.id name) else .id name

/-- the shape of every parse of `name ++ rest`: the head operand, optionally continued by AND
operands `a`, optionally continued by OR operands `o` -/
def fillHead (a o : List PT) (h : PT) : PT :=
  let x := match a with | [] => h | _ => PT.and (h :: a)
  match o with | [] => x | _ => PT.or (x :: o)

/-- a name as the generators draw it: the prefix followed by `len` letters of the alphabet -/
def isDrawn (pfx alphabet : Str) (len : Nat) (n : Str) : Prop :=
  ∃ w, n = pfx ++ w ∧ w.length = len ∧ ∀ c ∈ w, c ∈ alphabet

def lowercase : Str := "abcdefghijklmnopqrstuvwxyz".toList
def condPrefix : Str := "_cond_".toList
def filtPrefix : Str := "_filt_".toList
def drawLen : Nat := 10

/-! ### Filters: the tree after `SigmaFilter.apply_on_rule` -/

/-- the names under which the filter's detections are injected -/
def prefixEnv (pre : Str) (fenv : Env δ) : Env δ := fenv.map (fun e => (pre ++ '_' :: e.1, e.2))

def prefixName (pre : Str) (n : Str) : Str := pre ++ '_' :: n
def prefixPat (pre : Str) (p : Str) : Str :=
  if p = "them".toList then pre ++ "_*".toList else pre ++ '_' :: p

/-- parse tree of `(rule condition) and (rewritten filter condition)`: both operands are parenthesised
in the text, so they are the two operands of one AND node (C11: `rewrite_pp` shows that the token
rewriting is `mapNames` on the canonical spelling) -/
def filteredTree (pre : Str) (R F : PT) : PT :=
  .and [R, PT.mapNames (prefixName pre) (prefixPat pre) F]

/-- `for name, cond in filter.detections.items(): rule.detections[prefix + "_" + name] = cond` -/
def filteredEnv (pre : Str) (renv fenv : Env δ) : Env δ :=
  fenv.foldl (fun acc e => acc.set (pre ++ '_' :: e.1) e.2) renv

end SigmaVerif.Det
