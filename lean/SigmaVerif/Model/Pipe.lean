/-!
# Model of pipeline composition (`ProcessingPipeline.__add__`, `ProcessingPipelineResolver.resolve`,
`Backend.init_processing_pipeline`, stage order of a conversion) and of the *ownership* side effect
of `+` that makes conversions depend on history (C14, C15).  No imports.
-/
namespace SigmaVerif.Pipe

/-- a pipeline as a value: identities of its transformation items, query post-processing items and
finalizers (in order) and its variables (association list, later entries win on lookup) -/
structure P where
  items : List Nat
  post : List Nat
  fins : List Nat
  vars : List (Nat × Nat)
deriving Repr, DecidableEq

def P.empty : P := ⟨[], [], [], []⟩

/-- `p1 + p2` -/
def P.add (a b : P) : P :=
  ⟨a.items ++ b.items, a.post ++ b.post, a.fins ++ b.fins, a.vars ++ b.vars⟩

/-- `{**a.vars, **b.vars}[k]`: the last binding wins -/
def lookupVar (vars : List (Nat × Nat)) (k : Nat) : Option Nat :=
  ((vars.filter (fun kv => kv.1 == k)).getLast?).map (·.2)

/-! ## Resolver: sort by (priority, spec), then sum -/

structure Spec where
  priority : Nat
  name : Nat            -- the specifier string (names are compared as strings; here an order-isomorphic number)
  pipe : P
deriving Repr, DecidableEq

def Spec.le (a b : Spec) : Bool :=
  a.priority < b.priority || (a.priority == b.priority && a.name ≤ b.name)

/-- stable insertion sort (Python's `sorted` is stable) -/
def insertSorted (x : Spec) : List Spec → List Spec
  | [] => [x]
  | y :: ys => if !Spec.le x y then y :: insertSorted x ys else x :: y :: ys

def sortSpecs : List Spec → List Spec
  | [] => []
  | x :: xs => insertSorted x (sortSpecs xs)

/-- NOTE: `sortSpecs` processes the list from the right so that among equal keys the earlier
element stays first (stability). -/
def resolve (specs : List Spec) : P :=
  (sortSpecs specs).foldl (fun acc s => acc.add s.pipe) P.empty

/-- `init_processing_pipeline`: backend pipeline, then the user's, then the output format's -/
def initPipeline (backend user fmt : P) : P := (backend.add user).add fmt

/-! ## The code-shaped choices as parameters (tied to the source by `Gen/Compose.lean`, `Oblig/C14.lean`)

`P.add`, `Spec.le`, `resolve` and `initPipeline` above bake in what the code does today.  The
definitions below take those choices as data, so that the translator can regenerate the data from the
source and the obligations can state that the parametrised definitions, at the generated values, are
the ones the theorems are about. -/

/-- what `ProcessingPipeline.__add__` does per constructor argument: for the three lists whether the
left operand's list comes first, for `vars` whether the right operand wins on a common key -/
structure AddShape where
  itemsSelfFirst : Bool
  postSelfFirst : Bool
  finsSelfFirst : Bool
  varsOtherWins : Bool
deriving Repr, DecidableEq

/-- the shape the model `P.add` implements -/
def AddShape.std : AddShape := ⟨true, true, true, true⟩

def P.addBy (sh : AddShape) (a b : P) : P :=
  ⟨bif sh.itemsSelfFirst then a.items ++ b.items else b.items ++ a.items,
   bif sh.postSelfFirst then a.post ++ b.post else b.post ++ a.post,
   bif sh.finsSelfFirst then a.fins ++ b.fins else b.fins ++ a.fins,
   bif sh.varsOtherWins then a.vars ++ b.vars else b.vars ++ a.vars⟩

/-- a component of the resolver's sort key: the pipeline's `priority`, or the specifier string the
pipeline was requested under -/
inductive KeyComp
  | priority | spec
deriving Repr, DecidableEq

def KeyComp.get : KeyComp → Spec → Nat
  | .priority, s => s.priority
  | .spec, s => s.name

/-- lexicographic comparison of the key tuples (Python tuple comparison) -/
def keyLe : List KeyComp → Spec → Spec → Bool
  | [], _, _ => true
  | k :: ks, a, b => k.get a < k.get b || (k.get a == k.get b && keyLe ks a b)

def insertSortedBy (le : Spec → Spec → Bool) (x : Spec) : List Spec → List Spec
  | [] => [x]
  | y :: ys => if !le x y then y :: insertSortedBy le x ys else x :: y :: ys

/-- stable insertion sort with an arbitrary comparison -/
def sortSpecsBy (le : Spec → Spec → Bool) : List Spec → List Spec
  | [] => []
  | x :: xs => insertSortedBy le x (sortSpecsBy le xs)

/-- the resolver with the sort key as a parameter -/
def resolveBy (ks : List KeyComp) (specs : List Spec) : P :=
  (sortSpecsBy (keyLe ks) specs).foldl (fun acc s => acc.add s.pipe) P.empty

/-- the key the model `Spec.le` / `resolve` implements -/
def stdKey : List KeyComp := [.priority, .spec]

/-- the three pipelines a backend combines -/
inductive Slot
  | backend | user | format
deriving Repr, DecidableEq

def Slot.pick (b u f : P) : Slot → P
  | .backend => b
  | .user => u
  | .format => f

/-- `init_processing_pipeline` with the order of the operands of `+` as a parameter -/
def initPipelineBy (order : List Slot) (b u f : P) : P :=
  order.foldl (fun acc s => acc.add (s.pick b u f)) P.empty

def stdInitOrder : List Slot := [.backend, .user, .format]

/-! ## Stage order of one conversion -/

inductive Ev
  | transform (item : Nat) (rule : Nat)
  | convert (rule : Nat) (cond : Nat)
  | postprocess (item : Nat) (rule : Nat) (cond : Nat)
  | finalize (fin : Nat)
deriving Repr, DecidableEq

/-- the events of converting `rules` (rule id, number of conditions) with pipeline `p` -/
def trace (p : P) (rules : List (Nat × Nat)) : List Ev :=
  rules.flatMap (fun r =>
    p.items.map (fun i => Ev.transform i r.1) ++
    (List.range r.2).flatMap (fun c => Ev.convert r.1 c :: p.post.map (fun q => Ev.postprocess q r.1 c)))
  ++ p.fins.map Ev.finalize

/-! ## Ownership: the side effect of `+` (C15)

Every item object has a back-pointer to *one* pipeline; `+` re-points the operands' item objects to
the freshly built pipeline.  State written by an item (`set_state`, field-mapping tracking, …)
goes to the pipeline the item points to, while a conversion reads the state of the pipeline object
it runs. -/

structure Sys where
  pipes : List (List Nat)        -- pipeline object id ↦ its item objects
  owner : List (Nat × Nat)       -- item object ↦ pipeline object it points to (last binding wins)
deriving Repr, DecidableEq

def Sys.ownerOf (s : Sys) (i : Nat) : Option Nat :=
  ((s.owner.filter (fun kv => kv.1 == i)).getLast?).map (·.2)

/-- a new pipeline object defined from scratch with fresh item objects -/
def Sys.define (s : Sys) (items : List Nat) : Sys × Nat :=
  let id := s.pipes.length
  ({ pipes := s.pipes ++ [items], owner := s.owner ++ items.map (fun i => (i, id)) }, id)

/-- `a + b`: a new pipeline object sharing the operands' item objects, which now point to it -/
def Sys.add (s : Sys) (a b : Nat) : Sys × Nat :=
  let items := s.pipes.getD a [] ++ s.pipes.getD b []
  let id := s.pipes.length
  ({ pipes := s.pipes ++ [items], owner := s.owner ++ items.map (fun i => (i, id)) }, id)

/-- which of the pipeline's items write their state where a conversion with this pipeline object
reads it -/
def Sys.visible (s : Sys) (p : Nat) : List Nat :=
  (s.pipes.getD p []).filter (fun i => s.ownerOf i == some p)

/-- what a conversion with fresh objects would see: all items of the pipeline -/
def Sys.specVisible (s : Sys) (p : Nat) : List Nat := s.pipes.getD p []

inductive Op
  | define (items : List Nat)
  | add (a b : Nat)
deriving Repr, DecidableEq

def Sys.step (s : Sys) : Op → Sys
  | .define items => (s.define items).1
  | .add a b => (s.add a b).1

def Sys.run (s : Sys) (ops : List Op) : Sys := ops.foldl Sys.step s

def Sys.init : Sys := ⟨[], []⟩

end SigmaVerif.Pipe
