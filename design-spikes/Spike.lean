-- This module serves as the root of the `Spike` library.
-- Import modules here that should be built as part of the library.
import Spike.Basic
import Spike.Proof
import Spike.Main
import Spike.B64
