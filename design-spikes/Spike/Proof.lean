import Spike.Basic
namespace Spike

def E.size : E → Nat
  | .atom _ => 1 | .not e => e.size + 1 | .and a b => a.size + b.size + 1 | .or a b => a.size + b.size + 1

theorem E.size_pos (e : E) : 0 < e.size := by cases e <;> simp [E.size]

/-- left spine of an `and` chain: head operand and the remaining operands -/
def spineAnd : E → E × List E
  | .and a b => ((spineAnd a).1, (spineAnd a).2 ++ [b])
  | e => (e, [])

def spineOr : E → E × List E
  | .or a b => ((spineOr a).1, (spineOr a).2 ++ [b])
  | e => (e, [])

def isAnd : E → Bool | .and _ _ => true | _ => false
def isOr : E → Bool | .or _ _ => true | _ => false

theorem render1_of_not_and (e : E) (h : isAnd e = false) : render 1 e = render 0 e := by
  cases e <;> simp_all [render, isAnd]

theorem render2_of_not_or (e : E) (h : isOr e = false) : render 2 e = render 1 e := by
  cases e <;> simp_all [render, isOr]

theorem spineAnd_head_not_and (e : E) : isAnd (spineAnd e).1 = false := by
  induction e with
  | atom n => simp [spineAnd, isAnd]
  | not e ih => simp [spineAnd, isAnd]
  | and a b iha ihb => simpa [spineAnd] using iha
  | or a b iha ihb => simp [spineAnd, isAnd]

theorem spineOr_head_not_or (e : E) : isOr (spineOr e).1 = false := by
  induction e with
  | atom n => simp [spineOr, isOr]
  | not e ih => simp [spineOr, isOr]
  | and a b iha ihb => simp [spineOr, isOr]
  | or a b iha ihb => simpa [spineOr] using iha

theorem render1_spine (e : E) :
    render 1 e = render 0 (spineAnd e).1 ++ (spineAnd e).2.flatMap (fun x => Tok.tand :: render 0 x) := by
  induction e with
  | atom n => simp [spineAnd, render]
  | not e ih => simp [spineAnd, render]
  | and a b iha ihb => simp [spineAnd, render, iha, List.flatMap_append]
  | or a b iha ihb => simp [spineAnd, render]

theorem render2_spine (e : E) :
    render 2 e = render 1 (spineOr e).1 ++ (spineOr e).2.flatMap (fun x => Tok.tor :: render 1 x) := by
  induction e with
  | atom n => simp [spineOr, render]
  | not e ih => simp [spineOr, render]
  | and a b iha ihb => simp [spineOr, render]
  | or a b iha ihb => simp [spineOr, render, iha, List.flatMap_append]

theorem eval_spineAnd (ρ) (e : E) :
    e.eval ρ = ((spineAnd e).1.eval ρ && (spineAnd e).2.all (·.eval ρ)) := by
  induction e with
  | atom n => simp [spineAnd]
  | not e ih => simp [spineAnd]
  | and a b iha ihb => simp [spineAnd, E.eval, iha, List.all_append, Bool.and_assoc]
  | or a b iha ihb => simp [spineAnd]

theorem eval_spineOr (ρ) (e : E) :
    e.eval ρ = ((spineOr e).1.eval ρ || (spineOr e).2.any (·.eval ρ)) := by
  induction e with
  | atom n => simp [spineOr]
  | not e ih => simp [spineOr]
  | and a b iha ihb => simp [spineOr]
  | or a b iha ihb => simp [spineOr, E.eval, iha, List.any_append, Bool.or_assoc]

theorem spineAnd_size (e : E) :
    (spineAnd e).1.size ≤ e.size ∧ (∀ x ∈ (spineAnd e).2, x.size < e.size) ∧
    (isAnd e = true → (spineAnd e).1.size < e.size) := by
  induction e with
  | atom n => simp [spineAnd, isAnd]
  | not e ih => simp [spineAnd, isAnd]
  | or a b iha ihb => simp [spineAnd, isAnd]
  | and a b iha ihb =>
    refine ⟨?_, ?_, ?_⟩
    · simp [spineAnd, E.size]; omega
    · intro x hx
      simp [spineAnd] at hx
      rcases hx with hx | hx
      · have := iha.2.1 x hx; simp [E.size]; omega
      · subst hx; simp [E.size]; have := E.size_pos a; omega
    · intro _; simp [spineAnd, E.size]; have := iha.1; omega

theorem spineOr_size (e : E) :
    (spineOr e).1.size ≤ e.size ∧ (∀ x ∈ (spineOr e).2, x.size < e.size) ∧
    (isOr e = true → (spineOr e).1.size < e.size) := by
  induction e with
  | atom n => simp [spineOr, isOr]
  | not e ih => simp [spineOr, isOr]
  | and a b iha ihb => simp [spineOr, isOr]
  | or a b iha ihb =>
    refine ⟨?_, ?_, ?_⟩
    · simp [spineOr, E.size]; omega
    · intro x hx
      simp [spineOr] at hx
      rcases hx with hx | hx
      · have := iha.2.1 x hx; simp [E.size]; omega
      · subst hx; simp [E.size]; have := E.size_pos a; omega
    · intro _; simp [spineOr, E.size]; have := iha.1; omega

end Spike
