/-! Spike: token-level printer/parser round trip, fixed precedence NOT > AND > OR. -/
namespace Spike

inductive Tok | lp | rp | tnot | tand | tor | atom (n : Nat)
deriving DecidableEq, Repr

/-- source expressions (binary, as a user writes them) -/
inductive E | atom (n : Nat) | not (e : E) | and (a b : E) | or (a b : E)
deriving Repr

/-- parse results (n-ary, as pyparsing's infix_notation produces them) -/
inductive P | atom (n : Nat) | not (p : P) | and (ps : List P) | or (ps : List P)
deriving Repr

def E.eval (ρ : Nat → Bool) : E → Bool
  | .atom n => ρ n
  | .not e => !(e.eval ρ)
  | .and a b => a.eval ρ && b.eval ρ
  | .or a b => a.eval ρ || b.eval ρ

mutual
def P.eval (ρ : Nat → Bool) : P → Bool
  | .atom n => ρ n
  | .not p => !(p.eval ρ)
  | .and ps => P.evalAll ρ ps
  | .or ps => P.evalAny ρ ps
def P.evalAll (ρ : Nat → Bool) : List P → Bool
  | [] => true
  | p :: ps => p.eval ρ && P.evalAll ρ ps
def P.evalAny (ρ : Nat → Bool) : List P → Bool
  | [] => false
  | p :: ps => p.eval ρ || P.evalAny ρ ps
end

/-- precedence level of the root: 0 atom/not-able, 1 and, 2 or -/
def E.lvl : E → Nat
  | .atom _ => 0 | .not _ => 0 | .and _ _ => 1 | .or _ _ => 2

/-- canonical printer: parenthesise a child iff its level exceeds what the context admits -/
def render (ctx : Nat) : E → List Tok
  | .atom n => [.atom n]
  | .not e => .tnot :: render 0 e
  | .and a b =>
      let body := render 1 a ++ [.tand] ++ render 0 b   -- left assoc: right operand one level tighter
      if 1 ≤ ctx then body else [.lp] ++ body ++ [.rp]
  | .or a b =>
      let body := render 2 a ++ [.tor] ++ render 1 b
      if 2 ≤ ctx then body else [.lp] ++ body ++ [.rp]

/-- PEG-style parser with fuel, mirroring infix_notation: each level = sub (op sub)* -/
def many (op : Tok) (sub : List Tok → Option (P × List Tok)) :
    Nat → List P → List Tok → List P × List Tok
  | 0, acc, s => (acc, s)
  | k+1, acc, s =>
    match s with
    | t :: s1 =>
      if t = op then
        match sub s1 with
        | some (p, s2) => many op sub k (acc ++ [p]) s2
        | none => (acc, s)
      else (acc, s)
    | [] => (acc, s)

/-- one binary level of `infix_notation`: `sub (op sub)*`, n-ary result -/
def level (op : Tok) (mk : List P → P) (sub : List Tok → Option (P × List Tok))
    (s : List Tok) : Option (P × List Tok) :=
  match sub s with
  | none => none
  | some (p, s1) =>
    match many op sub s1.length [p] s1 with
    | ([q], s2) => some (q, s2)
    | (qs, s2) => some (mk qs, s2)

/-- the only recursive knot: unary level (NOT / atom / parenthesised expression) -/
def pNot : Nat → List Tok → Option (P × List Tok)
  | 0, _ => none
  | f+1, s =>
    match s with
    | .tnot :: s1 =>
      match pNot f s1 with
      | some (p, s2) => some (.not p, s2)
      | none => none
    | .atom n :: s1 => some (.atom n, s1)
    | .lp :: s1 =>
      match level .tor .or (level .tand .and (pNot f)) s1 with
      | some (p, .rp :: s2) => some (p, s2)
      | _ => none
    | _ => none

def pAnd (f : Nat) := level .tand .and (pNot f)
def pOr (f : Nat) := level .tor .or (pAnd f)

def parse (s : List Tok) : Option P :=
  match pOr (s.length + 1) s with
  | some (p, []) => some p
  | _ => none

#eval parse (render 2 (.or (.atom 1) (.and (.atom 2) (.not (.or (.atom 3) (.atom 4))))))
#eval parse (render 2 (.and (.and (.atom 1) (.atom 2)) (.atom 3)))
#eval parse (render 2 (.and (.atom 1) (.and (.atom 2) (.atom 3))))

end Spike
