import Spike.Proof
namespace Spike

def StopAnd : List Tok → Prop
  | .tand :: _ => False
  | _ => True
def StopOr : List Tok → Prop
  | .tand :: _ => False
  | .tor :: _ => False
  | _ => True

/-- "sub parses the rendering of x (at the operand context) in front of any admissible rest" -/
def Good (sub : List Tok → Option (P × List Tok)) (r : E → List Tok) (Stop : List Tok → Prop) (x : E) : Prop :=
  ∀ rest, Stop rest → ∃ p, sub (r x ++ rest) = some (p, rest) ∧ ∀ ρ, p.eval ρ = x.eval ρ

theorem many_spine (op : Tok) (sub) (r : E → List Tok) (StopSub StopAll : List Tok → Prop)
    (hop : ∀ s, StopSub (op :: s))
    (hall : ∀ s, StopAll s → StopSub s)
    (hstop : ∀ s, StopAll s → ∀ t s', s = t :: s' → t ≠ op)
    (xs : List E) (hx : ∀ x ∈ xs, Good sub r StopSub x) :
    ∀ (k : Nat) (acc : List P) (rest : List Tok), StopAll rest → xs.length ≤ k →
    ∃ ps, many op sub k acc (xs.flatMap (fun x => op :: r x) ++ rest) = (acc ++ ps, rest) ∧
      ps.length = xs.length ∧
      (∀ ρ, P.evalAll ρ ps = xs.all (·.eval ρ)) ∧ (∀ ρ, P.evalAny ρ ps = xs.any (·.eval ρ)) := by
  induction xs with
  | nil =>
    intro k acc rest hrest _
    refine ⟨[], ?_, rfl, ?_, ?_⟩
    · cases k with
      | zero => simp [many]
      | succ k =>
        cases rest with
        | nil => simp [many]
        | cons t s' =>
          have := hstop _ hrest t s' rfl
          simp [many, this]
    · intro ρ; simp [P.evalAll]
    · intro ρ; simp [P.evalAny]
  | cons x xs ih =>
    intro k acc rest hrest hk
    cases k with
    | zero => simp at hk
    | succ k =>
      have hgx := hx x (by simp)
      -- what follows x's rendering: either the next `op :: …` or the rest
      have hnext : StopSub (xs.flatMap (fun x => op :: r x) ++ rest) := by
        cases xs with
        | nil => simpa using hall _ hrest
        | cons y ys => simpa [List.flatMap_cons] using hop _
      obtain ⟨p, hp, hpe⟩ := hgx _ hnext
      obtain ⟨ps, hps, hlen, hall', hany'⟩ :=
        ih (fun y hy => hx y (by simp [hy])) k (acc ++ [p]) rest hrest (by simpa using hk)
      refine ⟨p :: ps, ?_, by simp [hlen], ?_, ?_⟩
      · simp only [List.flatMap_cons, List.cons_append, List.append_assoc, many]
        simp only [↓reduceIte, hp, hps]
        simp
      · intro ρ; simp [P.evalAll, hpe, hall']
      · intro ρ; simp [P.evalAny, hpe, hany']

end Spike

namespace Spike

theorem flatMap_len_ge (op : Tok) (r : E → List Tok) (xs : List E) (rest : List Tok) :
    xs.length ≤ (xs.flatMap (fun x => op :: r x) ++ rest).length := by
  induction xs with
  | nil => simp
  | cons x xs ih => simp [List.flatMap_cons] at ih ⊢; omega

theorem level_and_good (sub) (hd : E) (tl : List E)
    (hhd : Good sub (render 0) (fun _ => True) hd)
    (htl : ∀ x ∈ tl, Good sub (render 0) (fun _ => True) x) :
    ∀ rest, StopAnd rest → ∃ p,
      level .tand .and sub (render 0 hd ++ tl.flatMap (fun x => Tok.tand :: render 0 x) ++ rest) = some (p, rest) ∧
      ∀ ρ, p.eval ρ = (hd.eval ρ && tl.all (·.eval ρ)) := by
  intro rest hrest
  obtain ⟨p0, hp0, he0⟩ := hhd (tl.flatMap (fun x => Tok.tand :: render 0 x) ++ rest) trivial
  obtain ⟨ps, hps, hlen, hall, _⟩ :=
    many_spine .tand sub (render 0) (fun _ => True) StopAnd (fun _ => trivial) (fun _ _ => trivial)
      (by intro s hs t s' h; subst h; intro ht; subst ht; exact hs)
      tl htl (tl.flatMap (fun x => Tok.tand :: render 0 x) ++ rest).length [p0] rest hrest
      (flatMap_len_ge _ _ _ _)
  cases ps with
  | nil =>
    refine ⟨p0, ?_, ?_⟩
    · simp only [level, List.append_assoc, hp0, hps]; simp
    · intro ρ
      have : tl = [] := by cases tl <;> simp_all
      simp [he0, this]
  | cons q qs =>
    refine ⟨.and (p0 :: q :: qs), ?_, ?_⟩
    · simp only [level, List.append_assoc, hp0, hps]; simp
    · intro ρ; simp [P.eval, P.evalAll, he0, ← hall ρ]

theorem level_or_good (sub) (hd : E) (tl : List E)
    (hhd : Good sub (render 1) StopAnd hd)
    (htl : ∀ x ∈ tl, Good sub (render 1) StopAnd x) :
    ∀ rest, StopOr rest → ∃ p,
      level .tor .or sub (render 1 hd ++ tl.flatMap (fun x => Tok.tor :: render 1 x) ++ rest) = some (p, rest) ∧
      ∀ ρ, p.eval ρ = (hd.eval ρ || tl.any (·.eval ρ)) := by
  intro rest hrest
  have hstopand : ∀ s, StopOr s → StopAnd s := by
    intro s hs; cases s with
    | nil => trivial
    | cons t s' => cases t <;> simp_all [StopOr, StopAnd]
  have hnext : StopAnd (tl.flatMap (fun x => Tok.tor :: render 1 x) ++ rest) := by
    cases tl with
    | nil => simpa using hstopand _ hrest
    | cons y ys => simp [List.flatMap_cons, StopAnd]
  obtain ⟨p0, hp0, he0⟩ := hhd _ hnext
  obtain ⟨ps, hps, hlen, _, hany⟩ :=
    many_spine .tor sub (render 1) StopAnd StopOr (fun _ => by simp [StopAnd]) hstopand
      (by intro s hs t s' h; subst h; intro ht; subst ht; simp [StopOr] at hs)
      tl htl (tl.flatMap (fun x => Tok.tor :: render 1 x) ++ rest).length [p0] rest hrest
      (flatMap_len_ge _ _ _ _)
  cases ps with
  | nil =>
    refine ⟨p0, ?_, ?_⟩
    · simp only [level, List.append_assoc, hp0, hps]; simp
    · intro ρ
      have : tl = [] := by cases tl <;> simp_all
      simp [he0, this]
  | cons q qs =>
    refine ⟨.or (p0 :: q :: qs), ?_, ?_⟩
    · simp only [level, List.append_assoc, hp0, hps]; simp
    · intro ρ; simp [P.eval, P.evalAny, he0, ← hany ρ]

theorem pAnd_good (f : Nat) (x : E)
    (h : Good (pNot f) (render 0) (fun _ => True) (spineAnd x).1)
    (ht : ∀ y ∈ (spineAnd x).2, Good (pNot f) (render 0) (fun _ => True) y) :
    Good (pAnd f) (render 1) StopAnd x := by
  intro rest hrest
  obtain ⟨p, hp, he⟩ := level_and_good (pNot f) _ _ h ht rest hrest
  refine ⟨p, ?_, ?_⟩
  · rw [render1_spine]; exact hp
  · intro ρ; rw [he ρ, eval_spineAnd ρ x]

theorem pOr_good (f : Nat) (x : E)
    (h : Good (pAnd f) (render 1) StopAnd (spineOr x).1)
    (ht : ∀ y ∈ (spineOr x).2, Good (pAnd f) (render 1) StopAnd y) :
    Good (pOr f) (render 2) StopOr x := by
  intro rest hrest
  obtain ⟨p, hp, he⟩ := level_or_good (pAnd f) _ _ h ht rest hrest
  refine ⟨p, ?_, ?_⟩
  · rw [render2_spine]; exact hp
  · intro ρ; rw [he ρ, eval_spineOr ρ x]

/-- from "pNot is good on everything of size ≤ n" to the two binary levels -/
theorem pAnd_good_of (f n : Nat)
    (ih : ∀ e : E, e.size ≤ n → Good (pNot f) (render 0) (fun _ => True) e)
    (x : E) (hhd : (spineAnd x).1.size ≤ n) (htl : ∀ y ∈ (spineAnd x).2, y.size ≤ n) :
    Good (pAnd f) (render 1) StopAnd x :=
  pAnd_good f x (ih _ hhd) (fun y hy => ih y (htl y hy))

theorem pNot_good : ∀ n, ∀ e : E, e.size ≤ n → ∀ f, n ≤ f →
    Good (pNot f) (render 0) (fun _ => True) e := by
  intro n
  induction n with
  | zero => intro e he; have := E.size_pos e; omega
  | succ n ih =>
    intro e he f hf
    obtain ⟨f, rfl⟩ : ∃ f', f = f' + 1 := ⟨f - 1, by omega⟩
    have hf' : n ≤ f := by omega
    have ihf : ∀ e : E, e.size ≤ n → Good (pNot f) (render 0) (fun _ => True) e :=
      fun e he => ih e he f hf'
    -- every operand strictly smaller than `e` is handled by `pAnd f`
    have andOf : ∀ x : E, x.size ≤ n → Good (pAnd f) (render 1) StopAnd x := by
      intro x hx
      have hs := spineAnd_size x
      exact pAnd_good_of f n ihf x (by omega) (fun y hy => by have := hs.2.1 y hy; omega)
    intro rest _
    cases e with
    | atom k => exact ⟨.atom k, by simp [render, pNot], by intro ρ; simp [P.eval, E.eval]⟩
    | not e' =>
      have he' : e'.size ≤ n := by simp [E.size] at he; omega
      obtain ⟨p, hp, hpe⟩ := ihf e' he' rest trivial
      exact ⟨.not p, by simp [render, pNot, hp], by intro ρ; simp [P.eval, E.eval, hpe]⟩
    | and a b =>
      -- parenthesised: `( render 1 e ) rest`; the or-level sees a single operand
      have hs := spineAnd_size (E.and a b)
      have hAnd : Good (pAnd f) (render 1) StopAnd (E.and a b) :=
        pAnd_good_of f n ihf _ (by have := hs.2.2 rfl; omega)
          (fun y hy => by have := hs.2.1 y hy; omega)
      have hOr : Good (pOr f) (render 2) StopOr (E.and a b) :=
        pOr_good f _ (by simpa [spineOr] using hAnd) (by simp [spineOr])
      obtain ⟨p, hp, hpe⟩ := hOr (Tok.rp :: rest) (by simp [StopOr])
      refine ⟨p, ?_, hpe⟩
      have hr : render 0 (E.and a b) = [Tok.lp] ++ render 2 (E.and a b) ++ [Tok.rp] := by
        simp [render]
      simp only [hr, List.append_assoc, List.singleton_append, List.cons_append, pNot]
      simp only [pOr, pAnd] at hp
      simp [hp]
    | or a b =>
      have hs := spineOr_size (E.or a b)
      have hOr : Good (pOr f) (render 2) StopOr (E.or a b) :=
        pOr_good f _ (andOf _ (by have := hs.2.2 rfl; omega))
          (fun y hy => andOf y (by have := hs.2.1 y hy; omega))
      obtain ⟨p, hp, hpe⟩ := hOr (Tok.rp :: rest) (by simp [StopOr])
      refine ⟨p, ?_, hpe⟩
      have hr : render 0 (E.or a b) = [Tok.lp] ++ render 2 (E.or a b) ++ [Tok.rp] := by
        simp [render]
      simp only [hr, List.append_assoc, List.singleton_append, List.cons_append, pNot]
      simp only [pOr, pAnd] at hp
      simp [hp]

theorem render_len (c : Nat) (e : E) : e.size ≤ (render c e).length := by
  induction e generalizing c with
  | atom n => simp [render, E.size]
  | not e ih => simp [render, E.size]; exact ih 0
  | and a b iha ihb =>
    have := iha 1; have := ihb 0
    simp only [render, E.size]; split <;> simp <;> omega
  | or a b iha ihb =>
    have := iha 2; have := ihb 1
    simp only [render, E.size]; split <;> simp <;> omega

/-- Round trip: every expression, of every size and shape, printed canonically, is parsed to a
tree with the same boolean function. -/
theorem parse_render (e : E) : ∃ p, parse (render 2 e) = some p ∧ ∀ ρ, p.eval ρ = e.eval ρ := by
  have hlen := render_len 2 e
  have hN : ∀ x : E, x.size ≤ e.size → Good (pNot ((render 2 e).length + 1)) (render 0) (fun _ => True) x :=
    fun x hx => pNot_good e.size x hx _ (by omega)
  have hA : ∀ x : E, x.size ≤ e.size → Good (pAnd ((render 2 e).length + 1)) (render 1) StopAnd x := by
    intro x hx
    have hs := spineAnd_size x
    exact pAnd_good _ x (hN _ (by omega)) (fun y hy => hN y (by have := hs.2.1 y hy; omega))
  have hs := spineOr_size e
  have hO : Good (pOr ((render 2 e).length + 1)) (render 2) StopOr e :=
    pOr_good _ e (hA _ (by omega)) (fun y hy => hA y (by have := hs.2.1 y hy; omega))
  obtain ⟨p, hp, hpe⟩ := hO [] (by simp [StopOr])
  refine ⟨p, ?_, hpe⟩
  simp only [List.append_nil] at hp
  simp [parse, hp]

example : ∃ p, parse (render 2 (.or (.atom 1) (.and (.atom 2) (.not (.or (.atom 3) (.atom 4)))))) = some p := by
  obtain ⟨p, hp, _⟩ := parse_render (.or (.atom 1) (.and (.atom 2) (.not (.or (.atom 3) (.atom 4)))))
  exact ⟨p, hp⟩

end Spike
