/-! Spike: position-wise Base64 and the locality lemma behind `base64offset`. -/
namespace B64

abbrev Byte := Nat   -- values < 256 in all uses

def byteAt (x : List Byte) (k : Nat) : Nat := x.getD k 0

/-- 6-bit value of character position `j` (textbook case split on the bit offset `6j mod 8`) -/
def sextet (x : List Byte) (j : Nat) : Nat :=
  let k := 6 * j / 8
  match 6 * j % 8 with
  | 0 => byteAt x k / 4
  | 6 => (byteAt x k % 4) * 16 + byteAt x (k + 1) / 16
  | 4 => (byteAt x k % 16) * 4 + byteAt x (k + 1) / 64
  | _ => byteAt x k % 64

/-- number of characters that carry data: ⌈8n/6⌉ -/
def dataChars (n : Nat) : Nat := (8 * n + 5) / 6
def encLen (n : Nat) : Nat := 4 * ((n + 2) / 3)

/-- abstract output symbol: a 6-bit value or the pad sign -/
inductive Sym | v (n : Nat) | pad
deriving DecidableEq, Repr

def sym (x : List Byte) (j : Nat) : Sym :=
  if j < dataChars x.length then .v (sextet x j) else .pad

def enc (x : List Byte) : List Sym := (List.range (encLen x.length)).map (sym x)

#eval enc [77, 97, 110]   -- "Man" = TWFu = 19,22,5,46
#eval enc [77, 97]        -- TWE=  = 19,22,4,pad
#eval enc [77]            -- TQ==  = 19,16,pad,pad

/-- locality: a data character depends on byte ⌊6j/8⌋, and on the next one only when the
sextet straddles a byte boundary -/
theorem sextet_congr (x y : List Byte) (j : Nat)
    (h0 : byteAt x (6 * j / 8) = byteAt y (6 * j / 8))
    (h1 : 2 < 6 * j % 8 → byteAt x (6 * j / 8 + 1) = byteAt y (6 * j / 8 + 1)) :
    sextet x j = sextet y j := by
  unfold sextet
  have hr : 6 * j % 8 = 0 ∨ 6 * j % 8 = 2 ∨ 6 * j % 8 = 4 ∨ 6 * j % 8 = 6 := by omega
  rcases hr with h | h | h | h <;> simp [h, h0] <;> (try rw [h1 (by omega)])

/-- positions whose bits lie inside bytes [a, b): 8a ≤ 6j and 6j+5 < 8b -/
theorem bytes_in_range (a b j : Nat) (hlo : 8 * a ≤ 6 * j) (hhi : 6 * j + 5 < 8 * b) :
    a ≤ 6 * j / 8 ∧ 6 * j / 8 < b ∧ (6 * j % 8 ≤ 2 ∨ 6 * j / 8 + 1 < b) := by
  omega

/-- start and end of the characters determined by a payload of length `n` after `i` bytes -/
def startOf (i : Nat) : Nat := (8 * i + 5) / 6          -- ⌈8i/6⌉
def endOf (i n : Nat) : Nat := 8 * (i + n) / 6           -- ⌊8(i+n)/6⌋

example : (startOf 0, startOf 1, startOf 2) = (0, 2, 3) := by decide

/-- Python's `end_offsets[(n+i) % 3]` cut, applied to the padded length, is `endOf` -/
theorem cut_is_endOf (i n : Nat) (hi : i < 3) :
    encLen (i + n) - (match (n + i) % 3 with | 0 => 0 | 1 => 3 | _ => 2) = endOf i n := by
  simp only [encLen, endOf]
  have h3 : (n + i) % 3 = 0 ∨ (n + i) % 3 = 1 ∨ (n + i) % 3 = 2 := by omega
  rcases h3 with h | h | h <;> simp only [h] <;> omega

/-- every character in [startOf i, endOf i n) is a data character of any string that has the
payload at byte offset `i + 3m` -/
theorem in_data (i n m extra j : Nat) (hj : j < endOf i n) :
    j + 4 * m < dataChars (3 * m + i + n + extra) := by
  simp only [endOf, dataChars] at *
  omega

theorem byteAt_mid (p v s : List Byte) (k : Nat) (h1 : p.length ≤ k) (h2 : k < p.length + v.length) :
    byteAt (p ++ v ++ s) k = byteAt v (k - p.length) := by
  unfold byteAt
  simp only [List.getD_eq_getElem?_getD]
  rw [List.append_assoc, List.getElem?_append_right h1, List.getElem?_append_left (by omega)]

/-- The characters determined by the payload are the same, position for position, in the
reference encoding (`q ++ v`, |q| = i) and in the encoding of any byte string that carries the
payload at an offset ≡ i (mod 3). -/
theorem sym_local (p v s q : List Byte) (i m j : Nat) (hp : p.length = 3 * m + i) (hq : q.length = i)
    (hlo : startOf i ≤ j) (hhi : j < endOf i v.length) :
    sym (p ++ v ++ s) (j + 4 * m) = sym (q ++ v) j := by
  have hd1 : j + 4 * m < dataChars (p ++ v ++ s).length := by
    have := in_data i v.length m s.length j hhi
    simpa [hp, Nat.add_assoc] using this
  have hd2 : j < dataChars (q ++ v).length := by
    have := in_data i v.length 0 0 j hhi
    simpa [hq] using this
  simp only [sym, hd1, hd2, ↓reduceIte]
  congr 1
  simp only [startOf, endOf] at hlo hhi
  have hk : 6 * (j + 4 * m) / 8 = 6 * j / 8 + 3 * m := by omega
  have hr : 6 * (j + 4 * m) % 8 = 6 * j % 8 := by omega
  have e0 : byteAt (p ++ v ++ s) (6 * j / 8 + 3 * m) = byteAt (q ++ v ++ []) (6 * j / 8) := by
    rw [byteAt_mid _ _ _ _ (by omega) (by omega), byteAt_mid _ _ _ _ (by omega) (by omega)]
    congr 1; omega
  have e1 : 2 < 6 * j % 8 → byteAt (p ++ v ++ s) (6 * j / 8 + 3 * m + 1) = byteAt (q ++ v ++ []) (6 * j / 8 + 1) := by
    intro h
    rw [byteAt_mid _ _ _ _ (by omega) (by omega), byteAt_mid _ _ _ _ (by omega) (by omega)]
    congr 1; omega
  simp only [List.append_nil] at e0 e1
  unfold sextet
  simp only [hk, hr]
  have hr4 : 6 * j % 8 = 0 ∨ 6 * j % 8 = 2 ∨ 6 * j % 8 = 4 ∨ 6 * j % 8 = 6 := by omega
  rcases hr4 with h | h | h | h <;> simp only [h] <;> rw [e0] <;> (try rw [e1 (by omega)])

end B64
