"""C15 — converting a rule gives the same result whatever was converted before.

A history of operations on real objects (load rules, convert collections / single rules, initialise the
pipeline, create further backends of the same class — sharing the same pipeline object or not —, conversions
that fail at every stage incl. inside the negated not-equals rendering) is followed by converting a freshly
loaded probe rule; the result must equal the conversion of the same probe with fresh objects (new pipeline,
new backend, empty caches).  The probe's output exposes: the pipeline state the conversion state sees, the
pipeline state post-processing sees, the applied-item tracking, the field-mapping tracking, the parse of its
condition (shared with earlier rules) and whether the templates are the non-negated ones.
Diagnostic: the Lean ownership model (`Pipe.Sys`) predicts which histories lose state (finding D12)."""
from __future__ import annotations
import itertools, random, re
from .common import Verdict, outcome_of_exception
from . import qsyntax

ID = "C15"
GEN = ["Conv", "Pipe"]
RULE = ("histories over {load, convert collection, convert rule, init pipeline, new backend sharing the pipeline object "
        "(+init, +convert), new backend with its own pipeline, failing conversion x {pipeline failure, unresolved placeholder, "
        "unrenderable value, missing detection, NotImplementedError inside negated not-equals rendering}}: all histories of "
        "length <= 2 and seeded random ones up to length 8, each followed by a probe via convert() and via convert_rule(); "
        "distinct = distinct (history, probe kind); non-trivial = history length >= 2"
        "; probe kinds incl. cased and plain string operators, regex, null; post-processing items that keep parsed templates (json, embed); per-rule detection contents"
        "; the user pipeline reads placeholder values from a file (filtered); history op: a second backend with backend options")
RULE += '; round 4: registration histories of sigma.pipelines.base.Pipeline (decorated functions, inheriting classes): what a handle builds is independent of later registrations (Lean Model.Registry)'
RULE += "; round 5: history op 'a backend of another text backend class is created and used'; probe with exists:false / cidr / startswith items"
RULE += "; round 6: history op 'a single rule for the other output format' (second format with its own pipeline); a registered class inheriting from another"
ASSUMPTIONS = [
    "fresh objects = a new pipeline from the same dict, a new backend instance of a new class object built from the same configuration, caches cleared",
    "observation through a finalize_query hook defined in the harness's backend subclass (state seen by the conversion) and a template post-processing item (state seen by the item)",
]
OPS = ["load", "conv_coll_state", "conv_coll_plain", "conv_rule_state", "conv_rule_plain", "init", "share_init", "share_conv", "other_backend", "backend_option",
       "parse_two_step", "validate", "other_class", "conv_rule_altfmt",
       "fail_pipeline", "fail_placeholder", "fail_value", "fail_missing", "fail_noteq"]

PIPE = {"name": "user", "priority": 10, "transformations": [
    {"id": "st", "type": "set_state", "key": "k", "val": "KV", "rule_conditions": [{"type": "logsource", "category": "withstate"}]},
    {"id": "map", "type": "field_name_mapping", "mapping": {"fieldA": "mappedA"}},
    # values read from a file, filtered: every rule gets the filtered values (the item caches what it read)
    {"id": "ext", "type": "file_placeholders", "path": "@USERS@", "filter": "^adm_", "include": ["users"]},
    {"id": "boom", "type": "rule_failure", "message": "x", "rule_conditions": [{"type": "logsource", "category": "fail"}]},
    # a strict mapping check for rules of one log source: which fields count as mapped is bookkeeping of the rule at hand only
    {"id": "strict", "type": "strict_field_mapping_failure", "rule_conditions": [{"type": "logsource", "category": "strict"}]},
    # a nested pipeline with a conditional state of its own and an item gated by it: every rule starts the nest from a clean state
    {"id": "nst", "type": "nest", "items": [
        {"id": "nst_set", "type": "set_state", "key": "nk", "val": "NV", "rule_conditions": [{"type": "logsource", "category": "withstate"}]},
        {"id": "nst_suf", "type": "field_name_suffix", "suffix": "_N", "rule_conditions": [{"type": "processing_state", "key": "nk", "val": "NV"}],
         "field_name_conditions": [{"type": "include_fields", "fields": ["h"]}]}]},
    {"id": "after", "type": "field_name_suffix", "suffix": "_S", "rule_conditions": [{"type": "processing_state", "key": "k", "val": "KV"}],
     "field_name_conditions": [{"type": "include_fields", "fields": ["g"]}]},
], "postprocessing": [{"id": "pp", "type": "template", "template": "{{ query }} /post:k={{ pipeline.state.get('k') }},bk={{ pipeline.state.get('bk') }},applied={{ pipeline.applied_ids|sort|join('+') }},vars={{ pipeline.vars|dictsort|join('+') }}"},
                      # items that keep parsed templates / compiled data on the item object: every rule must get its own query embedded
                      {"id": "js", "type": "json", "json_template": "{\"q\": \"%QUERY%\", \"nested\": [{\"again\": \"%QUERY%\"}], \"n\": 1}"},
                      {"id": "em", "type": "embed", "prefix": "<<", "suffix": ">>"}]}
BACKEND_PIPE = {"name": "backend", "priority": 1, "transformations": [{"id": "bst", "type": "set_state", "key": "bk", "val": "BV"}]}


def rule_doc(kind, i=0):
    cat = {"state": "withstate", "pipefail": "fail", "targetprobe": "strict"}.get(kind, "c")
    d = {"title": f"{kind}{i}", "logsource": {"category": cat}, "detection": {"sel": {"fieldA": f"v{i}", "g": 1, "u|expand": "%users%"}, "flt": {"h": f"x{i}"}, "condition": "sel and not flt"}}
    if kind == "casedprobe": d["detection"] = {"sel": {"fieldA|cased|contains": f"Ab{i}", "fieldB|cased|startswith": "Cd", "fieldC|cased|endswith": "Ef", "g": 1,
                                                       "fieldD|contains": f"mid{i}", "fieldE|startswith": "head", "fieldF|endswith": "tail", "fieldG|re": "x+y", "fieldH": None},
                                               "flt": {"h": f"x{i}"}, "condition": "sel and not flt"}
    if kind == "targetprobe":      # names the TARGET of the field mapping directly: with fresh objects the strict check rejects it
        d["detection"] = {"sel": {"mappedA": f"v{i}"}, "condition": "sel"}
    if kind == "existsprobe": d["detection"] = {"sel": {"fieldA": f"v{i}", "g": 1, "n|exists": False, "m|exists": True, "ip|cidr": "10.0.0.0/8", "s|startswith": "x"},
                                                "flt": {"h": f"x{i}", "k|exists": False}, "condition": "sel and not flt"}
    if kind == "placeholder": d["detection"]["sel"]["fieldA|expand"] = "%nope%"; del d["detection"]["sel"]["fieldA"]
    if kind == "badvalue": d["detection"]["kw"] = [True]; d["detection"]["condition"] = "sel and kw"
    if kind == "missing": d["detection"]["condition"] = "sel and not nosuch"
    if kind == "noteq": d["detection"] = {"sel": {"fieldA|cased": "Abc", "g": 1}, "flt": {"h|re": "x+"}, "condition": "not sel and not flt"}
    return d


def make_class(cased="none", **over):
    from sigma.processing.pipeline import ProcessingPipeline
    cfg = {"prec": ["not", "and", "or"], "parenthesize": False, "orAsIn": False, "andAsIn": False, "inAllowWild": False, "notAsNotEq": True,
           "sw": True, "ew": True, "ct": True, "wm": False, "cased": cased, "explicitNotExists": False, "nativeCidr": True}
    cfg.update(over)
    B = qsyntax.make_backend(cfg)

    def finalize_query_default(self, rule, query, index, state):
        return f"{query} /conv:k={state.processing_state.get('k')},bk={state.processing_state.get('bk')}"
    from collections import defaultdict
    # a second output format with a pipeline of its own (marks field g): a single rule converted for it re-assembles the pipeline
    alt = ProcessingPipeline.from_dict({"name": "altfmt", "priority": 90, "transformations": [
        {"id": "altmark", "type": "field_name_suffix", "suffix": "_ALT", "field_name_conditions": [{"type": "include_fields", "fields": ["g"]}]}]})
    return type("HistB", (B,), {"backend_processing_pipeline": ProcessingPipeline.from_dict(__import__("copy").deepcopy(BACKEND_PIPE)),
                                "finalize_query_default": finalize_query_default, "finalize_query_alt": finalize_query_default,
                                "finalize_output_alt": lambda self, queries: list(queries),
                                "output_format_processing_pipeline": defaultdict(ProcessingPipeline, alt=alt),
                                "formats": {"default": "d", "alt": "a"}})


def gen_cases(tier, seed, gen, effort):
    rnd = random.Random(seed * 4409 + 15)
    thorough = tier == "thorough"
    hists = [()] + [(a,) for a in OPS] + list(itertools.product(OPS, repeat=2))
    for _ in range((250 if not thorough else 6000) * effort):
        hists.append(tuple(rnd.choice(OPS) for _ in range(rnd.randint(3, 8))))
    cases = []
    for h in hists:
        for probe in ("convert", "convert_rule"):
            for pk in ("plain", "state", "casedprobe", "existsprobe", "targetprobe"):
                if len(h) > 2 and rnd.random() < 0.5:
                    continue
                if pk == "casedprobe" and len(h) <= 2 and len(h) > 0 and rnd.random() < 0.5:
                    continue
                if pk == "existsprobe" and "other_class" not in h and rnd.random() < 0.7:
                    continue
                if pk == "targetprobe" and (not h or rnd.random() < 0.6):
                    continue
                cases.append({"history": list(h), "probe": probe, "probe_kind": pk})
    # registration histories of sigma.pipelines.base.Pipeline (decorated functions / inheriting classes): what a handle denotes
    # must not depend on what was registered afterwards
    for _ in range((150 if not thorough else 3000) * effort):
        ops, nf = [], 0
        for _ in range(rnd.randint(2, 8)):
            k = rnd.choice(["decorate", "decorate", "instantiate", "callFunc", "callFunc", "callClass"])
            if k == "decorate": ops.append(["decorate", rnd.randint(1, 6)]); nf += 1
            elif k == "instantiate":
                c = rnd.randint(0, 2); ops.append(["instantiate", c, 100 + c])
            elif k == "callFunc": ops.append(["callFunc", rnd.randint(0, max(nf, 1))])
            else: ops.append(["callClass", rnd.randint(0, 2)])
        # every handle is called at the end as well
        ops += [["callFunc", h] for h in range(nf)] + [["callClass", c] for c in sorted({o[1] for o in ops if o[0] == "instantiate"})]
        cases.append({"reg": ops})
    return cases, False


def run_registry(case):
    from sigma.pipelines.base import Pipeline
    from sigma.processing.pipeline import ProcessingPipeline
    saved = Pipeline.__dict__.get("_instance")
    Pipeline._instance = None                 # as in a new process
    try:
        funcs, classes, insts, outs = [], {}, {}, []

        def name_of(obj):
            p = obj()
            return int(p.name[1:]) if isinstance(p, ProcessingPipeline) and (p.name or "").startswith("d") else f"not a definition: {p!r}"[:80]
        for op in case["reg"]:
            if op[0] == "decorate":
                d = op[1]
                funcs.append(Pipeline((lambda d_: (lambda: ProcessingPipeline(name=f"d{d_}")))(d)))
                outs.append(len(funcs) - 1)
            elif op[0] == "instantiate":
                c, d = op[1], op[2]
                if c not in classes:
                    # class 2 inherits from class 0 (a pipeline class refining another one): it is a class of its own all the same
                    if c == 2 and 0 not in classes:
                        classes[0] = type("K0", (Pipeline,), {"apply": (lambda self: ProcessingPipeline(name="d100"))})
                    base = classes[0] if c == 2 else Pipeline
                    classes[c] = type(f"K{c}", (base,), {"apply": (lambda d_: (lambda self: ProcessingPipeline(name=f"d{d_}")))(d)})
                insts[c] = classes[c]()
                outs.append(c)
            elif op[0] == "callFunc":
                outs.append(name_of(funcs[op[1]]) if op[1] < len(funcs) else None)
            else:
                outs.append(name_of(insts[op[1]]) if op[1] in insts else None)
        return {"outcome": "ok", "outs": outs}
    except Exception as e:
        return {"outcome": outcome_of_exception(e), "msg": str(e)[:200]}
    finally:
        Pipeline._instance = saved


def cleanup():
    """remove the per-worker scratch files of `run_history`"""
    import glob, os
    from .common import WORK
    for f in glob.glob(os.path.join(WORK, "c15_users_*.txt")):
        try: os.remove(f)
        except OSError: pass


def run_history(case, fresh):
    import copy
    from sigma.collection import SigmaCollection
    from sigma.rule import SigmaRule
    from sigma.processing.pipeline import ProcessingPipeline
    from sigma.conditions import _parse_condition_string
    _parse_condition_string.cache_clear()      # every run starts like a new process: what is cached comes from this history only
    cls = make_class("all" if case["probe_kind"] == "casedprobe" else "none")
    import os
    from .common import WORK
    users = os.path.join(WORK, f"c15_users_{os.getpid()}.txt")
    with open(users, "w") as f:
        f.write("adm_alice\nbob\nadm_carol\nguest\n")

    def pipe_dict():
        d = copy.deepcopy(PIPE)
        for t in d["transformations"]:
            if t.get("path") == "@USERS@":
                t["path"] = users
        return d

    def new_pipe():
        return ProcessingPipeline.from_dict(pipe_dict(), allow_external_sources=True)
    P = new_pipe()
    A = cls(P, collect_errors=False)
    n = [0]

    def coll(*kinds):
        n[0] += 1
        return SigmaCollection.from_dicts([rule_doc(k, n[0] * 10 + j) for j, k in enumerate(kinds)])
    if not fresh:
        for op in case["history"]:
            try:
                if op == "load": coll("plain", "state")
                elif op == "conv_coll_state": A.convert(coll("state", "plain"))
                elif op == "conv_coll_plain": A.convert(coll("plain"))
                elif op == "conv_rule_state": A.convert_rule(coll("state").rules[0])
                elif op == "conv_rule_plain": A.convert_rule(coll("plain").rules[0])
                elif op == "conv_rule_altfmt": A.convert_rule(coll("plain").rules[0], "alt")      # a single rule for the other output format
                elif op == "parse_two_step":      # the public two-step API: the raw parse, post-processed by the caller (as validators and tools do)
                    for r in coll("state", "plain").rules:
                        for pc in r.detection.parsed_condition:
                            pc.parse(False).postprocess(r.detection)
                elif op == "validate":            # validators read rules (raw parses, reference checks) - they must leave no trace
                    from sigma.validation import SigmaValidator
                    from sigma.validators.core import validators as _vs
                    SigmaValidator([v for n, v in sorted(_vs.items()) if "tag" not in n]).validate_rules(coll("state", "plain").rules)
                elif op == "other_class":         # a backend of ANOTHER text backend class (other templates and class-level settings) is created and used
                    other = make_class("all", explicitNotExists=True, notAsNotEq=False, sw=False, nativeCidr=False)
                    other(new_pipe()).convert(coll("plain"))
                elif op == "init": A.init_processing_pipeline()
                elif op == "share_init": cls(P).init_processing_pipeline()
                elif op == "share_conv": cls(P).convert(coll("state"))
                elif op == "other_backend": cls(new_pipe()).convert(coll("state"))
                elif op == "backend_option": cls(new_pipe(), index="winlogs", tenant="t1").convert(coll("plain"))     # backend options become pipeline variables
                elif op.startswith("fail_"):
                    kind = {"fail_pipeline": "pipefail", "fail_placeholder": "placeholder", "fail_value": "badvalue", "fail_missing": "missing", "fail_noteq": "noteq"}[op]
                    A.convert(coll("plain", kind, "state"))
            except Exception:
                pass      # failures are part of the history
    else:
        _parse_condition_string.cache_clear()
    probe = SigmaCollection.from_dicts([rule_doc(case["probe_kind"], 999)])
    if case["probe"] == "convert":
        out = A.convert(probe)
    else:
        out = A.convert_rule(probe.rules[0])
    return [str(x) for x in out]


def run_impl(case):
    if "reg" in case:
        return run_registry(case)
    try:
        want = run_history(case, fresh=True)
    except Exception as e:
        oc = outcome_of_exception(e)
        if not oc.startswith("sigma:"):
            return {"outcome": "harness:" + oc, "msg": str(e)[:160]}
        want = ["ERROR " + oc + ": " + str(e)[:120]]          # the probe is rejected with fresh objects: it must be rejected the same way after any history
    try:
        got = run_history(case, fresh=False)
        return {"outcome": "ok", "got": got, "want": want}
    except Exception as e:
        oc = outcome_of_exception(e)
        if oc.startswith("sigma:") and want and str(want[0]).startswith("ERROR "):
            return {"outcome": "ok", "got": ["ERROR " + oc + ": " + str(e)[:120]], "want": want}
        return {"outcome": oc, "msg": str(e)[:200], "want": want}


def sys_ops(case):
    """ownership model: object ids 0 = backend pipeline (class level), 1 = user pipeline P; every init = add(add(0, user), fmt≈nothing)"""
    ops = [["define", [100]], ["define", [1, 2, 3, 4, 5]]]
    npipes = 2
    a_last = None
    fmt = None          # the output format the backend's last pipeline was assembled for (convert_rule re-assembles when another is asked for)
    for op in case["history"]:
        if op in ("conv_coll_state", "conv_coll_plain", "init") or op.startswith("fail_"):
            ops.append(["add", 0, 1]); a_last = npipes; npipes += 1; fmt = "default"
        elif op in ("conv_rule_state", "conv_rule_plain", "conv_rule_altfmt"):
            want = "alt" if op == "conv_rule_altfmt" else "default"
            if a_last is None or fmt != want:
                ops.append(["add", 0, 1]); a_last = npipes; npipes += 1; fmt = want
        elif op in ("share_init", "share_conv"):
            ops.append(["add", 0, 1]); npipes += 1
        elif op in ("other_backend", "backend_option"):
            ops.append(["define", [11, 12, 13, 14, 15]]); other = npipes; npipes += 1
            ops.append(["add", 0, other]); npipes += 1
    if case["probe"] == "convert" or a_last is None or fmt != "default":
        ops.append(["add", 0, 1]); a_last = npipes; npipes += 1
    return ops, a_last


def make_request(case, impl, gen):
    if "reg" in case:
        return {"op": "reg.run", "ops": case["reg"]}
    ops, a_last = sys_ops(case)
    return {"op": "pipe.sys", "ops": ops}


def judge_registry(case, impl, reply):
    io = impl["outcome"]
    key = ("reg", case["reg"])
    nt = sum(1 for o in case["reg"] if o[0] in ("decorate", "instantiate")) >= 2
    tags = ("stream:registry", f"impl:{io.split(':')[0]}")
    if io != "ok":
        return Verdict("violation", f"registration history {case['reg']} raised {io}: {impl.get('msg')}", nt, key, tags=tags)
    if impl["outs"] != reply["outs"]:
        k = next(i for i, (a, b) in enumerate(zip(impl["outs"], reply["outs"])) if a != b)
        return Verdict("violation", (f"pipeline registration history {case['reg'][:k + 1]}: step {k} {case['reg'][k]} gave {impl['outs'][k]!r} but the handle was "
                                     f"registered for definition {reply['outs'][k]!r} (what a registered pipeline builds depends on what was registered later)"), nt, key, tags=tags)
    return Verdict("ok", "", nt, key, tags=tags)


def judge(case, impl, reply):
    if "reg" in case:
        return judge_registry(case, impl, reply)
    io = impl["outcome"]
    key = (case["history"], case["probe"], case["probe_kind"])
    nt = len(case["history"]) >= 2
    ops, a_last = sys_ops(case)
    pinfo = reply["pipes"][a_last]
    model_ok = pinfo["all"] == pinfo["visible"]
    tags = (f"len:{min(len(case['history']), 8)}", f"probe:{case['probe']}", f"impl:{io.split(':')[0]}", f"model:{'independent' if model_ok else 'stale-owner'}")
    if io.startswith("harness:"):
        return Verdict("drift", f"fresh conversion of the probe failed: {impl.get('msg')}", nt, key, tags=tags)
    bad = None
    if io != "ok":
        bad = f"probe raised {io}: {impl.get('msg')}"
    elif impl["got"] != impl["want"]:
        bad = f"probe output {impl['got']} differs from the fresh-object conversion {impl['want']}"
    if bad:
        # D12: the backend converts with a pipeline object whose items were re-pointed by a later '+' on the same objects
        fid = "D12" if (not model_ok and case["probe"] == "convert_rule") else None
        return Verdict("violation", f"after history {case['history']} ({case['probe']} of a {case['probe_kind']} rule): {bad}", nt, key, finding=fid, tags=tags)
    if not model_ok and case["probe"] == "convert_rule" and case["probe_kind"] == "plain" and any(o in case["history"] for o in ("share_conv",)):
        pass
    return Verdict("ok", "", nt, key, tags=tags)
