"""C14 — pipelines compose in a defined order: priority, then stage, then position.

Pipelines carry order-revealing markers: transformation item k appends '_k' to the field name, post-processing
item k wraps the query in 'Pk(…)', finalizer k wraps the output in 'Fk<…>', variables are read back from the
combined pipeline.  Operations on real objects: a random bracketing of '+', the resolver with the pipelines
named in a random order (also a second time on the same objects), and a backend's own + user + output-format
pipelines.  Expected orders come from the Lean value-level model (`Pipe.P.add`, `resolve`, `initPipeline`)."""
from __future__ import annotations
import random, re
from .common import Verdict, outcome_of_exception
from . import qsyntax

ID = "C14"
GEN = ["Compose"]
RULE = ("lists of 1..5 pipelines with arbitrary priorities (incl. equal), 0..2 transformation items, 0..2 post-processing "
        "items, 0..2 finalizers and 0..2 variables each; x every bracketing shape of '+' (random) / every permutation of the "
        "resolver's argument list (random, resolved twice on the same objects) / backend+user+format; distinct = distinct "
        "(pipelines, operation); non-trivial = >= 2 pipelines with >= 2 markers in total"
        "; resolver specs differ from declared names (duplicates allowed); marker items gated by state their own pipeline sets (named conditions + expression / list form); backend converted with another output format first"
        "; every composed pipeline also converts an empty collection (finalizers run once on the empty list)")
RULE += '; round 4: entry points convert(collection, fmt) / convert_rule(rule, fmt) for the default and a second output format, on a fresh backend and after the same backend object served the other format through either entry point'
RULE += '; round 6: convert_rule(rule) without format after the other format was served; a nested item reading variable v in operands applied before composing'
ASSUMPTIONS = [
    "order is observed through markers (field-name suffixes, query wrappers, output wrappers); Jinja2 renders the finalizer templates",
    "pipeline names are distinct within a list; name order is Python string order",
]
BASE_CFG = {"prec": ["not", "and", "or"], "parenthesize": False, "orAsIn": False, "andAsIn": False, "inAllowWild": False, "notAsNotEq": False,
            "sw": False, "ew": False, "ct": False, "wm": False, "cased": "all", "explicitNotExists": False, "nativeCidr": True}
FT = "{{ queries if queries is string else queries|join(';') }}"


def gen_pipes(rnd, n):
    ps, ctr = [], [0]

    def nxt():
        ctr[0] += 1
        return ctr[0]
    for k in range(n):
        ps.append({"name": rnd.choice(["b", "a", "z", "m", "B"]) + (str(k) if rnd.random() < 0.6 else "") if rnd.random() < 0.8 else f"p{k}",
                   "priority": rnd.choice([0, 10, 10, 20, 5]),
                   "items": [nxt() for _ in range(rnd.choice([0, 1, 1, 2]))],
                   "post": [nxt() for _ in range(rnd.choice([0, 1, 1, 2]))],
                   "fins": [nxt() for _ in range(rnd.choice([0, 0, 1, 2]))],
                   "vars": {rnd.choice(["v", "w"]): nxt() for _ in range(rnd.choice([0, 1, 2]))}})
    if n >= 2 and rnd.random() < 0.25:
        # two pipelines that contain an item / post-processing item / finalizer with the SAME definition: concatenation keeps both
        a, b = rnd.sample(range(n), 2)
        for part in ("items", "post", "fins"):
            if ps[a][part] and rnd.random() < 0.7:
                ps[b][part] = ps[b][part] + [ps[a][part][0]]
    return ps


def rand_tree(rnd, leaves):
    if len(leaves) == 1:
        return leaves[0]
    k = rnd.randint(1, len(leaves) - 1)
    return [rand_tree(rnd, leaves[:k]), rand_tree(rnd, leaves[k:])]


def gen_cases(tier, seed, gen, effort):
    rnd = random.Random(seed * 2203 + 14)
    thorough = tier == "thorough"
    cases = []
    for _ in range((700 if not thorough else 10000) * effort):
        n = rnd.randint(1, 5)
        ps = gen_pipes(rnd, n)
        cases.append({"op": "tree", "pipes": ps, "tree": rand_tree(rnd, list(range(n)))})
        if any("v" in p["vars"] for p in ps) and n >= 2:
            # a nested pipeline whose item reads variable v sits in every operand that defines v; operands may have been USED (applied to a
            # rule) before they are composed: the nested item reads the variables of the pipeline that runs, i.e. of the composition
            cases.append({"op": "tree", "pipes": ps, "tree": rand_tree(rnd, list(range(n))), "nestvar": True,
                          "preapply": [i for i in range(n) if rnd.random() < 0.6]})
        order = rnd.sample(range(n), n)
        cases.append({"op": "resolve", "pipes": ps, "order": order, "order2": rnd.sample(range(n), n)})
        if n >= 3:
            cases.append({"op": "init", "pipes": ps[:3], "history": rnd.random() < 0.5})
            # the entry points agree: convert(collection, fmt), convert_rule(rule, fmt) on a fresh backend, and either of them after the
            # same backend object served the other output format run backend + user + the pipeline of the REQUESTED format
            cases.append({"op": "init", "pipes": ps[:3], "via": rnd.choice(["convert", "rule", "rule"]), "target": rnd.choice(["default", "alt"]),
                          "history": rnd.choice([None, "convert", "rule"])})
            # the default format asked for by leaving the argument out, after the other format was served
            cases.append({"op": "init", "pipes": ps[:3], "via": "rule", "target": "default", "history": rnd.choice(["convert", "rule"]), "implicit": True})
            # `convert` assembles the pipeline anew on every call: also after the user replaced `backend.processing_pipeline` on a used backend
            # (`convert_rule` is documented to initialise only "if not already done": not judged for this history)
            cases.append({"op": "init", "pipes": ps[:3], "via": "convert", "target": rnd.choice(["default", "alt"]), "history": "swapuser"})
    return cases, False


def build(p, nestvar=False):
    from sigma.processing.pipeline import ProcessingPipeline
    # every marker item is gated by a pipeline state that an item of its OWN pipeline sets just before: after any composition the
    # gate must still see the state of the pipeline that runs (named conditions + expression for odd markers, list form for even)
    ts = []
    for k in p["items"]:
        ts.append({"id": f"s{k}", "type": "set_state", "key": f"k{k}", "val": "on"})
        it = {"id": f"i{k}", "type": "field_name_suffix", "suffix": f"_{k}"}
        cond = {"type": "processing_state", "key": f"k{k}", "val": "on"}
        if k % 2:
            it["rule_conditions"] = {"st": cond}; it["rule_cond_expr"] = "st"
        else:
            it["rule_conditions"] = [cond]
        ts.append(it)
    if nestvar and "v" in p["vars"]:
        ts.append({"id": f"nest_{p['name']}", "type": "nest", "items": [{"id": f"vp_{p['name']}", "type": "value_placeholders", "include": ["v"]}]})
    d = {"name": p["name"], "priority": p["priority"], "vars": {k: v for k, v in p["vars"].items()},
         "transformations": ts,
         "postprocessing": [{"id": f"q{k}", "type": "embed", "prefix": f"P{k}(", "suffix": ")"} for k in p["post"]],
         "finalizers": [{"type": "template", "template": f"F{k}<" + FT + ">"} for k in p["fins"]]}
    return ProcessingPipeline.from_dict(d)


def observe(backend_cls, pipeline, user=True, first_format=None, via="convert", target=None, first_via="convert", implicit=False, nestvar=False):
    from sigma.collection import SigmaCollection
    doc = {"title": "t", "logsource": {"category": "c"}, "detection": {"sel": {"f": "v"}, "condition": "sel"}}
    if nestvar:
        doc["detection"]["sel"]["h|expand"] = "%v%"
    coll = SigmaCollection.from_dicts([doc])
    b = backend_cls(pipeline) if user else backend_cls()
    if first_via == "swapuser":       # history: the same backend object converted (same format) with ANOTHER user pipeline, which was then replaced
        b = backend_cls(build({"name": "olduser", "priority": 0, "items": [95], "post": [96], "fins": [], "vars": {"w": 94}}))
        b.convert(SigmaCollection.from_dicts([doc]), target) if target is not None else b.convert(SigmaCollection.from_dicts([doc]))
        b.processing_pipeline = pipeline
        first_format = None
    if first_format is not None:      # history: the same backend object converted with another output format before
        if first_via == "rule":
            b.convert_rule(SigmaCollection.from_dicts([doc]).rules[0], first_format)
        else:
            b.convert(SigmaCollection.from_dicts([doc]), first_format)
    if via == "rule":                 # a single rule, output format named or left out (= the default format): queries only, no finalizers
        out = b.convert_rule(coll.rules[0], None if target == "default" and (first_format is None or implicit) else target)
    else:
        out = b.convert(coll, target) if target is not None else b.convert(coll)
    text = out if isinstance(out, str) else ";".join(map(str, out))
    m = re.search(r"\[eq 'f((?:_\d+)*)' ", text)
    items = [int(x) for x in m.group(1).split("_")[1:]] if m else None
    post = [int(x) for x in re.findall(r"P(\d+)\(", text)][::-1]      # innermost wrapper ran first
    fins = [int(x) for x in re.findall(r"F(\d+)<", text)][::-1]
    lp = b.last_processing_pipeline
    if via == "rule":
        return {"items": items, "post": post, "fins": None, "fins_empty": None, "text_empty": None, "vars": {k: v for k, v in lp.vars.items() if k in ("v", "w")},
                "applied": sorted(x for x in lp.applied_ids if not x.startswith("s")), "text": text, "fmtvar": lp.vars.get("output_format")}
    # finalizers run once on the whole list - also when the list is empty
    out0 = b.convert(SigmaCollection.from_dicts([]), target) if target is not None else b.convert(SigmaCollection.from_dicts([]))
    text0 = out0 if isinstance(out0, str) else ";".join(map(str, out0))
    fins0 = [int(x) for x in re.findall(r"F(\d+)<", text0)][::-1]
    mv = re.search(r"'h(?:_\d+)*' \"?(\d+)\"?\]", text)
    return {"items": items, "post": post, "fins": fins, "fins_empty": fins0, "text_empty": text0, "vars": {k: v for k, v in lp.vars.items() if k in ("v", "w")},
            "applied": sorted(x for x in lp.applied_ids if not x.startswith(("s", "nest_", "vp_"))), "text": text,
            "seen_v": int(mv.group(1)) if mv else None}


def spec_of(case, i):
    """the name a pipeline is registered and requested under: distinct per pipeline, its order differs from the list order"""
    return f"{case['pipes'][i]['name']}~{(i * 7) % 5}{i}"


def run_impl(case):
    from sigma.processing.resolver import ProcessingPipelineResolver
    try:
        B = qsyntax.make_backend(BASE_CFG)
        if case["op"] == "tree":
            objs = [build(p, case.get("nestvar", False)) for p in case["pipes"]]
            if case.get("preapply"):
                from sigma.rule import SigmaRule
                for i in case["preapply"]:
                    try:
                        objs[i].apply(SigmaRule.from_dict({"title": "pre", "logsource": {"category": "c"},
                                                           "detection": {"sel": {"f": "v", "h|expand": "%v%"}, "condition": "sel"}}))
                    except Exception:
                        pass          # an operand without v cannot resolve the placeholder on its own: part of the history

            def ev(t):
                return objs[t] if isinstance(t, int) else ev(t[0]) + ev(t[1])
            return {"outcome": "ok", "obs": observe(B, ev(case["tree"]), nestvar=case.get("nestvar", False))}
        if case["op"] == "resolve":
            objs = [build(p) for p in case["pipes"]]
            # the pipelines are registered under specs that differ from their declared names (as files / plugin keys do)
            r = ProcessingPipelineResolver({spec_of(case, i): o for i, o in enumerate(objs)})
            first = r.resolve([spec_of(case, i) for i in case["order"]])
            o1 = observe(B, first)
            second = r.resolve([spec_of(case, i) for i in case["order2"]])
            o2 = observe(B, second)
            return {"outcome": "ok", "obs": o1, "obs2": o2}
        if case["op"] == "init":
            from collections import defaultdict
            from sigma.processing.pipeline import ProcessingPipeline
            b, u, f = [build(p) for p in case["pipes"]]
            other = build({"name": "other", "priority": 0, "items": [97], "post": [98], "fins": [], "vars": {"v": 99}})
            target = case.get("target", "default")
            fmts = {"default": f, "alt": other} if target == "default" else {"default": other, "alt": f}
            B2 = type("InitB", (B,), {"backend_processing_pipeline": b, "formats": {"default": "d", "alt": "a"},
                                      "output_format_processing_pipeline": defaultdict(ProcessingPipeline, **fmts),
                                      "finalize_query_alt": lambda self, rule, query, index, state: query,
                                      # the second format's output step returns ONE document (a string), not a list: finalizers still run on it
                                      "finalize_output_alt": lambda self, queries: ";".join(map(str, queries))})
            if "via" in case:
                return {"outcome": "ok", "obs": observe(B2, u, first_format=({"default": "alt", "alt": "default"}[target] if case.get("history") in ("convert", "rule") else None),
                                                        via=case["via"], target=target, first_via=case.get("history") or "convert",
                                                        implicit=bool(case.get("implicit")))}
            return {"outcome": "ok", "obs": observe(B2, u, first_format="alt" if case.get("history") else None)}
    except Exception as e:
        return {"outcome": outcome_of_exception(e), "msg": str(e)[:200]}


def make_request(case, impl, gen):
    vk = {"v": 0, "w": 1}
    pipes = [{"items": p["items"], "post": p["post"], "fins": p["fins"], "vars": [[vk[k], v] for k, v in p["vars"].items()]} for p in case["pipes"]]
    r = {"op": "pipe.compose", "pipes": pipes}
    if case["op"] == "tree":
        r["tree"] = case["tree"]
    elif case["op"] == "resolve":
        specs = sorted(spec_of(case, i) for i in range(len(case["pipes"])))
        r["resolve"] = [[case["pipes"][i]["priority"], specs.index(spec_of(case, i)), i] for i in case["order"]]
    else:
        r["init"] = [0, 1, 2]
    return r


def judge(case, impl, reply):
    io = impl["outcome"]
    key = (case["op"], case["pipes"], case.get("tree"), case.get("order"), case.get("history"), case.get("via"), case.get("target"), case.get("implicit"), case.get("nestvar"), tuple(case.get("preapply") or ()))
    markers = sum(len(p["items"]) + len(p["post"]) + len(p["fins"]) for p in case["pipes"])
    nt = len(case["pipes"]) >= 2 and markers >= 2
    tags = (f"op:{case['op']}", f"n:{len(case['pipes'])}", f"impl:{io.split(':')[0]}")
    names = [p["name"] for p in case["pipes"]]
    if io != "ok":
        return Verdict("violation", f"{case['op']} of {case['pipes']} raised {io}: {impl.get('msg')}", nt, key, tags=tags)
    want = {"items": reply["items"], "post": reply["post"], "fins": reply["fins"],
            "vars": {("v", "w")[kv[0]]: kv[1] for kv in reply["vars"] if len(kv) == 2}}
    for label, obs in (("", impl["obs"]), ("second resolution of the same objects: ", impl.get("obs2"))):
        if obs is None:
            continue
        rule_only = obs["fins"] is None         # convert_rule: queries only, finalizers are not run
        want_ = {k: v for k, v in want.items() if not (rule_only and k == "fins")}
        got = {k: obs[k] for k in want_}
        if got != want_:
            which = [k for k in want_ if got[k] != want_[k]]
            how = (f" via {'convert_rule(rule' if case['via'] == 'rule' else 'convert(collection'}{'' if case.get('implicit') else ', ' + repr(case['target'])})"
                   + (" after a conversion with another user pipeline that was then replaced (backend.processing_pipeline = …)" if case.get("history") == "swapuser" else
                      f" after {'convert_rule' if case.get('history') == 'rule' else 'convert'} with the other output format on the same backend object" if case.get("history") else " on a fresh backend")) if "via" in case else \
                  (" (the backend object converted with output format alt first)" if case.get("history") else "")
            return Verdict("violation", (f"{label}{case['op']}{how} {case.get('tree') or case.get('order') or ''} of "
                                         f"{[(p['name'], p['priority'], p['items'], p['post'], p['fins'], p['vars']) for p in case['pipes']]}: "
                                         f"observed {({k: got[k] for k in which})} but composition is defined to give {({k: want[k] for k in which})}; output {obs['text']!r}"),
                           nt, key, tags=tags)
        if not rule_only and obs.get("fins_empty") != want["fins"]:
            return Verdict("violation", (f"{label}{case['op']}: converting an empty collection gives {obs.get('text_empty')!r}: finalizers {obs.get('fins_empty')} ran, "
                                         f"but the composed pipeline's finalizers {want['fins']} run once on the whole (here empty) list"), nt, key, tags=tags)
        if case.get("nestvar") and obs.get("seen_v") != want["vars"].get("v"):
            return Verdict("violation", (f"{label}{case['op']} {case.get('tree')} of {[(p['name'], p['vars']) for p in case['pipes']]} (operands {case.get('preapply')} were applied to a rule "
                                         f"before composing): the item inside the nested pipeline replaced %v% by {obs.get('seen_v')!r}, the composed pipeline's variable v is "
                                         f"{want['vars'].get('v')!r}; output {obs['text']!r}"), nt, key, tags=tags)
        if obs["applied"] != sorted(set([f"i{k}" for k in want["items"]] + [f"q{k}" for k in want["post"]])):
            return Verdict("violation", f"{label}applied item identifiers {obs['applied']} do not match the composed items {want['items']} / {want['post']}", nt, key, tags=tags)
    return Verdict("ok", "", nt, key, tags=tags)
