"""C20 — output is byte-identical across processes, hash seeds and random draws.

Two kinds of cases:

* **schedule cases** (`kind: "item"`): one corpus item (rules + pipelines + filters / a malformed document / a
  validator run / a tracking call sequence / a regular expression with flags).  The SAME driver script
  (`harness/c20_driver.py`, copied with the corpus into a per-run temporary directory) is run in fresh
  interpreters with different `PYTHONHASHSEED` and `random.seed` values and once more with identical
  seeds (address-dependent orders); every process prints queries, finalised output, error records,
  validation issues and tracking state per item.  Any difference between two processes is a VIOLATION
  (replay = the item + the two seeds + the first differing record); an internal identifier
  (`_cond_` / `_filt_` + 10 letters, taken from the regenerated generator table) inside a query or
  finalised output is a VIOLATION.  For speed the whole corpus is run once per seed in batches
  (`gen_cases` fills a cache); a replay runs the single item.
* **model cases** (`kind: "track" | "addcond" | "filter" | "render"`): the real code in-process against the
  Lean model (`det.case`): final field-mapping state, resolved condition trees with the actually drawn
  name / prefix, texts of the set-rendering error messages.  Disagreement is *drift*.
"""
from __future__ import annotations
import copy, hashlib, json, os, random, re, shutil, subprocess, sys, tempfile, uuid
from .common import Verdict, cps, uncps, outcome_of_exception, VERIF, REPO, PY, NPROC
from . import c07, c11, c12

ID = "C20"
GEN = ["Det", "Cond"]
RULE = ("corpus items = {C12 rules x 1..3 transformations (1:1 and 1:N field mappings, nested pipelines, add_condition plain/negated/"
        "template, value transformations); rules with fields a,b x chains of field mappings incl. nested pipelines merging tracking "
        "sets; C11 rule sets x filters (adversarial names); regular expressions with flag sets; add_condition on multi-condition rules "
        "with underscore patterns; correlation rules incl. unknown condition keys; strict field mapping failures; pipelines with "
        "unreferenced condition items; C07 documents with one mutated path (malformed stream); validator runs (subsets/orders of the "
        "built-in validators, configs with removals, rules with several dangling names); direct FieldMappingTracking call sequences with "
        "merges; fixed regression sub-stream for the defects fixed in 0ce6c6c..12a37f8 and finding D39} x PYTHONHASHSEED x random.seed "
        "x one repeated process; distinct = distinct items; non-trivial = the item produced a query, an issue or an error record. "
        "Model cases: tracking sequences, add_condition trees, filter trees, rendered messages vs the Lean model."
        "; fixed regression inputs of every repaired determinism defect")
RULE += '; round 5: `hashes_fields` items (several configured algorithms, values with / without a configured algorithm; error records listing the algorithms)'
ASSUMPTIONS = [
    "CPython's hash randomisation and the random module are exercised by sampling (PYTHONHASHSEED 0..3 quick / 0..23 thorough, as many random seeds, one repeated start); the Lean theorems quantify over all enumerations and all fresh names",
    "validators needing network data (MITRE ATT&CK / D3FEND tag validators) are excluded",
    "the test backend TextQueryTestBackend stands for 'the same backend'; finalised output = formats default and str",
    "auto-generated processing item identifiers (applied_ids) are recorded as a note only: they contain the drawn add_condition name by construction and reach neither queries nor error records",
]
QUICK_SEEDS = [(0, 0), (1, 1), (2, 2), (3, 3), (0, 0)]
DRIVER_SRC = os.path.join(os.path.dirname(os.path.abspath(__file__)), "c20_driver.py")
_CACHE: dict = {}          # item key -> {seed label: output}
_INTERNAL = None


def seeds_for(tier):
    if tier == "thorough":
        return [(h, h * 7 + 1) for h in range(24)] + [(0, 1)]
    return list(QUICK_SEEDS)


def seed_label(k, s):
    return f"{k}:hash={s[0]}:rand={s[1]}"


def item_key(item):
    return hashlib.sha1(json.dumps(item, sort_keys=False, default=str).encode()).hexdigest()


def internal_regex(gen):
    global _INTERNAL
    if _INTERNAL is None:
        rn = ((gen or {}).get("Det") or {}).get("randNames") or [
            {"prefix": "_cond_", "alphabet": "abcdefghijklmnopqrstuvwxyz", "length": 10},
            {"prefix": "_filt_", "alphabet": "abcdefghijklmnopqrstuvwxyz", "length": 10}]
        _INTERNAL = re.compile("|".join(re.escape(r["prefix"]) + "[" + re.escape(r["alphabet"]) + "]{" + str(r["length"]) + "}" for r in rn))
    return _INTERNAL


# ------------------------------------------------------------------------------------------ corpus generators
def doc_of_c12(r, i=0):
    return {"title": f"r{i}", "name": f"rn{i}", "id": str(uuid.UUID(int=0x5000 + i)), "logsource": dict(r["logsource"]),
            "detection": {**copy.deepcopy(r["dets"]), "condition": r["cond"]}}


def pipe(items, name="p", prio=10):
    return {"name": name, "priority": prio, "transformations": items}


def gen_convert_c12(rnd):
    docs = [doc_of_c12(c12.gen_rule(rnd), i) for i in range(rnd.randint(1, 3))]
    ts = [c12.t_yaml(c12.gen_transformation(rnd)) for _ in range(rnd.randint(1, 3))]
    pipes = [pipe(ts)] if rnd.random() < 0.6 else [pipe(ts[:1], "p1", 10), pipe(ts[1:], "p2", 20)]
    return {"kind": "convert", "docs": docs, "pipelines": pipes, "collect": True}


FIELDS = ["a", "b", "c", "d", "e", "g"]


def gen_mapping(rnd):
    m = {}
    for src in rnd.sample(FIELDS, rnd.randint(1, 3)):
        m[src] = rnd.choice(FIELDS) if rnd.random() < 0.5 else rnd.sample(FIELDS, rnd.randint(2, 3))
    return m


def gen_convert_mapping_chain(rnd):
    det = {f: f"v{i}" for i, f in enumerate(rnd.sample(FIELDS[:4], rnd.randint(2, 4)))}
    if rnd.random() < 0.3:
        det[f"{rnd.choice(FIELDS)}|fieldref"] = rnd.choice(FIELDS)
    items = []
    for _ in range(rnd.randint(2, 4)):
        t = {"type": "field_name_mapping", "mapping": gen_mapping(rnd)}
        if rnd.random() < 0.35:
            t = {"type": "nest", "items": [t, {"type": "field_name_mapping", "mapping": gen_mapping(rnd)}]}
        items.append(t)
    if rnd.random() < 0.3:
        items.append({"type": "strict_field_mapping_failure"})
    doc = {"title": "m", "logsource": {"category": "c"}, "detection": {"sel": det, "condition": "sel"}}
    return {"kind": "convert", "docs": [doc], "pipelines": [pipe(items)], "collect": True}


def gen_convert_filter(rnd):
    c = c11.gen_case(rnd)
    if rnd.random() < 0.1:        # filter naming an identifier it does not define (finding D39)
        f = c["filters"][0]["filter"]
        f["condition"] = f"{f['condition']} and nosuchdet"
        c["filters"][0]["filter"]["rules"] = "any"
        c["filters"][0]["logsource"] = {}
    pipes = [pipe([{"type": "add_condition", "conditions": {"idx": "main"}}])] if rnd.random() < 0.3 else []
    return {"kind": "convert", "docs": c["rules"] + c["filters"], "pipelines": pipes, "collect": True}


def gen_convert_regex(rnd):
    mods = rnd.sample(["i", "m", "s"], rnd.randint(1, 3))
    det = {"f|re|" + "|".join(mods): rnd.choice(["a.*b", "^x[0-9]+$", "foo|bar", "a b"]), "g": "x"}
    doc = {"title": "re", "logsource": {"category": "c"}, "detection": {"sel": det, "condition": "sel"}}
    return {"kind": "convert", "docs": [doc], "pipelines": [], "collect": True}


ADD_CONDS = ["sel", "sel and not flt", "1 of s*", "all of them", "1 of _*", "sel or 1 of _x*", "not 1 of them", "sel and", "sel) or (flt",
             "sel and nosuch", "any of them and not _x"]


def gen_convert_addcond(rnd):
    dets = {"sel": {"f": "v0"}, "flt": {"g": ["v1", "w1"]}, "_x": {"h": "v2"}, "s2": {"f|contains": "v3"}}
    keep = ["sel"] + rnd.sample(["flt", "_x", "s2"], rnd.randint(1, 3))
    conds = [rnd.choice(ADD_CONDS) for _ in range(rnd.randint(1, 2))]
    doc = {"title": "ac", "logsource": {"category": "cat", "product": "prod"},
           "detection": {**{k: dets[k] for k in keep}, "condition": conds if len(conds) > 1 else conds[0]}}
    ts = [{"type": "add_condition", "conditions": {"idx": rnd.choice(["main", "$category"]), "src": ["a", "b"]},
           "negated": rnd.random() < 0.3, "template": rnd.random() < 0.3} for _ in range(rnd.randint(1, 2))]
    return {"kind": "convert", "docs": [doc], "pipelines": [pipe(ts)], "collect": True}


CORR_BASE = {"title": "corr", "name": "corr0", "correlation": {"type": "event_count", "rules": ["rn0"], "group-by": ["f"], "timespan": "5m",
                                                              "condition": {"gte": 2}}}


def gen_convert_corr(rnd):
    r = doc_of_c12(c12.gen_rule(rnd), 0)
    c = copy.deepcopy(CORR_BASE)
    extra = rnd.sample(["foo", "bar", "baz", "qux", "zap"], rnd.randint(0, 4))
    for k in extra:
        c["correlation"]["condition"][k] = 1
    if rnd.random() < 0.3:
        c["correlation"]["type"] = "temporal"; c["correlation"]["rules"] = ["rn0", "rn0"]
    return {"kind": "convert", "docs": [r, c], "pipelines": [], "collect": rnd.random() < 0.7}


def gen_load_malformed(rnd):
    kind = rnd.choice(list(c07.BASES))
    base = copy.deepcopy(rnd.choice(c07.BASES[kind]))
    path = rnd.choice([p for p in c07.paths(base) if p])
    if rnd.random() < 0.15:
        doc = c07.set_path(base, path, None, delete=True)
    else:
        doc = c07.set_path(base, path, copy.deepcopy(rnd.choice(c07.REPL)))
    return {"kind": "load", "what": kind, "doc": doc}


def gen_load_pipeline(rnd):
    conds = {f"c{i}": {"type": "logsource", "category": f"x{i}"} for i in range(1, rnd.randint(3, 6))}
    expr = rnd.choice(["c1", "c1 and c2", "not c1", "c1 or nosuch"])
    doc = pipe([{"type": "drop_detection_item", rnd.choice(["rule_cond_expr"]): expr, "rule_conditions": conds}])
    if rnd.random() < 0.3:
        doc["transformations"][0] = {"type": "drop_detection_item", "field_name_cond_expr": expr,
                                     "field_name_conditions": {k: {"type": "include_fields", "fields": [k]} for k in conds}}
    return {"kind": "load", "what": "pipeline", "doc": doc}


VALIDATOR_NAMES = None


def validator_names():
    global VALIDATOR_NAMES
    if VALIDATOR_NAMES is None:
        from .c20_driver import validator_pool
        VALIDATOR_NAMES = sorted(validator_pool())
    return VALIDATOR_NAMES


def gen_validate(rnd):
    names = validator_names()
    docs = []
    for i in range(rnd.randint(1, 3)):
        dets = {"sel": {"a": "x"}}
        for k in rnd.sample(["unused1", "unused2", "unused3", "zz", "_u"], rnd.randint(0, 4)):
            dets[k] = {"b|all": "*y*"} if rnd.random() < 0.3 else {"b|all": [None, "z"]} if rnd.random() < 0.15 else {"b": 1}
        cond = rnd.choice(["sel", "sel and 1 of foo* and 1 of bar* and all of baz*", "1 of them", "sel and not 1 of q*"])
        docs.append({"title": f"Title {rnd.randint(0, 1)}", "id": str(uuid.UUID(int=0x7000 + rnd.randint(0, 1))),
                     "logsource": {"category": "process_creation", "product": "windows"}, "status": "test", "level": "medium",
                     "tags": rnd.sample(["attack.t1059", "foo.x", "tlp.xx", "attack.bar", "cve.2020-1"], rnd.randint(0, 3)),
                     "detection": {**dets, "condition": cond}})
    if rnd.random() < 0.25:
        from sigma.validators.core import validator_classname_to_identifier as ident
        ids = [ident(n) for n in rnd.sample(names, rnd.randint(2, 5))]
        cfg = {"validators": ids + (["-nosuchvalidator"] if rnd.random() < 0.5 else ["-" + ids[0]])}
        return {"kind": "validate", "docs": docs, "config": cfg}
    chosen = rnd.sample(names, rnd.randint(3, len(names)))
    if rnd.random() < 0.3:
        chosen = chosen + chosen[:2]          # duplicates: removed, first occurrence kept
    return {"kind": "validate", "docs": docs, "validators": chosen}


TKEYS = ["a", "b", "c", "d", "e", None]


def gen_track_steps(rnd):
    def op():
        return {"src": rnd.choice(TKEYS), "tgt": rnd.sample([k for k in TKEYS if k is not None], rnd.randint(1, 3))}
    steps = []
    for _ in range(rnd.randint(2, 6)):
        if rnd.random() < 0.3:
            steps.append({"merge": [op() for _ in range(rnd.randint(1, 3))]})
        else:
            steps.append({"add": op()})
    return steps


def gen_track(rnd):
    return {"kind": "track", "steps": gen_track_steps(rnd)}


def gen_regex(rnd):
    return {"kind": "regex", "regex": rnd.choice(["a.*b", "x/y", "a\\\\b", "(foo|bar)+"]),
            "flags": rnd.sample(["IGNORECASE", "MULTILINE", "DOTALL"], rnd.randint(0, 3)), "escaped": rnd.choice([[], ["/"], ["a"]])}


def regression_items():
    """the inputs that exposed the defects fixed in 0ce6c6c, 1d09ad6, 89a9c36, 2178638, 4d82b16, 406aa56, 8f1213d, 12a37f8 and finding D39"""
    rule = {"title": "r", "name": "r", "logsource": {"category": "c"}, "detection": {"sel": {"a": 1}, "condition": "sel"}}
    its = []
    corr = copy.deepcopy(CORR_BASE); corr["correlation"]["condition"] = {"gte": 1, "foo": 1, "bar": 2, "baz": 3}
    its.append({"kind": "load", "what": "correlation", "doc": corr, "regress": "0ce6c6c"})
    its.append({"kind": "load", "what": "pipeline", "regress": "1d09ad6",
                "doc": pipe([{"type": "drop_detection_item", "rule_cond_expr": "c1",
                              "rule_conditions": {f"c{i}": {"type": "logsource", "category": f"x{i}"} for i in range(1, 5)}}])})
    its.append({"kind": "convert", "regress": "89a9c36", "collect": True,
                "docs": [{"title": "t", "logsource": {"category": "c"}, "detection": {"sel": {"a": 1, "foo": 1, "bar": 2, "baz": 3, "qux": 4}, "condition": "sel"}}],
                "pipelines": [pipe([{"type": "field_name_mapping", "mapping": {"a": "b"}}, {"type": "strict_field_mapping_failure"}])]})
    its.append({"kind": "convert", "regress": "2178638", "collect": True,
                "docs": [{"title": "t", "logsource": {"category": "c"}, "detection": {"sel": {"a": 1, "b": 2}, "condition": "sel"}}],
                "pipelines": [pipe([{"type": "field_name_mapping", "mapping": {"a": "c", "b": "c"}}, {"type": "field_name_mapping", "mapping": {"c": "d"}},
                                    {"type": "field_name_mapping", "mapping": {"d": "e"}}])]})
    its.append({"kind": "track", "regress": "2178638", "steps": [{"add": {"src": "a", "tgt": ["c"]}}, {"add": {"src": "b", "tgt": ["c"]}},
                                                                 {"add": {"src": "c", "tgt": ["d"]}}, {"add": {"src": "d", "tgt": ["e"]}}]})
    its.append({"kind": "validate", "regress": "4d82b16", "docs": [rule], "config": {"validators": ["tlptag", "dangling_detection", "all_of_them_condition", "-nope"]}})
    many = {"title": "t", "logsource": {"category": "c"}, "tags": ["foo.x", "attack.bar", "tlp.xx"],
            "detection": {"sel": {"a": 1}, "unused": {"b": "*x*", "c|all": "x"}, "condition": "sel"}}
    its.append({"kind": "validate", "regress": "406aa56", "docs": [many], "validators": validator_names()})
    dang = {"title": "t", "logsource": {"category": "c"}, "detection": {"sel": {"a": 1}, "unused1": {"b": 1}, "unused2": {"b": 1}, "unused3": {"b": 1},
                                                                         "condition": "sel and 1 of foo* and 1 of bar* and 1 of baz*"}}
    its.append({"kind": "validate", "regress": "8f1213d", "docs": [dang], "validators": ["DanglingDetectionValidator", "DanglingConditionValidator"]})
    filt = {"title": "f", "logsource": {"category": "c"}, "filter": {"rules": ["r"], "sel": {"b": 2}, "condition": "sel and nope"}}
    its.append({"kind": "convert", "regress": "D39", "docs": [rule, filt], "pipelines": [], "collect": True})
    its.append({"kind": "convert", "regress": "D39", "docs": [rule, filt], "pipelines": [], "collect": False})
    r2 = {"title": "r", "name": "r", "logsource": {"category": "c"}, "detection": {"sel": {"a": 1, "b": 2}, "condition": "sel"}}
    corr2 = {"title": "corr", "correlation": {"type": "event_count", "rules": ["r"], "group-by": ["a"], "timespan": "5m", "condition": {"gte": 2}}}
    its.append({"kind": "convert", "regress": "12a37f8", "docs": [r2, corr2], "collect": True, "pipelines": [pipe([
        {"id": "m1", "type": "field_name_mapping", "mapping": {"a": "x"}}, {"id": "m2", "type": "field_name_suffix", "suffix": ".s"},
        {"id": "m3", "type": "add_condition", "conditions": {"i": "j"}},
        {"id": "boom", "type": "detection_item_failure", "message": "no", "field_name_conditions": [{"type": "include_fields", "fields": ["b.s"]}]}])]})
    its.append({"kind": "load", "what": "rule", "regress": "signull",
                "doc": {"title": "n", "logsource": {"category": "c"}, "detection": {"sel": {"g|contains": None}, "condition": "sel"}}})
    its.append({"kind": "validate", "regress": "signull", "validators": ["AllWithoutContainsModifierValidator", "DanglingDetectionValidator"],
                "docs": [{"title": "n", "logsource": {"category": "c"}, "detection": {"sel": {"a": 1}, "u": {"g|all": [None, "x"]}, "condition": "sel"}}]})
    # af98f4f: the convert_type error text carried the transformation's repr (pipeline with tracking sets)
    its.append({"kind": "convert", "regress": "af98f4f", "collect": True,
                "docs": [{"title": "t", "logsource": {"category": "c"}, "detection": {"sel": {"a": "x1", "b": "y", "c": "z", "d": "w"}, "condition": "sel"}}],
                "pipelines": [pipe([{"id": "m1", "type": "field_name_mapping", "mapping": {"a": ["a1", "a2", "a3"], "b": ["b1", "b2"]}},
                                    {"id": "m2", "type": "field_name_suffix", "suffix": ".s"}, {"id": "m3", "type": "field_name_prefix", "prefix": "p."},
                                    {"id": "cv", "type": "convert_type", "target_type": "num"}])]})
    # an exception the backend raises for an unsupported feature (not a Sigma error) after an added condition / a filter: its text is
    # an error record like any other and must neither vary with the draw nor carry the internal names
    hour = {"title": "h", "name": "h", "logsource": {"category": "c"}, "detection": {"sel": {"t|hour": 3, "a": 1}, "condition": "sel"}}
    its.append({"kind": "convert", "regress": "unsupported-after-addcond", "docs": [hour], "collect": False,
                "pipelines": [pipe([{"id": "ac", "type": "add_condition", "conditions": {"i": "j"}}])]})
    its.append({"kind": "convert", "regress": "unsupported-after-filter", "pipelines": [], "collect": False,
                "docs": [hour, {"title": "f", "logsource": {"category": "c"}, "filter": {"rules": ["h"], "flt": {"b": 2}, "condition": "not flt"}}]})
    # 1a4946c: a modifier applied to an incompatible regular expression value printed the flag set in hash order
    its.append({"kind": "load", "what": "rule", "regress": "1a4946c",
                "doc": {"title": "n", "logsource": {"category": "c"}, "detection": {"sel": {"a|re|i|m|s|base64": "x.*"}, "condition": "sel"}}})
    return its


HASH_VALUES = ["MD5=987B65CD9B9F4E9A1AFD8F8B48CF64A7", "sha1=5F1CBC3D99558307BC1250D084FA968521482025", "IMPHASH=F34D5F2D4577ED6D9CEEC516C1F5A744",
               "SHA256=" + "AB" * 32, "987B65CD9B9F4E9A1AFD8F8B48CF64A7", "nothash", "TLSH=ABC", "Sha512=" + "C" * 128]


def gen_convert_hashes(rnd):
    """`hashes_fields` with several configured algorithms: split items keep the order of the rule's values, and the error record of an
    item without any configured algorithm lists the configured algorithms - both in the same order in every process"""
    algos = rnd.sample(["MD5", "SHA1", "SHA256", "SHA512", "IMPHASH", "sha3", "TLSH", "Authentihash"], rnd.randint(2, 6))
    docs = []
    for i in range(rnd.randint(1, 3)):
        vals = rnd.sample(HASH_VALUES, rnd.randint(1, 4))
        key = rnd.choice(["Hashes", "Hashes|contains", "Hash", "Hashes|contains|all"])
        docs.append({"title": f"h{i}", "logsource": {"category": "c"}, "detection": {"sel": {key: vals if len(vals) > 1 or rnd.random() < 0.5 else vals[0], "a": i},
                                                                                       "condition": "sel"}})
    t = {"id": "hf", "type": "hashes_fields", "valid_hash_algos": algos, "field_prefix": rnd.choice(["File", "", "hash."]), "drop_algo_prefix": rnd.random() < 0.3}
    return {"kind": "convert", "docs": docs, "pipelines": [pipe([t])], "collect": rnd.random() < 0.8}


GENS = [(gen_convert_hashes, 5), (gen_convert_c12, 22), (gen_convert_mapping_chain, 14), (gen_convert_filter, 12), (gen_convert_regex, 3), (gen_convert_addcond, 10),
        (gen_convert_corr, 5), (gen_load_malformed, 14), (gen_load_pipeline, 4), (gen_validate, 8), (gen_track, 6), (gen_regex, 2)]


def gen_items(rnd, n):
    fs = [g for g, w in GENS for _ in range(w)]
    return [rnd.choice(fs)(rnd) for _ in range(n)]


# ------------------------------------------------------------------------------------------ subprocess sweep
def run_processes(items, seeds):
    """run the driver script over `items` once per seed (fresh interpreters, in parallel); returns
    {seed label: [output per item]}"""
    work = os.path.join(VERIF, ".work")
    os.makedirs(work, exist_ok=True)
    tmp = tempfile.mkdtemp(prefix="c20_", dir=work)
    try:
        script = os.path.join(tmp, "c20_driver.py")
        shutil.copy(DRIVER_SRC, script)
        nshard = max(1, min(len(items) // 40 + 1, max(1, NPROC // max(1, min(len(seeds), NPROC)))))
        shards = [items[i::nshard] for i in range(nshard)]
        jobs = []
        for si, sh in enumerate(shards):
            cf = os.path.join(tmp, f"corpus{si}.json")
            json.dump(sh, open(cf, "w"))
            for k, s in enumerate(seeds):
                jobs.append((si, k, s, cf, os.path.join(tmp, f"out{si}_{k}.jsonl")))
        results = {seed_label(k, s): [None] * len(items) for k, s in enumerate(seeds)}
        pending = list(jobs)
        running = []
        failures = []
        while pending or running:
            while pending and len(running) < NPROC:
                si, k, s, cf, of = pending.pop(0)
                env = {kk: v for kk, v in os.environ.items() if kk not in ("PYTHONHASHSEED", "PYTHONPATH")}
                env["PYTHONHASHSEED"] = str(s[0]); env["PYTHONPATH"] = REPO
                p = subprocess.Popen([PY, script, cf, str(s[1]), of], env=env, cwd=tmp, stdout=subprocess.DEVNULL, stderr=subprocess.PIPE, text=True)
                running.append((p, si, k, s, of))
            p, si, k, s, of = running.pop(0)
            _, errtxt = p.communicate()
            if p.returncode != 0:
                failures.append(f"seed {s}: exit {p.returncode}: {errtxt[-400:]}")
                continue
            lab = seed_label(k, s)
            for line in open(of):
                j = json.loads(line)
                results[lab][j["i"] * nshard + si] = j["out"]
        if failures:
            from .common import Infra
            raise Infra("C20 driver script failed: " + "; ".join(failures[:3]))
        return results
    finally:
        shutil.rmtree(tmp, ignore_errors=True)


def fill_cache(items, seeds):
    res = run_processes(items, seeds)
    for idx, it in enumerate(items):
        _CACHE[item_key(it)] = {lab: outs[idx] for lab, outs in res.items()}


# ------------------------------------------------------------------------------------------ model cases
DET_NAMES = ["sel", "flt", "_x", "s2", "1st", "notepad", "sel_a", "sel_b"]
MODEL_CONDS = ["{0}", "{0} and not {1}", "1 of s*", "all of them", "1 of _*", "{0} or 1 of _x*", "not 1 of them", "{0} and", "{0}) or ({1}",
               "{0} and nosuch", "any of them and not {1}", "{0}  and   ( {1} or {0} )", "1 of sel_*", "not {0} or {1} and {0}"]
FILTER_CONDS = ["{0}", "not {0}", "1 of them", "all of f*", "{0} and not 1 of *_b", "not 1 of them", "{0} or {1}", "{0} and nosuch"]


def gen_model_cases(rnd, n):
    cases = []
    for _ in range(n):
        r = rnd.random()
        if r < 0.35:
            cases.append({"kind": "track", "steps": gen_track_steps(rnd)})
        elif r < 0.65:
            names = rnd.sample(DET_NAMES, rnd.randint(1, 4))
            conds = [rnd.choice(MODEL_CONDS).format(names[0], names[-1]) for _ in range(rnd.randint(1, 2))]
            cases.append({"kind": "addcond", "names": names, "conds": conds, "neg": rnd.random() < 0.4})
        elif r < 0.85:
            names = rnd.sample(DET_NAMES, rnd.randint(1, 3))
            fnames = rnd.sample(["f1", "f_b", "sel", "_u", "g_b"], rnd.randint(1, 3))
            cases.append({"kind": "filter", "names": names, "cond": rnd.choice(MODEL_CONDS[:7]).format(names[0], names[-1]),
                          "fnames": fnames, "fcond": rnd.choice(FILTER_CONDS).format(fnames[0], fnames[-1])})
        else:
            what = rnd.choice(["flags", "unknown_keys", "unreferenced", "unmapped", "dangling", "remove_validator"])
            pool = ["foo", "bar", "baz", "Qux", "_z", "a1", "a10", "a2", "Zed", "é"]
            cases.append({"kind": "render", "what": what, "keys": rnd.sample(pool, rnd.randint(2, 5)),
                          "flags": rnd.sample(["i", "m", "s"], rnd.randint(0, 3))})
    return cases


def gen_cases(tier, seed, gen, effort):
    rnd = random.Random(seed * 9349 + 20)
    thorough = tier == "thorough"
    seeds = seeds_for(tier)
    internal_regex(gen)
    items = regression_items() + gen_items(rnd, (330 if not thorough else 2500) * effort)
    uniq, seen = [], set()
    for it in items:
        k = item_key(it)
        if k not in seen:
            seen.add(k); uniq.append(it)
    fill_cache(uniq, seeds)
    cases = [{"kind": "item", "item": it, "seeds": seeds} for it in uniq]
    cases += gen_model_cases(rnd, (700 if not thorough else 6000) * effort)
    return cases, False


# ------------------------------------------------------------------------------------------ real code, in-process
def tree_of(c):
    from sigma.conditions import ConditionAND, ConditionOR, ConditionNOT, ConditionFieldEqualsValueExpression
    if c is None:
        return None
    if isinstance(c, ConditionFieldEqualsValueExpression):
        return {"d": int(str(c.value)[1:])}
    if isinstance(c, ConditionNOT):
        return {"not": tree_of(c.args[0])}
    if isinstance(c, ConditionAND):
        return {"and": [tree_of(a) for a in c.args]}
    if isinstance(c, ConditionOR):
        return {"or": [tree_of(a) for a in c.args]}
    return {"?": type(c).__name__}


def normal_form(t):
    """the implementation keeps a selector that matched nothing as a `None` operand, which the backend skips; the
    model drops it and collapses a node left with one operand — compare in that normal form"""
    if t is None or "d" in t:
        return t
    if "not" in t:
        x = normal_form(t["not"])
        return None if x is None else {"not": x}
    for op in ("and", "or"):
        if op in t:
            xs = [y for y in (normal_form(x) for x in t[op]) if y is not None]
            return None if not xs else xs[0] if len(xs) == 1 else {op: xs}
    return t


def parsed_outcome(pc):
    from sigma.exceptions import SigmaConditionError
    try:
        t = pc.parsed
    except SigmaConditionError as e:
        m = re.match(r"Detection '(.*)' not defined in detections", str(e))
        return {"outcome": "undefined", "name": m.group(1)} if m else {"outcome": "parse_error", "msg": str(e)}
    except Exception as e:
        return {"outcome": outcome_of_exception(e), "msg": str(e)[:200]}
    nf = normal_form(tree_of(t))
    if nf is None:
        return {"outcome": "none"}
    return {"outcome": "ok", "tree": nf}


def impl_track(case):
    from .c20_driver import item_track
    return item_track(case)


def impl_addcond(case):
    from sigma.rule import SigmaRule
    from sigma.processing.pipeline import ProcessingPipeline
    dets = {n: {"f": f"v{i}"} for i, n in enumerate(case["names"])}
    conds = case["conds"]
    r = SigmaRule.from_dict({"title": "t", "logsource": {"category": "c"}, "detection": {**dets, "condition": conds if len(conds) > 1 else conds[0]}})
    p = ProcessingPipeline.from_dict(pipe([{"type": "add_condition", "conditions": {"f": "v1000000"}, "negated": case["neg"]}]))
    p.apply(r)
    name = p.items[0].transformation.name
    return {"name": name, "dets": list(r.detection.detections), "rewritten": [pc.condition for pc in r.detection.parsed_condition],
            "items": [parsed_outcome(pc) for pc in r.detection.parsed_condition]}


def impl_filter(case):
    from sigma.collection import SigmaCollection
    dets = {n: {"f": f"v{i}"} for i, n in enumerate(case["names"])}
    fdets = {n: {"f": f"v{1000 + i}"} for i, n in enumerate(case["fnames"])}
    docs = [{"title": "t", "name": "t", "logsource": {"category": "c"}, "detection": {**dets, "condition": case["cond"]}},
            {"title": "f", "logsource": {"category": "c"}, "filter": {"rules": ["t"], **fdets, "condition": case["fcond"]}}]
    coll = SigmaCollection.from_dicts(docs)
    r = coll.rules[0]
    keys = list(r.detection.detections)
    injected = keys[len(case["names"]):]
    m = internal_regex(None).match(injected[0]) if injected else None
    return {"prefix": m.group(0) if m else None, "dets": keys, "rewritten": [pc.condition for pc in r.detection.parsed_condition],
            "item": parsed_outcome(r.detection.parsed_condition[0])}


def impl_render(case):
    w, keys = case["what"], case["keys"]
    try:
        if w == "flags":
            from sigma.types import SigmaRegularExpression, SigmaRegularExpressionFlag as F
            r = SigmaRegularExpression("x")
            for f in case["flags"]:
                r.add_flag({"i": F.IGNORECASE, "m": F.MULTILINE, "s": F.DOTALL}[f])
            return {"text": r.escape()[:-1]}
        if w == "unknown_keys":
            from sigma.correlations import SigmaCorrelationCondition
            SigmaCorrelationCondition.from_dict({"gte": 1, **{k: 1 for k in keys}})
        if w == "unreferenced":
            from sigma.processing.pipeline import ProcessingPipeline
            ProcessingPipeline.from_dict(pipe([{"type": "drop_detection_item", "rule_cond_expr": "c_used",
                                                "rule_conditions": {"c_used": {"type": "logsource", "category": "x"},
                                                                    **{k: {"type": "logsource", "category": "y"} for k in keys if k.isascii()}}}]))
        if w == "unmapped":
            from sigma.collection import SigmaCollection
            from sigma.backends.test import TextQueryTestBackend
            from sigma.processing.pipeline import ProcessingPipeline
            doc = {"title": "t", "logsource": {"category": "c"}, "detection": {"sel": {"mappedfield": 0, **{k: i for i, k in enumerate(keys)}}, "condition": "sel"}}
            p = ProcessingPipeline.from_dict(pipe([{"type": "field_name_mapping", "mapping": {"mappedfield": "m2", keys[0]: keys[0] + "_t"}},
                                                   {"type": "strict_field_mapping_failure"}]))
            TextQueryTestBackend(p).convert(SigmaCollection.from_dicts([doc]))
        if w == "dangling":
            from sigma.rule import SigmaRule
            from sigma.validators.core.condition import DanglingDetectionValidator
            names = [k for k in keys if re.fullmatch(r"[A-Za-z0-9_]+", k)]
            r = SigmaRule.from_dict({"title": "t", "logsource": {"category": "c"}, "detection": {"used": {"f": 1}, **{k: {"f": 2} for k in names}, "condition": "used"}})
            return {"names": [i.detection_name for i in DanglingDetectionValidator().validate(r)], "asked": names}
        if w == "remove_validator":
            from sigma.validation import SigmaValidator
            ids = [k.lower() for k in keys if k.isascii()]
            SigmaValidator.from_dict({"validators": ids + ["-nosuch"]}, {i: None for i in ids})
        return {"text": None}
    except Exception as e:
        return {"text": str(e), "cls": type(e).__name__}


def run_item_processes(case):
    """the per-item observations: from the batch cache, or (replay) by running the item alone"""
    it, seeds = case["item"], [tuple(s) for s in case["seeds"]]
    labels = [seed_label(k, s) for k, s in enumerate(seeds)]
    hit = _CACHE.get(item_key(it))
    if hit is not None and all(l in hit for l in labels):
        return {l: hit[l] for l in labels}
    res = run_processes([it], seeds)
    return {l: outs[0] for l, outs in res.items()}


def run_impl(case):
    k = case["kind"]
    try:
        if k == "item":
            return {"outcome": "ok", "obs": run_item_processes(case)}
        if k == "track":
            return {"outcome": "ok", **impl_track(case)}
        if k == "addcond":
            return {"outcome": "ok", **impl_addcond(case)}
        if k == "filter":
            return {"outcome": "ok", **impl_filter(case)}
        if k == "render":
            return {"outcome": "ok", **impl_render(case)}
    except Exception as e:
        from .common import Infra
        if isinstance(e, Infra):
            raise
        return {"outcome": outcome_of_exception(e), "msg": str(e)[:300]}
    return {"outcome": "other:unknown-kind"}


# ------------------------------------------------------------------------------------------ Lean requests
def key_json(k):
    return None if k is None else cps(k)


def op_json(op):
    return {"src": key_json(op["src"]), "tgt": [key_json(t) for t in op["tgt"]]}


def grammar_json(gen):
    g = (gen or {}).get("Cond")
    if not g:
        return None
    out = {k: cps(g[k]) for k in ("identChars", "patChars", "quantKwChars", "opKwChars", "kwNot", "kwAnd", "kwOr", "kwOf")}
    out["opKeyword"] = g["opKeyword"]; out["quants"] = [cps(q) for q in g["quants"]]
    return out


def make_request(case, impl, gen):
    k = case["kind"]
    if k == "item" or impl.get("outcome") != "ok":
        return None
    if k == "track":
        return {"op": "det.case", "kind": "track",
                "steps": [{"add": op_json(s["add"])} if "add" in s else {"merge": [op_json(o) for o in s["merge"]]} for s in case["steps"]]}
    g = grammar_json(gen)
    if k == "addcond":
        if g is None: return None
        return {"op": "det.case", "kind": "addcond", "grammar": g, "names": [cps(n) for n in case["names"]], "conds": [cps(c) for c in case["conds"]],
                "neg": case["neg"], "name": cps(impl["name"])}
    if k == "filter":
        if g is None or not impl.get("prefix"): return None
        return {"op": "det.case", "kind": "filter", "grammar": g, "names": [cps(n) for n in case["names"]], "fnames": [cps(n) for n in case["fnames"]],
                "cond": cps(case["cond"]), "fcond": cps(case["fcond"]), "prefix": cps(impl["prefix"])}
    if k == "render":
        w, keys = case["what"], case["keys"]
        base = {"op": "det.case", "kind": "render", "what": w}
        if w == "flags": return {**base, "flags": case["flags"]}
        if w == "unknown_keys": return {**base, "keys": [cps(x) for x in keys]}
        if w == "unreferenced": return {**base, "name": cps("Rule condition"), "keys": [cps(x) for x in keys if x.isascii()]}
        if w == "unmapped": return {**base, "fields": [cps(x) for x in ["m2", keys[0] + "_t"] + keys[1:]], "mapped": [cps("m2"), cps(keys[0] + "_t")]}
        if w == "dangling": return {**base, "names": [cps(x) for x in ["used"] + impl.get("asked", [])], "referenced": [cps("used")]}
        if w == "remove_validator": return {**base, "vn": cps("nosuch"), "vs": [cps(x.lower()) for x in keys if x.isascii()]}
    return None


# ------------------------------------------------------------------------------------------ judging
def first_diff(a, b, path=""):
    if type(a) != type(b):
        return path or "/", a, b
    if isinstance(a, dict):
        for k in sorted(set(a) | set(b)):
            if k.startswith("note_"):
                continue
            if k not in a or k not in b:
                return f"{path}/{k}", a.get(k), b.get(k)
            d = first_diff(a[k], b[k], f"{path}/{k}")
            if d: return d
        return None
    if isinstance(a, list):
        for i, (x, y) in enumerate(zip(a, b)):
            d = first_diff(x, y, f"{path}[{i}]")
            if d: return d
        if len(a) != len(b):
            return f"{path}[len]", len(a), len(b)
        return None
    return None if a == b else (path or "/", a, b)


def strings_in(o, want):
    """all strings under the keys in `want` (queries / finalised output)"""
    out = []

    def walk(x, inside):
        if isinstance(x, dict):
            for k, v in x.items():
                walk(v, inside or k in want)
        elif isinstance(x, list):
            for v in x: walk(v, inside)
        elif isinstance(x, str) and inside:
            out.append(x)
    walk(o, False)
    return out


def has_undefined_filter_identifier(item):
    """does the item contain a filter whose condition names an identifier the filter does not define?"""
    for d in item.get("docs", []):
        f = d.get("filter") if isinstance(d, dict) else None
        if isinstance(f, dict) and isinstance(f.get("condition"), str):
            names = {k for k in f if k not in ("rules", "condition")}
            for tok in re.findall(r"[a-zA-Z0-9_*][a-zA-Z0-9*_-]*", f["condition"]):
                if tok not in ("not", "and", "or", "all", "any", "of", "1", "them") and "*" not in tok and tok not in names:
                    return True
    return False


def d39_class(item, a, b, rx):
    """finding D39, narrowly: the two observations become equal once the drawn `_filt_` prefix is deleted from
    error texts, every differing text is a SigmaConditionError '… not defined in detections', and the item has a
    filter with an undefined identifier"""
    if not has_undefined_filter_identifier(item):
        return False
    ok = [True]

    def strip(x, in_err):
        if isinstance(x, dict):
            return {k: strip(v, in_err or k in ("errors", "convert_error", "load_errors", "error")) for k, v in x.items()}
        if isinstance(x, list):
            if in_err and len(x) == 2 and x[0] == "SigmaConditionError" and isinstance(x[1], str) and "not defined in detections" in x[1]:
                return [x[0], re.sub(r"_filt_[a-z]{10}_", "", x[1])]
            return [strip(v, in_err) for v in x]
        return x
    return first_diff(strip(a, False), strip(b, False)) is None and not any(rx.search(s) for s in strings_in(a, ("output",)) + strings_in(b, ("output",)))


def judge_item(case, impl):
    item = case["item"]
    rx = internal_regex(None)
    obs = impl["obs"]
    labels = list(obs)
    first = obs[labels[0]]
    nt = any(strings_in(first, ("output", "issues", "errors", "load_errors", "raised", "fwd", "escaped", "convert_error", "load_error",
                                "pipeline_error", "config_error")))
    key = item_key(item)
    tags = [f"item:{item['kind']}" + (f":{item.get('what')}" if item.get("what") else "")]
    if item.get("regress"):
        tags.append("regression:" + item["regress"])
    if any("driver_exception" in (o or {}) for o in obs.values()):
        tags.append("driver-exception")
    # 1. internal identifiers in queries / finalised output
    for lab in labels:
        for s in strings_in(obs[lab], ("output", "queries")):
            m = rx.search(s)
            if m:
                return Verdict("violation", f"internal identifier {m.group(0)!r} appears in a query / finalised output: {s[:200]!r} (process {lab}); item {json.dumps(item)[:600]}",
                               nt, key, tags=tuple(tags))
    # 2. differences between processes
    for lab in labels[1:]:
        d = first_diff(first, obs[lab])
        if d:
            path, x, y = d
            fid = "D39" if d39_class(item, first, obs[lab], rx) else None
            what = (f"the same documents give different observable output in two interpreter processes: at {path}: "
                    f"{json.dumps(x, default=str)[:300]} (process {labels[0]}) vs {json.dumps(y, default=str)[:300]} (process {lab}); "
                    f"replay: item + seeds {labels[0]} and {lab}; item {json.dumps(item, default=str)[:700]}")
            return Verdict("violation", what, nt, key, finding=fid, tags=tuple(tags + (["known:D39"] if fid else [])))
    # 3. note: auto-generated identifiers differing per draw
    ids = {json.dumps((o.get("default") or {}).get("note_applied_ids")) for o in obs.values() if isinstance(o, dict) and "default" in o}
    if len(ids) > 1:
        tags.append("note:auto-identifier-depends-on-draw")
    return Verdict("ok", "", nt, key, tags=tuple(tags))


def norm_dict(d):
    return [[k, list(v)] for k, v in d]


def judge(case, impl, reply):
    k = case["kind"]
    if k == "item":
        if impl.get("outcome") != "ok":
            return Verdict("drift", f"schedule sweep failed: {impl}", False, None, tags=("item:failed",))
        return judge_item(case, impl)
    key = json.dumps(case, sort_keys=False, default=str)
    tags = (f"model:{k}" + (":" + case["what"] if k == "render" else ""),)
    if impl.get("outcome") != "ok":
        return Verdict("drift", f"real code raised {impl.get('outcome')}: {impl.get('msg')} on {case}", True, key, tags=tags + ("impl-raised",))
    if reply is None:
        return Verdict("ok", "", False, key, tags=tags + ("unjudged:no-request",))
    if k == "track":
        if "error" in impl:
            return Verdict("drift", f"FieldMappingTracking raised {impl['error']} on {case['steps']} (model is total)", True, key, tags=tags + ("impl-raised",))
        mf = [[None if a is None else uncps(a), [None if t is None else uncps(t) for t in ts]] for a, ts in reply["fwd"]]
        mr = [[None if a is None else uncps(a), [None if t is None else uncps(t) for t in ts]] for a, ts in reply["rev"]]
        if mf != impl["fwd"] or mr != impl["rev"]:
            return Verdict("drift", f"tracking state differs: steps {case['steps']}: code {impl['fwd']} / {impl['rev']}, model {mf} / {mr}", True, key, tags=tags)
        return Verdict("ok", "", True, key, tags=tags)
    if k in ("addcond", "filter"):
        mi = reply["items"] if k == "addcond" else [reply["item"]]
        ii = impl["items"] if k == "addcond" else [impl["item"]]
        for c, a, b in zip(case.get("conds", [case.get("cond")]), ii, mi):
            b = dict(b)
            if "name" in b: b["name"] = uncps(b["name"])
            a2 = {x: y for x, y in a.items() if x != "msg"}
            if a2 != b:
                return Verdict("drift", f"resolved tree differs for {case} (drawn {impl.get('name') or impl.get('prefix')}, rewritten {impl['rewritten']}): code {a}, model {b}",
                               True, key, tags=tags)
        return Verdict("ok", "", True, key, tags=tags + tuple(f"outcome:{a['outcome']}" for a in ii))
    if k == "render":
        if case["what"] == "dangling":
            m = [uncps(x) for x in reply["names"]]
            if m != impl.get("names"):
                return Verdict("drift", f"dangling issue order: code {impl.get('names')}, model {m}", True, key, tags=tags)
            return Verdict("ok", "", True, key, tags=tags)
        m = uncps(reply["text"])
        t = impl.get("text")
        if case["what"] == "flags":
            good = (t or "") == m
        else:
            good = t is not None and m in t
        if not good:
            return Verdict("drift", f"rendered text differs for {case}: code {t!r}, model {m!r}", True, key, tags=tags)
        return Verdict("ok", "", True, key, tags=tags)
    return Verdict("ok", "", False, key, tags=tags)


def shrink(case, v, evaluate):
    """replay = the item + the two seeds that differ"""
    if case.get("kind") != "item":
        return case, v
    m = re.search(r"replay: item \+ seeds (\S+) and (\S+);", v.what)
    if not m:
        return case, v
    def seed_of(label):
        mm = re.match(r"\d+:hash=(\d+):rand=(\d+)", label)
        return [int(mm.group(1)), int(mm.group(2))]
    small = {"kind": "item", "item": case["item"], "seeds": [seed_of(m.group(1)), seed_of(m.group(2))]}
    try:
        (c, i, r, v2), = evaluate([small])
        if v2.status == "violation":
            return small, v2
    except Exception:
        pass
    return case, v


def extra_coverage(run, b):
    return {"schedule": {"processes_per_item": len(seeds_for(run.tier)), "seeds": seeds_for(run.tier),
                         "internal_identifier_pattern": internal_regex(b.gen).pattern}}
