"""C10 — correlation queries carry every element of the correlation rule faithfully.

A collection (1..4 referenced detection rules with one or several conditions, sometimes a referenced correlation
rule, and one correlation rule) is converted by the REAL `Backend.convert` with the delimiter-structured backend of
`harness/corrbackend.py`; the emitted correlation query is parsed back into a record.  Each referenced rule is also
converted ALONE with the same backend / pipeline (its "own" queries).  The Lean driver (`corr.case`) computes
  * the SPECIFICATION record (Spec/Corr.lean: written from the property) and
  * the MODEL record (Model/Corr.lean: the phases as coded).
parsed != spec  -> VIOLATION worded in the property's terms;  parsed == spec but != model -> drift.
Extended conditions are compared by meaning: the emitted tokens, read by the target language's reader (C01 `readQ`),
must have the truth table of the condition tree under every valuation of the rule references."""
from __future__ import annotations
import copy, itertools, json, random
from .common import Verdict, cps, uncps, outcome_of_exception
from . import corrbackend as CB, c08

ID = "C10"
GEN = ["Corr"]
RULE = ("correlation rules over all 8 types x 6 operators x counts {0,1,large,negative} x timespans (7 units x counts incl. 0, "
        "leading zeros, 12 digits; malformed) x 1..4 referenced rules (single/multi-condition detection rules, by name or id, "
        "sometimes a nested correlation rule) x group-by / aliases / generate / fields / percentile / field lists x extended "
        "conditions (random and/or/not trees over the references, redundant parentheses, rules list omitted) x backend "
        "configurations (timespan seconds/mapping(partial)/passthrough, typing, normalisation, single/multi search, group-by, "
        "nofield, referenced-rules expression, fields expression, sub-query finalisation, default/per-type query templates, "
        "missing aggregation/condition templates, methods, precedence permutations, parenthesize) x field-mapping pipelines "
        "(1:1, 1:N, prefix, suffix, scoped by include/exclude, 1-3 stages, post-processing item); distinct = distinct "
        "(rule, refs, cfg, pipeline); non-trivial = a correlation query was emitted and compared"
        "; field-mapping stages optionally carry a log source rule condition that holds for every rule"
        "; a correlation rule over a failing referenced rule (stream shared with C08)"
        "; spelling stream: one-element `rules` / `group-by` lists written as plain scalars (default temporal count = number of "
        "referenced rules, not a property of the spelling), alias names spelled like one of their target fields, like a target's "
        "image under the pipeline, like another field or unlike any field")
ASSUMPTIONS = [
    "the referenced rules' own conversion is a parameter (Env): obtained by converting each referenced rule alone with the same backend and pipeline (C01/C12 cover it)",
    "the effect of one field-mapping item on a name is computed by the harness from its documented mapping / scope and sent as a finite table (C12/C13 cover it)",
    "timespan grammar covered: ASCII digits followed by one unit letter (Python's int() accepts more: signs, underscores, blanks)",
    "main stream: alias names are disjoint from every field name and mapping image; spelling stream: alias names may coincide with field names, "
    "alias targets and their images, but no group-by entry that is not an alias name passes through an alias name at any stage "
    "(hypothesis NoCapture of Props.C10 mapping_consistent); aliases are keyed by the reference string used in the rules list",
    "the harness parser of the delimiter-structured templates (corrbackend.read_query) is trusted",
]
FIELDS = ["fa", "fb", "fc", "user.name", "src ip", "o'q"]
VALUES = ["x", "y*", "val 1", "z"]
UNITS = "smhdwMy"
UUIDS = [f"0e95725d-7320-415d-80f7-004da920fc{n:02d}" for n in range(20)]
OPS = ["lt", "lte", "gt", "gte", "eq", "neq"]
TYPES = ["event_count", "value_count", "temporal", "temporal_ordered", "value_sum", "value_avg", "value_percentile", "value_median"]
PRECS = [list(p) for p in itertools.permutations(["not", "and", "or"])]


# ------------------------------------------------------------------------------------------ generators
def gen_det_rule(rnd, i):
    name = f"r{i}" if rnd.random() < 0.75 else None
    rid = UUIDS[i] if (name is None or rnd.random() < 0.5) else None
    dets, conds = {}, []
    for j in range(rnd.choice([1, 1, 2, 2, 3])):
        dets[f"s{j}"] = {rnd.choice(FIELDS): rnd.choice(VALUES) for _ in range(rnd.choice([1, 1, 2]))}
    names = list(dets)
    for _ in range(rnd.choice([1, 1, 1, 2, 3])):
        a, b2 = rnd.choice(names), rnd.choice(names)
        conds.append(rnd.choice([a, f"{a} and not {b2}", f"{a} or {b2}", f"not {a}"]))
    return {"kind": "det", "name": name, "id": rid, "dets": dets, "conds": conds,
            "fields": rnd.sample(FIELDS, rnd.choice([0, 0, 1, 2]))}


def ref_of(rnd, r):
    if r["name"] is None: return r["id"]
    if r["id"] is not None and rnd.random() < 0.3: return r["id"]
    return r["name"]


def gen_ext(rnd, refs, depth):
    if depth == 0 or rnd.random() < 0.3:
        return {"ref": rnd.choice(refs)}
    r = rnd.random()
    if r < 0.25:
        return {"not": gen_ext(rnd, refs, depth - 1)}
    op = "and" if r < 0.62 else "or"
    return {op: [gen_ext(rnd, refs, depth - 1) for _ in range(rnd.choice([2, 2, 3]))]}


def ext_leaves(t):
    if "ref" in t: return [t["ref"]]
    if "not" in t: return ext_leaves(t["not"])
    return [x for k in t.get("and", t.get("or")) for x in ext_leaves(k)]


def cover_refs(rnd, t, refs):
    """make every reference occur (the loader demands it when a rules list is given)"""
    missing = [r for r in refs if r not in ext_leaves(t)]
    if not missing: return t
    return {rnd.choice(["and", "or"]): [t] + [{"ref": r} for r in missing]}


def spell(rnd, t, outer=None):
    """condition text of the tree; a child with the same operator as its parent is always parenthesised (so the parser
    rebuilds exactly this tree), other parentheses are added where precedence needs them or at random"""
    ws = lambda: rnd.choice([" ", " ", "  ", "\t"])
    if "ref" in t:
        s = t["ref"]
        return f"({s})" if rnd.random() < 0.1 else s
    if "not" in t:
        s = "not" + ws() + spell(rnd, t["not"], "not")
        return f"({s})" if rnd.random() < 0.1 else s
    op = "and" if "and" in t else "or"
    s = (ws() + op + ws()).join(spell(rnd, k, op) for k in t[op])
    need = outer == op or outer == "not" or (outer == "and" and op == "or")
    if need or rnd.random() < 0.15:
        return "(" + rnd.choice(["", " "]) + s + rnd.choice(["", " "]) + ")"
    return s


def gen_cfg(rnd):
    c = copy.deepcopy(CB.DEFAULT_CFG)
    c["prec"] = rnd.choice(PRECS) if rnd.random() < 0.5 else ["not", "and", "or"]
    c["parenthesize"] = rnd.random() < 0.25
    r = rnd.random()
    if r < 0.33: c["tsSeconds"] = True
    elif r < 0.66:
        us = rnd.sample(UNITS, rnd.choice([1, 3, 7]))
        c["tsMap"] = {u: {"s": "sec", "m": "min", "h": "hr", "d": "day", "w": "wk", "M": "mon", "y": "yr"}[u] for u in us}
        c["tsSeconds"] = rnd.random() < 0.1
    for k, p in (("single", .3), ("multi", .06), ("typing", .4), ("norm", .08), ("gb", .05), ("gbNoField", .4), ("refsExpr", .1),
                 ("refsUsed", .3), ("fieldsExpr", .3), ("extRef", .05), ("corr", .02)):
        if rnd.random() < p: c[k] = not c[k]
    c["finalizeSub"] = rnd.random() < 0.4
    if rnd.random() < 0.3: c["qTypes"] = rnd.sample(CB.TNAMES, rnd.choice([0, 3, 7]))
    if rnd.random() < 0.06: c["qDefault"] = False
    if rnd.random() < 0.06: c["aggTypes"] = rnd.sample(CB.TNAMES, 8)
    if rnd.random() < 0.06: c["condTypes"] = rnd.sample(CB.TNAMES, 8)
    if rnd.random() < 0.1: c["m2Missing"] = rnd.sample(CB.TNAMES, 4)
    if rnd.random() < 0.3: c["opMap"] = "names"
    if rnd.random() < 0.2: c["defaultMethod"] = "m2"
    if c["single"] and rnd.random() < 0.06: c["singleTag"] = "ruleid"
    return c


def gen_pipeline(rnd, used_fields):
    stages = []
    for _ in range(rnd.choice([0, 1, 1, 2, 3])):
        kind = rnd.choice(["map", "map", "map", "prefix", "suffix"])
        st = {"kind": kind, "scope": rnd.choice([None, None, None, ["include", rnd.sample(FIELDS, 2)], ["exclude", rnd.sample(FIELDS, 2)]]),
              "logsrc": rnd.random() < 0.3}
        if kind == "map":
            m = {}
            pool = FIELDS + [f"{f}_m" for f in FIELDS] + ["m1", "m2"]
            for f in rnd.sample(pool, rnd.choice([1, 2, 3, 4])):
                m[f] = rnd.choice([f"{f}_m", "m1", [f"{f}_a", f"{f}_b"], [f"{f}_only"], "m2"])
            st["mapping"] = m
        else:
            st["text"] = rnd.choice(["p.", "x_"]) if kind == "prefix" else rnd.choice([".s", "_k"])
        stages.append(st)
    return {"stages": stages, "pp": rnd.random() < 0.5}


def gen_timespan(rnd):
    r = rnd.random()
    if r < 0.04:
        return rnd.choice(["5x", "m", "", "5", "5.5m", "m5", "1H", "5min"])
    count = rnd.choice(["0", "1", "5", "05", "15", "30", "120", "007", "999999999999", str(rnd.randrange(1, 5000))])
    return count + rnd.choice(UNITS)


def gen_corr(rnd, refs_rules, ref_strs, nested=False):
    t = "event_count" if nested and rnd.random() < 0.6 else rnd.choice(TYPES + ["temporal", "temporal_ordered"] * 2)
    rule = {"kind": "corr", "type": t, "rules": list(ref_strs), "generate": rnd.random() < 0.3, "timespan": gen_timespan(rnd) if not nested else "10m",
            "groupBy": None, "aliases": [], "fields": rnd.sample(FIELDS, rnd.choice([0, 0, 1, 2])), "name": None, "id": None}
    alias_names = []
    if rnd.random() < 0.45:
        for an in rnd.sample(["al_user", "al_ip"], rnd.choice([1, 2])):
            targets = rnd.sample(ref_strs, rnd.randint(1, len(ref_strs)))
            rule["aliases"].append({"name": an, "mapping": [[r, rnd.choice(FIELDS)] for r in targets]})
            alias_names.append(an)
    if rnd.random() < (0.85 if alias_names else 0.55):
        rule["groupBy"] = rnd.sample(FIELDS, rnd.choice([1, 2])) + (alias_names if rnd.random() < 0.8 else [])
        rnd.shuffle(rule["groupBy"])
    temporal = t in ("temporal", "temporal_ordered")
    r = rnd.random()
    if temporal and r < 0.45 and all(x.isidentifier() for x in ref_strs):
        tree = cover_refs(rnd, gen_ext(rnd, ref_strs, rnd.choice([1, 2, 2, 3])), ref_strs)
        rule["cond"] = {"ext": tree, "text": spell(rnd, tree)}
        if rnd.random() < 0.3:
            rule["rules"] = None
    elif temporal and r < 0.6:
        rule["cond"] = None       # default: gte number of rules
    else:
        needs = t.startswith("value_")
        fld = None
        if needs and rnd.random() < 0.96 or (not needs and rnd.random() < 0.2):
            fld = rnd.choice(FIELDS) if rnd.random() < 0.9 else {"many": rnd.sample(FIELDS, 2)}
        pct = None
        if (t == "value_percentile" and rnd.random() < 0.9) or rnd.random() < 0.05:
            pct = rnd.choice([50, 95, 99, 0])
        rule["cond"] = {"basic": {"op": rnd.choice(OPS), "count": rnd.choice([0, 1, 2, 10, 100, 10 ** 12, -1]), "field": fld, "pct": pct}}
    return rule


def gen_case(rnd, n=None):
    n = rnd.choice([1, 1, 2, 2, 3, 4]) if n is None else n
    dets = [gen_det_rule(rnd, i) for i in range(n)]
    docs = list(dets)
    top = [(d, ref_of(rnd, d)) for d in dets]
    if rnd.random() < 0.2:     # a referenced correlation rule over one or two of the detection rules
        sub = rnd.sample(dets, rnd.choice([1, min(2, n)]))
        inner = gen_corr(rnd, sub, [ref_of(rnd, d) for d in sub], nested=True)
        inner["name"] = "inner"
        inner["id"] = UUIDS[10] if rnd.random() < 0.5 else None
        docs.append(inner)
        keep = [p for p in top if p[0] not in sub or rnd.random() < 0.5]
        top = keep + [(inner, "inner")]
        rnd.shuffle(top)
    if rnd.random() < 0.03 and len(top) > 1:
        top[0] = (top[0][0], "nosuchrule")
    main = gen_corr(rnd, [p[0] for p in top], [p[1] for p in top])
    main["name"] = "main" if rnd.random() < 0.5 else None
    docs.append(main)
    rnd.shuffle(docs)
    return {"docs": docs, "cfg": gen_cfg(rnd), "pipe": gen_pipeline(rnd, FIELDS),
            "method": rnd.choice([None, None, None, None, "m1", "m2", "bogus"])}


def stage_closure(p, f):
    """every name `f` passes through while the stages are applied one after the other (intermediate images included)"""
    seen, cur = [f], [f]
    for st in p["stages"]:
        cur = [y for x in cur for y in stage_image(st, x)]
        seen += [x for x in cur if x not in seen]
    return seen


def spelling_case(rnd):
    """Spelling stream.  The property speaks of the correlation rule's elements 'as given': (a) a list-valued attribute with
    one entry may be written as a plain scalar (`rules: name`, `group-by: field`) and is the same rule; (b) an alias is a name
    chosen by the rule author: it may be spelled like one of its own target fields, like the image of a target under the
    pipeline, or like any other field of the log source — each (alias, rule) pair still has its normalisation."""
    c = gen_case(rnd, rnd.choice([1, 1, 1, 2, 2, 3]))
    corrs = [d for d in c["docs"] if d["kind"] == "corr"]
    main = main_of(c)
    # (b) alias names from the fields' name space
    if main["rules"] and rnd.random() < 0.6:
        refs = list(main["rules"])
        aliases, names = [], []
        for _ in range(rnd.choice([1, 1, 2])):
            targets = rnd.sample(refs, rnd.randint(1, len(refs)))
            mapping = [[r, rnd.choice(FIELDS)] for r in targets]
            pool = [f for _, f in mapping]                                      # like a target as written
            pool += [x for _, f in mapping for x in map_all(c["pipe"], f)]      # like a target after field mapping
            pool += [rnd.choice(FIELDS), rnd.choice(["al_user", "al_ip"])]      # like another field / unlike any field
            an = rnd.choice(pool)
            if an in names: continue
            names.append(an)
            aliases.append({"name": an, "mapping": mapping})
        main["aliases"] = aliases
        if rnd.random() < 0.85:
            # group-by entries that are not alias names must not be renamed onto an alias name by any stage (hypothesis
            # NoCapture of Props.C10 mapping_consistent: from then on the entry could not be told from the alias)
            free = [f for f in FIELDS if not set(stage_closure(c["pipe"], f)) & set(names)]
            gb = rnd.sample(free, min(len(free), rnd.choice([0, 1, 2]))) + (names if rnd.random() < 0.8 else [])
            rnd.shuffle(gb)
            main["groupBy"] = gb or None
        else:
            main["groupBy"] = None
        if rnd.random() < 0.8:
            c["cfg"]["norm"] = c["cfg"]["gb"] = True
    # (a) scalar spelling of one-element lists, in every correlation rule of the collection
    for r in corrs:
        sp = {}
        if r["rules"] is not None and len(r["rules"]) == 1 and rnd.random() < 0.75: sp["rules"] = "scalar"
        if r["groupBy"] is not None and len(r["groupBy"]) == 1 and rnd.random() < 0.6: sp["groupBy"] = "scalar"
        if sp: r["spell"] = sp
    return c


_TREES = {}


def all_trees(n, names=("a", "b", "c")):
    """all condition trees with at most n nodes (leaf, not, binary and/or) over `names`"""
    def exact(k):
        if k in _TREES: return _TREES[k]
        if k == 1:
            out = [{"ref": x} for x in names]
        else:
            out = [{"not": t} for t in exact(k - 1)]
            for i in range(1, k - 1):
                for a in exact(i):
                    for b2 in exact(k - 1 - i):
                        out.append({"and": [a, b2]}); out.append({"or": [a, b2]})
        _TREES[k] = out
        return out
    return [t for k in range(1, n + 1) for t in exact(k)]


def ext_case(rnd, tree, prec, par):
    used = list(dict.fromkeys(ext_leaves(tree)))
    docs = [{"kind": "det", "name": nm, "id": None, "dets": {"s0": {"fa": nm}}, "conds": ["s0"], "fields": []} for nm in used]
    main = {"kind": "corr", "type": rnd.choice(["temporal", "temporal_ordered"]), "rules": None if rnd.random() < 0.5 else list(used),
            "generate": False, "timespan": "5m", "groupBy": None, "aliases": [], "fields": [], "name": None, "id": None,
            "cond": {"ext": tree, "text": spell(rnd, tree)}}
    cfg = copy.deepcopy(CB.DEFAULT_CFG)
    cfg["prec"], cfg["parenthesize"] = list(prec), par
    return {"docs": docs + [main], "cfg": cfg, "pipe": {"stages": [], "pp": False}, "method": None}


def gen_cases(tier, seed, gen, effort):
    rnd = random.Random(seed * 7919 + 10)
    n = (3000 if tier != "thorough" else 40000) * effort
    cases = [gen_case(rnd) for _ in range(n)]
    # systematic block: every extended condition tree with at most 5 nodes over three rules, cycling through the
    # 6 precedence permutations x parenthesize (thorough: every tree under all 12)
    for idx, tree in enumerate(all_trees(5)):
        for j in (range(12) if tier == "thorough" else [idx % 12]):
            cases.append(ext_case(rnd, tree, PRECS[j % 6], j >= 6))
    # systematic block: every unit x a few counts x the three timespan modes, event_count over one rule
    for u in UNITS:
        for cnt in ("0", "1", "05", "999999999999"):
            for mode in ("seconds", "map", "pass"):
                c = gen_case(random.Random(seed * 31 + UNITS.index(u) * 97 + len(cnt) * 7 + len(mode)))
                cfg = copy.deepcopy(CB.DEFAULT_CFG)
                cfg["tsSeconds"] = mode == "seconds"
                cfg["tsMap"] = {u: "U" + u} if mode == "map" else None
                main = [d for d in c["docs"] if d["kind"] == "corr" and d.get("name") != "inner"][-1]
                main["timespan"] = cnt + u
                c["cfg"], c["method"] = cfg, None
                cases.append(c)
    # a referenced rule that fails: the correlation rule over it cannot embed "the query that rule converts to" and must fail
    # too (one error record in collecting mode), instead of emitting a query without that sub-query (stream shared with C08)
    for order in ([0, 1, 2, 3], [2, 3, 0, 1], [3, 2, 1, 0]):
        for failkind in ("placeholder", "badvalue", "missingdet", "pipefail"):
            for collect in (True, False):
                cases.append({"corrfail": failkind, "order": order, "collect": collect})
    # spelling stream: scalar spelling of one-element `rules` / `group-by`; alias names spelled like field names
    rnd3 = random.Random(seed * 7919 + 1010)
    for _ in range((600 if tier != "thorough" else 8000) * effort):
        cases.append(spelling_case(rnd3))
    return cases, False


# ------------------------------------------------------------------------------------------ documents
def doc_of(r):
    d = {"title": "t"}
    if r["name"] is not None: d["name"] = r["name"]
    if r["id"] is not None: d["id"] = r["id"]
    if r["fields"]: d["fields"] = list(r["fields"])
    if r["kind"] == "det":
        d["logsource"] = {"category": "c"}
        d["detection"] = {**copy.deepcopy(r["dets"]), "condition": list(r["conds"]) if len(r["conds"]) > 1 else r["conds"][0]}
        return d
    c = {"type": r["type"], "timespan": r["timespan"]}
    sp = r.get("spell") or {}
    if r["rules"] is not None: c["rules"] = r["rules"][0] if sp.get("rules") == "scalar" and len(r["rules"]) == 1 else list(r["rules"])
    if r["generate"]: c["generate"] = True
    if r["groupBy"] is not None:
        c["group-by"] = r["groupBy"][0] if sp.get("groupBy") == "scalar" and len(r["groupBy"]) == 1 else list(r["groupBy"])
    if r["aliases"]: c["aliases"] = {a["name"]: {k: v for k, v in a["mapping"]} for a in r["aliases"]}
    cd = r["cond"]
    if cd is not None:
        if "ext" in cd:
            c["condition"] = cd["text"]
        else:
            b = cd["basic"]
            c["condition"] = {b["op"]: b["count"]}
            if b["field"] is not None:
                c["condition"]["field"] = b["field"]["many"] if isinstance(b["field"], dict) else b["field"]
            if b["pct"] is not None: c["condition"]["percentile"] = b["pct"]
    d["correlation"] = c
    return d


def make_pipeline(p):
    from sigma.processing.pipeline import ProcessingPipeline, ProcessingItem, QueryPostprocessingItem
    from sigma.processing.transformations import FieldMappingTransformation, AddFieldnamePrefixTransformation, AddFieldnameSuffixTransformation
    from sigma.processing.conditions import IncludeFieldCondition, ExcludeFieldCondition, LogsourceCondition
    from sigma.processing.postprocessing import EmbedQueryTransformation
    items = []
    for st in p["stages"]:
        if st["kind"] == "map": t = FieldMappingTransformation(copy.deepcopy(st["mapping"]))
        elif st["kind"] == "prefix": t = AddFieldnamePrefixTransformation(st["text"])
        else: t = AddFieldnameSuffixTransformation(st["text"])
        fc = []
        if st["scope"]:
            fc = [(IncludeFieldCondition if st["scope"][0] == "include" else ExcludeFieldCondition)(list(st["scope"][1]))]
        # a rule condition that holds for every rule of the collection (all generated log sources have category 'c'; a correlation
        # rule satisfies a log source condition through the rules it refers to, directly or through other correlation rules)
        rc = [LogsourceCondition(category="c")] if st.get("logsrc") else []
        items.append(ProcessingItem(t, field_name_conditions=fc, rule_conditions=rc))
    post = [QueryPostprocessingItem(EmbedQueryTransformation(prefix=CB.O + "pp ", suffix=CB.C_))] if p["pp"] else []
    return ProcessingPipeline(items, postprocessing_items=post)


def stage_image(st, f):
    """documented effect of one field-mapping item on a field name"""
    if st["scope"]:
        inc = f in st["scope"][1]
        if (st["scope"][0] == "include") != inc:
            return [f]
    if st["kind"] == "map":
        v = st["mapping"].get(f)
        if v is None: return [f]
        return [v] if isinstance(v, str) else list(v)
    return [st["text"] + f] if st["kind"] == "prefix" else [f + st["text"]]


def map_all(p, f):
    cur = [f]
    for st in p["stages"]:
        cur = [y for x in cur for y in stage_image(st, x)]
    return cur


def stage_tables(p, names):
    """finite tables over the closure of `names` under the stages"""
    tables, cur = [], list(dict.fromkeys(names))
    for st in p["stages"]:
        tbl, nxt = [], []
        for f in cur:
            img = stage_image(st, f)
            if img != [f]: tbl.append([cps(f), [cps(x) for x in img]])
            nxt += img
        tables.append(tbl)
        cur = list(dict.fromkeys(cur + nxt))
    return tables


def op_table(cfg):
    if cfg["opMap"] == "names":
        return {o: o.upper() for o in OPS}
    from sigma.conversion.base import TextQueryBackend
    return {v: k.name for k, v in TextQueryBackend.correlation_condition_mapping.items()}


# ------------------------------------------------------------------------------------------ real code
def _convert(docs, case, method=None):
    from sigma.collection import SigmaCollection
    B = CB.make_backend(case["cfg"])
    coll = SigmaCollection.from_dicts([doc_of(d) for d in docs])
    be = B(make_pipeline(case["pipe"]))
    return be.convert(coll, correlation_method=method), coll


def main_of(case):
    return [d for d in case["docs"] if d["kind"] == "corr" and d.get("name") != "inner"][-1]


def closure(case, r):
    """the documents a rule needs to be converted on its own"""
    if r["kind"] == "det": return [r]
    out = []
    for ref in (r["rules"] if r["rules"] is not None else list(dict.fromkeys(ext_leaves(r["cond"]["ext"])))):
        for d in case["docs"]:
            if d is not r and ref in (d["name"], d["id"]):
                out += closure(case, d)
    return out + [r]


def run_impl(case):
    if case.get("corrfail"):
        return c08.run_corrfail(case)
    main = main_of(case)
    from sigma.collection import SigmaCollection
    try:
        SigmaCollection.from_dicts([doc_of(main)], resolve_references=False)
    except Exception as e:
        return {"outcome": "load:" + outcome_of_exception(e), "msg": str(e)[:200]}
    try:
        SigmaCollection.from_dicts([doc_of(d) for d in case["docs"]])
    except Exception as e:
        return {"outcome": "env:load:" + outcome_of_exception(e), "msg": str(e)[:200]}
    # every other rule on its own
    own = {}
    for d in case["docs"]:
        if d is main: continue
        try:
            docs = closure(case, d)
            qs, coll = _convert(docs, case, case["method"] if d["kind"] == "corr" else None)
            me = [r for r in coll.rules if (r.name, str(r.id) if r.id else None) == (d["name"], d["id"])][0]
            res = me.get_conversion_result()
            texts = []
            for q in res:
                raw, fin, pp = CB.unwrap(q)
                texts.append(raw)
            own[id(d)] = {"name": d["name"], "id": d["id"], "tag": d["name"] or d["id"], "queries": texts,
                          "fields": list(me.fields), "isCorr": d["kind"] == "corr"}
        except Exception as e:
            return {"outcome": "env:" + outcome_of_exception(e), "msg": str(e)[:200]}
    env = list(own.values())
    try:
        outs, coll = _convert(case["docs"], case, case["method"])
    except Exception as e:
        return {"outcome": outcome_of_exception(e), "msg": str(e)[:200], "env": env}
    if not outs:
        return {"outcome": "no-output", "env": env}
    try:
        rec = CB.read_query(outs[-1], op_table(case["cfg"]))
    except CB.Unreadable as e:
        return {"outcome": "unreadable", "msg": str(e), "text": outs[-1][:400], "env": env}
    others = []
    for o in outs[:-1]:
        raw, fin, pp = CB.unwrap(o)
        others.append(raw)
    return {"outcome": "ok", "rec": rec, "others": others, "env": env}


# ------------------------------------------------------------------------------------------ driver request
def code_shape(gen):
    g = (gen or {}).get("Corr") or {}
    return {"corrFinTested": g.get("corrDispatchFn", "convert_correlation_rule") in g.get("finalizeTestedIn", []),
            "aliasAlways": not g.get("aliasMappingUnderGroupBy", True)}


def lean_cfg(c, gen=None):
    ms = [cps(m) for m in c["methods"]]
    tmethods = lambda t: [cps(m) for m in c["methods"] if not (m == "m2" and t in c["m2Missing"])]
    return {"corr": c["corr"], "methods": ms, "defaultMethod": cps(c["defaultMethod"]), "tsSeconds": c["tsSeconds"],
            "tsMap": None if c["tsMap"] is None else [[ord(u), cps(v)] for u, v in c["tsMap"].items()],
            "single": c["single"], "multi": c["multi"], "typing": c["typing"], "norm": c["norm"], "gb": c["gb"], "gbNoField": c["gbNoField"],
            "refsExpr": c["refsExpr"], "refsUsed": c["refsUsed"], "fieldsExpr": c["fieldsExpr"], "extRef": c["extRef"],
            "finalizeSub": c["finalizeSub"], "qDefault": ms if c["qDefault"] else None,
            "qTypes": [[t, tmethods(t)] for t in CB.TNAMES if t in c["qTypes"]],
            "aggTypes": [t for t in CB.TNAMES if t in c["aggTypes"]], "condTypes": [t for t in CB.TNAMES if t in c["condTypes"]],
            "prec": list(c["prec"]), "parenthesize": c["parenthesize"], **code_shape(gen)}


def lean_ext(t):
    if "ref" in t: return {"ref": cps(t["ref"])}
    if "not" in t: return {"not": lean_ext(t["not"])}
    k = "and" if "and" in t else "or"
    return {k: [lean_ext(x) for x in t[k]]}


def lean_rule(r):
    cd = r["cond"]
    if cd is None:
        cond = {"basic": {"op": "GTE", "count": len(r["rules"] or []), "field": None, "pct": None}}
    elif "ext" in cd:
        cond = {"ext": lean_ext(cd["ext"])}
    else:
        b = cd["basic"]
        f = b["field"]
        cond = {"basic": {"op": b["op"].upper(), "count": b["count"], "pct": b["pct"],
                          "field": None if f is None else ({"many": [cps(x) for x in f["many"]]} if isinstance(f, dict) else cps(f))}}
    return {"type": r["type"].upper(), "rules": None if r["rules"] is None else [cps(x) for x in r["rules"]], "generate": r["generate"],
            "timespan": cps(r["timespan"]), "groupBy": None if r["groupBy"] is None else [cps(x) for x in r["groupBy"]],
            "aliases": [{"name": cps(a["name"]), "mapping": [[cps(k), cps(v)] for k, v in a["mapping"]]} for a in r["aliases"]],
            "cond": cond, "fields": [cps(x) for x in r["fields"]]}


def rule_field_names(r):
    out = list(r["fields"]) + list(r["groupBy"] or [])
    for a in r["aliases"]:
        out += [v for _, v in a["mapping"]]
    cd = r["cond"]
    if cd and "basic" in cd and cd["basic"]["field"] is not None:
        f = cd["basic"]["field"]
        out += f["many"] if isinstance(f, dict) else [f]
    return out


def spec_names(t):
    return list(dict.fromkeys(ext_leaves(t)))


def reindex_ext(case, impl):
    """tokens of the emitted extended condition with atoms numbered by the specification's reference order"""
    main = main_of(case)
    names = spec_names(main["cond"]["ext"])
    tag_of = {}
    for e in impl["env"]:
        for ref in (e["name"], e["id"]):
            if ref: tag_of[ref] = e["tag"]
    tags = [tag_of.get(n, n) for n in names]
    toks = []
    for t in impl["rec"]["ext"]["toks"]:
        if isinstance(t, dict):
            nm = impl["rec"]["ext"]["names"][t["atom"]]
            toks.append({"atom": tags.index(nm) if nm in tags else len(tags)})
        else:
            toks.append(t)
    return toks


def make_request(case, impl, gen):
    if case.get("corrfail"):
        return {"op": "ping"}
    if impl["outcome"].startswith("env:"):
        return None
    main = main_of(case)
    env = []
    for e in impl.get("env", []):
        for ref in [x for x in (e["name"], e["id"]) if x is not None]:
            env.append({"ref": cps(ref), "tag": cps(e["tag"]), "queries": [cps(q) for q in e["queries"]],
                        "fields": [cps(f) for f in e["fields"]], "isCorr": e["isCorr"]})
    if impl["outcome"].startswith("load:"):
        # referenced rules could not be converted (collection not loadable): the model only has to reject the rule
        env = [{"ref": cps(x), "tag": cps(x), "queries": [], "fields": [], "isCorr": False}
               for d in case["docs"] if d is not main for x in (d["name"], d["id"]) if x]
    req = {"op": "corr.case", "cfg": lean_cfg(case["cfg"], gen), "env": env, "stages": stage_tables(case["pipe"], rule_field_names(main)),
           "method": None if case["method"] is None else cps(case["method"]), "rule": lean_rule(main), "implExt": None}
    if impl["outcome"] == "ok" and "ext" in impl["rec"] and main["cond"] and "ext" in main["cond"]:
        req["implExt"] = reindex_ext(case, impl)
    return req


# ------------------------------------------------------------------------------------------ judging
def _dec(x):
    return uncps(x)


def lean_record(j):
    """driver record -> the comparable form of corrbackend.read_query"""
    if j is None: return None
    sub = lambda s: {"tag": _dec(s["tag"]), "fin": s["fin"], "q": _dec(s["q"]), "norms": [[_dec(a), _dec(f)] for a, f in s["norms"]]}
    gb = j["gb"]
    out = {"qt": j["qt"], "tn": j["tn"], "method": _dec(j["method"]), "single": j["single"], "subs": [sub(s) for s in j["subs"]],
           "typing": None if j["typing"] is None else [sub(s) for s in j["typing"]], "ts": _dec(j["ts"]),
           "gb": None if gb is None else ("none" if gb == "none" else [_dec(x) for x in gb]),
           "aggField": [_dec(x) for x in j["aggField"]], "pct": j["pct"], "fields": [_dec(x) for x in j["fields"]],
           "refs": None if j["refs"] is None else [_dec(x) for x in j["refs"]]}
    c = j["cond"]
    if "op" in c:
        out["cond"] = {"op": c["op"], "count": c["count"], "field": [_dec(x) for x in c["field"]]}
    else:
        out["ext"] = {"names": [_dec(x) for x in c["names"]], "toks": c["toks"]}
    return out


def impl_record(rec, case):
    """canonical form of the parsed record + internal inconsistencies of the emitted query"""
    bad = []
    if rec["at"] != rec["ct"]: bad.append(f"aggregation template family {rec['at']} but condition template family {rec['ct']}")
    if not (rec["method"] == rec["am"] == rec["cm"]): bad.append(f"templates of different methods {rec['method']}/{rec['am']}/{rec['cm']}")
    if rec["ts"][0] != rec["ts"][1]: bad.append(f"timespan differs between query frame and aggregation: {rec['ts']}")
    if rec["gb"][0] != rec["gb"][1]: bad.append(f"group-by differs between query frame and aggregation: {rec['gb']}")
    if rec["aggRefs"] != rec["condRefs"] and case["cfg"]["refsUsed"]: bad.append("referenced rules differ between aggregation and condition")
    if not rec["fin"]: bad.append("the correlation query itself is not finalised")
    for s in rec["subs"] + (rec["typing"] or []):
        if s["pp"] != (s["fin"] and case["pipe"]["pp"]):
            bad.append(f"sub-query of {s['tag']} finalised={s['fin']} but post-processed={s['pp']}")
    strip = lambda s: {"tag": s["tag"], "fin": s["fin"], "q": s["q"], "norms": s["norms"]}
    pct = None
    if rec["pct"] != "":
        try: pct = int(rec["pct"])
        except ValueError: bad.append(f"percentile rendered as {rec['pct']!r}")
    out = {"qt": rec["qt"], "tn": rec["at"], "method": rec["method"], "single": rec["searchKind"] == "single",
           "subs": [strip(s) for s in rec["subs"]], "typing": None if rec["typing"] is None else [strip(s) for s in rec["typing"]],
           "ts": rec["ts"][0], "gb": rec["gb"][0], "aggField": rec["aggField"], "pct": pct, "fields": rec["fields"],
           "refs": rec["aggRefs"] if case["cfg"]["refsUsed"] else None}
    if "cond" in rec:
        c = rec["cond"]
        try: cnt = int(c["count"])
        except ValueError:
            cnt = c["count"]; bad.append(f"count rendered as {c['count']!r}")
        out["cond"] = {"op": c["op"], "count": cnt, "field": c["field"]}
    else:
        out["ext"] = rec["ext"]
    return out, bad


def describe_subs(kind, got, exp, env, cfg):
    """differences between two sub-query lists, in the property's words: list of (text, finding class or None)"""
    corr_tags = {e["tag"] for e in env if e["isCorr"]}
    gt, et = [s["tag"] for s in got], [s["tag"] for s in exp]
    if gt != et:
        for tag in dict.fromkeys(et):
            if gt.count(tag) < et.count(tag):
                return [(f"{kind}: {et.count(tag)} queries of referenced rule {tag} expected (one per condition), {gt.count(tag)} embedded; "
                         f"sub-queries are tagged {gt}, expected {et}", None)]
        return [(f"{kind}: sub-queries tagged {gt}, expected {et} (reference order, name or id)", None)]
    for i, (g, e) in enumerate(zip(got, exp)):
        if g["q"] != e["q"]:
            return [(f"{kind}: query #{i + 1} (rule {g['tag']}) is {g['q'][:120]!r}, but the rule converts on its own to {e['q'][:120]!r}", None)]
    out = []
    diff = [g for g, e in zip(got, exp) if g["fin"] != e["fin"]]
    if diff:
        only_corr = all(g["tag"] in corr_tags and g["fin"] for g in diff)
        out.append((f"{kind}: sub-query of {diff[0]['tag']} is embedded {'finalised and post-processed' if diff[0]['fin'] else 'unfinalised'} "
                    f"although finalize_correlation_subqueries={cfg['finalizeSub']}", "C10a" if only_corr and not cfg["finalizeSub"] else None))
    nd = [(g, e) for g, e in zip(got, exp) if g["norms"] != e["norms"]]
    if nd:
        g, e = nd[0]
        out.append((f"{kind}: alias normalisations of rule {g['tag']} are {g['norms']}, expected {e['norms']} (one per alias naming the rule, "
                    f"target after field mapping)", "norms"))
    return out


def compare(got, exp, case, impl, ext_tt, who):
    """list of (field, text, finding) differences between the parsed record and a driver record"""
    cfg, main = case["cfg"], main_of(case)
    diffs = []
    for k in ("qt", "tn", "method"):
        if got[k] != exp[k]:
            diffs.append((k, f"{ {'qt': 'query template', 'tn': 'aggregation/condition template family', 'method': 'method'}[k] } "
                             f"{got[k]!r} used for a {main['type']} rule, expected {exp[k]!r}", None))
    if got["subs"] != exp["subs"]:
        diffs += [("subs", t, f) for t, f in describe_subs("search", got["subs"], exp["subs"], impl["env"], cfg)]
    if got["typing"] != exp["typing"]:
        if got["typing"] is None or exp["typing"] is None:
            diffs.append(("typing", f"typing expression {'missing' if got['typing'] is None else 'emitted'}", None))
        else:
            diffs += [("typing", t, f) for t, f in describe_subs("typing", got["typing"], exp["typing"], impl["env"], cfg)]
    if got["ts"] != exp["ts"]:
        mode = "seconds" if cfg["tsSeconds"] else ("unit mapping" if cfg["tsMap"] else "passthrough")
        diffs.append(("ts", f"timespan {main['timespan']} rendered as {got['ts']!r} ({mode}), expected {exp['ts']!r}", None))
    if got["gb"] != exp["gb"]:
        diffs.append(("gb", f"group-by {main['groupBy']} rendered as {got['gb']}, expected {exp['gb']} after field mapping", None))
    if got["aggField"] != exp["aggField"]:
        diffs.append(("aggField", f"aggregation field {got['aggField']}, expected {exp['aggField']} after field mapping", None))
    if got["pct"] != exp["pct"]:
        diffs.append(("pct", f"percentile {got['pct']}, expected {exp['pct']}", None))
    if got["refs"] != exp["refs"] and cfg["refsUsed"]:
        diffs.append(("refs", f"referenced rules expression lists {got['refs']}, expected {exp['refs']}", None))
    if got["fields"] != exp["fields"]:
        diffs.append(("fields", f"fields list {got['fields']}, expected {exp['fields']}", "unstated"))
    if got["single"] != exp["single"]:
        diffs.append(("single", f"single-rule search expression used={got['single']}, expected {exp['single']}", "unstated"))
    if ("cond" in got) != ("cond" in exp):
        diffs.append(("cond", "basic / extended condition kind differs", None))
    elif "cond" in got:
        for k, w in (("op", "condition operator"), ("count", "condition count"), ("field", "condition field")):
            if got["cond"][k] != exp["cond"][k]:
                diffs.append(("cond." + k, f"{w} {got['cond'][k]!r}, expected {exp['cond'][k]!r}" + (" after field mapping" if k == "field" else ""), None))
    else:
        want = ext_tt["spec"] if who == "spec" else ext_tt["model"]
        if ext_tt["impl"] is None:
            diffs.append(("ext", f"extended condition {main['cond']['text']!r}: emitted expression {render_toks(got['ext'])!r} is not readable "
                                 f"by the target precedence {cfg['prec']}", None))
        elif ext_tt["impl"] != want:
            row = next(i for i, (a, b2) in enumerate(zip(ext_tt["impl"], want)) if a != b2)
            names = [_dec(n) for n in ext_tt["names"]]
            val = {n: bool(row >> i & 1) for i, n in enumerate(names)}
            diffs.append(("ext", f"extended condition {main['cond']['text']!r} emitted as {render_toks(got['ext'])!r}: under {val} the rule says "
                                 f"{want[row]} but the query (precedence {cfg['prec']}) says {ext_tt['impl'][row]}", None))
        if who == "model" and reindex_ext(case, impl) != exp["ext"]["toks"]:
            diffs.append(("ext.toks", f"token list {reindex_ext(case, impl)} differs from the model's {exp['ext']['toks']}", "unstated"))
    return diffs


def render_toks(ext):
    out = []
    for t in ext["toks"]:
        out.append(ext["names"][t["atom"]] if isinstance(t, dict) else {"and": "AND", "or": "OR", "not": "NOT"}.get(t, t))
    return " ".join(out)


ERR_CLASS = {"sigma:SigmaConversionError": "conversion", "sigma:SigmaBackendError": "backend", "sigma:SigmaConfigurationError": "config",
             "other:NotImplementedError": "unsupported", "sigma:SigmaRuleNotFoundError": "notFound", "other:IndexError": "crash"}


def expected_others(case, impl):
    """queries of the other rules that must be emitted: a rule is silent iff some rule referencing it has generate=false"""
    out = []
    corrs = [d for d in case["docs"] if d["kind"] == "corr"]
    for d, e in zip([d for d in case["docs"] if d is not main_of(case)], impl["env"]):
        referrers = [c for c in corrs if c is not d and any(x in (d["name"], d["id"]) for x in
                     (c["rules"] if c["rules"] is not None else ext_leaves(c["cond"]["ext"])))]
        if all(c["generate"] for c in referrers):
            out += e["queries"]
    return out


def judge(case, impl, reply):
    if case.get("corrfail"):
        return c08.judge_corrfail(case, impl)
    main = main_of(case)
    oc = impl["outcome"]
    tags = [f"type:{main['type']}", f"outcome:{oc.split(':')[0] if oc != 'ok' else 'ok'}"]
    key = json.dumps(case, sort_keys=True)
    for k2 in sorted(main.get("spell") or {}):
        tags.append(f"spell:{k2}-scalar")
    if any(a["name"] in [x for _, f in a["mapping"] for x in [f] + map_all(case["pipe"], f)] for a in main["aliases"]):
        tags.append("alias:named-like-its-target")
    if reply is None:
        return Verdict("unjudged", f"a referenced rule could not be converted on its own: {oc} {impl.get('msg')}", False, None, tags=tuple(tags))
    model, spec = reply["model"], lean_record(reply["spec"])
    merr = model.get("err")
    if oc.startswith("load:"):
        if merr == "load": return Verdict("ok", "", False, key, tags=tuple(tags))
        return Verdict("drift", f"rule rejected at load ({oc}: {impl.get('msg')}) but the model answers {merr or 'a record'}", False, key, tags=tuple(tags))
    if oc == "other:KeyError" and "ruleid" in str(impl.get("msg")) and case["cfg"].get("singleTag") == "ruleid":
        return Verdict("violation", "the single-rule search expression uses the documented {ruleid} placeholder to tag the sub-query with the rule's name "
                       "or id; convert_correlation_search does not supply it and the conversion crashes with KeyError('ruleid')", True, key,
                       finding="C10c", tags=tuple(tags))
    if oc != "ok":
        cls = ERR_CLASS.get(oc, oc)
        if spec is None:
            if merr == cls: return Verdict("ok", "", False, key, tags=tuple(tags + ["unsupported:" + cls]))
            return Verdict("drift", f"conversion fails with {oc} ({impl.get('msg')}); the specification says unsupported, the model expects {merr or 'a record'}", False, key, tags=tuple(tags))
        return Verdict("drift", f"conversion fails with {oc} ({impl.get('msg')}) although the specification has a record (model: {merr or 'record'})", False, key, tags=tuple(tags))
    got, bad = impl_record(impl["rec"], case)
    if spec is None:
        multi = [(a["name"], t, map_all(case["pipe"], t)) for a in main["aliases"] for _, t in a["mapping"] if len(map_all(case["pipe"], t)) != 1]
        if main["groupBy"] is None and multi and merr is None:
            a, t, img = multi[0]
            return Verdict("violation", f"alias {a} target {t!r} is emitted unmapped although the pipeline renames {t!r} to {img} (no group-by list: "
                           "alias targets are not passed through the field mapping)", True, key, finding="C10b", tags=tuple(tags))
        return Verdict("drift", f"a query was emitted for a combination the specification calls unsupported (model: {merr or 'record'})", True, key, tags=tuple(tags))
    ext_tt = reply.get("ext") or {}
    diffs = compare(got, spec, case, impl, ext_tt, "spec")
    stated = [d for d in diffs if d[2] != "unstated"]
    mrec = lean_record(model.get("ok")) if "ok" in model else None
    mdiffs = compare(got, mrec, case, impl, ext_tt, "model") if mrec is not None else [("model", f"model error {merr}", None)]
    # what the other rules emit
    exp_others = sorted(expected_others(case, impl))
    got_others = sorted(impl["others"])
    if exp_others != got_others:
        extra = [q for q in got_others if q not in exp_others]
        miss = [q for q in exp_others if q not in got_others]
        stated.append(("generate", (f"a rule referenced without generate still emits its own query {extra[0][:100]!r}" if extra else
                                    f"a referenced rule whose referrers all set generate does not emit its query {miss[0][:100]!r}"), None))
    for t in bad:
        stated.append(("consistency", t, None))
    tags.append("cond:" + ("ext" if "ext" in got else "basic"))
    tags.append(f"refs:{len(spec['subs'])}q")
    if stated:
        # known classes (the model reproduces them): nested correlation sub-queries always finalised; alias targets unmapped without group-by
        findings = set()
        for f, t, fid in stated:
            reproduced = not [m for m in mdiffs if m[0] == f and m[2] == fid]
            if fid == "C10a" and reproduced:
                findings.add("C10a")
            elif fid == "norms" and main["groupBy"] is None and reproduced:
                findings.add("C10b")
            else:
                findings.add(None)
        what = "; ".join(t for _, t, _ in stated[:3])
        if main.get("spell"):
            what += "; the correlation rule writes " + " and ".join(
                f"{ {'rules': 'rules', 'groupBy': 'group-by'}[k2] }: {doc_of(main)['correlation'][{'rules': 'rules', 'groupBy': 'group-by'}[k2]]!r} (scalar spelling of a one-element list)"
                for k2 in sorted(main["spell"]))
        fid = None if None in findings else min(findings)
        return Verdict("violation", what, True, key, finding=fid, tags=tuple(tags))
    if mdiffs or [d for d in diffs if d[2] == "unstated"]:
        return Verdict("drift", "; ".join(t for _, t, _ in (mdiffs + diffs)[:3]), True, key, tags=tuple(tags))
    return Verdict("ok", "", True, key, tags=tuple(tags))
