"""A TextQueryBackend configuration with an unambiguous token syntax, its factory from a `Cfg`, and the
tokenizer that turns an emitted query back into tokens whose atoms are in the canonical form of
`SigmaVerif.Rule.Atom` (field, match kind, decoded value).  Shared by C01, C08, C12, C17.

Syntax: `( … )`, `AND`, `OR`, `NOT`; atoms are bracketed `[kind 'field' "value" …]`; numbers and booleans are
rendered by pySigma as `'field'==value`.  Fields are quoted with `'`, strings with `"`, both escaped with `\\`.
"""
from __future__ import annotations
import re
from .common import cps

PRECS = [("not", "and", "or"), ("not", "or", "and"), ("and", "not", "or"), ("and", "or", "not"), ("or", "not", "and"), ("or", "and", "not")]


def make_backend(cfg: dict):
    """cfg keys: prec (tuple of 'not'/'and'/'or'), parenthesize, orAsIn, andAsIn, inAllowWild, notAsNotEq,
    sw, ew, ct, wm (presence of the string operators), swSpecial, ewSpecial, ctSpecial, cased ('none'|'match'|'all'),
    explicitNotExists, nativeCidr"""
    from sigma.conversion.base import TextQueryBackend
    from sigma.conditions import ConditionNOT, ConditionAND, ConditionOR
    from sigma.processing.pipeline import ProcessingPipeline
    from sigma.types import CompareOperators, SigmaRegularExpressionFlag, TimestampPart
    from sigma.conversion.deferred import DeferredQueryExpression
    cls = {"not": ConditionNOT, "and": ConditionAND, "or": ConditionOR}
    cased = cfg.get("cased", "all")
    attrs = dict(
        name="verif backend", formats={"default": "plain"}, requires_pipeline=False,
        precedence=tuple(cls[o] for o in cfg["prec"]), parenthesize=cfg.get("parenthesize", False),
        group_expression="({expr})", token_separator=" ", or_token="OR", and_token="AND", not_token="NOT",
        eq_token="==", not_eq_token="!=", eq_expression="[eq {field} {value}]", not_eq_expression="[neq {field} {value}]",
        field_quote="'", field_quote_pattern=None, field_escape="\\", field_escape_pattern=re.compile(r"\\"), field_escape_quote=True,
        str_quote='"', str_quote_pattern=None, escape_char="\\", wildcard_multi="*", wildcard_single="?", add_escaped="\\", filter_chars="",
        bool_values={True: "true", False: "false"},
        startswith_expression="[sw {field} {value}]" if cfg.get("sw") else None,
        not_startswith_expression="[nsw {field} {value}]" if cfg.get("sw") else None,
        startswith_expression_allow_special=cfg.get("swSpecial", False),
        endswith_expression="[ew {field} {value}]" if cfg.get("ew") else None,
        not_endswith_expression="[new {field} {value}]" if cfg.get("ew") else None,
        endswith_expression_allow_special=cfg.get("ewSpecial", False),
        contains_expression="[ct {field} {value}]" if cfg.get("ct") else None,
        not_contains_expression="[nct {field} {value}]" if cfg.get("ct") else None,
        contains_expression_allow_special=cfg.get("ctSpecial", False),
        wildcard_match_expression="[wm {field} {value}]" if cfg.get("wm") else None,
        re_expression="[re {field} /{regex}/{flag_i}{flag_m}{flag_s}]", not_re_expression="[nre {field} /{regex}/{flag_i}{flag_m}{flag_s}]",
        re_escape_char="\\", re_escape=("/",), re_escape_escape_char=True, re_flag_prefix=False,
        re_flags={SigmaRegularExpressionFlag.IGNORECASE: "i", SigmaRegularExpressionFlag.MULTILINE: "m", SigmaRegularExpressionFlag.DOTALL: "s"},
        # casedRegex: the target has no case-sensitive string operator, the value is rendered as a regular expression (`{regex}`)
        case_sensitive_match_expression=("[cre {field} /{regex}/]" if cfg.get("casedRegex") else "[ceq {field} {value}]") if cased != "none" else None,
        case_sensitive_startswith_expression="[csw {field} {value}]" if cased == "all" else None,
        case_sensitive_not_startswith_expression="[ncsw {field} {value}]" if cased == "all" else None,
        case_sensitive_startswith_expression_allow_special=cfg.get("swSpecial", False),
        case_sensitive_endswith_expression="[cew {field} {value}]" if cased == "all" else None,
        case_sensitive_not_endswith_expression="[ncew {field} {value}]" if cased == "all" else None,
        case_sensitive_endswith_expression_allow_special=cfg.get("ewSpecial", False),
        case_sensitive_contains_expression="[cct {field} {value}]" if cased == "all" else None,
        case_sensitive_not_contains_expression="[ncct {field} {value}]" if cased == "all" else None,
        case_sensitive_contains_expression_allow_special=cfg.get("ctSpecial", False),
        cidr_expression="[cidr {field} {value}]" if cfg.get("nativeCidr") else None,
        not_cidr_expression="[ncidr {field} {value}]" if cfg.get("nativeCidr") else None,
        compare_op_expression="[cmp {field} {operator} {value}]",
        compare_operators={CompareOperators.LT: "lt", CompareOperators.LTE: "lte", CompareOperators.GT: "gt", CompareOperators.GTE: "gte", CompareOperators.NEQ: "neq"},
        field_equals_field_expression="[ref {field1} {field2}]", field_equals_field_startswith_expression="[refsw {field1} {field2}]",
        field_equals_field_endswith_expression="[refew {field1} {field2}]", field_equals_field_contains_expression="[refct {field1} {field2}]",
        field_equals_field_escaping_quoting=(True, True),
        field_null_expression="[null {field}]", field_exists_expression="[ex {field}]",
        field_not_exists_expression="[nex {field}]" if cfg.get("explicitNotExists") else None,
        field_timestamp_part_expression="[ts {field} {timestamp_part}]",
        timestamp_part_mapping={p: p.name.lower() for p in TimestampPart},
        convert_or_as_in=cfg.get("orAsIn", False), convert_and_as_in=cfg.get("andAsIn", False),
        in_expressions_allow_wildcards=cfg.get("inAllowWild", False),
        field_in_list_expression="[in {field} {op} <{list}>]", or_in_operator="any", and_in_operator="all", list_separator=";",
        unbound_value_str_expression="[kw {value}]", unbound_value_num_expression="[kwn {value}]", unbound_value_re_expression="[kwre /{value}/{flag_i}{flag_m}{flag_s}]",
        convert_not_as_not_eq=cfg.get("notAsNotEq", False),
        deferred_start=" | ", deferred_separator=" | ", deferred_only_query="*",
        backend_processing_pipeline=ProcessingPipeline(),
    )
    key = "VB_" + re.sub(r"\W", "_", repr(sorted(cfg.items())))[:200]
    return type(key, (TextQueryBackend,), attrs)


QX_EXPR = "[qx {field} {id}]"


class Tokenize(Exception):
    pass


def _read_quoted(s, i, q):
    """s[i] == q; returns (decoded raw chars list with escape info, next index) — list of (char, escaped)"""
    if s[i:i + 1] != q:
        raise Tokenize(f"expected {q} at {i}: {s[i:i + 30]!r}")
    i += 1
    out = []
    while True:
        if i >= len(s):
            raise Tokenize("unterminated quote")
        c = s[i]
        if c == "\\":
            if i + 1 >= len(s):
                raise Tokenize("dangling escape")
            out.append((s[i + 1], True)); i += 2
        elif c == q:
            return out, i + 1
        else:
            out.append((c, False)); i += 1


def _pat(chars):
    """(char, escaped) list -> canonical pattern parts"""
    out = []
    for c, esc in chars:
        if not esc and c == "*":
            out.append("*")
        elif not esc and c == "?":
            out.append("?")
        else:
            out.append(ord(c))
    return out


def _field(chars):
    return cps("".join(c for c, _ in chars))


def _atom_str(field, cased, pat):
    return {"k": "str", "f": field, "cased": cased, "pat": pat}


def parse_atom(body: str):
    """body = text between '[' and ']' -> list of tokens (atom / natom / in)"""
    m = re.match(r"(\w+) ", body)
    if not m:
        raise Tokenize(f"atom kind: {body!r}")
    kind = m.group(1)
    i = m.end()
    neg = False
    base = kind
    if kind.startswith("n") and kind not in ("null", "nex") and kind[1:] in ("eq", "sw", "ew", "ct", "csw", "cew", "cct", "re", "cidr"):
        neg, base = True, kind[1:]
    wrap = (lambda a: {"natom": a}) if neg else (lambda a: {"atom": a})

    def field_at(i):
        if body[i] == "'":
            ch, j = _read_quoted(body, i, "'")
            return _field(ch), j
        m2 = re.compile(r"[^ \]]+").match(body, i)      # raw field (native CIDR template passes it unquoted)
        return cps(m2.group(0)), m2.end()
    if base == "qx":
        f, j = field_at(i)
        return [{"atom": {"k": "qx", "f": f, "expr": cps(QX_EXPR), "id": cps(body[j:].strip())}}]
    if base in ("kw", "kwn", "kwre"):
        if base == "kw":
            ch, j = _read_quoted(body, i, '"')
            return [wrap(_atom_str(None, False, _pat(ch)))]
        if base == "kwn":
            return [wrap({"k": "num", "f": None, "n": cps(body[i:].strip())})]
        src, flags = _regex_at(body, i)
        return [wrap({"k": "re", "f": None, "src": cps(src), "i": "i" in flags, "m": "m" in flags, "s": "s" in flags})]
    f, i = field_at(i)
    if body[i:i + 1] == " ":
        i += 1
    if base in ("eq", "wm", "sw", "ew", "ct", "ceq", "csw", "cew", "cct"):
        ch, j = _read_quoted(body, i, '"')
        pat = _pat(ch)
        cased = base.startswith("c") and base != "ct"
        op = base[1:] if cased else base
        if op == "sw": pat = pat + ["*"]
        elif op == "ew": pat = ["*"] + pat
        elif op == "ct": pat = ["*"] + pat + ["*"]
        return [wrap(_atom_str(f, cased, pat))]
    if base == "cre":          # a string value rendered as regular expression: read back into the pattern it denotes
        src, rest = _regex_at(body, i)
        return [wrap(_atom_str(f, True, _pat_of_regex(src)))]
    if base == "re":
        src, flags = _regex_at(body, i)
        return [wrap({"k": "re", "f": f, "src": cps(src), "i": "i" in flags, "m": "m" in flags, "s": "s" in flags})]
    if base == "cidr":
        return [wrap({"k": "cidr", "f": f, "text": cps(body[i:].strip())})]
    if base == "cmp":
        op, n = body[i:].split(" ")
        return [{"atom": {"k": "cmp", "f": f, "op": cps(op), "n": cps(n)}}]
    if base in ("ref", "refsw", "refew", "refct"):
        f2, j = field_at(i)
        return [{"atom": {"k": "ref", "f": f, "f2": f2, "sw": base in ("refsw", "refct"), "ew": base in ("refew", "refct")}}]
    if base == "null":
        return [{"atom": {"k": "null", "f": f}}]
    if base == "ex":
        return [{"atom": {"k": "exists", "f": f}}]
    if base == "nex":
        return [{"natom": {"k": "exists", "f": f}}]
    if base == "ts":
        raise Tokenize("ts handled by caller")
    if base == "in":
        m3 = re.compile(r"(any|all) <").match(body, i)
        if not m3:
            raise Tokenize(f"in-list: {body!r}")
        i = m3.end()
        atoms = []
        while True:
            if body[i] == '"':
                ch, i = _read_quoted(body, i, '"')
                atoms.append(_atom_str(f, False, _pat(ch)))
            else:
                m4 = re.compile(r"[^;>]+").match(body, i)
                atoms.append({"k": "num", "f": f, "n": cps(m4.group(0))})
                i = m4.end()
            if body[i] == ";":
                i += 1
            elif body[i] == ">":
                break
            else:
                raise Tokenize(f"in-list separator: {body!r}")
        return [{"in": {"or": m3.group(1) == "any", "atoms": atoms}}]
    raise Tokenize(f"unknown atom kind {kind}")


REGEX_OPERATORS = ".*+?^$[](){}|\\"


def _pat_of_regex(src):
    """the pattern a regular expression made from a plain string value denotes: `\\c` = the character c, `.*` / `.` = the wildcards,
    any other character = itself; an operator character that is not escaped would not be matched literally by the target: rejected"""
    out, i = [], 0
    while i < len(src):
        c = src[i]
        if c == "\\":
            if i + 1 >= len(src):
                raise Tokenize("dangling escape in regex")
            out.append(ord(src[i + 1])); i += 2
        elif c == ".":
            if src[i + 1:i + 2] == "*":
                out.append("*"); i += 2
            else:
                out.append("?"); i += 1
        elif c in REGEX_OPERATORS:
            raise Tokenize(f"regex operator {c!r} not escaped in a literal string value: /{src}/")
        else:
            out.append(ord(c)); i += 1
    return out


def _regex_at(body, i):
    if body[i] != "/":
        raise Tokenize("regex start")
    i += 1
    out = []
    while True:
        if i >= len(body):
            raise Tokenize("unterminated regex")
        c = body[i]
        if c == "\\" and i + 1 < len(body) and body[i + 1] in "/\\":
            out.append(body[i + 1]); i += 2       # re_escape: '/' and the escape char itself
        elif c == "/":
            return "".join(out), body[i + 1:]
        else:
            out.append(c); i += 1


def _find_atom_end(s, i):
    """s[i] == '['; index of the matching ']' respecting quotes and regex bodies"""
    j = i + 1
    while j < len(s):
        c = s[j]
        if c in "'\"":
            _, j = _read_quoted(s, j, c)
            continue
        if c == "/" and s[j - 1] == " ":
            # regex body: skip to the closing unescaped '/'
            j += 1
            while j < len(s) and s[j] != "/":
                j += 2 if s[j] == "\\" else 1
            j += 1
            continue
        if c == "]":
            return j
        j += 1
    raise Tokenize("unterminated atom")


def tokenize(q: str, kinds: bool = False):
    try:
        return _tokenize(q, kinds)
    except (IndexError, AssertionError, ValueError, AttributeError) as e:      # text the grammar has no reading for
        raise Tokenize(f"malformed query text ({type(e).__name__}: {e})") from None


def _tokenize(q: str, kinds: bool = False):
    """kinds=True: every atom / in-list token additionally carries "t": the raw template kind it was rendered
    with (`eq`, `nsw`, `wm`, `in` …; `eqtok` for `field==value`, `ts` for timestamp parts) — used by the C01 drift
    comparison to tell which template family a leaf went through; ignored by the Lean driver."""
    toks = []
    i = 0
    while i < len(q):
        c = q[i]
        if c == " ":
            i += 1
        elif c in "()":
            toks.append(c); i += 1
        elif q.startswith("AND", i) and (i + 3 == len(q) or q[i + 3] in " ("):
            toks.append("and"); i += 3
        elif q.startswith("OR", i) and (i + 2 == len(q) or q[i + 2] in " ("):
            toks.append("or"); i += 2
        elif q.startswith("NOT", i) and (i + 3 == len(q) or q[i + 3] in " ("):
            toks.append("not"); i += 3
        elif c == "[":
            j = _find_atom_end(q, i)
            body = q[i + 1:j]
            if body.startswith("ts "):
                # [ts 'f' unit]==n
                f_ch, k = _read_quoted(body, 3, "'")
                unit = body[k:].strip()
                m = re.compile(r"==(\S+?)(?=[ )]|$)").match(q, j + 1)
                if not m:
                    raise Tokenize("timestamp part value")
                toks.append({"atom": {"k": "ts", "f": _field(f_ch), "unit": cps(unit), "n": cps(m.group(1))}})
                if kinds: toks[-1]["t"] = "ts"
                i = m.end()
            else:
                new = parse_atom(body)
                if kinds:
                    for t in new: t["t"] = body.split(" ", 1)[0]
                toks += new
                i = j + 1
        elif c == "'":
            ch, j = _read_quoted(q, i, "'")
            m = re.compile(r"(==|!=)(\S+?)(?=[ )]|$)").match(q, j)
            if not m:
                raise Tokenize(f"field without comparison at {i}: {q[i:i+40]!r}")
            v = m.group(2)
            a = {"k": "bool", "f": _field(ch), "b": v == "true"} if v in ("true", "false") else {"k": "num", "f": _field(ch), "n": cps(v)}
            toks.append({"natom": a} if m.group(1) == "!=" else {"atom": a})
            if kinds: toks[-1]["t"] = "eqtok"
            i = m.end()
        else:
            raise Tokenize(f"unexpected {q[i:i+20]!r} at {i}")
    return toks
