"""C06 — serialising a rule and loading it again preserves its meaning.

For rules, correlation rules and filters that load: x.to_dict() -> from_dict -> to_dict must be a fixed point
and (for rules) convert to the same queries; the same through YAML.  After one pipeline transformation the
serialisation must either fail with a Sigma error or produce a dict whose reload converts to exactly what the
transformed rule converts to."""
from __future__ import annotations
import copy, random, uuid
from .common import Verdict, outcome_of_exception
from . import c01, c12

ID = "C06"
GEN = ["Mods"]
RULE = ("rule documents with all metadata fields (dates in both accepted spellings, tags, related, references, custom "
        "attributes, falsepositives, fields, level, status), all detection shapes and modifier chains of the C01 generator; "
        "correlation rules of all types with aliases, group-by, timespans, extended conditions; filters; and rule objects "
        "after any single transformation of the C12 list; distinct = distinct document; non-trivial = >= 2 detection items or a "
        "modifier chain or a correlation/filter document")
ASSUMPTIONS = [
    "queries are compared as text produced by the test backend (same backend, same configuration on both sides)",
    "PyYAML is used for the YAML leg (safe_dump / safe_load)",
]


def meta(rnd, i):
    d = {"title": f"Rule {i}", "id": str(uuid.UUID(int=0x4000 + i)), "status": rnd.choice(["test", "stable", "experimental"]),
         "level": rnd.choice(["low", "medium", "high", "critical", "informational"]), "description": "desc " + "x" * rnd.randint(0, 5),
         "author": "a", "logsource": rnd.choice([{"category": "c"}, {"product": "p", "service": "s"}, {"category": "c", "product": "p", "definition": "d"}])}
    if rnd.random() < 0.6: d["date"] = rnd.choice(["2024-01-31", "2024/01/31", "1999-12-01"])
    if rnd.random() < 0.4: d["modified"] = rnd.choice(["2024-02-29", "2025/03/01"])
    if rnd.random() < 0.6: d["tags"] = rnd.sample(["attack.t1059", "attack.execution", "cve.2024-1234", "tlp.red"], 2)
    if rnd.random() < 0.4: d["references"] = ["https://example.org/a", "https://example.org/b"]
    if rnd.random() < 0.4: d["related"] = [{"id": str(uuid.UUID(int=0x5000 + i)), "type": rnd.choice(["derived", "obsolete", "similar"])}]
    if rnd.random() < 0.4: d["falsepositives"] = ["fp1", "fp2"]
    if rnd.random() < 0.4: d["fields"] = ["f", "g"]
    if rnd.random() < 0.3: d["custom_attr"] = {"k": [1, 2, {"x": "y"}]}
    if rnd.random() < 0.3: d["name"] = f"rule_name_{i}"
    if rnd.random() < 0.2: d["license"] = "MIT"
    if rnd.random() < 0.2: d["scope"] = ["server"]
    if rnd.random() < 0.2: d["taxonomy"] = "sigma"
    return d


def gen_corr(rnd, i):
    t = rnd.choice(["event_count", "value_count", "temporal", "temporal_ordered", "value_sum", "value_avg", "value_percentile", "value_median"])
    c = {"type": t, "rules": ["rule_a", "rule_b"][: rnd.randint(1, 2)], "timespan": rnd.choice(["5m", "1h", "30s", "2d", "1w", "1M", "1y"])}
    if rnd.random() < 0.8: c["group-by"] = rnd.sample(["user", "host", "src"], 2)
    if rnd.random() < 0.4: c["generate"] = True
    if rnd.random() < 0.4: c["aliases"] = {"user": {"rule_a": "u1", "rule_b": "u2"}}
    op = rnd.choice(["gt", "gte", "lt", "lte", "eq", "neq"])
    if t in ("temporal", "temporal_ordered"):
        if rnd.random() < 0.4:
            c["condition"] = rnd.choice(["rule_a and rule_b", "rule_a and not rule_b", "rule_a or rule_b"])
            c.pop("rules")
    elif t == "event_count":
        c["condition"] = {op: rnd.randint(1, 20)}
    else:
        c["condition"] = {op: rnd.randint(1, 20), "field": "f"}
        if t == "value_percentile":
            c["condition"]["percentile"] = 75
    d = {"title": f"Corr {i}", "id": str(uuid.UUID(int=0x6000 + i)), "correlation": c, "level": "high"}
    if rnd.random() < 0.5: d["name"] = f"corr_{i}"
    return d


def gen_filter(rnd, i):
    dets = {"flt": {"f": rnd.choice(["a", ["a", "b*"]])}}
    if rnd.random() < 0.5:
        dets["flt2"] = {"g|contains": "x"}
    return {"title": f"Filter {i}", "id": str(uuid.UUID(int=0x7000 + i)), "logsource": {"category": "c"},
            "filter": {"rules": rnd.choice(["any", ["rule_a"], [str(uuid.UUID(int=0x4001))]]), **dets, "condition": rnd.choice(["not flt", "flt", "not 1 of flt*"])}}


def gen_cases(tier, seed, gen, effort):
    rnd = random.Random(seed * 9431 + 6)
    rr = random.Random(seed * 9431 + 7)
    thorough = tier == "thorough"
    cases = []
    for i in range((1500 if not thorough else 25000) * effort):
        r = rnd.random()
        if r < 0.6:
            k = rnd.choice([1, 2, 3])
            names = ["sel", "flt", "sel2"][:k]
            doc = meta(rnd, i)
            doc["detection"] = {nm: c01.gen_det(rnd) for nm in names}
            if rnd.random() < 0.05:
                doc["detection"][names[0]] = {"bs": rnd.choice(["p\\\\*q", "p\\\\\\\\q", "end\\\\?"])}      # backslash before wildcard / backslash (finding D3)
            cond = rnd.choice({1: c01.CONDS_1, 2: c01.CONDS_2, 3: c01.CONDS_3}[k])
            doc["detection"]["condition"] = cond if rnd.random() < 0.85 else [cond, rnd.choice({1: c01.CONDS_1, 2: c01.CONDS_2, 3: c01.CONDS_3}[k])]
            cases.append({"kind": "rule", "doc": doc})
        elif r < 0.75:
            cases.append({"kind": "corr", "doc": gen_corr(rnd, i)})
        elif r < 0.85:
            cases.append({"kind": "filter", "doc": gen_filter(rnd, i)})
        else:
            rule = c12.gen_rule(rr)
            doc = meta(rnd, i)
            doc["logsource"] = rule["logsource"]
            doc["detection"] = {**rule["dets"], "condition": rule["cond"]}
            cases.append({"kind": "transformed", "doc": doc, "t": c12.gen_transformation(rr)})
    return cases, False


def convert(rule_obj):
    from sigma.collection import SigmaCollection
    from sigma.backends.test import TextQueryTestBackend
    try:
        return TextQueryTestBackend().convert(SigmaCollection([rule_obj], resolve_references=False))
    except Exception as e:
        return "ERR:" + outcome_of_exception(e)


def run_impl(case):
    import yaml
    from sigma.rule import SigmaRule
    from sigma.correlations import SigmaCorrelationRule
    from sigma.filters import SigmaFilter
    from sigma.processing.pipeline import ProcessingPipeline
    cls = {"rule": SigmaRule, "corr": SigmaCorrelationRule, "filter": SigmaFilter, "transformed": SigmaRule}[case["kind"]]
    try:
        obj = cls.from_dict(copy.deepcopy(case["doc"]))
    except Exception as e:
        return {"outcome": "load:" + outcome_of_exception(e), "msg": str(e)[:120]}
    out = {"outcome": "ok"}
    try:
        if case["kind"] == "transformed":
            pl = ProcessingPipeline.from_dict({"name": "p", "priority": 1, "transformations": [c12.t_yaml(case["t"])]})
            pl.apply(obj)
            from sigma.backends.test import TextQueryTestBackend
            from sigma.processing.pipeline import ProcessingPipeline as PP
            from sigma.collection import SigmaCollection
            class B0(TextQueryTestBackend):
                backend_processing_pipeline = PP()
            try:
                out["q_obj"] = B0().convert(SigmaCollection([copy.deepcopy(obj)], resolve_references=False))
            except Exception as e:
                out["q_obj"] = "ERR:" + outcome_of_exception(e)
        d1 = obj.to_dict()
    except Exception as e:
        out["todict"] = outcome_of_exception(e)
        out["msg"] = str(e)[:120]
        return out
    try:
        obj2 = cls.from_dict(copy.deepcopy(d1))
        d2 = obj2.to_dict()
        out["fixed_point"] = d1 == d2
        if d1 != d2:
            out["diff"] = [k for k in set(d1) | set(d2) if d1.get(k) != d2.get(k)]
        y = yaml.safe_dump(d1, sort_keys=False)
        obj3 = cls.from_dict(yaml.safe_load(y))
        out["yaml_fixed_point"] = obj3.to_dict() == d1
        if case["kind"] == "rule":
            out["q1"], out["q2"], out["q3"] = convert(cls.from_dict(copy.deepcopy(case["doc"]))), convert(obj2), convert(obj3)
        if case["kind"] == "transformed":
            from sigma.backends.test import TextQueryTestBackend
            from sigma.processing.pipeline import ProcessingPipeline as PP
            from sigma.collection import SigmaCollection
            class B(TextQueryTestBackend):
                backend_processing_pipeline = PP()
            try:
                out["q_reload"] = B().convert(SigmaCollection([obj2], resolve_references=False))
            except Exception as e:
                out["q_reload"] = "ERR:" + outcome_of_exception(e)
    except Exception as e:
        out["reload"] = outcome_of_exception(e)
        out["msg"] = str(e)[:160]
    return out


def make_request(case, impl, gen):
    return {"op": "ping"}


def _d3(doc):
    import re
    return re.search(r"\\\\\\\\[*?\\\\]|\\\\\\\\'|\\\\\\\\\"", repr(doc.get("detection", doc.get("filter")))) is not None


def judge(case, impl, reply):
    io = impl["outcome"]
    doc = case["doc"]
    key = (case["kind"], doc, case.get("t"))
    nt = True
    tags = [f"kind:{case['kind']}", f"impl:{io.split(':')[0]}"]
    fid = "D3" if _d3(doc) else None
    if io.startswith("load:"):
        if "other:" in io:
            return Verdict("violation", f"loading {case['kind']} document raised {io}: {impl.get('msg')} :: {doc}", nt, key, tags=tuple(tags))
        return Verdict("ok", "", False, key, tags=tuple(tags + ["unjudged:not-loadable"]))
    if "todict" in impl:
        if impl["todict"].startswith("sigma:") and case["kind"] == "transformed":
            return Verdict("ok", "", nt, key, tags=tuple(tags + ["refused"]))
        return Verdict("violation", f"to_dict of a loaded {case['kind']} raised {impl['todict']}: {impl.get('msg')} :: {doc.get('detection', doc)} {case.get('t')}", nt, key, finding=fid, tags=tuple(tags))
    if "reload" in impl:
        return Verdict("violation", f"the serialised form of {case['kind']} does not load again: {impl['reload']} {impl.get('msg')} :: {doc.get('detection', doc)} {case.get('t')}", nt, key, finding=fid, tags=tuple(tags))
    if case["kind"] == "transformed":
        if impl["q_obj"] != impl["q_reload"] and not (isinstance(impl["q_obj"], str) and isinstance(impl["q_reload"], str)):
            return Verdict("violation", (f"after {c12.t_yaml(case['t'])} the rule serialises without error but the reloaded rule converts to {impl['q_reload']} "
                                         f"while the transformed rule converts to {impl['q_obj']} :: {doc['detection']}"), nt, key, finding=fid, tags=tuple(tags))
        return Verdict("ok", "", nt, key, tags=tuple(tags + ["serialised"]))
    if not impl["fixed_point"]:
        return Verdict("violation", f"{case['kind']}: to_dict(from_dict(to_dict(x))) differs from to_dict(x) in {impl.get('diff')} :: {doc.get('detection', doc)}", nt, key, finding=fid, tags=tuple(tags))
    if not impl["yaml_fixed_point"]:
        return Verdict("violation", f"{case['kind']}: YAML dump/load changes the dict form :: {doc.get('detection', doc)}", nt, key, finding=fid, tags=tuple(tags))
    if case["kind"] == "rule" and not (impl["q1"] == impl["q2"] == impl["q3"]):
        return Verdict("violation", f"rule converts to {impl['q1']} but its serialised form to {impl['q2']} / via YAML {impl['q3']} :: {doc['detection']}", nt, key, finding=fid, tags=tuple(tags))
    return Verdict("ok", "", nt, key, tags=tuple(tags))
