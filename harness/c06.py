"""C06 — serialising a rule and loading it again preserves its meaning.

For rules, correlation rules and filters that load: x.to_dict() -> from_dict -> to_dict must be a fixed point
and (for rules) convert to the same queries; the same through YAML.  After one pipeline transformation the
serialisation must either fail with a Sigma error or produce a dict whose reload converts to exactly what the
transformed rule converts to.
"Converts to the same queries" is judged in an environment in which every part of the document matters: a rule is
also converted together with reference filters, a filter together with reference rules (log sources over all
combinations of set / unset / empty-string attributes), because the log source decides which filters meet which rules.

The object that is loaded from the written form (from_dict(to_dict(x)), and the same through YAML) is also compared with
x itself, attribute by attribute (every dataclass field that takes part in ==, and the custom attributes; the detections
of a rule are compared through the queries, because one value has several spellings there): comparing only the two
dict forms cannot see a writer that loses something the same way every time (to_dict(from_dict(to_dict(x))) == to_dict(x)
holds for any idempotent normalisation).  For the list-valued metadata "no entry" and "empty list" count as equal.

Correspondence with the Lean model (`Model/Ser.lean`, theorems in `Props/C06.lean`): the detection section of
every rule / filter document is sent to the driver (`ser.case`), which loads it with the model's
`from_mapping` / `from_definition`, writes it with the model's `to_plain` and reloads its own output; the plain
form, the error class, the condition spelling and the ISO dates are compared with `to_dict()` of the real
objects.  For rules changed by a transformation the detection *object tree* the pipeline left behind
(fields, modifier classes, `original_value` or its absence, nesting, OR-linking) is sent (`ser.obj`) and the
model's `to_plain` of that tree is compared with the real one (same plain form, or both refuse).
A disagreement is reported as drift; the deciding judgements are the ones on the real code above."""
from __future__ import annotations
import copy, datetime, json, math, random, re, uuid
from .common import Verdict, cps, outcome_of_exception
from . import c01, c12
from .c03 import plain

ID = "C06"
GEN = ["Mods", "B64", "Ser"]
RULE = ("rule documents with all metadata fields (dates in both accepted spellings, tags, related, references, custom "
        "attributes, falsepositives, fields, level, status), all detection shapes and modifier chains of the C01 generator; "
        "correlation rules of all types with aliases, group-by, timespans, extended conditions; filters; and rule objects "
        "after any single transformation of the C12 list, after many-to-one field mappings over items with equal or different modifier "
        "chains (key collisions in to_plain's merging loop); distinct = distinct document; non-trivial = >= 2 detection items or a "
        "modifier chain or a correlation/filter document"
        "; transformed rules incl. many-to-one field mappings over all modifier sets, extract_fields / hashes_fields; correlation rules converted with their referenced rules"
        "; log sources over set / unset / empty-string category, product, service, definition and custom attributes, rules loaded with and without a source location; "
        "rules converted together with reference filters and filters together with reference rules (one per log source shape)"
        "; round 5: the object loaded from the written form (dict and YAML) compared with the original object attribute by attribute (all metadata, log source, "
        "correlation parts, custom attributes; detections through the queries); metadata boundary stream (block-scalar texts with final / inner line breaks, blanks "
        "at either end, empty strings, texts that read as other YAML types, explicitly empty lists, taxonomy, license) for rules, correlation rules and filters; "
        "correlation boundary stream (group-by absent / empty / string / lists, aliases absent / empty, generate absent / false / true, rules as one string); "
        "ordered many-to-one stream (the shared key K and K|all on target and sources, one value or a list, at every position of the map, values longer than one character)")
RULE += '; round 6: one to three related entries, ids may repeat'
ASSUMPTIONS = [
    "queries are compared as text produced by the test backend (same backend, same configuration on both sides)",
    "PyYAML is used for the YAML leg (safe_dump / safe_load)",
    "model correspondence: numbers travel as canonical renderings (int if integral, else repr of the float); values outside "
    "str/int/finite float/bool/null, regular expressions Python's re rejects and query-expression placeholders are outside the model's domain (tagged, not judged)",
]


LS_VALUES = {"category": ["c", "c", "c2", ""], "product": ["p", "p", "p2", ""], "service": ["s", "s", ""], "definition": ["d", "some text", ""]}


def gen_logsource(rnd):
    """log sources: the three common shapes, and every attribute independently unset / set / set to the empty string
    (an empty string is a value: it is compared when filters and log source conditions are matched); custom attributes"""
    if rnd.random() < 0.4:
        return rnd.choice([{"category": "c"}, {"product": "p", "service": "s"}, {"category": "c", "product": "p", "definition": "d"}])
    ls = {}
    for k in ("category", "product", "service"):
        if rnd.random() < 0.55:
            ls[k] = rnd.choice(LS_VALUES[k])
    if not ls:
        ls[rnd.choice(["category", "product", "service"])] = rnd.choice(["c", ""])
    if rnd.random() < 0.25:
        ls["definition"] = rnd.choice(LS_VALUES["definition"])
    if rnd.random() < 0.08:      # custom attributes are written back as keys (regression of /repo 47b2b34)
        ls[rnd.choice(["vendor", "x-custom"])] = rnd.choice(["v", "", "two words"])
    return ls


# one reference log source per shape over {unset, set, empty string} for category and product, and some with a service
REF_LS = [{"category": "c"}, {"category": ""}, {"product": "p"}, {"product": ""}, {"category": "c", "product": "p"}, {"category": "", "product": "p"},
          {"category": "c", "product": ""}, {"category": "", "product": ""}, {"product": "p", "service": "s"}, {"product": "p", "service": ""},
          {"category": "c2", "service": "s"}, {"service": ""}]
REF_NAMES = ["rule_a", "rule_b", "rule_c"]


def ref_rules():
    out = []
    for n, ls in enumerate(REF_LS):
        r = {"title": f"ref rule {n}", "name": REF_NAMES[n] if n < len(REF_NAMES) else f"ref_{n}", "logsource": dict(ls),
             "detection": {"sel": {"r": f"v{n}"}, "condition": "sel"}}
        if n == 3:
            r["id"] = str(uuid.UUID(int=0x4001))
        out.append(r)
    return out


def ref_filters():
    return [{"title": f"ref filter {n}", "logsource": dict(ls), "filter": {"rules": "any", "flt": {f"x{n}": "y"}, "condition": "not flt"}}
            for n, ls in enumerate(REF_LS)]


def meta(rnd, i):
    d = {"title": f"Rule {i}", "id": str(uuid.UUID(int=0x4000 + i)), "status": rnd.choice(["test", "stable", "experimental"]),
         "level": rnd.choice(["low", "medium", "high", "critical", "informational"]), "description": "desc " + "x" * rnd.randint(0, 5),
         "author": "a", "logsource": gen_logsource(rnd)}
    if rnd.random() < 0.6: d["date"] = rnd.choice(["2024-01-31", "2024/01/31", "1999-12-01", "2024/1/5", "2024/01/5", "2024/1/05", "3999/12/31", "1000-01-01"])
    if rnd.random() < 0.4: d["modified"] = rnd.choice(["2024-02-29", "2025/03/01", "2025/3/1", "2023/11/9"])
    if rnd.random() < 0.6: d["tags"] = rnd.sample(["attack.t1059", "attack.execution", "cve.2024-1234", "tlp.red"], 2)
    if rnd.random() < 0.4: d["references"] = ["https://example.org/a", "https://example.org/b"]
    if rnd.random() < 0.4:
        # one to three related rules; the same rule may be named twice under different relation types
        d["related"] = [{"id": str(uuid.UUID(int=0x5000 + i + (k if rnd.random() < 0.5 else 0))), "type": t}
                        for k, t in enumerate(rnd.sample(["derived", "obsolete", "similar", "merged", "renamed"], rnd.choice([1, 1, 2, 3])))]
    if rnd.random() < 0.4: d["falsepositives"] = ["fp1", "fp2"]
    if rnd.random() < 0.4: d["fields"] = ["f", "g"]
    if rnd.random() < 0.3: d["custom_attr"] = {"k": [1, 2, {"x": "y"}]}
    if rnd.random() < 0.3: d["name"] = f"rule_name_{i}"
    if rnd.random() < 0.2: d["license"] = "MIT"
    if rnd.random() < 0.2: d["scope"] = ["server"]
    if rnd.random() < 0.2: d["taxonomy"] = "sigma"
    return d


def gen_corr(rnd, i):
    t = rnd.choice(["event_count", "value_count", "temporal", "temporal_ordered", "value_sum", "value_avg", "value_percentile", "value_median"])
    c = {"type": t, "rules": rnd.choice([["rule_a"], ["rule_b"], ["rule_a", "rule_b"], ["rule_b", "rule_a"], ["rule_c", "rule_a", "rule_b"]]), "timespan": rnd.choice(["5m", "1h", "30s", "2d", "1w", "1M", "1y"])}
    if rnd.random() < 0.8: c["group-by"] = rnd.sample(["user", "host", "src"], 2)
    if rnd.random() < 0.4: c["generate"] = True
    if rnd.random() < 0.4: c["aliases"] = {"user": {"rule_a": "u1", "rule_b": "u2"}}
    op = rnd.choice(["gt", "gte", "lt", "lte", "eq", "neq"])
    if t in ("temporal", "temporal_ordered"):
        if rnd.random() < 0.4:
            c["condition"] = rnd.choice(["rule_a and rule_b", "rule_a and not rule_b", "rule_a or rule_b"])
            c.pop("rules")
    elif t == "event_count":
        c["condition"] = {op: rnd.randint(1, 20)}
    else:
        c["condition"] = {op: rnd.randint(1, 20), "field": "f"}
        if t == "value_percentile":
            c["condition"]["percentile"] = rnd.choice([0, 50, 75, 100])
    d = {"title": f"Corr {i}", "id": str(uuid.UUID(int=0x6000 + i)), "correlation": c, "level": "high"}
    if rnd.random() < 0.5: d["name"] = f"corr_{i}"
    return d


def gen_filter(rnd, i):
    dets = {"flt": {"f": rnd.choice(["a", ["a", "b*"]])}}
    if rnd.random() < 0.5:
        dets["flt2"] = {"g|contains": "x"}
    return {"title": f"Filter {i}", "id": str(uuid.UUID(int=0x7000 + i)), "logsource": gen_logsource(rnd),
            "filter": {"rules": rnd.choice(["any", ["rule_a"], [str(uuid.UUID(int=0x4001))]]), **dets, "condition": rnd.choice(["not flt", "flt", "not 1 of flt*"])}}


SER_KEYS = ["f|re|i", "f|re|m|s", "g|re|ignorecase", "f|re|dotall|multiline", "|contains", "|re", "f|contains|all", "f|all", "h_1|endswith|cased",
            "f|base64", "f|wide|base64offset|contains", "f|windash", "ip|cidr", "f|gt", "f|exists", "f|fieldref", "f|expand", "f|neq", "f"]
SER_VALS = ["a", "a*b", "a\\*b", "x y", "", "%ph%", ["a"], ["a", "b"], [], 1, 2.0, 2.5, True, None, ["a", 1, None], "-x", "10.0.0.0/8", "a.*b"]


def gen_ser_det(rnd, depth=0):
    """detection shapes that stress from_definition / to_plain: nesting, one-element lists, keyword items, empty key"""
    r = rnd.random()
    if r < 0.35:
        d = {}
        for _ in range(rnd.choice([1, 1, 2, 3])):
            k = rnd.choice(SER_KEYS)
            d[k] = rnd.choice(SER_VALS) if "cidr" not in k else rnd.choice(["10.0.0.0/8", ["10.0.0.0/8", "192.168.0.0/16"], 5])
        return d
    if r < 0.45:
        return {"": rnd.choice(["kw", ["k1", "k2"], ["k1"], 7, []])}
    if r < 0.60:
        return rnd.choice(["kw", ["k1", "k*2"], ["k1"], [], [1, "x", None], 5, True, [None, "a"]])
    if r < 0.85 and depth < 2:
        return [gen_ser_det(rnd, depth + 1) for _ in range(rnd.choice([1, 2, 2, 3]))]
    return [{rnd.choice([k for k in SER_KEYS if "cidr" not in k]): rnd.choice(SER_VALS)}, rnd.choice(["kw", {"g": "x"}, ["a", "b"]])]


# probes of the recorded finding classes (each is recognised by a predicate on the input, see `classify`)
PROBES = [
    {"sel": {"": "x", "f": "y"}},                                   # D62 empty key next to other keys
    {"sel": {"": ["x", "z"], "g|contains": "y"}},                   # D62
    {"sel": None}, {"sel": [None]}, {"sel": {"": None}}, {"sel": [{"f": "x"}, None]},   # D63 null keyword detection
    {"sel": {"f|re|i": ["a", "c"], "f|re|ignorecase": "b"}},        # D64 alias keys collide, value list
    {"sel": {"f|re|m": "a", "f|re|multiline": ["b", "c"]}},         # D64
    {"sel": [["a"]]}, {"sel": [{"": "a"}]}, {"sel": [[["a"], ["b"]]]} , {"sel": [["a"], ["b"]]},  # D65 / object differs only
    {"sel": {"f|re|i": "a", "f|re|ignorecase": "b"}},               # alias keys collide, scalars: merged under |all (same meaning)
]

EXTRACT = {"type": "extract_fields", "regex": "(?P<t>[A-Z][a-z]+):(?P<v>[0-9]+)", "field_prefix": "reg", "preserve_unmatched": True}
T2 = [
    # transformations outside the C12 list that build new items from old ones (values kept, split, re-typed)
    ({"sel": {"reg|base64": ["foo", "bar"]}}, EXTRACT),
    ({"sel": {"reg|wide": ["ab", "cd"], "g": 1}}, EXTRACT),
    ({"sel": {"reg": ["Dword:1", "nomatch", "Qword:02"]}}, EXTRACT),
    ({"sel": {"reg|contains": ["Dword:1", "x"]}}, dict(EXTRACT, preserve_unmatched=False)),
    ({"sel": {"reg|base64": "foo"}}, EXTRACT),
    ({"sel": {"Hashes": ["MD5=0123456789abcdef0123456789abcdef", "SHA1=0123456789abcdef0123456789abcdef01234567"]}},
     {"type": "hashes_fields", "valid_hash_algos": ["MD5", "SHA1"], "field_prefix": "File"}),
    ({"sel": {"Hashes|contains": "MD5=0123456789abcdef0123456789abcdef"}}, {"type": "hashes_fields", "valid_hash_algos": ["MD5", "SHA1"], "field_prefix": "File", "drop_algo_prefix": True}),
    ({"sel": {"f": "abc"}}, {"type": "regex"}),
    ({"sel": {"f": ["abc", "x*"]}}, {"type": "regex", "method": "ignore_case_flag"}),
    ({"sel": {"f": "a*c", "g|contains": "k"}}, {"type": "regex", "method": "plain"}),
    ({"sel": {"f|contains": "abc"}}, {"type": "regex"}),
    ({"sel": {"f|base64": "a"}}, {"type": "field_name_mapping", "mapping": {"f": ["g", "h"]}}),
    ({"sel": {"f|wide": "ab"}}, {"type": "field_name_mapping", "mapping": {"f": ["g", "h"]}}),
    ({"sel": {"f|utf16be": "ab"}}, {"type": "field_name_mapping", "mapping": {"f": ["g", "h"]}}),
    ({"sel": {"f|minute": 5}}, {"type": "field_name_mapping", "mapping": {"f": ["g", "h"]}}),
    ({"sel": {"f|contains|all": ["a", "b"]}}, {"type": "field_name_mapping", "mapping": {"f": ["g", "h"]}}),
    ({"sel": {"f|re|i": "a.*"}}, {"type": "field_name_mapping", "mapping": {"f": ["g", "h"]}}),
    ({"sel": {"f|windash": "-a"}}, {"type": "field_name_mapping", "mapping": {"f": ["g", "h"]}}),
    ({"sel": {"f|cidr": "10.0.0.0/8"}}, {"type": "field_name_mapping", "mapping": {"f": ["g", "h"]}}),
    ({"sel": {"f|exists": True}}, {"type": "field_name_mapping", "mapping": {"f": ["g", "h"]}}),
    ({"sel": {"f": "x", "g": "y"}}, {"type": "field_name_mapping", "mapping": {"f": ["g", "h"]}}),
    ({"sel": {"f": "x", "g": "y"}}, {"type": "field_name_mapping", "mapping": {"f": "a|contains"}}),
    ({"sel": {"f": "x", "g": "y"}}, {"type": "field_name_mapping", "mapping": {"f": ""}}),
    ({"sel": {"f|base64": "x", "g|contains": "y"}}, {"type": "field_name_suffix", "suffix": ".s"}),
    ({"sel": {"f": "5"}}, {"type": "convert_type", "target_type": "num"}),
    ({"sel": {"f": "x"}}, {"type": "set_value", "value": None}),
    ({"sel": {"f": "x"}}, {"type": "set_value", "value": "a*b"}),
    ({"sel": {"f|all": ["abc", "w"]}}, {"type": "map_string", "mapping": {"abc": ["y", "z"]}}),
    ({"sel": {"Hashes": "MD5=987B65CD9B9F4E9A1AFD8F8B48CF64A7"}}, {"type": "hashes_fields", "valid_hash_algos": ["MD5"], "field_prefix": "File"}),
    ({"sel": {"f|expand": "%x%"}}, {"type": "wildcard_placeholders"}),
    ({"sel": {"f|fieldref": "f"}}, {"type": "field_name_mapping", "mapping": {"f": "g"}}),
    ({"sel": ["kw1", "kw2"]}, {"kind": "kw2field", "scope": None}),
    ({"sel": {"fieldA|contains": "Abc*", "fieldA": 1}}, {"type": "field_name_mapping", "mapping": {"fieldA": ["m1", "m2"]}}),
    ({"sel": {"f|base64": "a", "f|contains": "b"}}, {"type": "field_name_mapping", "mapping": {"f": ["g", "h"]}}),
    ({"sel": [{"f|wide": "a"}, {"f": "b"}]}, {"type": "field_name_mapping", "mapping": {"f": ["g", "h"]}}),
    ({"sel": {"f|fieldref": "f"}}, {"type": "field_name_mapping", "mapping": {"f": ["g", "h"]}}),
    ({"sel": ["kw1", "kw2"]}, {"type": "field_name_mapping", "mapping": {"nothing": "x"}}),
    # colliding keys after a many-to-one mapping (former findings: neq collision, D73 neq + all)
    ({"sel": {"a|neq": "x", "b|neq": "y"}}, {"type": "field_name_mapping", "mapping": {"a": "c", "b": "c"}}),
    ({"sel": {"a|neq|all": "s", "b|neq|all": ["u"]}}, {"type": "field_name_mapping", "mapping": {"a": "c", "b": "c"}}),
    ({"sel": {"a|all|neq": ["p", "q"], "b|all|neq": "s", "c|all|neq": ["v", "w"]}}, {"type": "field_name_mapping", "mapping": {"a": "c", "b": "c"}}),
    ({"sel": {"a|contains|neq": "x", "b|contains|neq": ["y", "z"]}}, {"type": "field_name_mapping", "mapping": {"a": "c", "b": "c"}}),
    ({"sel": {"a": "x", "b": "y", "d": "z"}}, {"type": "field_name_mapping", "mapping": {"a": "c", "b": "c", "d": "c"}}),
    ({"sel": {"a|contains|all": ["p", "q"], "b|contains|all": "s"}}, {"type": "field_name_mapping", "mapping": {"a": "c", "b": "c"}}),
]


# many-to-one field mappings: several items of one map end up under the same key, to_plain's merging loop decides
M1_MODS = ["", "contains", "neq", "contains|neq", "all", "re", "cased", "exists", "gt", "cidr", "fieldref", "contains|all", "all|neq",
           "neq|all", "base64", "windash", "startswith|cased", "re|i", "endswith", "lt|neq", "cased|neq", "re|neq"]


def m1_value(rnd, mods):
    ms = mods.split("|")
    if "exists" in ms: return rnd.choice([True, False])
    if "gt" in ms or "lt" in ms: return rnd.choice([1, 5, [2, 7]])
    if "cidr" in ms: return rnd.choice(["10.0.0.0/8", "192.168.0.0/16", ["10.1.0.0/16", "172.16.0.0/12"]])
    if "fieldref" in ms: return rnd.choice(["other", "x1", ["o1", "o2"]])
    if "re" in ms: return rnd.choice(["a.*b", "^x", ["p+", "q"]])
    if "windash" in ms: return rnd.choice(["-a", "x -y"])
    if "base64" in ms: return rnd.choice(["ab", "x"])
    if "all" in ms: return rnd.choice([["p", "q"], "s", ["u"], ["v", "w", "x"]])
    if mods == "": return rnd.choice(["x", "y*", 1, None, ["l1", "l2"], ["one"], []])
    return rnd.choice(["x", "y*", "zz", ["l1", "l2"], ["one"]])


def gen_many_to_one(rnd):
    """-> (detection map, transformation): two or three fields of one map are sent to the same target"""
    srcs = rnd.sample(["a", "b", "d"], rnd.choice([2, 2, 3]))
    m = rnd.choice(M1_MODS)
    det = {}
    for f in srcs:
        mm = m if rnd.random() < 0.8 else rnd.choice(M1_MODS)
        det[f + ("|" + mm if mm else "")] = m1_value(rnd, mm)
    if rnd.random() < 0.3:       # the target itself, plain or already with all
        mm = rnd.choice([m, (m + "|all").lstrip("|") if "all" not in m.split("|") else m])
        det["c" + ("|" + mm if mm else "")] = m1_value(rnd, mm)
    if rnd.random() < 0.3:
        det["other"] = "o"
    return det, {"type": "field_name_mapping", "mapping": {f: "c" for f in srcs}}


# ------------------------------------------------------------------ round-5 streams
# boundary values of the metadata strings: what a YAML block scalar ('|', '>') yields (final line break, inner line breaks),
# quoted strings with blanks / tabs at either end, the empty string, texts that read as other YAML types
EDGE_TEXT = ["First line.\nSecond line.\n", "folded text ends with a line break\n", " leading blank", "trailing blank ", "\tTab first", "two\n\nparagraphs\n\n",
             "", "  ", "yes", "123", "null", "2024-01-31", "ends with colon:", "- dash first", "# hash first", "Grüße ", "'quoted'", "\n"]
EDGE_NAMES = ["plain_name", " lead_name", "trail_name ", "two words", "name\n"]


def meta_edge(rnd, doc, kind):
    """metadata of a document with boundary values: strings of EDGE_TEXT, explicitly empty collections, non-default taxonomy"""
    for k in ("description", "author"):
        if rnd.random() < 0.6:
            doc[k] = rnd.choice(EDGE_TEXT)
    if rnd.random() < 0.3:
        doc["title"] = rnd.choice(["Title ", " Title", "Title\n", "A title: with colon", "T"])
    if rnd.random() < 0.3 and kind != "corr":
        doc["name"] = rnd.choice(EDGE_NAMES)
    for k in ("references", "falsepositives", "fields", "scope", "tags", "related"):
        if rnd.random() < 0.12:
            doc[k] = []
    for k in ("references", "falsepositives", "fields", "scope"):
        if rnd.random() < 0.15:
            doc[k] = [rnd.choice(EDGE_TEXT) for _ in range(rnd.choice([1, 2]))]
    if rnd.random() < 0.1:
        doc["taxonomy"] = rnd.choice(["sigma", "custom"])
    if rnd.random() < 0.1:
        doc["license"] = rnd.choice(["MIT", "DRL-1.1 "])
    if rnd.random() < 0.15:
        doc["custom_attr"] = rnd.choice([{}, [], "", " text ", {"k": ""}, None, "block\n"])
    return doc


def gen_corr_edge(rnd, i):
    """correlation rules over the boundary values of the optional parts: group-by absent / empty list / one string / lists,
    aliases absent / empty / several, generate absent / false / true, rules as one string or a list"""
    d = gen_corr(rnd, i)
    c = d["correlation"]
    c.pop("group-by", None)
    gb = rnd.choice([None, [], [], ["user"], "user", ["user", "host"], ["host", "user"], [""]])
    if gb is not None:
        c["group-by"] = gb
    c.pop("aliases", None)
    al = rnd.choice([None, None, {}, {"user": {"rule_a": "u1", "rule_b": "u2"}}, {"user": {"rule_a": "u1"}, "host": {"rule_b": "h2", "rule_a": "h1"}}, {"user": {}}])
    if al is not None:
        c["aliases"] = al
    c.pop("generate", None)
    g = rnd.choice([None, False, True])
    if g is not None:
        c["generate"] = g
    if "rules" in c and rnd.random() < 0.3:
        c["rules"] = rnd.choice(["rule_a", "rule_b", []])
    return d


# many-to-one mappings, every order: the shared key K and its 'all' spelling K|all on the target and / or on sources, each with
# one value or a value list, at any position of the map (to_plain's merging loop meets K, K|all in every order)
M1O_MODS = ["", "contains", "startswith", "endswith", "cased", "contains|cased", "re", "re|i", "gt", "cidr", "fieldref", "windash", "base64", "exists", "neq", "contains|neq"]


def m1o_scalar(rnd, mods, k):
    """the k-th value: distinct per item, more than one character long"""
    ms = mods.split("|")
    if "exists" in ms: return k % 2 == 0
    if "gt" in ms: return k + 11
    if "cidr" in ms: return f"10.{k}.0.0/16"
    if "fieldref" in ms: return f"other{k}"
    if "re" in ms: return f"rx{k}.*"
    if "windash" in ms: return f"-opt{k}"
    if "base64" in ms: return f"b64v{k}"
    if mods == "": return rnd.choice([f"word{k}", f"wild{k}*", k + 20, f"{k}{k}", None])
    return rnd.choice([f"word{k}", f"wild{k}*x", f"{k}{k}"])


def gen_many_to_one_ordered(rnd):
    m = rnd.choice(M1O_MODS)
    fields = ["a", "b", "d", "e", "c"]
    rnd.shuffle(fields)
    items, k = [], 0
    for _ in range(rnd.choice([1, 2, 2, 3])):                     # items under K
        k += 1
        v = m1o_scalar(rnd, m, k)
        r = rnd.random()
        if r < 0.2: v = [v]
        elif r < 0.27:
            k += 1
            v = [v, m1o_scalar(rnd, m, k)]
        items.append((fields.pop(), m, v))
    for _ in range(rnd.choice([0, 1, 1, 1, 2])):                  # items under K|all
        k += 1
        v = m1o_scalar(rnd, m, k)
        r = rnd.random()
        if r < 0.25: v = [v]
        elif r < 0.55:
            k += 2
            v = [v, m1o_scalar(rnd, m, k - 1), m1o_scalar(rnd, m, k)][:rnd.choice([2, 3])]
        items.append((fields.pop(), (m + "|all").lstrip("|"), v))
    rnd.shuffle(items)
    det = {f + ("|" + mm if mm else ""): v for f, mm, v in items}
    if rnd.random() < 0.25:
        pos = rnd.randrange(len(det) + 1)
        kv = list(det.items())
        kv.insert(pos, ("other", "o"))
        det = dict(kv)
    return det, {"type": "field_name_mapping", "mapping": {f: "c" for f, _, _ in items if f != "c"} or {"zz": "c"}}


def t_yaml(t):
    return t["yaml"] if "yaml" in t else c12.t_yaml(t)


def gen_cases(tier, seed, gen, effort):
    rnd = random.Random(seed * 9431 + 6)
    rr = random.Random(seed * 9431 + 7)
    thorough = tier == "thorough"
    cases = []
    for i in range((1500 if not thorough else 25000) * effort):
        r = rnd.random()
        if r < 0.6:
            k = rnd.choice([1, 2, 3])
            names = ["sel", "flt", "sel2"][:k]
            doc = meta(rnd, i)
            doc["detection"] = {nm: c01.gen_det(rnd) for nm in names}
            if rnd.random() < 0.05:
                doc["detection"][names[0]] = {"bs": rnd.choice(["p\\\\*q", "p\\\\\\\\q", "end\\\\?"])}      # backslash before wildcard / backslash (finding D3)
            cond = rnd.choice({1: c01.CONDS_1, 2: c01.CONDS_2, 3: c01.CONDS_3}[k])
            doc["detection"]["condition"] = cond if rnd.random() < 0.85 else [cond, rnd.choice({1: c01.CONDS_1, 2: c01.CONDS_2, 3: c01.CONDS_3}[k])]
            if rnd.random() < 0.25:       # shapes of the serialisation model
                doc["detection"] = {nm: gen_ser_det(rnd) for nm in names}
                doc["detection"]["condition"] = cond if rnd.random() < 0.7 else [cond]
            if rnd.random() < 0.02:
                doc["detection"] = {**copy.deepcopy(rnd.choice(PROBES)), "condition": rnd.choice(["sel", ["sel"], ["sel", "not sel"]])}
            if rnd.random() < 0.01:
                doc["date"] = rnd.choice([{"__date__": [2024, 1, 31]}, {"__date__": [2024, 1, 31, 10, 0]}])   # YAML date / timestamp objects
            cases.append({"kind": "rule", "doc": doc})
            if rnd.random() < 0.04:
                cases[-1]["source"] = "rules/r.yml"          # loaded the way load_ruleset loads: with a source location (not part of the dict form: /repo 47b2b34)
        elif r < 0.75:
            cases.append({"kind": "corr", "doc": gen_corr(rnd, i)})
        elif r < 0.85:
            cases.append({"kind": "filter", "doc": gen_filter(rnd, i)})
        else:
            rule = c12.gen_rule(rr)
            doc = meta(rnd, i)
            doc["logsource"] = rule["logsource"]
            doc["detection"] = {**rule["dets"], "condition": rule["cond"]}
            cases.append({"kind": "transformed", "doc": doc, "t": c12.gen_transformation(rr)})
            if rr.random() < 0.5:
                det, ty = gen_many_to_one(rr)
                doc = meta(rnd, i)
                shape = rr.random()
                doc["detection"] = {"sel": det if shape < 0.8 else [det, {"z": "k"}], "condition": rr.choice(["sel", "not sel"])}
                cases.append({"kind": "transformed", "doc": doc, "t": {"yaml": ty}})
    # round-5 streams (own generators: the streams above are unchanged)
    r5 = random.Random(seed * 9431 + 8)
    for i in range((240 if not thorough else 4000) * effort):
        r = r5.random()
        j = 500000 + i
        if r < 0.35:        # boundary values of the metadata, all three kinds of documents
            doc = meta_edge(r5, meta(r5, j), "rule")
            doc["detection"] = {"sel": {"f": r5.choice(["x", ["x", "y*"], 1])}, "condition": "sel"}
            cases.append({"kind": "rule", "doc": doc})
        elif r < 0.45:
            cases.append({"kind": "filter", "doc": meta_edge(r5, gen_filter(r5, j), "filter")})
        elif r < 0.55:
            cases.append({"kind": "corr", "doc": meta_edge(r5, gen_corr(r5, j), "corr")})
        elif r < 0.70:      # boundary values of the optional parts of a correlation
            cases.append({"kind": "corr", "doc": gen_corr_edge(r5, j)})
        else:               # many-to-one mappings, every order of K and K|all items
            det, ty = gen_many_to_one_ordered(r5)
            doc = meta(r5, j)
            doc["detection"] = {"sel": det if r5.random() < 0.85 else [det, {"z": "k"}], "condition": r5.choice(["sel", "not sel"])}
            cases.append({"kind": "transformed", "doc": doc, "t": {"yaml": ty}})
    # fixed regression sub-stream: every (rule, transformation) pair of T2 (the inputs of the former findings
    # D60, D61, D68 among them) in every run
    for n, (dets, ty) in enumerate(T2):
        doc = meta(random.Random(n), 900000 + n)
        doc["detection"] = {**copy.deepcopy(dets), "condition": "sel"}
        cases.append({"kind": "transformed", "doc": doc, "t": ty if "kind" in ty else {"yaml": ty}})
    return cases, False


def convert(rule_obj):
    from sigma.collection import SigmaCollection
    from sigma.backends.test import TextQueryTestBackend
    try:
        return TextQueryTestBackend().convert(SigmaCollection([rule_obj], resolve_references=False))
    except Exception as e:
        return "ERR:" + outcome_of_exception(e)


def thaw(x):
    """documents travel as JSON: YAML date / timestamp objects are written as {"__date__": [...]}"""
    if isinstance(x, dict):
        if set(x) == {"__date__"}:
            a = x["__date__"]
            return datetime.date(*a) if len(a) == 3 else datetime.datetime(*a)
        return {k: thaw(v) for k, v in x.items()}
    if isinstance(x, list):
        return [thaw(v) for v in x]
    return x


class OutOfDomain(Exception):
    pass


def pv(v):
    if isinstance(v, float) and not math.isfinite(v):
        raise OutOfDomain("non-finite float")
    if v is None or isinstance(v, (bool, int, float, str)):
        return plain(v)
    raise OutOfDomain(f"value of type {type(v).__name__}")


def pvals(v):
    return {"many": [pv(x) for x in v]} if isinstance(v, list) else {"one": pv(v)}


def pdef(d):
    """a detection definition (plain Python) in the canonical JSON of the driver"""
    if isinstance(d, dict):
        for k in d:
            if not isinstance(k, str):
                raise OutOfDomain("key that is no string")
        return {"map": [[cps(k), pvals(v)] for k, v in d.items()]}
    if isinstance(d, list):
        return {"list": [pdef(e) for e in d]}
    return {"val": pv(d)}


def pcond(c):
    if isinstance(c, list):
        if not all(isinstance(x, str) for x in c): raise OutOfDomain("condition that is no string")
        return {"many": [cps(x) for x in c]}
    if not isinstance(c, str): raise OutOfDomain("condition that is no string")
    return {"one": cps(c)}


def psection(sec, skip=("condition",)):
    """detection section -> (dets, cond) in driver JSON"""
    return [[cps(k), pdef(v)] for k, v in sec.items() if k not in skip], (pcond(sec["condition"]) if "condition" in sec else None)


def sstr_parts(s):
    from sigma.types import SpecialChars, Placeholder
    out = []
    for part in s.s:
        if isinstance(part, str): out.extend(cps(part))
        elif part == SpecialChars.WILDCARD_MULTI: out.append("*")
        elif part == SpecialChars.WILDCARD_SINGLE: out.append("?")
        elif isinstance(part, Placeholder): out.append({"ph": cps(part.name)})
        else: raise OutOfDomain("string part")
    return out


def val_json(v):
    import sigma.types as T
    if isinstance(v, T.SigmaString):
        return {"t": "str", "cased": isinstance(v, T.SigmaCasedString), "s": sstr_parts(v)}
    if isinstance(v, T.SigmaTimestampPart):
        return {"t": "ts", "unit": cps(v.timestamp_part.name.lower()), "n": plain(v.number)["num"]}
    if isinstance(v, T.SigmaNumber): return {"t": "num", "n": plain(v.number)["num"]}
    if isinstance(v, T.SigmaBool): return {"t": "bool", "b": v.boolean}
    if isinstance(v, T.SigmaNull): return {"t": "null"}
    if isinstance(v, T.SigmaRegularExpression): return {"t": "re", "src": cps(v.regexp.to_plain())}
    if isinstance(v, T.SigmaCIDRExpression): return {"t": "cidr", "text": cps(v.cidr)}
    if isinstance(v, T.SigmaCompareExpression): return {"t": "cmp", "op": cps(v.op.name.lower()), "n": plain(v.number.number)["num"]}
    if isinstance(v, T.SigmaFieldReference): return {"t": "ref", "f": cps(v.field), "sw": v.starts_with, "ew": v.ends_with}
    if isinstance(v, T.SigmaExists): return {"t": "exists", "b": v.exists}
    if isinstance(v, T.SigmaExpansion): return {"t": "exp", "vs": [val_json(x) for x in v.values]}
    raise OutOfDomain(f"value type {type(v).__name__}")


def obj_tree(det):
    """the detection object tree as the pipeline left it: what SigmaDetection.to_plain looks at"""
    from sigma.rule import SigmaDetection
    from sigma.conditions import ConditionOR
    from sigma.modifiers import reverse_modifier_mapping
    if isinstance(det, SigmaDetection):
        return {"node": [obj_tree(c) for c in det.detection_items], "or": det.item_linking is ConditionOR}
    return {"item": {"field": None if det.field is None else cps(det.field),
                     "mods": [cps(reverse_modifier_mapping[m.__name__]) for m in det.modifiers],
                     "orig": None if det.original_value is None else [val_json(v) for v in det.original_value]}}


def plain_section(sec, skip=("condition",)):
    """to_dict() output of a detection section in driver JSON (None when it holds non-plain objects)"""
    try:
        dets, cond = psection(sec, skip)
        return {"dets": dets, "cond": cond}
    except OutOfDomain as e:
        return {"junk": str(e)}


def convert_corr(doc):
    """the correlation rule document converted together with the rules it refers to (correlation queries show the reference order)"""
    from sigma.collection import SigmaCollection
    from sigma.backends.test import TextQueryTestBackend
    refd = [{"title": n, "name": n, "logsource": {"category": "c"}, "detection": {"sel": {"f": n}, "condition": "sel"}} for n in ("rule_a", "rule_b", "rule_c")]
    try:
        return TextQueryTestBackend().convert(SigmaCollection.from_dicts(refd + [copy.deepcopy(doc)]))
    except Exception as e:
        return "ERR:" + outcome_of_exception(e)


def convert_with_filters(rule_obj):
    """the rule converted together with the reference filters: which of them meet the rule is decided by the log source"""
    from sigma.collection import SigmaCollection
    from sigma.filters import SigmaFilter
    from sigma.backends.test import TextQueryTestBackend
    try:
        coll = SigmaCollection([copy.deepcopy(rule_obj)] + [SigmaFilter.from_dict(f) for f in ref_filters()], resolve_references=False)
        return TextQueryTestBackend().convert(coll)
    except Exception as e:
        return "ERR:" + outcome_of_exception(e)


def convert_filter(doc):
    """the filter document applied to the reference rules (one per log source shape), all converted"""
    from sigma.collection import SigmaCollection
    from sigma.backends.test import TextQueryTestBackend
    try:
        return TextQueryTestBackend().convert(SigmaCollection.from_dicts(ref_rules() + [copy.deepcopy(doc)]))
    except Exception as e:
        return "ERR:" + outcome_of_exception(e)


def canon_condition(rule_obj):
    """the rule's post-processed condition trees in a normal form modulo associativity, commutativity and idempotence
    of AND / OR (operands flattened, sorted, duplicates dropped): equal normal forms are logically equivalent"""
    import sigma.conditions as cnd
    from sigma.types import SigmaExpansion

    def leaf(field, v):
        if isinstance(v, SigmaExpansion):
            return nary("or", [leaf(field, x) for x in v.values])
        return ["atom", field, type(v).__name__, repr(v), repr(getattr(v, "flags", None))]

    def nary(op, kids):
        flat = []
        for k in kids:
            flat.extend(k[1] if k[0] == op else [k])
        uniq = sorted({json.dumps(k, sort_keys=True): k for k in flat}.items())
        uniq = [k for _, k in uniq]
        return uniq[0] if len(uniq) == 1 else [op, uniq]

    def go(n):
        if isinstance(n, cnd.ConditionAND): return nary("and", [go(a) for a in n.args])
        if isinstance(n, cnd.ConditionOR): return nary("or", [go(a) for a in n.args])
        if isinstance(n, cnd.ConditionNOT): return ["not", go(n.args[0])]
        if isinstance(n, cnd.ConditionFieldEqualsValueExpression): return leaf(n.field, n.value)
        if isinstance(n, cnd.ConditionValueExpression): return leaf(None, n.value)
        raise OutOfDomain(f"condition node {type(n).__name__}")
    try:
        return json.dumps([go(c.parsed) for c in copy.deepcopy(rule_obj).detection.parsed_condition], sort_keys=True)
    except Exception:
        return None


# the part of an object that is judged through the queries it converts to (the same value has several spellings there)
SEMANTIC_FIELDS = {"rule": ("detection",), "filter": (), "corr": ()}
# list-valued metadata: an empty list is not written, so "no entry" and "empty list" are one dict form
META_LISTS = ("references", "tags", "fields", "falsepositives", "scope", "related")


def object_diff(kind, a, b):
    """the attributes in which two loaded objects differ: all dataclass fields that take part in ==, and the custom
    attributes (without the copy of the document's 'correlation' section kept there: its content is compared attribute
    by attribute); the detections of a rule are compared through the queries instead -> [[name, repr a, repr b], ...]"""
    import dataclasses

    def norm(n, v):
        if n in META_LISTS and (v is None or v == [] or getattr(v, "related", None) == []):
            return None
        if n == "custom_attributes" and isinstance(v, dict):
            return {k: x for k, x in v.items() if k != "correlation"}
        return v
    out = []
    names = [f.name for f in dataclasses.fields(a) if f.compare and f.name not in SEMANTIC_FIELDS[kind] and not f.name.startswith("_")] + ["custom_attributes"]
    for n in names:
        try:
            va, vb = norm(n, getattr(a, n)), norm(n, getattr(b, n))
            same = va == vb and type(va) is type(vb)
        except Exception as e:
            va, vb, same = "?", outcome_of_exception(e), False
        if not same:
            out.append([n, repr(va)[:120], repr(vb)[:120]])
    return out


def run_impl(case):
    import yaml
    from sigma.rule import SigmaRule
    from sigma.correlations import SigmaCorrelationRule
    from sigma.filters import SigmaFilter
    from sigma.processing.pipeline import ProcessingPipeline
    cls = {"rule": SigmaRule, "corr": SigmaCorrelationRule, "filter": SigmaFilter, "transformed": SigmaRule}[case["kind"]]
    srcdoc = thaw(case["doc"])
    try:
        if case.get("source"):
            from sigma.exceptions import SigmaRuleLocation
            obj = cls.from_dict(copy.deepcopy(srcdoc), source=SigmaRuleLocation(case["source"]))
        else:
            obj = cls.from_dict(copy.deepcopy(srcdoc))
    except Exception as e:
        return {"outcome": "load:" + outcome_of_exception(e), "msg": str(e)[:120]}
    out = {"outcome": "ok"}
    try:
        if case["kind"] == "transformed":
            pl = ProcessingPipeline.from_dict({"name": "p", "priority": 1, "transformations": [t_yaml(case["t"])]})
            pl.apply(obj)
            from sigma.backends.test import TextQueryTestBackend
            from sigma.processing.pipeline import ProcessingPipeline as PP
            from sigma.collection import SigmaCollection
            class B0(TextQueryTestBackend):
                backend_processing_pipeline = PP()
                convert_and_as_in = False      # AND-linked values as 'f=a and f=b': merged 'all' items then read like the items they replace
            try:
                out["q_obj"] = B0().convert(SigmaCollection([copy.deepcopy(obj)], resolve_references=False))
            except Exception as e:
                out["q_obj"] = "ERR:" + outcome_of_exception(e)
            out["c_obj"] = canon_condition(obj)
            try:
                out["tree"] = [[cps(n), obj_tree(d)] for n, d in obj.detection.detections.items()]
            except OutOfDomain as e:
                out["tree_ood"] = str(e)
        d1 = obj.to_dict()
    except Exception as e:
        out["todict"] = outcome_of_exception(e)
        out["msg"] = str(e)[:120]
        return out
    try:
        d1b = obj.to_dict()
        out["rewrite_same"] = d1 == d1b
        if d1 != d1b:
            out["rewrite_diff"] = {k: (d1.get(k), d1b.get(k)) for k in set(d1) | set(d1b) if d1.get(k) != d1b.get(k)}
    except Exception as e:
        out["rewrite_same"] = False
        out["rewrite_diff"] = outcome_of_exception(e)
    if case["kind"] in ("rule", "transformed"):
        out["plain"] = plain_section(d1["detection"])
        out["dates"] = [d1.get("date"), d1.get("modified")]
    elif case["kind"] == "filter":
        out["plain"] = plain_section(d1["filter"], skip=("condition", "rules"))
    try:
        obj2 = cls.from_dict(copy.deepcopy(d1))
        d2 = obj2.to_dict()
        out["fixed_point"] = d1 == d2
        out["ls1"] = d1.get("logsource")
        if d1 != d2:
            out["diff"] = [k for k in set(d1) | set(d2) if d1.get(k) != d2.get(k)]
            out["ls2"] = d2.get("logsource")
        y = yaml.safe_dump(d1, sort_keys=False)
        obj3 = cls.from_dict(yaml.safe_load(y))
        out["yaml_fixed_point"] = obj3.to_dict() == d1
        if case["kind"] != "transformed":
            out["obj_diff"], out["obj_diff_yaml"] = object_diff(case["kind"], obj, obj2), object_diff(case["kind"], obj, obj3)
        if case["kind"] == "rule":
            out["q1"], out["q2"], out["q3"] = convert(cls.from_dict(copy.deepcopy(srcdoc))), convert(obj2), convert(obj3)
            out["qf1"], out["qf2"], out["qf3"] = convert_with_filters(cls.from_dict(copy.deepcopy(srcdoc))), convert_with_filters(obj2), convert_with_filters(obj3)
        if case["kind"] == "filter":
            out["q1"], out["q2"], out["q3"] = convert_filter(srcdoc), convert_filter(d1), convert_filter(yaml.safe_load(y))
        if case["kind"] == "corr":
            out["q1"], out["q2"], out["q3"] = convert_corr(srcdoc), convert_corr(d1), convert_corr(yaml.safe_load(y))
        if case["kind"] == "transformed":
            from sigma.backends.test import TextQueryTestBackend
            from sigma.processing.pipeline import ProcessingPipeline as PP
            from sigma.collection import SigmaCollection
            class B(TextQueryTestBackend):
                backend_processing_pipeline = PP()
                convert_and_as_in = False
            out["c_reload"] = canon_condition(obj2)
            try:
                out["q_reload"] = B().convert(SigmaCollection([obj2], resolve_references=False))
            except Exception as e:
                out["q_reload"] = "ERR:" + outcome_of_exception(e)
    except Exception as e:
        out["reload"] = outcome_of_exception(e)
        out["msg"] = str(e)[:160]
    return out


def word_chars(x):
    text = repr(x)
    return cps("".join(sorted({c for c in text if ord(c) > 127 and re.match(r"\w", c)})))


def make_request(case, impl, gen):
    doc = case["doc"]
    try:
        if case["kind"] == "transformed":
            if "tree" not in impl:
                return None
            return {"op": "ser.obj", "dets": impl["tree"]}
        if case["kind"] in ("rule", "filter"):
            sec = doc.get("detection") if case["kind"] == "rule" else doc.get("filter")
            if not isinstance(sec, dict):
                return None
            dets, cond = psection(sec, ("condition",) if case["kind"] == "rule" else ("condition", "rules"))
            r = {"op": "ser.case", "dets": dets, "wordChars": word_chars(sec),
                 "dates": [cps(doc[k]) if isinstance(doc.get(k), str) else [] for k in ("date", "modified")]}
            if cond is not None:
                r["cond"] = cond
            ls = doc.get("logsource")
            if isinstance(ls, dict) and not case.get("source") and all(k in LS_NAMED and isinstance(v, str) for k, v in ls.items()):
                r["logsource"] = [[k, cps(v)] for k, v in ls.items()]
            g = gen.get("B64") if gen else None
            if g:
                r["tables"] = {"starts": g["starts"], "cuts": g["cuts"]}
            return r
    except OutOfDomain:
        return None
    return None


def _d3(doc):
    import re
    return re.search(r"\\\\\\\\[*?\\\\]|\\\\\\\\'|\\\\\\\\\"", repr(doc.get("detection", doc.get("filter")))) is not None


# ------------------------------------------------------------------ classes of the recorded findings (predicates on the input)
ALIASES = {"i": "ignorecase", "m": "multiline", "dotall": "s"}


def canon_key(k):
    f, *ms = k.split("|")
    return "|".join([f] + [ALIASES.get(m, m) for m in ms])


def walk_defs(d):
    """the definition and, for a list of definitions (not a list of plain values), its elements"""
    yield d
    if isinstance(d, list) and any(isinstance(e, (dict, list)) for e in d):
        for e in d:
            yield from walk_defs(e)


def writes_scalar(d):
    """definitions whose detection to_plain writes as one bare scalar"""
    if isinstance(d, dict):
        return list(d) == [""] and (not isinstance(d[""], list) or len(d[""]) == 1)
    if isinstance(d, list):
        return len(d) == 1 and not isinstance(d[0], (dict, list))
    return True


def classify(case):
    """the finding class (id in known_findings.json) the input belongs to, if any"""
    doc = case["doc"]
    if _d3(doc):
        return "D3"
    if case["kind"] == "transformed":
        ty = t_yaml(case["t"])
        if ty.get("type") == "field_name_mapping":
            targets = [t for v in ty["mapping"].values() for t in (v if isinstance(v, list) else [v])]
            if any(t == "" or "|" in t for t in targets):
                return "D67"   # target field name that cannot be written as a key
        return None
    if case["kind"] != "rule":
        return None
    if isinstance(doc.get("date"), dict) and len(doc["date"].get("__date__", [])) > 3:
        return "D66"           # YAML timestamp as rule date
    for d in doc["detection"].values():
        for x in walk_defs(d):
            if x is None or x == [None] or x == {"": None} or x == {"": [None]}:
                return "D63"   # keyword detection that is a single null
            if isinstance(x, dict):
                if "" in x and len(x) > 1:
                    return "D62"   # empty key next to other keys
                ck = [canon_key(k) for k in x]
                dup = {k for k in ck if ck.count(k) > 1}
                if dup and any(isinstance(v, list) and len(v) > 1 for k, v in x.items() if canon_key(k) in dup):
                    return "D64"   # alias spellings of one key, value list
            if isinstance(x, list) and len(x) == 1 and isinstance(x[0], (dict, list)) and writes_scalar(x[0]):
                return "D65"   # list with one element that is written as a bare scalar
    return None


UNWRITTEN = {"taxonomy": lambda v: v not in (None, "sigma")}


def unwritten_class(doc, names):
    """D74: the reloaded object differs from the original only in `taxonomy`, and the document sets one other than 'sigma' (to_dict
    has no line that writes it; pinned by tests/test_rule.py::test_sigmarule_to_dict). `related` and `license` were in this class until
    the repair a86c202 and are judged now."""
    if names and all(n in UNWRITTEN and UNWRITTEN[n](doc.get(n)) for n in names):
        return "D74"
    return None


LS_NAMED = ("category", "product", "service", "definition")


def _qdiff(q1, q2, q3):
    """the first position where the query lists differ, with the log source of the reference rule if there is one per query"""
    if not (isinstance(q1, list) and isinstance(q2, list) and isinstance(q3, list)):
        return f"{q1} / reloaded {q2} / via YAML {q3}"
    for n, (a, b, c) in enumerate(zip(q1, q2, q3)):
        if not (a == b == c):
            ref = f" (reference rule with log source {REF_LS[n]})" if len(q1) == len(REF_LS) else ""
            return f"{a!r}, reloaded {b!r}, via YAML {c!r}{ref}"
    return f"{len(q1)} / {len(q2)} / {len(q3)} queries"


SER_ERR = {"refused": ("sigma:SigmaValueError",), "empty": ("sigma:SigmaDetectionError",), "condition": ("sigma:SigmaConditionError",)}


def correspondence(case, impl, reply):
    """model vs implementation on the observables of the serialisation; -> (None | drift text, tags)"""
    if reply is None:
        return None, ["model:not-sent"]
    kind = case["kind"]
    if kind == "transformed":
        if "serErr" in reply:
            if "todict" in impl:
                ok = impl["todict"] in SER_ERR.get(reply["serErr"], ()) or (reply["serErr"] == "junk")
                return (None if ok else f"model refuses with {reply['serErr']}, implementation raised {impl['todict']}"), ["model:refuses"]
            if reply["serErr"] == "junk" and "junk" in impl.get("plain", {}):
                return None, ["model:junk"]
            return f"model: to_plain fails ({reply['serErr']}), implementation wrote {impl.get('plain')}", ["model:refuses"]
        if "todict" in impl:
            return f"model writes {reply['dets']}, implementation raised {impl['todict']}", ["model:writes"]
        if impl["plain"].get("dets") != reply["dets"]:
            return f"plain form after the transformation: model {reply['dets']} implementation {impl['plain']}", ["model:writes"]
        return None, ["model:writes"]
    # rule / filter documents
    io = impl["outcome"]
    if "loadErr" in reply:
        if io.startswith("load:sigma:"):
            return None, ["model:load-error"]
        return f"model rejects the document ({reply['loadErr']}), implementation: {io}", ["model:load-error"]
    if io.startswith("load:"):
        if io in ("load:sigma:SigmaRegularExpressionError",) or "ondition" in io or "CIDR" in str(impl.get("msg")):
            return None, ["unjudged:outside-model"]       # regular expression / CIDR syntax and the condition grammar are not part of this model
        return f"implementation rejects the document ({io}: {impl.get('msg')}), model loads it", ["model:loads"]
    if "serErr" in reply:
        if "todict" in impl and impl["todict"] in SER_ERR.get(reply["serErr"], ()):
            return None, ["model:write-error"]
        return f"model: to_dict fails ({reply['serErr']}), implementation: {impl.get('todict', 'writes ' + str(impl.get('plain')))}", ["model:write-error"]
    if "todict" in impl:
        return f"model writes {reply['plain']}, implementation raised {impl['todict']}", ["model:writes"]
    if impl["plain"] != reply["plain"]:
        return f"dict form: model {reply['plain']} implementation {impl['plain']}", ["model:writes"]
    if isinstance(reply.get("logsource"), list) and isinstance(impl.get("ls1"), dict):
        mine = [[k, cps(v)] for k, v in impl["ls1"].items() if isinstance(v, str)]
        if mine != reply["logsource"]:
            return f"log source {case['doc'].get('logsource')}: model writes {[(k, ''.join(map(chr, v))) for k, v in reply['logsource']]}, implementation {impl['ls1']}", ["model:writes"]
    if kind == "rule":
        want = [cps(x) if isinstance(x, str) else None for x in impl["dates"]]
        got = [d if d else None for d in reply["dates"]]
        src = [case["doc"].get(k) for k in ("date", "modified")]
        for w, g, s0 in zip(want, got, src):
            if isinstance(s0, str) and w != g:
                return f"date {s0!r}: model writes {g}, implementation {w}", ["model:writes"]
    if "fixed_point" in impl and isinstance(reply.get("fixed"), bool) and reply["fixed"] != impl["fixed_point"] and kind == "rule":
        return f"second write: model fixed point {reply['fixed']}, implementation {impl['fixed_point']} ({impl.get('diff')})", ["model:writes"]
    tags = ["model:writes", "model:good" if reply.get("good") else "model:outside-theorem"]
    if reply.get("good") and classify(case) in ("D62", "D63", "D64", "D65"):
        return f"the input is in finding class {classify(case)} but satisfies the hypotheses of the round-trip theorem", tags
    return None, tags


def judge(case, impl, reply):
    v = decide(case, impl)
    drift, mtags = correspondence(case, impl, reply)
    v.tags = tuple(v.tags) + tuple(mtags)
    if (v.status == "ok" or v.finding == "D74") and drift:     # D74 is about metadata: the detections are still compared with the model
        return Verdict("drift", drift + f" :: {case['doc'].get('detection', case['doc'].get('filter'))} {case.get('t')}", v.nontrivial, v.key, tags=v.tags)
    if v.status == "ok" and reply is not None and case["kind"] == "rule" and impl["outcome"] == "ok" and reply.get("good") is False and not classify(case) \
            and reply.get("fixed") is not True:
        # outside the class of the round-trip theorem, the model itself predicts a failure, yet the code is fine: model drift
        return Verdict("drift", f"model predicts a failing round trip, the implementation is fine :: {case['doc'].get('detection')}", v.nontrivial, v.key, tags=v.tags)
    return v


def decide(case, impl):
    """the deciding judgements: on the real code only"""
    io = impl["outcome"]
    doc = case["doc"]
    key = (case["kind"], doc, case.get("t"), case.get("source"))
    nt = True
    tags = [f"kind:{case['kind']}", f"impl:{io.split(':')[0]}"]
    fid = classify(case)
    if io.startswith("load:"):
        if "other:" in io:
            return Verdict("violation", f"loading {case['kind']} document raised {io}: {impl.get('msg')} :: {doc}", nt, key, tags=tuple(tags))
        return Verdict("ok", "", False, key, tags=tuple(tags + ["unjudged:not-loadable"]))
    if "todict" in impl:
        if impl["todict"].startswith("sigma:") and case["kind"] == "transformed":
            return Verdict("ok", "", nt, key, tags=tuple(tags + ["refused"]))
        return Verdict("violation", f"to_dict of a loaded {case['kind']} raised {impl['todict']}: {impl.get('msg')} :: {doc.get('detection', doc)} {case.get('t')}", nt, key, finding=fid, tags=tuple(tags))
    if impl.get("rewrite_same") is False:
        return Verdict("violation", f"two consecutive to_dict() calls on the same {case['kind']} object give different dicts: {str(impl.get('rewrite_diff'))[:200]} :: {doc.get('detection', doc)} {case.get('t')}", nt, key, tags=tuple(tags))
    if "reload" in impl:
        return Verdict("violation", f"the serialised form of {case['kind']} does not load again: {impl['reload']} {impl.get('msg')} :: {doc.get('detection', doc)} {case.get('t')}", nt, key, finding=fid, tags=tuple(tags))
    if case["kind"] == "transformed":
        if impl["q_obj"] != impl["q_reload"] and impl.get("c_obj") is not None and impl.get("c_obj") == impl.get("c_reload"):
            # the query texts differ only by order, grouping or repetition of AND / OR operands (e.g. colliding keys merged
            # into one 'all' item): the condition trees have the same normal form modulo AC and idempotence
            return Verdict("ok", "", nt, key, tags=tuple(tags + ["serialised", "equal-modulo-AC"]))
        if impl["q_obj"] != impl["q_reload"] and not (isinstance(impl["q_obj"], str) and isinstance(impl["q_reload"], str)):
            return Verdict("violation", (f"after {t_yaml(case['t'])} the rule serialises without error but the reloaded rule converts to {impl['q_reload']} "
                                         f"while the transformed rule converts to {impl['q_obj']} :: {doc['detection']}"), nt, key, finding=fid, tags=tuple(tags))
        return Verdict("ok", "", nt, key, tags=tuple(tags + ["serialised"]))
    if not impl["fixed_point"]:
        if impl.get("diff") == ["logsource"]:
            return Verdict("violation", (f"{case['kind']} with log source {doc.get('logsource')}{' loaded with a source location' if case.get('source') else ''}: the dict form "
                                         f"of the reloaded object differs from the dict form written first (log source written as {impl.get('ls1')}, after reloading as {impl.get('ls2')})"),
                           nt, key, finding=fid, tags=tuple(tags + ["logsource"]))
        return Verdict("violation", f"{case['kind']}: to_dict(from_dict(to_dict(x))) differs from to_dict(x) in {impl.get('diff')} :: {doc.get('detection', doc)}", nt, key, finding=fid, tags=tuple(tags))
    if not impl["yaml_fixed_point"]:
        return Verdict("violation", f"{case['kind']}: YAML dump/load changes the dict form :: {doc.get('detection', doc)}", nt, key, finding=fid, tags=tuple(tags))
    if case["kind"] == "filter" and not (impl["q1"] == impl["q2"] == impl["q3"]):
        return Verdict("violation", (f"filter with log source {doc.get('logsource')}, written with log source {impl.get('ls1')}: applied to reference rules (one per log source shape) "
                                     f"the original and the reloaded filter give different queries: {_qdiff(impl['q1'], impl['q2'], impl['q3'])}"), nt, key, finding=fid, tags=tuple(tags + ["logsource"]))
    if case["kind"] == "rule" and impl["q1"] == impl["q2"] == impl["q3"] and not (impl["qf1"] == impl["qf2"] == impl["qf3"]):
        return Verdict("violation", (f"rule with log source {doc.get('logsource')}, written with log source {impl.get('ls1')}: converted together with reference filters (one per log "
                                     f"source shape, each adding 'not x<n>=y') the original and the reloaded rule give different queries: {_qdiff(impl['qf1'], impl['qf2'], impl['qf3'])}"),
                       nt, key, finding=fid, tags=tuple(tags + ["logsource"]))
    if case["kind"] == "corr" and not (impl["q1"] == impl["q2"] == impl["q3"]):
        return Verdict("violation", f"correlation rule converts to {impl['q1']} but its serialised form to {impl['q2']} / via YAML {impl['q3']} :: {doc['correlation']}", nt, key, finding=fid, tags=tuple(tags))
    if case["kind"] == "rule" and not (impl["q1"] == impl["q2"] == impl["q3"]):
        return Verdict("violation", f"rule converts to {impl['q1']} but its serialised form to {impl['q2']} / via YAML {impl['q3']} :: {doc['detection']}", nt, key, finding=fid, tags=tuple(tags))
    od = impl.get("obj_diff") or impl.get("obj_diff_yaml")
    if od:
        names = sorted({n for n, _, _ in od})
        leg = "from_dict(to_dict(x))" if impl.get("obj_diff") else "the YAML dump of to_dict(x), loaded again,"
        return Verdict("violation", (f"{case['kind']}: {leg} is not the object that was written: it differs from x in {names} "
                                     f"({'; '.join(f'{n}: {a} became {b}' for n, a, b in od[:3])}) :: { {k: doc.get(k) for k in doc if k not in ('detection', 'filter')} }"),
                       nt, key, finding=unwritten_class(doc, names), tags=tuple(tags + ["object"]))
    return Verdict("ok", "", nt, key, tags=tuple(tags))
